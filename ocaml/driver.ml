(* Driver for the extracted Coq models: one s-expression request per line on stdin,
   one s-expression result per line on stdout.  Numbers are decimal; conversion between
   decimal text and the extracted inductive N / Z / positive goes through zarith bit tests. *)
module BZ = Z
module M = Samodel

type sx = A of string | L of sx list

exception Parse_error of string

let parse_line (s : string) : sx =
  let n = String.length s in
  let pos = ref 0 in
  let rec skip () = if !pos < n && (s.[!pos] = ' ' || s.[!pos] = '\t' || s.[!pos] = '\r') then (incr pos; skip ()) in
  let rec item () =
    skip ();
    if !pos >= n then raise (Parse_error "eof")
    else if s.[!pos] = '(' then begin
      incr pos;
      let acc = ref [] in
      let rec loop () =
        skip ();
        if !pos >= n then raise (Parse_error "unclosed")
        else if s.[!pos] = ')' then incr pos
        else (acc := item () :: !acc; loop ()) in
      loop (); L (List.rev !acc)
    end else begin
      let st = !pos in
      while !pos < n && s.[!pos] <> ' ' && s.[!pos] <> '(' && s.[!pos] <> ')' && s.[!pos] <> '\t' do incr pos done;
      A (String.sub s st (!pos - st))
    end in
  item ()

let rec print_sx buf = function
  | A s -> Buffer.add_string buf s
  | L l -> Buffer.add_char buf '(';
      List.iteri (fun i x -> if i > 0 then Buffer.add_char buf ' '; print_sx buf x) l;
      Buffer.add_char buf ')'

(* ---- number conversions ---- *)
let rec pos_of_bz (z : BZ.t) : M.positive =
  if BZ.equal z BZ.one then M.XH
  else if BZ.testbit z 0 then M.XI (pos_of_bz (BZ.shift_right z 1))
  else M.XO (pos_of_bz (BZ.shift_right z 1))
let rec bz_of_pos (p : M.positive) : BZ.t =
  match p with
  | M.XH -> BZ.one
  | M.XO q -> BZ.shift_left (bz_of_pos q) 1
  | M.XI q -> BZ.succ (BZ.shift_left (bz_of_pos q) 1)
let n_of_bz z = if BZ.sign z = 0 then M.N0 else M.Npos (pos_of_bz z)
let bz_of_n = function M.N0 -> BZ.zero | M.Npos p -> bz_of_pos p
let z_of_bz z = if BZ.sign z = 0 then M.Z0 else if BZ.sign z > 0 then M.Zpos (pos_of_bz z) else M.Zneg (pos_of_bz (BZ.neg z))
let bz_of_z = function M.Z0 -> BZ.zero | M.Zpos p -> bz_of_pos p | M.Zneg p -> BZ.neg (bz_of_pos p)
let nat_of_int (i : int) : M.nat = let rec go acc k = if k <= 0 then acc else go (M.S acc) (k - 1) in go M.O i
let rec int_of_nat = function M.O -> 0 | M.S n -> 1 + int_of_nat n

let to_n = function A s -> n_of_bz (BZ.of_string s) | _ -> raise (Parse_error "expected N")
let to_z = function A s -> z_of_bz (BZ.of_string s) | _ -> raise (Parse_error "expected Z")
let to_int = function A s -> int_of_string s | _ -> raise (Parse_error "expected int")
let to_nat x = nat_of_int (to_int x)
let to_bool = function A "1" | A "true" -> true | A "0" | A "false" -> false | _ -> raise (Parse_error "expected bool")
let to_list f = function L l -> List.map f l | _ -> raise (Parse_error "expected list")
let to_pair f g = function L [a; b] -> (f a, g b) | _ -> raise (Parse_error "expected pair")
let to_option f = function A "none" -> None | L [A "some"; x] -> Some (f x) | _ -> raise (Parse_error "expected option")
let of_n n = A (BZ.to_string (bz_of_n n))
let of_z z = A (BZ.to_string (bz_of_z z))
let of_nat n = A (string_of_int (int_of_nat n))
let of_bool b = A (if b then "1" else "0")
let of_list f l = L (List.map f l)
let of_pair f g (a, b) = L [f a; g b]
let of_option f = function None -> A "none" | Some x -> L [A "some"; f x]
let of_unit () = A "unit"

(* ENTRY TABLE: filled by entries.ml *)
let entries : (string, sx list -> sx) Hashtbl.t = Hashtbl.create 64
let register name f = Hashtbl.replace entries name f

let main () =
  let buf = Buffer.create 65536 in
  (try
    while true do
      let line = input_line stdin in
      Buffer.clear buf;
      (try
        match parse_line line with
        | L (A name :: args) ->
            (match Hashtbl.find_opt entries name with
             | Some f -> print_sx buf (f args)
             | None -> Buffer.add_string buf ("(error unknown-entry " ^ name ^ ")"))
        | _ -> Buffer.add_string buf "(error bad-request)"
      with
      | Parse_error m -> Buffer.clear buf; Buffer.add_string buf ("(error parse " ^ m ^ ")")
      | Stack_overflow -> Buffer.clear buf; Buffer.add_string buf "(error stack-overflow)"
      | Not_found -> Buffer.clear buf; Buffer.add_string buf "(error not-found)"
      | Failure m -> Buffer.clear buf; Buffer.add_string buf ("(error failure " ^ String.escaped m ^ ")"));
      Buffer.add_char buf '\n';
      print_string (Buffer.contents buf)
    done
  with End_of_file -> ());
  flush stdout
