(* Entry points: decode s-expression arguments, call the extracted model/spec, encode the result. *)
open Driver
module M = Samodel

(* ---- C11: mm ---- *)
let to_simple = function
  | L [A "int"; c] -> M.SInt (to_z c)
  | L [A "pct"; p] -> M.SPct (to_z p)
  | _ -> raise (Parse_error "simple")
let to_mmspec = function
  | L [A "cond"; L cl] -> M.Cond (List.map (to_pair to_z to_simple) cl)
  | s -> M.Simple (to_simple s)

let () =
  register "mm" (function [n; sp] -> of_z (M.mm_f64 (to_z n) (to_mmspec sp)) | _ -> raise (Parse_error "mm"));
  register "spec_mm" (function [n; sp] -> of_z (M.solr_mm (to_z n) (to_mmspec sp)) | _ -> raise (Parse_error "spec_mm"))

let () = main ()
