(* Entry points: decode s-expression arguments, call the extracted model/spec, encode the result. *)
open Driver
module M = Samodel

(* ---- C11: mm ---- *)
let to_simple = function
  | L [A "int"; c] -> M.SInt (to_z c)
  | L [A "pct"; p] -> M.SPct (to_z p)
  | _ -> raise (Parse_error "simple")
let to_mmspec = function
  | L [A "cond"; L cl] -> M.Cond (List.map (to_pair to_z to_simple) cl)
  | s -> M.Simple (to_simple s)

let () =
  register "mm" (function [n; sp] -> of_z (M.mm_f64 (to_z n) (to_mmspec sp)) | _ -> raise (Parse_error "mm"));
  register "spec_mm" (function [n; sp] -> of_z (M.solr_mm (to_z n) (to_mmspec sp)) | _ -> raise (Parse_error "spec_mm"))


(* ---- results ---- *)
let of_result f = function
  | M.Done a -> L [A "done"; f a]
  | M.Fault (k, b, i) -> L [A "fault"; A (match k with M.Rd -> "R" | M.Wr -> "W"); of_n b; of_n i]
  | M.OutOfFuel -> L [A "fuel"]
let of_pyres f = function M.PyOk a -> f a | M.PyValueError -> L [A "valueerror"]
let nl = to_list to_n
let of_nl = of_list of_n
let of_nn = of_pair of_n of_n

(* ---- C12/C14: kernels ---- *)
let () =
  register "intersect_drop" (function [l; r; m] -> of_result (of_pair of_nl of_nl) (M.intersect_drop (nl l) (nl r) (to_n m)) | _ -> raise (Parse_error "args"));
  register "intersect_keep" (function [l; r; m] -> of_result (of_pair of_nl of_nl) (M.intersect_keep (nl l) (nl r) (to_n m)) | _ -> raise (Parse_error "args"));
  register "adjacent" (function [l; r; m] -> of_result (of_pair of_nl of_nl) (M.adjacent (nl l) (nl r) (to_n m)) | _ -> raise (Parse_error "args"));
  register "int_adj" (function [l; r; m] ->
      of_result (fun o -> L [of_nl o.M.ia_lo; of_nl o.M.ia_ro; of_nl o.M.ia_alo; of_nl o.M.ia_aro])
        (M.intersect_with_adjacents (nl l) (nl r) (to_n m)) | _ -> raise (Parse_error "args"));
  register "merge" (function [l; r] -> of_result of_nl (M.merge (nl l) (nl r)) | _ -> raise (Parse_error "args"));
  register "merge_drop" (function [l; r] -> of_result of_nl (M.merge_drop (nl l) (nl r)) | _ -> raise (Parse_error "args"));
  register "sort_merge_counts" (function [a; b; c; d] -> of_result (of_list of_nn) (M.sort_merge_counts (nl a) (nl b) (nl c) (nl d)) | _ -> raise (Parse_error "args"));
  register "unique" (function [a; s] -> of_result of_nl (M.unique (nl a) (to_n s)) | _ -> raise (Parse_error "args"));
  register "binary_search" (function [a; t; m; s] -> of_result (of_pair of_n of_bool) (M.binary_search (nl a) (to_n t) (to_n m) (to_n s)) | _ -> raise (Parse_error "args"));
  register "galloping_search" (function [a; t; m; s] -> of_result (of_pair of_n of_bool) (M.galloping_search (nl a) (to_n t) (to_n m) (to_n s)) | _ -> raise (Parse_error "args"));
  register "popcount64" (function [a] -> of_nl (M.popcount64 (nl a)) | _ -> raise (Parse_error "args"));
  register "popcount_reduce_at" (function [a; b] -> of_pyres (of_result (of_list of_nn)) (M.popcount_reduce_at (nl a) (nl b)) | _ -> raise (Parse_error "args"));
  register "key_sum_over" (function [a; b] -> of_pyres (of_result (of_list of_nn)) (M.key_sum_over (nl a) (nl b)) | _ -> raise (Parse_error "args"));
  register "popcount64_reduce" (function [a; s; m] -> of_result (of_list of_nn) (M.popcount64_reduce (nl a) (to_n s) (to_n m)) | _ -> raise (Parse_error "args"));
  register "payload_slice" (function [a; m; lo; hi] -> of_nl (M.payload_slice (nl a) (to_n m) (to_n lo) (to_n hi)) | _ -> raise (Parse_error "args"));
  register "as_dense" (function [i; v; n] -> of_pyres (of_result of_nl) (M.as_dense (nl i) (nl v) (to_n n)) | _ -> raise (Parse_error "args"));
  (* specs *)
  register "spec_intersect_drop" (function [l; r; m] -> of_pair of_nl of_nl (M.intersect_drop_spec (nl l) (nl r) (to_n m)) | _ -> raise (Parse_error "args"));
  register "spec_intersect_keep" (function [l; r; m] -> of_pair of_nl of_nl (M.intersect_keep_spec (nl l) (nl r) (to_n m)) | _ -> raise (Parse_error "args"));
  register "spec_adjacent" (function [l; r; m] -> of_pair of_nl of_nl (M.adjacent_spec (nl l) (nl r) (to_n m) (M.lowbit (to_n m))) | _ -> raise (Parse_error "args"));
  register "spec_merge" (function [l; r] -> of_nl (M.merge_spec (nl l) (nl r)) | _ -> raise (Parse_error "args"));
  register "spec_merge_drop" (function [l; r] -> of_nl (M.merge_drop_spec (nl l) (nl r)) | _ -> raise (Parse_error "args"));
  register "spec_unique" (function [a; s] -> of_nl (M.unique_spec (nl a) (to_n s)) | _ -> raise (Parse_error "args"));
  register "spec_search" (function [a; t; m; s] -> of_pair (of_option of_n) of_bool (M.search_spec (nl a) (to_n t) (to_n m) (to_n s)) | _ -> raise (Parse_error "args"));
  register "spec_popcount_reduce_at" (function [a; b] -> of_list of_nn (M.popcount_reduce_at_spec (nl a) (nl b)) | _ -> raise (Parse_error "args"));
  register "spec_key_sum_over" (function [a; b] -> of_list of_nn (M.key_sum_over_spec (nl a) (nl b)) | _ -> raise (Parse_error "args"));
  register "spec_popcount64_reduce" (function [a; s; m] -> of_list of_nn (M.popcount64_reduce_spec (nl a) (to_n s) (to_n m)) | _ -> raise (Parse_error "args"));
  register "spec_sort_merge_counts" (function [a; b; c; d] -> of_list of_nn (M.sort_merge_counts_spec (nl a) (nl b) (nl c) (nl d)) | _ -> raise (Parse_error "args"));
  register "spec_as_dense" (function [i; v; n] -> of_nl (M.as_dense_spec (nl i) (nl v) (to_n n)) | _ -> raise (Parse_error "args"))


(* ---- C13: codec ---- *)
let to_nn = to_pair to_n to_n
let of_groups = of_list (of_pair of_n of_nl)
let () =
  register "codec_all" (function [k; p] ->
      let enc = M.encode (nl k) (nl p) in
      L [of_nl enc; of_groups (M.decode enc); of_result (of_list of_nn) (M.num_values_per_key enc); (if enc = [] then L [A "done"; L []] else of_result of_nl (M.keys_unique enc))]
    | _ -> raise (Parse_error "args"));
  register "spec_codec_all" (function [ps] ->
      let ps = to_list to_nn ps in
      L [of_nl (M.encode_spec ps); of_groups (M.group_by_key ps); of_list of_nn (M.counts_spec ps); of_nl (M.keys_spec ps)]
    | _ -> raise (Parse_error "args"));
  register "decode" (function [w] -> of_groups (M.decode (nl w)) | _ -> raise (Parse_error "args"));
  register "codec_slice" (function [k; p; ks] -> of_result of_nl (M.slice_keys (M.encode (nl k) (nl p)) (nl ks)) | _ -> raise (Parse_error "args"));
  register "spec_codec_slice" (function [ps; ks] -> of_nl (M.slice_spec (to_list to_nn ps) (nl ks)) | _ -> raise (Parse_error "args"));
  register "codec_bounds" (function [k; p; b] -> of_result (of_pair of_nl of_nl) (M.encode_b (nl k) (nl p) (nl b)) | _ -> raise (Parse_error "args"));
  register "spec_codec_bounds" (function [segs] -> of_pair of_nl of_nl (M.boundaries_spec (to_list (to_list to_nn) segs)) | _ -> raise (Parse_error "args"));
  register "slice_range" (function [w; lo; hi] ->
      (match M.slice_range (nl w) (to_option to_n lo) (to_option to_n hi) with
       | M.RangeOk ws -> of_nl ws | M.RangeValueError -> L [A "valueerror"]) | _ -> raise (Parse_error "args"))


(* ---- index + single-term queries (C01, C02, C05, C17, C08) ---- *)
let of_exn = function M.ValueError -> "ValueError" | M.KeyError -> "KeyError" | M.TypeError -> "TypeError"
  | M.IndexError -> "IndexError" | M.TermMissing -> "TermMissingError"
let of_api f = function
  | M.AOk a -> L [A "ok"; f a]
  | M.AExc e -> L [A "exc"; A (of_exn e)]
  | M.AFault (k, b, i) -> L [A "fault"; A (match k with M.Rd -> "R" | M.Wr -> "W"); of_n b; of_n i]
  | M.AFuel -> L [A "fuel"]
let to_docs = to_list (to_list to_n)
let run_query ix = function
  | L [A "tf"; t] -> of_api of_nl (M.termfreqs ix (to_n t))
  | L [A "df"; t] -> of_api of_n (M.docfreq ix (to_n t))
  | L [A "pos"; t] -> of_api (of_list of_nl) (M.positions ix (to_n t))
  | L [A "phrase"; ts] -> of_api of_nl (M.phrase_freqs ix (nl ts))
  | L [A "strategy"; ts] ->
      (match M.get_all_posts ix (nl ts) with
       | M.AOk enc -> L [A "ok"; A (match M.choose_strategy enc with M.L2R -> "l2r" | M.R2L -> "r2l")]
       | _ -> L [A "ok"; A "na"])
  | L [A "score"; ts; idf; k1; b] -> of_api (of_list of_z) (M.score_bm25 ix (nl ts) (to_z idf) (to_z k1) (to_z b))
  | L [A "args"; ts] ->
      of_api (fun ((((tfs, dfs), dls), total), n) -> L [of_nl tfs; of_nl dfs; of_nl dls; of_n total; of_n n]) (M.score_args ix (nl ts))
  | L [A "tfr"; t; lo; hi] -> of_api of_nl (M.termfreqs_range ix (to_n t) (to_option to_n lo) (to_option to_n hi))
  | L [A "phraser"; ts; lo; hi] -> of_api of_nl (M.phrase_freqs_range ix (nl ts) (to_option to_n lo) (to_option to_n hi))
  | L [A "slop"; ts; sl] -> of_api of_nl (M.slop_freqs ix (nl ts) (to_n sl))
  | L [A "slopv"; ts; sl] -> of_api of_nl (M.slop_freqs_v ix (nl ts) (to_n sl))
  | L [A "lens"] -> L [A "ok"; of_nl (M.doclengths ix)]
  | L [A "n"] -> L [A "ok"; of_n (M.corpus_size ix)]
  | L [A "total"] -> L [A "ok"; of_n (M.total_len ix)]
  | _ -> raise (Parse_error "query")
let spec_query docs = function
  | L [A "tf"; t] -> L [A "ok"; of_nl (M.tf_spec docs (to_n t))]
  | L [A "df"; t] -> L [A "ok"; of_n (M.df_spec docs (to_n t))]
  | L [A "pos"; t] -> L [A "ok"; of_list of_nl (M.positions_spec docs (to_n t))]
  | L [A "phrase"; ts] -> L [A "ok"; L [of_nl (M.phrase_spec docs (nl ts)); of_nl (M.phrase_nonoverlap_spec docs (nl ts)); of_bool (M.no_adjacent_repeat (nl ts))]]
  | L [A "tfr"; t; lo; hi] ->
      if M.aligned (to_option to_n lo) (to_option to_n hi) then L [A "ok"; of_nl (M.tf_range_spec docs (to_n t) (to_option to_n lo) (to_option to_n hi))]
      else L [A "exc"; A "ValueError"]
  | L [A "phraser"; ts; lo; hi] ->
      if M.aligned (to_option to_n lo) (to_option to_n hi) then L [A "ok"; of_nl (M.phrase_range_spec docs (nl ts) (to_option to_n lo) (to_option to_n hi))]
      else L [A "exc"; A "ValueError"]
  | L [A "slop"; ts; sl] -> L [A "ok"; of_list (fun (o, (c, w)) -> L [of_n o; of_bool c; of_bool w]) (M.slop_spec docs (nl ts) (to_n sl))]
  | L [A "lens"] -> L [A "ok"; of_nl (M.lens_spec docs)]
  | L [A "n"] -> L [A "ok"; A (string_of_int (List.length docs))]
  | L [A "total"] -> L [A "ok"; of_n (M.total_spec docs)]
  | _ -> raise (Parse_error "query")
let () =
  register "index_query" (function [tr; bs; docs; L qs] ->
      (match M.index_opt_g (to_bool tr) (to_nat bs) (to_docs docs) with
       | M.AOk ix -> L [A "ok"; L (List.map (run_query ix) qs)]
       | other -> of_api (fun _ -> A "x") other)
    | _ -> raise (Parse_error "args"));
  register "spec_index_query_trunc" (function [docs; L qs] -> L [A "ok"; L (List.map (spec_query (M.truncate_docs (to_docs docs))) qs)]
    | _ -> raise (Parse_error "args"));
  register "spec_index_query" (function [docs; L qs] -> L [A "ok"; L (List.map (spec_query (to_docs docs)) qs)]
    | _ -> raise (Parse_error "args"))


let () =
  register "bm25_kernel" (function [tf; dl; avg; idf; k1; b] ->
      of_list of_z (M.kernel_bits (to_list to_z tf) (to_list to_z dl) (to_z avg) (to_z idf) (to_z k1) (to_z b))
    | _ -> raise (Parse_error "args"))


(* ---- views (C06, C10) ---- *)
let opt_n = to_option to_n
let run_vquery a = function
  | L [A "tf"; t] -> of_api of_nl (M.v_termfreqs a (to_n t) None None)
  | L [A "tfr"; t; lo; hi] -> of_api of_nl (M.v_termfreqs a (to_n t) (opt_n lo) (opt_n hi))
  | L [A "phrase"; ts] -> of_api of_nl (M.v_phrase_freqs a (nl ts) None None)
  | L [A "phraser"; ts; lo; hi] -> of_api of_nl (M.v_phrase_freqs a (nl ts) (opt_n lo) (opt_n hi))
  | L [A "df"; t] -> of_api of_n (M.v_docfreq a (to_n t))
  | L [A "pos"; t] -> of_api (of_list of_nl) (M.v_positions a (to_n t))
  | L [A "lens"] -> L [A "ok"; of_nl (M.v_doclengths a)]
  | L [A "score"; ts; idf; k1; b] -> of_api (of_list of_z) (M.v_score_bm25 a (nl ts) (to_z idf) (to_z k1) (to_z b))
  | L [A "args"; ts] ->
      of_api (fun ((((tfs, dfs), dls), total), n) -> L [of_nl tfs; of_nl dfs; of_nl dls; of_n total; of_n n]) (M.v_score_args a (nl ts) None None)
  | _ -> raise (Parse_error "vquery")
let () =
  register "view_query" (function [avoid; bs; docs; keys; L qs] ->
      (match M.index_g false (to_nat bs) (to_docs docs) with
       | M.AOk ix ->
           (match M.select_chain (M.of_index ix (to_bool avoid)) (to_list nl keys) with
            | M.AOk a -> L [A "ok"; L (List.map (run_vquery a) qs)]
            | other -> of_api (fun _ -> A "x") other)
       | other -> of_api (fun _ -> A "x") other)
    | _ -> raise (Parse_error "args"));
  register "spec_view_query" (function [docs; keys; L qs] ->
      let docs = to_docs docs in
      let vd = M.view_docs docs (to_list nl keys) in
      L [A "ok"; L (List.map (function
          | L [A "df"; t] -> spec_query docs (L [A "df"; t])
          | q -> spec_query vd q) qs)]
    | _ -> raise (Parse_error "args"))


(* ---- purity state machine (C07, C20) ---- *)
let to_op = function
  | L [A "tf"; a; t; lo; hi] -> M.OTf (to_nat a, to_n t, opt_n lo, opt_n hi)
  | L [A "phrase"; a; ts; lo; hi] -> M.OPhrase (to_nat a, nl ts, opt_n lo, opt_n hi)
  | L [A "pos"; a; t] -> M.OPos (to_nat a, to_n t)
  | L [A "df"; a; t] -> M.ODf (to_nat a, to_n t)
  | L [A "lens"; a] -> M.OLens (to_nat a)
  | L [A "score"; a; ts; idf; k1; b] -> M.OScore (to_nat a, nl ts, to_z idf, to_z k1, to_z b)
  | L [A "select"; a; pos] -> M.OSelect (to_nat a, nl pos)
  | L [A "copy"; a] -> M.OCopy (to_nat a)
  | L [A "warm"; a] -> M.OWarm (to_nat a)
  | _ -> raise (Parse_error "op")
let of_out = function
  | M.RVec v -> of_api of_nl v
  | M.RPos v -> of_api (of_list of_nl) v
  | M.RNum v -> of_api of_n v
  | M.RBits v -> of_api (of_list of_z) v
  | M.RUnit v -> of_api (fun () -> A "unit") v
let () =
  register "purity_run" (function [cg; bs; docs; L ops] ->
      (match M.index_g false (to_nat bs) (to_docs docs) with
       | M.AOk ix -> let (outs, _) = M.run (M.init_pool ix (to_n cg)) (List.map to_op ops) in L [A "ok"; L (List.map of_out outs)]
       | other -> of_api (fun _ -> A "x") other)
    | _ -> raise (Parse_error "args"))


(* ---- edismax (C09, C10) ---- *)
let of_q (q : M.q) = L [of_z q.M.qnum; A (BZ.to_string (bz_of_pos q.M.qden))]
let to_q = function L [n; d] -> { M.qnum = to_z n; M.qden = pos_of_bz (BZ.of_string (match d with A s -> s | _ -> "1")) } | _ -> raise (Parse_error "q")
let to_phase = function L [fi; b] -> { M.ph_field = to_nat fi; M.ph_boost = to_option to_z b } | _ -> raise (Parse_error "phase")
let build_equery fields mm tie pf pf2 pf3 =
  let mk = function
    | L [docs; boost; terms] ->
        (match (let dd = to_docs docs in M.index_g false (nat_of_int (List.length dd + 1)) dd) with
         | M.AOk ix -> { M.ef_arr = M.of_index ix true; M.ef_boost = to_option to_z boost; M.ef_terms = nl terms }
         | _ -> raise (Parse_error "index failed"))
    | _ -> raise (Parse_error "field") in
  { M.eq_fields = List.map mk (match fields with L l -> l | _ -> []); M.eq_mm = to_mmspec mm; M.eq_tie = to_q tie;
    M.eq_pf = to_list to_phase pf; M.eq_pf2 = to_list to_phase pf2; M.eq_pf3 = to_list to_phase pf3 }
let to_idf = to_list (function L [fi; ts; v] -> ((to_nat fi, nl ts), to_z v) | _ -> raise (Parse_error "idf"))
let () =
  register "edismax" (function [n; fields; mm; tie; pf; pf2; pf3; idf] ->
      of_api (of_list of_q) (M.edismax (to_idf idf) (to_nat n) (build_equery fields mm tie pf pf2 pf3))
    | _ -> raise (Parse_error "args"));
  register "spec_edismax" (function [n; fields; mm; tie; pf; pf2; pf3; idf] ->
      of_api (of_list of_q) (M.edismax_spec (to_idf idf) (to_nat n) (build_equery fields mm tie pf pf2 pf3))
    | _ -> raise (Parse_error "args"))


(* ---- edismax for any similarity (C09): the per-field per-term score vectors are given, as exact rationals ----
   (edismax_anysim n ((boost (vec ...)) ...) mm (tn td))   boost = none | (num den)   vec = ((num den) ...) *)
let to_afield = function
  | L [boost; L vecs] ->
      { M.af_boost = (match boost with A "none" -> None | b -> Some (to_q b));
        M.af_scores = List.map (to_list to_q) vecs }
  | _ -> raise (Parse_error "afield")
let () =
  register "edismax_anysim" (function [n; fields; mm; tie] ->
      of_api (of_list of_q) (M.edismax_anysim (to_nat n) (to_list to_afield fields) (to_mmspec mm) (to_q tie))
    | _ -> raise (Parse_error "args"));
  register "spec_edismax_anysim" (function [n; fields; mm; tie] ->
      L [A "ok"; of_list of_q (M.anysim_spec (to_nat n) (to_list to_afield fields) (to_mmspec mm) (to_q tie))]
    | _ -> raise (Parse_error "args"))

(* ---- storage state machine (C18) ---- *)
let () =
  register "store_run" (function [L ops] ->
      (* ops: (index docs) | (foreign) ; returns per op the file number and blob length, then whether every
         earlier index still loads to its own postings *)
      let dir = ref [] in
      let made = ref [] in
      let outs = List.map (function
        | L [A "index"; docs] ->
            (match (let dd = to_docs docs in M.index_g false (nat_of_int (List.length dd + 1)) dd) with
             | M.AOk ix ->
                 let (d', m) = M.mm_create !dir ix.M.ix_posts in
                 dir := d'; made := (m, ix.M.ix_posts) :: !made;
                 let blob = (match List.rev d' with (_, b) :: _ -> b | [] -> []) in
                 L [A "file"; of_n m.M.mm_file; A (string_of_int (List.length blob))]
             | _ -> L [A "index-failed"])
        | L [A "foreign"] -> dir := !dir @ [(None, [])]; L [A "foreign"]
        | _ -> raise (Parse_error "store op")) ops in
      let all_ok = List.for_all (fun (m, p) -> M.mm_load !dir m = Some p) !made in
      L [L outs; of_bool all_ok; of_n (M.dir_count !dir)]
    | _ -> raise (Parse_error "args"))


(* ---- interleavings (C20) ---- *)
let () =
  register "conc_run" (function [cg; docs; L setup; L queries; sched] ->
      let dd = to_docs docs in
      (match M.index_g false (nat_of_int (List.length dd + 1)) dd with
       | M.AOk ix ->
           let (_, pool) = M.run (M.init_pool ix (to_n cg)) (List.map to_op setup) in
           let arr i = List.nth pool.M.arrays i in
           let prog = function
             | L [A "tf"; a; t; lo; hi] -> M.prog_tf pool (arr (to_int a)) (to_n t) (opt_n lo) (opt_n hi)
             | L [A "phrase"; a; ts] -> M.prog_phrase pool (arr (to_int a)) (nl ts)
             | L [A "df"; a; t] -> M.prog_df (to_nat a) (arr (to_int a)) (to_n t)
             | L [A "score"; a; t; idf; k1; b] -> M.prog_score pool (to_nat a) (arr (to_int a)) (to_n t) (to_z idf) (to_z k1) (to_z b)
             | L [A "select"; a; pos] -> M.prog_select (to_nat a) (nl pos)
             | _ -> raise (Parse_error "conc query") in
           let ths = List.map (fun q -> M.spawn (prog q)) queries in
           let sch = List.map to_nat (match sched with L l -> l | _ -> []) in
           let (p1, ths1) = M.run_sched pool ths sch in
           (* let every thread finish: append the serial completion *)
           let (_, ths2) = M.run_sched p1 ths1 (M.serial_schedule ths1) in
           L [A "ok"; L (List.map (function Some o -> of_out o | None -> A "unfinished") (M.results ths2))]
       | other -> of_api (fun _ -> A "x") other)
    | _ -> raise (Parse_error "args"))


(* ---- rebuilt arrays (C19) ---- *)
let () =
  register "rebuild_query" (function [L sources; L refs; L qs] ->
      (* sources: ((docs avoid keys) ...); refs: ((el src i) | (fill)) in new row order *)
      let arrs = List.map (function
        | L [docs; avoid; keys] ->
            let dd = to_docs docs in
            (match M.index_g false (nat_of_int (List.length dd + 1)) dd with
             | M.AOk ix -> (match M.select_chain (M.of_index ix (to_bool avoid)) (to_list nl keys) with
                            | M.AOk a -> a | _ -> raise (Parse_error "select failed"))
             | _ -> raise (Parse_error "index failed"))
        | _ -> raise (Parse_error "source")) sources in
      let els = List.map (function
        | L [A "el"; s; i] -> (match M.element_of (List.nth arrs (to_int s)) (to_nat i) with
                               | M.AOk e -> e | _ -> raise (Parse_error "element failed"))
        | L [A "fill"] -> M.fill_element
        | _ -> raise (Parse_error "ref")) refs in
      let ix = M.rebuild els in
      L [A "ok"; L (List.map (run_query ix) qs)]
    | _ -> raise (Parse_error "args"))


let () =
  register "intersect_all" (function [encs] -> of_api (of_pair of_nl of_nl) (M.intersect_all (to_list nl encs)) | _ -> raise (Parse_error "args"));
  register "span_search" (function [encs; sl] -> of_api (of_list of_nn) (M.span_search (to_list nl encs) (to_n sl)) | _ -> raise (Parse_error "args"))

let () = main ()
