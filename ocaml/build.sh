#!/bin/bash
# Extract the models and build the native driver.
set -e
cd "$(dirname "$0")"
timeout 1200 coqc -Q ../coq/theories SA ../coq/theories/Extract/Extract.v > extract.log 2>&1 || { cat extract.log; exit 1; }
test -f samodel.ml
rm -f samodel.mli
timeout 1200 ocamlfind ocamlopt -w -a -package zarith -linkpkg samodel.ml driver.ml entries.ml -o samodel
# stamp: digest of the sources this binary was made from (checked by harness/common.py:coq_gate on every run)
cd .. && python3 -c "import sys; sys.path.insert(0,'.'); from harness import common as C; open('ocaml/samodel.stamp','w').write(C.model_sources_digest())"
