From Coq Require Import NArith List Lia Bool FMapPositive.
Import ListNotations.
Open Scope N_scope.
Inductive result (A:Type) := Done (a:A) | Fault (buf:N) (idx:N) | OutOfFuel.
Arguments Done {A}. Arguments Fault {A}. Arguments OutOfFuel {A}.
Definition bind {A B} (r:result A) (f:A->result B) : result B :=
  match r with Done a => f a | Fault b i => Fault b i | OutOfFuel => OutOfFuel end.
Notation "'do' x <- r ; k" := (bind r (fun x => k)) (at level 200, x name, r at level 100, k at level 200).

(* memory: list at the interface, positive-keyed trie for O(log n) reads *)
Record mem := { mlen : N; mget : PositiveMap.t N }.
Fixpoint fill (l:list N) (i:N) (m:PositiveMap.t N) : PositiveMap.t N :=
  match l with [] => m | x::t => fill t (N.succ i) (PositiveMap.add (N.succ_pos i) x m) end.
Definition mem_of_list (l:list N) : mem := {| mlen := N.of_nat (length l); mget := fill l 0 (PositiveMap.empty N) |}.
Definition rd (buf:N) (a:mem) (i:N) : result N :=
  if i <? mlen a then match PositiveMap.find (N.succ_pos i) (mget a) with Some v => Done v | None => Fault buf i end
  else Fault buf i.

Section K.
Variables (L R : mem) (mask : N).
Let nl := mlen L. Let nr := mlen R.
Fixpoint gallop_l (fuel:nat) (i j g:N) : result (N*N) :=
  match fuel with O => OutOfFuel | S f =>
    if i <? nl then do x <- rd 0 L i; do y <- rd 1 R j;
      if N.land x mask <? N.land y mask then gallop_l f (i+g) j (g*2) else Done (i,g)
    else Done (i,g) end.
Fixpoint gallop_r (fuel:nat) (i j g:N) : result (N*N) :=
  match fuel with O => OutOfFuel | S f =>
    if j <? nr then do y <- rd 1 R j; do x <- rd 0 L i;
      if N.land y mask <? N.land x mask then gallop_r f i (j+g) (g*2) else Done (j,g)
    else Done (j,g) end.
Fixpoint outer (fuel:nat) (i j:N) (last:option N) (out:list (N*N)) : result (list (N*N)) :=
  match fuel with O => OutOfFuel | S f =>
    if andb (i <? nl) (j <? nr) then
      do ig <- gallop_l 66 i j 1; let '(i1,g1) := ig in let i2 := i1 - g1/2 in
      do jg <- gallop_r 66 i2 j 1; let '(j1,g2) := jg in let j2 := j1 - g2/2 in
      do x <- rd 0 L i2; do y <- rd 1 R j2;
      let mx := N.land x mask in let my := N.land y mask in
      if mx <? my then outer f (i2+1) j2 last out
      else if my <? mx then outer f i2 (j2+1) last out
      else let lastm := match last with None => N.land (2^64-1) mask | Some v => N.land v mask end in
        if negb (lastm =? mx) then outer f (i2+1) (j2+1) (Some x) ((i2,j2)::out)
        else outer f (i2+1) (j2+1) last out
    else Done (rev out) end.
End K.
Definition intersect_drop (l r : list N) (mask:N) :=
  outer (mem_of_list l) (mem_of_list r) mask (length l + length r + 2) 0 0 None [].
Eval vm_compute in intersect_drop [1;2;3;5;5;9;100;101;200] [0;5;5;6;7;8;9;10;11;12;13;14;15;16;100;200;300] (2^64-1).
Require Import Extraction ExtrOcamlBasic.
Extraction "gallopfast.ml" intersect_drop.
