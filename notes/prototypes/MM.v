From Coq Require Import ZArith List Lia Bool.
From Flocq Require Import IEEE754.BinarySingleNaN IEEE754.Binary IEEE754.Bits.
Import ListNotations.
Open Scope Z_scope.
(* Python: calc = (n*p) * (1/100) ; int(calc) truncates toward zero *)
Definition b64_of_Z (z:Z) : binary64 := binary_normalize 53 1024 (eq_refl _) (eq_refl _) mode_NE z 0 false.
Definition one_over_100 : binary64 := b64_div mode_NE (b64_of_Z 1) (b64_of_Z 100).
Definition trunc64 (f:binary64) : Z :=
  match f with
  | B754_finite _ _ s m e _ => let v := if (0 <=? e) then Z.pos m * 2^e else Z.quot (Z.pos m) (2^(-e)) in if s then - v else v
  | _ => 0 end.
Definition pct_f64 (n p : Z) : Z := trunc64 (b64_mult mode_NE (b64_of_Z (n*p)) one_over_100).
Eval vm_compute in bits_of_b64 one_over_100.  (* expect 0x3F847AE147AE147B = 4576918229304087675 *)
Eval vm_compute in map (fun p => pct_f64 10 p) [50; -25; 33; 99; 100; -100; 150; 7].
Definition grid (nmax pmax : Z) : bool :=
  forallb (fun n => forallb (fun p => Z.eqb (pct_f64 n p) (Z.quot (n*p) 100))
      (map (fun k => Z.of_nat k - pmax) (seq 0 (Z.to_nat (2*pmax+1)))))
    (map Z.of_nat (seq 0 (Z.to_nat (nmax+1)))).
Time Eval vm_compute in grid 40 150.
Time Eval vm_compute in grid 100 1000.
