From Coq Require Import ZArith Bool.
From Flocq Require Import IEEE754.BinarySingleNaN IEEE754.Binary IEEE754.Bits.
Open Scope Z_scope.
Definition fmul := b32_mult mode_NE.
Definition fadd := b32_plus mode_NE.
Definition fdiv := b32_div mode_NE.
Definition bm25 (tf dl avg idf k1 b omb : binary32) : binary32 :=
  fmul (fdiv tf (fadd tf (fmul k1 (fadd omb (fmul b (fdiv dl avg)))))) idf.

(* zero pattern: tf = ±0, the k1*(...) term finite and non-zero, idf finite  ==>  the score is a zero *)
Theorem bm25_zero_pattern tf dl avg idf k1 b omb s sy m e H :
  tf = B754_zero 24 128 s ->
  fmul k1 (fadd omb (fmul b (fdiv dl avg))) = B754_finite 24 128 sy m e H ->
  is_finite 24 128 idf = true ->
  exists s', bm25 tf dl avg idf k1 b omb = B754_zero 24 128 s'.
Proof.
  intros -> HX Hidf. unfold bm25. rewrite HX.
  unfold fadd, b32_plus, Bplus. cbn.
  unfold fdiv, b32_div, Bdiv. cbn.
  unfold fmul, b32_mult, Bmult.
  destruct idf as [si| si | pl | si mi ei Hi]; try discriminate; cbn; eauto.
Qed.
Print Assumptions bm25_zero_pattern.

(* and the refutation side: with k1 rounding to 0 the same expression is a NaN (D13) *)
Definition z := b32_of_bits 0. (* +0 *)
Example bm25_nan_witness :
  is_nan 24 128 (bm25 z z (b32_of_bits 0x40480000) (b32_of_bits 0x3f317218) z (b32_of_bits 0x3f400000) (b32_of_bits 0x3e800000)) = true.
Proof. vm_compute. reflexivity. Qed.
