From Coq Require Import NArith ZArith List Lia Bool ZifyBool ZifyN.
Ltac Zify.zify_post_hook ::= Z.div_mod_to_equations.
Import ListNotations.
Require Import Layout.
Open Scope N_scope.

(* ---------- model ---------- *)
Fixpoint encode_aux (cur : option (N*N*N)) (ps : list (N*N)) : list N :=
  match ps with
  | [] => match cur with None => [] | Some (k,b,s) => [word_of k b s] end
  | (k,p)::rest =>
     match cur with
     | None => encode_aux (Some (k, p/18, onehot p)) rest
     | Some (k0,b0,s0) =>
         if (k =? k0) && (p/18 =? b0)
         then encode_aux (Some (k0,b0, N.lor s0 (onehot p))) rest
         else word_of k0 b0 s0 :: encode_aux (Some (k, p/18, onehot p)) rest
     end
  end.
Definition encode ps := encode_aux None ps.

Definition bit_list (s:N) : list N := filter (N.testbit s) (map N.of_nat (seq 0 18)).
Definition decode_triple (k b s:N) : list (N*N) := map (fun i => (k, 18*b+i)) (bit_list s).
Definition decode_word (w:N) := decode_triple (key_of w) (bucket_of w) (bits_of w).
Definition decode (ws:list N) := flat_map decode_word ws.

Eval vm_compute in encode [(0,0);(0,17);(0,18);(3,5);(3,40);(3,41)].
Eval vm_compute in decode (encode [(0,0);(0,17);(0,18);(3,5);(3,40);(3,41)]).

(* ---------- well-formedness: strictly increasing (key, posn), bounded ---------- *)
Definition lt2 (a b : N*N) := fst a < fst b \/ (fst a = fst b /\ snd a < snd b).
Fixpoint sorted2 (l : list (N*N)) : Prop :=
  match l with [] => True | a::t => (match t with [] => True | b::_ => lt2 a b end) /\ sorted2 t end.
Definition bounded (l : list (N*N)) := Forall (fun kp => fst kp < 2^28 /\ snd kp < 2^18) l.

(* ---------- bit_list facts ---------- *)
Lemma bit_list_onehot p : bit_list (onehot p) = [p mod 18].
Proof.
  assert (H: p mod 18 < 18) by (apply N.mod_lt; lia).
  unfold bit_list.
  assert (E: forall i, N.testbit (onehot p) i = (i =? p mod 18)) by apply testbit_onehot.
  rewrite (filter_ext _ _ E).
  remember (p mod 18) as r. clear Heqr E p.
  (* r < 18 : finite case analysis *)
  assert (C: r = 0 \/ r = 1 \/ r = 2 \/ r = 3 \/ r = 4 \/ r = 5 \/ r = 6 \/ r = 7 \/ r = 8 \/ r = 9 \/
             r = 10 \/ r = 11 \/ r = 12 \/ r = 13 \/ r = 14 \/ r = 15 \/ r = 16 \/ r = 17) by lia.
  repeat (destruct C as [->|C]; [reflexivity|]). subst; reflexivity.
Qed.

(* filter over an increasing index list splits at a threshold *)
Lemma filter_seq_lor_high s r :
  r < 18 -> (forall i, N.testbit s i = true -> i < r) ->
  bit_list (N.lor s (N.shiftl 1 r)) = bit_list s ++ [r].
Proof.
  intros Hr Hlow. unfold bit_list.
  assert (T: forall i, N.testbit (N.lor s (N.shiftl 1 r)) i = N.testbit s i || (i =? r)).
  { intro i. rewrite N.lor_spec, N.shiftl_1_l, N.pow2_bits_eqb. now rewrite (N.eqb_sym r i). }
  rewrite (filter_ext _ _ T).
  (* split seq 0 18 = [0..r) ++ [r] ++ (r..18) *)
  set (n := N.to_nat r).
  assert (Hn: (n < 18)%nat) by (unfold n; lia).
  assert (E18: seq 0 18 = (seq 0 n ++ [n] ++ seq (S n) (18 - S n))%list).
  { replace 18%nat with (n + S (18 - S n))%nat at 1 by lia. rewrite seq_app. simpl. reflexivity. }
  rewrite E18. clear E18. remember (18 - S n)%nat as m eqn:Em.
  rewrite !map_app, !filter_app. cbn [map].
  assert (A: forall l, (forall x, In x l -> (x < n)%nat) ->
              filter (fun i => N.testbit s i || (i =? r)) (map N.of_nat l) = filter (N.testbit s) (map N.of_nat l)).
  { induction l as [|x l IH]; intros HL; [reflexivity|]. simpl.
    assert (Hx: (x < n)%nat) by (apply HL; now left).
    replace (N.of_nat x =? r) with false by (symmetry; apply N.eqb_neq; unfold n in Hx; lia).
    rewrite orb_false_r. rewrite IH by (intros; apply HL; now right). reflexivity. }
  assert (B: forall l, (forall x, In x l -> (n < x)%nat) ->
              filter (fun i => N.testbit s i || (i =? r)) (map N.of_nat l) = [] /\
              filter (N.testbit s) (map N.of_nat l) = []).
  { induction l as [|x l IH]; intros HL; [split; reflexivity|]. simpl.
    assert (Hx: (n < x)%nat) by (apply HL; now left).
    assert (F: N.testbit s (N.of_nat x) = false).
    { destruct (N.testbit s (N.of_nat x)) eqn:E; [|reflexivity]. apply Hlow in E. unfold n in Hx. lia. }
    rewrite F. replace (N.of_nat x =? r) with false by (symmetry; apply N.eqb_neq; unfold n in Hx; lia).
    simpl. apply IH. intros; apply HL; now right. }
  rewrite A by (intros x Hx; apply in_seq in Hx; lia).
  destruct (B (seq (S n) m)) as [B1 B2]; [intros x Hx; apply in_seq in Hx; lia|].
  rewrite B1, B2.
  cbn [filter].
  assert (Sr: N.testbit s (N.of_nat n) = false).
  { destruct (N.testbit s (N.of_nat n)) eqn:E; [|reflexivity]. apply Hlow in E. unfold n in E. lia. }
  rewrite Sr. replace (N.of_nat n =? r) with true by (symmetry; apply N.eqb_eq; unfold n; lia).
  cbn [orb app]. rewrite !app_nil_r. f_equal. f_equal. unfold n. lia.
Qed.
Print Assumptions filter_seq_lor_high.

(* ---------- round trip ---------- *)
Lemma lor_lt18 a b : a < 2^18 -> b < 2^18 -> N.lor a b < 2^18.
Proof.
  intros Ha Hb.
  destruct (N.eq_dec a 0) as [->|Ha0]; [now rewrite N.lor_0_l|].
  destruct (N.eq_dec b 0) as [->|Hb0]; [now rewrite N.lor_0_r|].
  assert (La : N.log2 a < 18) by (apply N.log2_lt_pow2; lia).
  assert (Lb : N.log2 b < 18) by (apply N.log2_lt_pow2; lia).
  assert (E : N.lor a b <> 0).
  { intro E. apply N.lor_eq_0_iff in E. tauto. }
  apply N.log2_lt_pow2; [lia|]. rewrite N.log2_lor. lia.
Qed.

Lemma decode_word_of k b s : b < 2^18 -> s < 2^18 ->
  decode_word (word_of k b s) = decode_triple k b s.
Proof.
  intros Hb Hs. unfold decode_word.
  now rewrite key_of_word, bucket_of_word, bits_of_word.
Qed.

Lemma decode_triple_onehot k p : decode_triple k (p/18) (onehot p) = [(k,p)].
Proof.
  unfold decode_triple. rewrite bit_list_onehot. cbn [map]. f_equal. f_equal. lia.
Qed.

Definition cur_ok (k b s : N) (rest : list (N*N)) : Prop :=
  b < 2^18 /\ s < 2^18 /\
  match rest with
  | [] => True
  | (k',p')::_ => k < k' \/ (k = k' /\ (b < p'/18 \/
                   (b = p'/18 /\ forall i, N.testbit s i = true -> i < p' mod 18)))
  end.

Lemma rt_aux : forall rest k b s, sorted2 rest -> bounded rest -> cur_ok k b s rest ->
  decode (encode_aux (Some (k,b,s)) rest) = decode_triple k b s ++ rest.
Proof.
  induction rest as [|[k' p'] rest IH]; intros k b s Hs Hbd (Hb & Hss & Hnext).
  - cbn [encode_aux decode flat_map]. rewrite decode_word_of by assumption. now rewrite !app_nil_r.
  - cbn [encode_aux].
    inversion Hbd as [|x l [Hk' Hp'] Hbd' Ex]; subst. cbn [fst snd] in *.
    destruct Hs as [Hhd Hs'].
    assert (Hb' : p'/18 < 2^18) by (rewrite pow18 in *; lia).
    assert (Hr : p' mod 18 < 18) by (apply N.mod_lt; lia).
    (* cur_ok for the successor state, whichever it is *)
    assert (Hnext' : forall s1, (forall i, N.testbit s1 i = true -> i <= p' mod 18) ->
              match rest with [] => True | (k2,p2)::_ =>
                k' < k2 \/ (k' = k2 /\ (p'/18 < p2/18 \/ (p'/18 = p2/18 /\
                   forall i, N.testbit s1 i = true -> i < p2 mod 18))) end).
    { intros s1 Hs1. destruct rest as [|[k2 p2] rest2]; [exact I|].
      destruct Hhd as [Hlt|[Heq Hlt]]; cbn [fst snd] in *; [left; exact Hlt|].
      right; split; [exact Heq|].
      destruct (N.lt_ge_cases (p'/18) (p2/18)) as [Hq|Hq]; [left; exact Hq|].
      right. split; [lia|]. intros i Hi. apply Hs1 in Hi. lia. }
    destruct ((k' =? k) && (p'/18 =? b)) eqn:Esame.
    + (* same header: OR the bit in *)
      apply andb_true_iff in Esame as [Ek Eb]. apply N.eqb_eq in Ek, Eb. subst k' b.
      assert (Hlow : forall i, N.testbit s i = true -> i < p' mod 18).
      { destruct Hnext as [Hn|[_ [Hn|[_ Hn]]]]; [lia|lia|exact Hn]. }
      rewrite IH; [| exact Hs' | exact Hbd' |].
      * unfold decode_triple. unfold onehot. rewrite filter_seq_lor_high by assumption.
        rewrite map_app. cbn [map]. rewrite <- app_assoc. cbn [app]. f_equal. f_equal. f_equal. lia.
      * split; [assumption|]. split; [apply lor_lt18; [assumption|apply onehot_lt]|].
        apply Hnext'. intros i Hi. rewrite N.lor_spec, testbit_onehot in Hi.
        apply orb_true_iff in Hi as [Hi|Hi]; [apply Hlow in Hi; lia| apply N.eqb_eq in Hi; lia].
    + (* new header: flush the current word *)
      cbn [decode flat_map]. rewrite decode_word_of by assumption.
      change (flat_map decode_word ?l) with (decode l).
      rewrite IH; [| exact Hs' | exact Hbd' |].
      * rewrite decode_triple_onehot. reflexivity.
      * split; [assumption|]. split; [apply onehot_lt|].
        apply Hnext'. intros i Hi. rewrite testbit_onehot in Hi. apply N.eqb_eq in Hi. lia.
Qed.

Theorem decode_encode : forall ps, sorted2 ps -> bounded ps -> decode (encode ps) = ps.
Proof.
  intros [|[k p] rest] Hs Hb; [reflexivity|].
  unfold encode. cbn [encode_aux].
  inversion Hb as [|x l [Hk Hp] Hb' Ex]; subst. cbn [fst snd] in *. destruct Hs as [Hhd Hs'].
  rewrite rt_aux; [now rewrite decode_triple_onehot | exact Hs' | exact Hb' |].
  split; [rewrite pow18 in *; lia|]. split; [apply onehot_lt|].
  destruct rest as [|[k2 p2] rest2]; [exact I|].
  assert (Hr : p mod 18 < 18) by (apply N.mod_lt; lia).
  destruct Hhd as [Hlt|[Heq Hlt]]; cbn [fst snd] in *; [left; exact Hlt|].
  right; split; [exact Heq|].
  destruct (N.lt_ge_cases (p/18) (p2/18)) as [Hq|Hq]; [left; exact Hq|].
  right. split; [lia|]. intros i Hi. rewrite testbit_onehot in Hi. apply N.eqb_eq in Hi. lia.
Qed.
Print Assumptions decode_encode.

Example nonvacuous : sorted2 [(0,0);(0,17);(0,18);(3,5);(3,262143)] /\ bounded [(0,0);(0,17);(0,18);(3,5);(3,262143)].
Proof. split; [cbn; unfold lt2; cbn; lia | repeat constructor; cbn; lia]. Qed.
