From Coq Require Import NArith ZArith List Lia Bool ZifyBool ZifyN.
Ltac Zify.zify_post_hook ::= Z.div_mod_to_equations.
Import ListNotations.
Require Import Gallop.
Open Scope N_scope.

Section C.
Variables (L R : list N) (mask : N).
Let nl := N.of_nat (length L). Let nr := N.of_nat (length R).
Definition ml (a:N) := N.land (nth (N.to_nat a) L 0) mask.
Definition mr (b:N) := N.land (nth (N.to_nat b) R 0) mask.
Definition sentinel := N.land (2^64-1) mask.

Hypothesis HsL : forall a b, a <= b -> b < nl -> ml a <= ml b.
Hypothesis HsR : forall a b, a <= b -> b < nr -> mr a <= mr b.
Hypothesis Hsent : forall a, a < nl -> ml a <> sentinel.   (* D18: the -1 sentinel is compared under the mask *)

Lemma rdL i : i < nl -> rd 0 L i = Done (nth (N.to_nat i) L 0).
Proof.
  intro H. unfold rd. destruct (nth_error L (N.to_nat i)) eqn:E.
  - f_equal. symmetry. apply nth_error_nth. exact E.
  - apply nth_error_None in E. unfold nl in H. lia.
Qed.
Lemma rdR j : j < nr -> rd 1 R j = Done (nth (N.to_nat j) R 0).
Proof.
  intro H. unfold rd. destruct (nth_error R (N.to_nat j)) eqn:E.
  - f_equal. symmetry. apply nth_error_nth. exact E.
  - apply nth_error_None in E. unfold nr in H. lia.
Qed.

(* exit facts of the two gallops: a read position, not before the start, and either the start or a position that satisfied the guard *)
Lemma gallop_l_spec : forall fuel i j g i1 g1 i0,
  j < nr -> i0 <= i - g/2 -> i - g/2 < nl -> g/2 <= i ->
  (i - g/2 = i0 \/ ml (i - g/2) < mr j) ->
  gallop_l L R mask fuel i j g = Done (i1,g1) ->
  i0 <= i1 - g1/2 /\ i1 - g1/2 < nl /\ (i1 - g1/2 = i0 \/ ml (i1 - g1/2) < mr j).
Proof.
  induction fuel as [|f IH]; intros i j g i1 g1 i0 Hj H0 Hlt Hle HQ H; cbn [gallop_l] in H; [discriminate|].
  fold nl in H.
  destruct (i <? nl) eqn:Hi.
  - apply N.ltb_lt in Hi. rewrite (rdL i Hi), (rdR j Hj) in H. cbn [bind] in H.
    fold (ml i) in H. fold (mr j) in H.
    destruct (ml i <? mr j) eqn:Hc.
    + apply N.ltb_lt in Hc.
      assert (E: g*2/2 = g) by (rewrite N.div_mul; lia).
      eapply IH in H; [exact H | exact Hj | | | |]; rewrite E.
      * replace (i+g-g) with i by lia. lia.
      * replace (i+g-g) with i by lia. exact Hi.
      * lia.
      * replace (i+g-g) with i by lia. right. exact Hc.
    + inversion H; subst. auto.
  - inversion H; subst. auto.
Qed.

Lemma gallop_r_spec : forall fuel i j g j1 g1 j0,
  i < nl -> j0 <= j - g/2 -> j - g/2 < nr -> g/2 <= j ->
  (j - g/2 = j0 \/ mr (j - g/2) < ml i) ->
  gallop_r L R mask fuel i j g = Done (j1,g1) ->
  j0 <= j1 - g1/2 /\ j1 - g1/2 < nr /\ (j1 - g1/2 = j0 \/ mr (j1 - g1/2) < ml i).
Proof.
  induction fuel as [|f IH]; intros i j g j1 g1 j0 Hi H0 Hlt Hle HQ H; cbn [gallop_r] in H; [discriminate|].
  fold nr in H.
  destruct (j <? nr) eqn:Hj.
  - apply N.ltb_lt in Hj. rewrite (rdR j Hj), (rdL i Hi) in H. cbn [bind] in H.
    fold (ml i) in H. fold (mr j) in H.
    destruct (mr j <? ml i) eqn:Hc.
    + apply N.ltb_lt in Hc.
      assert (E: g*2/2 = g) by (rewrite N.div_mul; lia).
      eapply IH in H; [exact H | exact Hi | | | |]; rewrite E.
      * replace (j+g-g) with j by lia. lia.
      * replace (j+g-g) with j by lia. exact Hj.
      * lia.
      * replace (j+g-g) with j by lia. right. exact Hc.
    + inversion H; subst. auto.
  - inversion H; subst. auto.
Qed.

(* ---------------- invariant ---------------- *)
Definition collected (out : list (N*N)) (v:N) := exists a b, In (a,b) out /\ ml a = v.

Record Inv (i j : N) (last : option N) (out : list (N*N)) : Prop := {
  I1 : forall a b, In (a,b) out -> a < i /\ b < j /\ a < nl /\ b < nr /\ ml a = mr b /\
                   (forall a', a' < a -> ml a' <> ml a) /\ (forall b', b' < b -> mr b' <> mr b);
  I2 : forall a b, a < i -> a < nl -> j <= b -> b < nr -> ml a <= mr b /\ (ml a = mr b -> collected out (ml a));
  I3 : forall a b, b < j -> b < nr -> i <= a -> a < nl -> mr b <= ml a /\ (mr b = ml a -> collected out (mr b));
  I4 : forall a b, a < i -> a < nl -> b < j -> b < nr -> ml a = mr b -> collected out (ml a);
  I5 : match last with
       | None => out = []
       | Some x => collected out (N.land x mask) /\ forall a b, In (a,b) out -> ml a <= N.land x mask
       end
}.

Definition Post (out : list (N*N)) : Prop :=
  (forall a b, In (a,b) out -> a < nl /\ b < nr /\ ml a = mr b /\
       (forall a', a' < a -> ml a' <> ml a) /\ (forall b', b' < b -> mr b' <> mr b)) /\
  (forall a b, a < nl -> b < nr -> ml a = mr b -> collected out (ml a)).

Lemma collected_app out p v : collected out v -> collected (out ++ [p]) v.
Proof. intros (a & b & Hin & E). exists a, b. split; [apply in_or_app; now left|exact E]. Qed.

Lemma outer_correct : forall fuel i j last out res,
  Inv i j last out -> outer L R mask fuel i j last out = Done res -> Post res.
Proof.
  induction fuel as [|f IH]; intros i j last out res HI H; cbn [outer] in H; [discriminate|].
  fold nl nr in H.
  destruct (andb (i <? nl) (j <? nr)) eqn:G.
  2:{ (* loop exit *)
    inversion H; subst res. clear H. destruct HI as [H1 H2 H3 H4 H5].
    split.
    - intros a b Hin. specialize (H1 a b Hin). tauto.
    - intros a b Ha Hb E.
      apply andb_false_iff in G as [G|G]; apply N.ltb_ge in G.
      + destruct (N.lt_ge_cases b j) as [Hbj|Hbj].
        * apply (H4 a b); try assumption; try lia.
        * apply (H2 a b); try assumption; try lia.
      + destruct (N.lt_ge_cases a i) as [Hai|Hai].
        * apply (H4 a b); try assumption; try lia.
        * rewrite E. apply (H3 a b); try assumption; try lia. }
  apply andb_true_iff in G as [Hi Hj]. apply N.ltb_lt in Hi, Hj.
  destruct (gallop_l L R mask 66 i j 1) as [[i1 g1]| |] eqn:EL; cbn [bind] in H; try discriminate.
  destruct (gallop_l_spec 66 i j 1 i1 g1 i Hj) as (Hi2a & Hi2b & Hi2c); [simpl; lia|simpl; lia|simpl; lia|left; simpl; lia|exact EL|].
  set (i2 := i1 - g1/2) in *.
  destruct (gallop_r L R mask 66 i2 j 1) as [[j1 g2]| |] eqn:ER; cbn [bind] in H; try discriminate.
  destruct (gallop_r_spec 66 i2 j 1 j1 g2 j Hi2b) as (Hj2a & Hj2b & Hj2c); [simpl; lia|simpl; lia|simpl; lia|left; simpl; lia|exact ER|].
  set (j2 := j1 - g2/2) in *.
  rewrite (rdL i2 Hi2b), (rdR j2 Hj2b) in H. cbn [bind] in H.
  fold (ml i2) in H. fold (mr j2) in H.
  destruct HI as [H1 H2 H3 H4 H5].
  (* facts about skipped elements *)
  assert (SkL : forall a, i <= a -> a < i2 -> ml a < mr j).
  { intros a Ha1 Ha2. destruct Hi2c as [E|Hlt]; [lia|]. pose proof (HsL a i2 ltac:(lia) Hi2b). lia. }
  assert (SkR : forall b, j <= b -> b < j2 -> mr b < ml i2).
  { intros b Hb1 Hb2. destruct Hj2c as [E|Hlt]; [lia|]. pose proof (HsR b j2 ltac:(lia) Hj2b). lia. }
  assert (SkL' : i2 <> i -> ml i2 < mr j) by (intro; destruct Hi2c; [lia|assumption]).
  assert (SkR' : j2 <> j -> mr j2 < ml i2) by (intro; destruct Hj2c; [lia|assumption]).
  destruct (ml i2 <? mr j2) eqn:C1.
  { (* advance left *)
    apply N.ltb_lt in C1. eapply IH; [|exact H]. constructor.
    - intros a b Hin. specialize (H1 a b Hin). intuition lia.
    - intros a b Ha Hanl Hb Hbnr.
      assert (ml a <= ml i2) by (apply HsL; lia). assert (mr j2 <= mr b) by (apply HsR; lia). split; [lia|intro; lia].
    - intros a b Hb Hbnr Ha Hanl.
      destruct (N.lt_ge_cases b j) as [Hbj|Hbj].
      + apply (H3 a b); try assumption; try lia.
      + pose proof (SkR b Hbj Hb). assert (ml i2 <= ml a) by (apply HsL; lia). split; [lia|intro; lia].
    - intros a b Ha Hanl Hb Hbnr E.
      destruct (N.lt_ge_cases a i) as [Hai|Hai]; destruct (N.lt_ge_cases b j) as [Hbj|Hbj].
      + apply (H4 a b); assumption.
      + apply (H2 a b); try assumption.
      + rewrite E. apply (H3 a b); try assumption; try lia.
      + exfalso. pose proof (SkR b Hbj Hb). assert (ml a <= ml i2) by (apply HsL; lia).
        destruct (N.eq_dec i2 i) as [Ei|Ei].
        * assert (a = i2) by lia. subst a. lia.
        * pose proof (SkL' Ei). assert (mr j <= mr b) by (apply HsR; lia). lia.
    - exact H5. }
  apply N.ltb_ge in C1.
  destruct (mr j2 <? ml i2) eqn:C2.
  { (* advance right *)
    apply N.ltb_lt in C2. eapply IH; [|exact H]. constructor.
    - intros a b Hin. specialize (H1 a b Hin). intuition lia.
    - intros a b Ha Hanl Hb Hbnr.
      destruct (N.lt_ge_cases a i) as [Hai|Hai].
      + apply (H2 a b); try assumption; try lia.
      + pose proof (SkL a Hai Ha). assert (mr j <= mr b) by (apply HsR; lia). split; [lia|intro; lia].
    - intros a b Hb Hbnr Ha Hanl.
      assert (mr b <= mr j2) by (apply HsR; lia). assert (ml i2 <= ml a) by (apply HsL; lia). split; [lia|intro; lia].
    - intros a b Ha Hanl Hb Hbnr E.
      destruct (N.lt_ge_cases a i) as [Hai|Hai]; destruct (N.lt_ge_cases b j) as [Hbj|Hbj].
      + apply (H4 a b); assumption.
      + apply (H2 a b); try assumption.
      + rewrite E. apply (H3 a b); try assumption; try lia.
      + exfalso. pose proof (SkL a Hai Ha). assert (mr j <= mr b) by (apply HsR; lia). lia.
    - exact H5. }
  apply N.ltb_ge in C2.
  (* equal: i2 = i and j2 = j necessarily *)
  assert (Ev : ml i2 = mr j2) by lia.
  assert (Ei : i2 = i).
  { destruct (N.eq_dec i2 i); [assumption|]. pose proof (SkL' n). assert (mr j <= mr j2) by (apply HsR; lia). lia. }
  assert (Ej : j2 = j).
  { destruct (N.eq_dec j2 j); [assumption|]. pose proof (SkR' n). lia. }
  rewrite Ei, Ej in *. clear SkL SkR SkL' SkR' Hi2a Hj2a Hi2c Hj2c.
  (* common bookkeeping for the successor state, parameterised by the new out *)
  assert (Step : forall out' last',
            (forall v, collected out v -> collected out' v) -> collected out' (ml i) ->
            (forall a b, In (a,b) out' -> a < i+1 /\ b < j+1 /\ a < nl /\ b < nr /\ ml a = mr b /\
                   (forall a', a' < a -> ml a' <> ml a) /\ (forall b', b' < b -> mr b' <> mr b)) ->
            match last' with None => out' = [] | Some x => collected out' (N.land x mask) /\ forall a b, In (a,b) out' -> ml a <= N.land x mask end ->
            Inv (i+1) (j+1) last' out').
  { intros out' last' Hmono Hnew H1' H5'. constructor.
    - exact H1'.
    - intros a b Ha Hanl Hb Hbnr.
      destruct (N.eq_dec a i) as [->|Hne].
      + assert (mr j <= mr b) by (apply HsR; lia). split; [lia|intro; exact Hnew].
      + destruct (H2 a b) as [Hle Hc]; try assumption; try lia. split; [exact Hle|intro E; apply Hmono, Hc, E].
    - intros a b Hb Hbnr Ha Hanl.
      destruct (N.eq_dec b j) as [->|Hne].
      + assert (ml i <= ml a) by (apply HsL; lia). split; [lia|intro E; rewrite <- Ev; exact Hnew].
      + destruct (H3 a b) as [Hle Hc]; try assumption; try lia. split; [exact Hle|intro E; apply Hmono, Hc, E].
    - intros a b Ha Hanl Hb Hbnr E.
      destruct (N.eq_dec a i) as [->|Hna]; [exact Hnew|].
      destruct (N.eq_dec b j) as [->|Hnb].
      + apply Hmono. apply (H2 a j); try assumption; try lia.
      + apply Hmono. apply (H4 a b); try assumption; try lia.
    - exact H5'. }
  set (x := nth (N.to_nat i) L 0) in *.
  assert (Ex : N.land x mask = ml i) by reflexivity.
  match type of H with context [negb ?c] => destruct (negb c) eqn:NB end.
  - (* collect *)
    apply negb_true_iff, N.eqb_neq in NB.
    assert (NotColl : ~ collected out (ml i)).
    { intros (a & b & Hin & E). destruct last as [xl|].
      - destruct H5 as [Hc Hmax]. apply NB. try rewrite Ex.
        destruct Hc as (al & bl & Hinl & El).
        pose proof (Hmax a b Hin) as Hle. rewrite E in Hle.
        destruct (H1 al bl Hinl) as (Hal & _ & Halnl & _).
        assert (ml al <= ml i) by (apply HsL; lia). lia.
      - rewrite H5 in Hin. contradiction. }
    eapply IH; [|exact H]. apply Step.
    + intros v. apply collected_app.
    + exists i, j. split; [apply in_or_app; right; now left|reflexivity].
    + intros a b Hin. apply in_app_or in Hin as [Hin|[Hin|[]]].
      * specialize (H1 a b Hin). intuition lia.
      * inversion Hin; subst a b. repeat split; try lia; try assumption.
        -- intros a' Ha' E. apply NotColl. rewrite <- E. apply (H2 a' j); lia.
        -- intros b' Hb' E. apply NotColl. rewrite Ev, <- E. apply (H3 i b'); lia.
    + split.
      * rewrite Ex. exists i, j. split; [apply in_or_app; right; now left|reflexivity].
      * intros a b Hin. rewrite Ex. apply in_app_or in Hin as [Hin|[Hin|[]]].
        -- destruct (H1 a b Hin) as (Ha & _ & Hanl & _). apply HsL; lia.
        -- inversion Hin; subst. lia.
  - (* already collected: skip *)
    apply negb_false_iff, N.eqb_eq in NB. try rewrite Ex in NB.
    assert (Coll : collected out (ml i)).
    { destruct last as [xl|].
      - destruct H5 as [Hc _]. rewrite NB in Hc. exact Hc.
      - exfalso. apply (Hsent i Hi). symmetry. exact NB. }
    eapply IH; [|exact H]. apply Step.
    + auto.
    + exact Coll.
    + intros a b Hin. specialize (H1 a b Hin). intuition lia.
    + exact H5.
Qed.

Theorem intersect_drop_correct : forall res, intersect_drop L R mask = Done res -> Post res.
Proof.
  intros res H. unfold intersect_drop in H. eapply outer_correct; [|exact H].
  constructor.
  - intros a b [].
  - intros; lia.
  - intros; lia.
  - intros; lia.
  - reflexivity.
Qed.
End C.
Print Assumptions intersect_drop_correct.
