From Coq Require Import NArith ZArith List Lia Bool ZifyBool ZifyN.
Ltac Zify.zify_post_hook ::= Z.div_mod_to_equations.
Import ListNotations.
Open Scope N_scope.

Definition word_of (k b s : N) : N := k * 2^36 + b * 2^18 + s.
Definition key_of (w:N) := N.shiftr w 36.
Definition bucket_of (w:N) := N.land (N.shiftr w 18) (N.ones 18).
Definition bits_of (w:N) := N.land w (N.ones 18).
Definition header_mask : N := N.shiftl (N.ones 46) 18.
Definition header (w:N) := N.land w header_mask.

Example hm_val : header_mask = 0xFFFFFFFFFFFC0000. Proof. reflexivity. Qed.

Lemma pow36 : 2^36 = 68719476736. Proof. reflexivity. Qed.
Lemma pow18 : 2^18 = 262144. Proof. reflexivity. Qed.

Lemma key_of_word k b s : b < 2^18 -> s < 2^18 -> key_of (word_of k b s) = k.
Proof.
  intros Hb Hs. unfold key_of, word_of. rewrite N.shiftr_div_pow2.
  rewrite pow36, pow18 in *. lia.
Qed.

Lemma bits_of_word k b s : s < 2^18 -> bits_of (word_of k b s) = s.
Proof.
  intros Hs. unfold bits_of, word_of. rewrite N.land_ones.
  rewrite pow36, pow18 in *. lia.
Qed.

Lemma bucket_of_word k b s : b < 2^18 -> s < 2^18 -> bucket_of (word_of k b s) = b.
Proof.
  intros Hb Hs. unfold bucket_of, word_of. rewrite N.land_ones, N.shiftr_div_pow2.
  rewrite pow36, pow18 in *. lia.
Qed.

(* header: land with a non-(2^n-1) mask, via bitwise extensionality *)
Lemma header_as_arith w : w < 2^64 -> header w = (w / 2^18) * 2^18.
Proof.
  intros Hw. unfold header, header_mask.
  rewrite <- N.shiftl_mul_pow2, <- N.shiftr_div_pow2.
  apply N.bits_inj; intro i.
  rewrite N.land_spec.
  destruct (N.ltb_spec i 18) as [Hi|Hi].
  - rewrite !N.shiftl_spec_low by assumption. now rewrite andb_false_r.
  - rewrite !N.shiftl_spec_high' by assumption.
    rewrite N.shiftr_spec'. replace (i - 18 + 18) with i by lia.
    destruct (N.ltb_spec (i-18) 46) as [Hj|Hj].
    + rewrite N.ones_spec_low by assumption. now rewrite andb_true_r.
    + rewrite N.ones_spec_high by assumption. rewrite andb_false_r.
      symmetry. apply N.bits_above_log2.
      destruct (N.eq_dec w 0) as [->|Hnz]; [simpl; lia|].
      apply N.log2_lt_pow2; [lia|].
      eapply N.lt_le_trans; [exact Hw|]. apply N.pow_le_mono_r; lia.
Qed.

Lemma header_of_word k b s : k < 2^28 -> b < 2^18 -> s < 2^18 -> header (word_of k b s) = word_of k b 0.
Proof.
  intros Hk Hb Hs. rewrite header_as_arith.
  - unfold word_of. rewrite pow36, pow18 in *. change (2^28) with 268435456 in Hk. lia.
  - unfold word_of. rewrite pow36, pow18 in *. change (2^28) with 268435456 in Hk. change (2^64) with 18446744073709551616. lia.
Qed.

(* lexicographic order of words *)
Lemma word_lt k b s k' b' s' : b < 2^18 -> s < 2^18 -> b' < 2^18 -> s' < 2^18 ->
  (word_of k b s < word_of k' b' s' <-> (k < k' \/ (k = k' /\ (b < b' \/ (b = b' /\ s < s'))))).
Proof.
  intros. unfold word_of. rewrite pow36, pow18 in *. lia.
Qed.

(* one-hot payload bit: position p -> bit (p mod 18), bucket p/18 *)
Definition onehot (p:N) := N.shiftl 1 (p mod 18).
Lemma onehot_lt p : onehot p < 2^18.
Proof.
  unfold onehot. rewrite N.shiftl_1_l. apply N.pow_lt_mono_r; [lia|].
  apply N.mod_lt. lia.
Qed.
Lemma testbit_onehot p i : N.testbit (onehot p) i = (i =? p mod 18).
Proof.
  unfold onehot. rewrite N.shiftl_1_l. rewrite N.pow2_bits_eqb. apply N.eqb_sym.
Qed.
Print Assumptions header_of_word.
Print Assumptions word_lt.
