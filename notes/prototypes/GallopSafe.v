From Coq Require Import NArith ZArith List Lia Bool ZifyBool ZifyN.
Ltac Zify.zify_post_hook ::= Z.div_mod_to_equations.
Import ListNotations.
Require Import Gallop.
Open Scope N_scope.

Definition is_fault {A} (r : result A) : Prop := match r with Fault _ _ => True | _ => False end.

Lemma rd_ok buf a i : i < N.of_nat (length a) -> exists v, rd buf a i = Done v.
Proof.
  intro H. unfold rd. destruct (nth_error a (N.to_nat i)) eqn:E; [eauto|].
  apply nth_error_None in E. lia.
Qed.

Section S.
Variables (L R : list N) (mask : N).
Let nl := N.of_nat (length L). Let nr := N.of_nat (length R).

(* back-off invariant of the left gallop: on exit, i1 - g1/2 is a position below nl *)
Lemma gallop_l_inv : forall fuel i j g i1 g1,
  j < nr -> i - g/2 < nl -> g/2 <= i ->
  gallop_l L R mask fuel i j g = Done (i1,g1) -> i1 - g1/2 < nl /\ g1/2 <= i1.
Proof.
  induction fuel as [|f IH]; intros i j g i1 g1 Hj Hlt Hle H; cbn [gallop_l] in H; [discriminate|].
  fold nl in H.
  destruct (i <? nl) eqn:Hi.
  - apply N.ltb_lt in Hi.
    destruct (rd_ok 0 L i Hi) as [x Ex]. destruct (rd_ok 1 R j Hj) as [y Ey].
    rewrite Ex, Ey in H. cbn [bind] in H.
    destruct (N.land x mask <? N.land y mask).
    + apply IH in H; [exact H | exact Hj | |].
      * replace (g*2/2) with g by (rewrite N.div_mul; lia). lia.
      * replace (g*2/2) with g by (rewrite N.div_mul; lia). lia.
    + inversion H; subst. split; assumption.
  - inversion H; subst. split; assumption.
Qed.

Lemma gallop_r_inv : forall fuel i j g j1 g1,
  i < nl -> j - g/2 < nr -> g/2 <= j ->
  gallop_r L R mask fuel i j g = Done (j1,g1) -> j1 - g1/2 < nr /\ g1/2 <= j1.
Proof.
  induction fuel as [|f IH]; intros i j g j1 g1 Hi Hlt Hle H; cbn [gallop_r] in H; [discriminate|].
  fold nr in H.
  destruct (j <? nr) eqn:Hj.
  - apply N.ltb_lt in Hj.
    destruct (rd_ok 1 R j Hj) as [y Ey]. destruct (rd_ok 0 L i Hi) as [x Ex].
    rewrite Ex, Ey in H. cbn [bind] in H.
    destruct (N.land y mask <? N.land x mask).
    + apply IH in H; [exact H | exact Hi | |].
      * replace (g*2/2) with g by (rewrite N.div_mul; lia). lia.
      * replace (g*2/2) with g by (rewrite N.div_mul; lia). lia.
    + inversion H; subst. split; assumption.
  - inversion H; subst. split; assumption.
Qed.

Lemma gallop_r_safe : forall fuel i j g, i < nl -> ~ is_fault (gallop_r L R mask fuel i j g).
Proof.
  induction fuel as [|f IH]; intros i j g Hi; cbn [gallop_r]; [exact (fun x => x)|].
  fold nr. destruct (j <? nr) eqn:Hj; [|exact (fun x => x)].
  apply N.ltb_lt in Hj.
  destruct (rd_ok 1 R j Hj) as [y Ey]. destruct (rd_ok 0 L i Hi) as [x Ex].
  rewrite Ex, Ey. cbn [bind].
  destruct (N.land y mask <? N.land x mask); [apply IH; exact Hi | exact (fun x => x)].
Qed.

Lemma gallop_l_safe' : forall fuel i j g, j < nr -> ~ is_fault (gallop_l L R mask fuel i j g).
Proof.
  intros fuel i j g Hj Hf. destruct (gallop_l L R mask fuel i j g) eqn:E; try exact Hf.
  eapply (gallop_l_safe L R mask fuel i j g Hj). exact E.
Qed.

(* the whole kernel never reads or writes out of bounds, for ARBITRARY (unsorted) inputs *)
Theorem outer_safe : forall fuel i j last out, ~ is_fault (outer L R mask fuel i j last out).
Proof.
  induction fuel as [|f IH]; intros i j last out; cbn [outer]; [exact (fun x => x)|].
  fold nl nr.
  destruct (andb (i <? nl) (j <? nr)) eqn:G; [|exact (fun x => x)].
  apply andb_true_iff in G as [Hi Hj]. apply N.ltb_lt in Hi, Hj.
  destruct (gallop_l L R mask 66 i j 1) as [[i1 g1]| |] eqn:EL.
  2:{ exfalso. eapply gallop_l_safe'; [exact Hj|]. rewrite EL. exact I. }
  2:{ exact (fun x => x). }
  cbn [bind].
  destruct (gallop_l_inv 66 i j 1 i1 g1 Hj) as [Hi2 _]; [simpl; lia | simpl; lia | exact EL |].
  set (i2 := i1 - g1/2) in *.
  destruct (gallop_r L R mask 66 i2 j 1) as [[j1 g2]| |] eqn:ER.
  2:{ exfalso. eapply (gallop_r_safe 66 i2 j 1 Hi2). rewrite ER. exact I. }
  2:{ exact (fun x => x). }
  cbn [bind].
  destruct (gallop_r_inv 66 i2 j 1 j1 g2 Hi2) as [Hj2 _]; [simpl; lia | simpl; lia | exact ER |].
  set (j2 := j1 - g2/2) in *.
  destruct (rd_ok 0 L i2 Hi2) as [x Ex]. destruct (rd_ok 1 R j2 Hj2) as [y Ey].
  rewrite Ex, Ey. cbn [bind].
  destruct (N.land x mask <? N.land y mask); [apply IH|].
  destruct (N.land y mask <? N.land x mask); [apply IH|].
  destruct (negb _); apply IH.
Qed.

Theorem intersect_drop_safe : ~ is_fault (intersect_drop L R mask).
Proof. unfold intersect_drop. apply outer_safe. Qed.
End S.
Print Assumptions intersect_drop_safe.
