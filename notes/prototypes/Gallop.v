From Coq Require Import NArith List Lia Bool.
Import ListNotations.
Open Scope N_scope.

Inductive result (A:Type) := Done (a:A) | Fault (buf:N) (idx:N) | OutOfFuel.
Arguments Done {A}. Arguments Fault {A}. Arguments OutOfFuel {A}.

Definition rd (buf:N) (a:list N) (i:N) : result N :=
  match nth_error a (N.to_nat i) with Some v => Done v | None => Fault buf i end.
Definition bind {A B} (r:result A) (f:A->result B) : result B :=
  match r with Done a => f a | Fault b i => Fault b i | OutOfFuel => OutOfFuel end.
Notation "'do' x <- r ; k" := (bind r (fun x => k)) (at level 200, x name, r at level 100, k at level 200).

Section K.
Variables (L R : list N) (mask : N).
Let nl := N.of_nat (length L). Let nr := N.of_nat (length R).

(* while lhs_ptr < end and (lhs[0]&mask) < (rhs[0]&mask): lhs_ptr += gallop; gallop *= 2 *)
Fixpoint gallop_l (fuel:nat) (i j g:N) : result (N*N) :=
  match fuel with O => OutOfFuel | S f =>
    if i <? nl then
      do x <- rd 0 L i; do y <- rd 1 R j;
      if N.land x mask <? N.land y mask then gallop_l f (i+g) j (g*2) else Done (i,g)
    else Done (i,g)
  end.
Fixpoint gallop_r (fuel:nat) (i j g:N) : result (N*N) :=
  match fuel with O => OutOfFuel | S f =>
    if j <? nr then
      do y <- rd 1 R j; do x <- rd 0 L i;
      if N.land y mask <? N.land x mask then gallop_r f i (j+g) (g*2) else Done (j,g)
    else Done (j,g)
  end.

(* outer loop; last = None encodes the initial all-ones sentinel compared under mask *)
Fixpoint outer (fuel:nat) (i j:N) (last:option N) (out:list (N*N)) : result (list (N*N)) :=
  match fuel with O => OutOfFuel | S f =>
    if andb (i <? nl) (j <? nr) then
      do ig <- gallop_l 66 i j 1; let '(i1,g1) := ig in let i2 := i1 - g1/2 in
      do jg <- gallop_r 66 i2 j 1; let '(j1,g2) := jg in let j2 := j1 - g2/2 in
      do x <- rd 0 L i2; do y <- rd 1 R j2;
      let mx := N.land x mask in let my := N.land y mask in
      if mx <? my then outer f (i2+1) j2 last out
      else if my <? mx then outer f i2 (j2+1) last out
      else
        let lastm := match last with None => N.land (2^64-1) mask | Some v => N.land v mask end in
        if negb (lastm =? mx) then outer f (i2+1) (j2+1) (Some x) (out ++ [(i2,j2)])
        else outer f (i2+1) (j2+1) last out
    else Done out
  end.
Definition intersect_drop := outer (length L + length R + 2) 0 0 None [].
End K.

Definition ALL := 2^64-1.
Eval vm_compute in intersect_drop [1;2;3;5;5;9;100;101;200] [0;5;5;6;7;8;9;10;11;12;13;14;15;16;100;200;300] ALL.
Eval vm_compute in intersect_drop [] [1] ALL.
Eval vm_compute in intersect_drop [7] [1;2;3;4;5;6;7] ALL.

(* gauge proof effort: the left gallop never faults when j < nr and starting i is anything *)
Lemma gallop_l_safe : forall L R mask fuel i j g,
  j < N.of_nat (length R) ->
  (forall b k, gallop_l L R mask fuel i j g <> Fault b k).
Proof.
  intros L R mask fuel. induction fuel as [|f IH]; intros i j g Hj b k; cbn [gallop_l]; [discriminate|].
  destruct (i <? N.of_nat (length L)) eqn:Hi; [|discriminate].
  apply N.ltb_lt in Hi.
  unfold rd.
  destruct (nth_error L (N.to_nat i)) eqn:EL.
  2:{ apply nth_error_None in EL. lia. }
  destruct (nth_error R (N.to_nat j)) eqn:ER.
  2:{ apply nth_error_None in ER. lia. }
  cbn [bind].
  destruct (N.land n mask <? N.land n0 mask); [apply IH; assumption | discriminate].
Qed.
Print Assumptions gallop_l_safe.
