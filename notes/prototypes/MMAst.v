From Coq Require Import ZArith List Lia Bool ZifyBool.
Ltac Zify.zify_post_hook ::= Z.div_mod_to_equations.
Import ListNotations.
Open Scope Z_scope.

Inductive simple := SInt (c:Z) | SPct (p:Z).
Inductive mmspec := Simple (s:simple) | Cond (cl : list (Z * simple)).

(* ---- model: follows solr.py:parse_min_should_match, percentage step abstracted as [pct] ---- *)
Section M.
Variable pct : Z -> Z -> Z.            (* int((n*p) * (1/100)) as Python computes it *)
Definition clamp (n r : Z) := Z.min n (Z.max r 0).
Definition m_simple (n:Z) (s:simple) : Z :=
  match s with
  | SInt c => clamp n (if c <? 0 then n + c else c)
  | SPct p => let calc := pct n p in clamp n (if n * p <? 0 then n + calc else calc)
  end.
Fixpoint m_cond (n result : Z) (cl : list (Z*simple)) : Z :=
  match cl with
  | [] => result
  | (ub, s) :: rest => if n <=? ub then result else m_cond n (m_simple n s) rest
  end.
Definition mm_model (n:Z) (sp:mmspec) : Z :=
  match sp with Simple s => m_simple n s | Cond cl => m_cond n n cl end.
End M.

(* ---- spec: Solr's documented meaning, exact arithmetic, declarative ---- *)
Definition s_simple (n:Z) (s:simple) : Z :=
  match s with
  | SInt c => if c <? 0 then Z.max 0 (n + c) else Z.min n c
  | SPct p => if p <? 0 then Z.max 0 (n - (n * (-p)) / 100)      (* rounded down, then subtracted *)
              else Z.min n ((n * p) / 100)                         (* rounded down *)
  end.
Fixpoint take_below (n:Z) (cl : list (Z*simple)) : list (Z*simple) :=
  match cl with [] => [] | (ub,s)::rest => if ub <? n then (ub,s) :: take_below n rest else [] end.
Definition solr_mm (n:Z) (sp:mmspec) : Z :=
  match sp with
  | Simple s => s_simple n s
  | Cond cl => match rev (take_below n cl) with [] => n | (_,s)::_ => s_simple n s end
  end.

Definition pct_exact (n p : Z) := Z.quot (n*p) 100.

Lemma simple_eq n s : 0 <= n -> m_simple pct_exact n s = s_simple n s.
Proof.
  intros Hn. destruct s as [c|p]; unfold m_simple, s_simple, clamp, pct_exact.
  - destruct (c <? 0) eqn:E; lia.
  - destruct (p <? 0) eqn:Ep; destruct (n*p <? 0) eqn:Enp.
    + assert (Q: Z.quot (n*p) 100 = - ((n * - p) / 100)).
      { replace (n*p) with (- (n * -p)) by lia. rewrite Z.quot_opp_l by lia.
        rewrite Z.quot_div_nonneg by nia. reflexivity. }
      rewrite Q. assert (0 <= (n * - p) / 100) by (apply Z.div_pos; nia). lia.
    + assert (n = 0) by nia. subst n. cbn. lia.
    + nia.
    + rewrite Z.quot_div_nonneg by nia. assert (0 <= (n*p)/100) by (apply Z.div_pos; nia). lia.
Qed.

Lemma s_simple_bounds n s : 0 <= n -> 0 <= s_simple n s <= n.
Proof.
  intros Hn. destruct s as [c|p]; unfold s_simple.
  - destruct (c <? 0) eqn:E; lia.
  - destruct (p <? 0) eqn:E.
    + assert (0 <= (n * - p) / 100) by (apply Z.div_pos; nia). lia.
    + assert (0 <= (n*p)/100) by (apply Z.div_pos; nia). lia.
Qed.

(* loop with early return = "last clause among the prefix whose bounds are below n" *)
Lemma cond_eq n : 0 <= n -> forall cl result,
  m_cond pct_exact n result cl =
  match rev (take_below n cl) with [] => result | (_,s)::_ => s_simple n s end.
Proof.
  intros Hn. induction cl as [|[ub s] rest IH]; intros result; cbn [m_cond take_below]; [reflexivity|].
  destruct (n <=? ub) eqn:E1; destruct (ub <? n) eqn:E2; try lia.
  - reflexivity.
  - rewrite IH. cbn [rev]. rewrite simple_eq by assumption.
    destruct (rev (take_below n rest)) as [|[u2 s2] t]; reflexivity.
Qed.

Theorem mm_model_is_solr n sp : 0 <= n -> mm_model pct_exact n sp = solr_mm n sp.
Proof.
  intros Hn. destruct sp as [s|cl]; cbn [mm_model solr_mm]; [apply simple_eq; assumption|apply cond_eq; assumption].
Qed.

Theorem solr_mm_bounds n sp : 0 <= n -> 0 <= solr_mm n sp <= n.
Proof.
  intros Hn. destruct sp as [s|cl]; cbn [solr_mm]; [apply s_simple_bounds; assumption|].
  destruct (rev (take_below n cl)) as [|[u s] t]; [lia|apply s_simple_bounds; assumption].
Qed.
Print Assumptions mm_model_is_solr.
Print Assumptions solr_mm_bounds.
Example ex1 : mm_model pct_exact 10 (Cond [(2, SPct (-25)); (9, SInt (-3))]) = 7. Proof. reflexivity. Qed.
Example ex2 : mm_model pct_exact 5 (Cond [(2, SPct (-25)); (9, SInt (-3))]) = 4. Proof. reflexivity. Qed.
