From Coq Require Import ZArith List.
From Flocq Require Import IEEE754.BinarySingleNaN IEEE754.Binary IEEE754.Bits.
Import ListNotations.
Open Scope Z_scope.
Definition fmul := b32_mult mode_NE.
Definition fadd := b32_plus mode_NE.
Definition fdiv := b32_div mode_NE.
Definition bm25 (tf dl avg idf k1 b omb : binary32) : binary32 :=
  fmul (fdiv tf (fadd tf (fmul k1 (fadd omb (fmul b (fdiv dl avg)))))) idf.
Definition run (x : Z) := bits_of_b32 (bm25 (b32_of_bits x) (b32_of_bits 0x40a00000) (b32_of_bits 0x40480000) (b32_of_bits 0x3f317218) (b32_of_bits 0x3f99999a) (b32_of_bits 0x3f400000) (b32_of_bits 0x3e800000)).
Time Eval vm_compute in map run [0x40000000; 0x3f800000; 0x40400000; 0].
Definition many := List.concat (List.repeat [0x40000000; 0x3f800000; 0x40400000; 0] 500).
Time Eval vm_compute in List.length (List.filter (fun z => Z.eqb z 0) (map run many)).
Require Import Extraction ExtrOcamlBasic.
Extraction "f32.ml" run.
