from oracle import *
import sys
from searcharray.phrase import middle_out as mo
rng=random.Random(int(sys.argv[1]))
bad={}; cnt={}
def rec(k,m):
    bad.setdefault(k,[0,[]]); bad[k][0]+=1
    if len(bad[k][1])<2: bad[k][1].append(str(m)[:500])
for it in range(500):
    V=[chr(97+i) for i in range(rng.choice([1,2,2,3]))]
    nd=rng.choice([1,2,5,12])
    docs=[" ".join(rng.choice(V) for _ in range(rng.choice([2,5,17,18,19,36,40,90,200]))) for _ in range(nd)]
    arr=SearchArray.index(docs,workers=1)
    VV=[t for t in V if t in arr.term_dict.term_to_ids]
    for _ in range(12):
        n=rng.choice([2,3,3,4,5,6,8])
        # bias to repeats
        ph=[]
        for i in range(n):
            ph.append(ph[-1] if ph and rng.random()<0.5 else rng.choice(VV))
        if not any(a==b for a,b in zip(ph,ph[1:])): continue
        enc=[arr.posns.encoded_term_posns[arr.term_dict.get_term_id(t)] for t in ph]
        hi=naive_phrase(docs,ph); lo=naive_phrase_nonoverlap(docs,ph)
        for name,fn in [("L2R",mo._compute_phrase_freqs_left_to_right),("R2L",mo._compute_phrase_freqs_right_to_left),("API",None)]:
            try:
                if fn is None: got=[float(x) for x in arr.termfreqs(ph)]
                else:
                    ids,counts=fn(list(enc)); got=[0.0]*len(docs)
                    for i,c in zip(ids,counts): got[int(i)]=float(c)
            except Exception as e: rec(name+"_exc",(ph,repr(e)[:100])); continue
            cnt[name]=cnt.get(name,0)+1
            for d,(g,h,l) in enumerate(zip(got,hi,lo)):
                if (g>0)!=(h>0): rec(name+"_support",(docs[d],ph,g,h,l)); break
                if not (l<=g<=h): rec(name+"_bounds",(docs[d],ph,g,h,l)); break
print(cnt)
for k,v in bad.items(): print("==",k,v[0],v[1])
