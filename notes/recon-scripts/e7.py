from oracle import *
import time
L=262143
def mk(n, tailmarks=True):
    toks=["f"]*n
    toks[0]="first"; 
    if n>5: toks[5]="m"; toks[6]="n"
    for p,name in [(L-2,"pA"),(L-1,"pB"),(L,"pC"),(L+1,"pD")]:
        if p<n: toks[p]=name
    return " ".join(toks)
for n in [L-1, L, L+1, L+3]:
    for trunc in [False, True]:
        t0=time.time()
        docs=["x y", mk(n), "y x pC"]
        try:
            a=SearchArray.index(docs, truncate=trunc, batch_size=2)
        except Exception as e:
            print(n-L, trunc, "EXC", type(e).__name__, str(e)[:80]); continue
        res={}
        for q in ["pA","pB","pC","pD","x",["pA","pB"],["pB","pC"],["m","n"]]:
            try: res[str(q)]=list(map(float,a.termfreqs(q)))
            except Exception as e: res[str(q)]="EXC "+type(e).__name__+" "+str(e)[:60]
        print(n-L, trunc, "lens", list(a.doclengths()), res, round(time.time()-t0,1),"s")
