from oracle import *
import sys
rng=random.Random(int(sys.argv[1]) if len(sys.argv)>1 else 0)
bad={}
def rec(k,msg):
    bad.setdefault(k,[]); 
    if len(bad[k])<3: bad[k].append(msg)
for it in range(400):
    V=[chr(97+i) for i in range(rng.choice([2,3,5,8]))]
    nd=rng.choice([1,2,3,7,10,11,19,20,21,33])
    docs=gen_corpus(rng,nd,V,rng.choice([4,20,60,200]))
    if all(d=="" for d in docs) and rng.random()<0.8: continue
    bs=rng.choice([1,2,3,5,100000]); w=rng.choice([1,2,4])
    try:
        arr=SearchArray.index(docs,batch_size=bs,workers=w)
    except Exception as e:
        rec("index_exc",(docs,bs,w,repr(e))); continue
    for t in V+["zz"]:
        try:
            got=list(arr.termfreqs(t)); exp=naive_tf(docs,t)
            if got!=exp: rec("C01",(docs,bs,w,t,got,exp))
        except Exception as e: rec("C01exc",(docs,bs,w,t,repr(e)))
        try:
            df=int(arr.docfreq(t)); e=sum(1 for x in naive_tf(docs,t) if x>0)
            if df!=e: rec("C02df",(docs,bs,w,t,df,e))
        except Exception as e: rec("C02exc",(docs,bs,w,t,repr(e)))
        if t!="zz":
            try:
                got=[list(map(int,x)) for x in arr.positions(t)]; exp=naive_pos(docs,t)
                if got!=exp: rec("C05",(docs,bs,w,t,got,exp))
            except Exception as e: rec("C05exc",(docs,bs,w,t,repr(e)))
    dl=list(arr.doclengths()); e=[len(tok(d)) for d in docs]
    if dl!=e: rec("C02len",(docs,bs,w,dl,e))
    if len(arr)!=len(docs): rec("len",(docs,))
    if abs(arr.avg_doc_length-np.mean(e))>1e-6 or arr.corpus_size!=len(docs): rec("C02avg",(docs,bs,w,arr.avg_doc_length,np.mean(e)))
    for _ in range(12):
        n=rng.choice([2,2,3,3,4,5,6,8])
        ph=[rng.choice(V+["zz"]*(rng.random()<0.1)) for _ in range(n)]
        adjrep=any(a==b for a,b in zip(ph,ph[1:]))
        try:
            got=list(arr.termfreqs(ph)); exp=naive_phrase(docs,ph); lo=naive_phrase_nonoverlap(docs,ph)
            if not adjrep:
                if got!=exp: rec("C03",(docs,bs,w,ph,got,exp))
            else:
                for g,hi,l in zip(got,exp,lo):
                    if (g>0)!=(hi>0) or not (l<=g<=hi): rec("C03rep",(docs,bs,w,ph,got,exp,lo)); break
        except Exception as e: rec("C03exc",(docs,bs,w,ph,repr(e)))
for k,v in bad.items():
    print("==",k,len(v))
    for m in v: print("   ",m)
print("done")
