import numpy as np, pandas as pd, warnings
warnings.filterwarnings("ignore")
from searcharray import SearchArray
docs = ["a b c a b", "b c d", "", "a a a b", "d e f a b", "x y z", "a b", "c c c"]
arr = SearchArray.index(docs)
print("tf a", arr.termfreqs("a"))
print("df a", arr.docfreq("a"), "lens", arr.doclengths(), arr.avg_doc_length, arr.corpus_size)
print("phrase a b", arr.termfreqs(["a","b"]))
# C06 views
for key in [slice(None,None,-1), [3,1,0], [0,0,3], np.array([-1,-2]), slice(1,6,2), np.array([True,False]*4)]:
    try:
        v = arr[key]
        exp = arr.termfreqs("a")[key]
        got = v.termfreqs("a")
        print("key", key, "tf ok" if np.array_equal(exp, got) else f"tf MISMATCH exp {exp} got {got}")
    except Exception as e:
        print("key", key, "tf EXC", type(e).__name__, e)
    try:
        exp = arr.termfreqs(["a","b"])[key]
        got = v.termfreqs(["a","b"])
        print("   phrase ok" if np.array_equal(exp, got) else f"   phrase MISMATCH exp {exp} got {got}")
    except Exception as e:
        print("   phrase EXC", type(e).__name__, e)
    try:
        exp = arr.score("a")[key]
        got = v.score("a")
        print("   score ok" if np.allclose(exp, got) else f"   score MISMATCH exp {exp} got {got}")
    except Exception as e:
        print("   score EXC", type(e).__name__, e)
    try:
        exp = [list(x) for x in np.array(arr.positions("a"),dtype=object)[key]]
        got = [list(x) for x in v.positions("a")]
        print("   posn ok" if exp==got else f"   posn MISMATCH exp {exp} got {got}")
    except Exception as e:
        print("   posn EXC", type(e).__name__, e)
