from oracle import *
import pickle, tempfile, os, sys, threading, pandas as pd
docs=["a b c a b","b c d","","a a a b","d e f a b","x y z","a b","c c c"]*5
arr=SearchArray.index(docs)
print("--- C07: slicing a view changes the view's later score?")
v=arr[2:20]
s1=v.score("a").copy(); df1=v.docfreq("a")
w=v[1:5]
s2=v.score("a"); df2=v.docfreq("a")
print("df before/after", df1, df2, "score same:", np.array_equal(s1,s2))
print("--- C07: in-place bm25 mutate cached tf?")
big=SearchArray.index(["a b"]*300+["a a c"]*300, cache_gt_than=5)
t1=big.termfreqs("a").copy(); sc=big.score("a"); t2=big.termfreqs("a")
print("tf same after score:", np.array_equal(t1,t2))
# custom similarity that mutates tfs
print("--- C18 pickle")
for dd in [None, tempfile.mkdtemp(dir="/var/tmp/explore")]:
    a=SearchArray.index(docs, data_dir=dd)
    b=pickle.loads(pickle.dumps(a))
    print(dd, "tf eq", np.array_equal(a.termfreqs("a"), b.termfreqs("a")), "score eq", np.array_equal(a.score(["a","b"]), b.score(["a","b"])))
    vv=a[3:17]; bv=pickle.loads(pickle.dumps(vv))
    try: print("  view tf eq", np.array_equal(vv.termfreqs("a"), bv.termfreqs("a")), "score eq", np.array_equal(vv.score("a"), bv.score("a")))
    except Exception as e: print("  view EXC", repr(e)[:200])
    if dd:
        a2=SearchArray.index(["q r s"]*4, data_dir=dd)
        print("  files:", sorted(os.listdir(dd)))
        b=pickle.loads(pickle.dumps(a))
        print("  after 2nd index, first still ok:", np.array_equal(a.termfreqs("a"), b.termfreqs("a")), list(a2.termfreqs("q")))
        a3=SearchArray.index(["z z"]*3, data_dir=dd); print("  files:", sorted(os.listdir(dd)))
        print("  a:",list(a.termfreqs("a"))[:8]," a2:", list(a2.termfreqs("q")), " a3:", list(a3.termfreqs("z")))
print("--- C19 rebuild")
a=SearchArray.index(docs[:8])
for name,mk in [("ctor list", lambda: SearchArray(list(a))), ("concat", lambda: pd.concat([pd.Series(a), pd.Series(a[2:5])]).array),
                ("view list", lambda: SearchArray(list(a[[3,0,6]]))),
                ("take fill", lambda: a.take([0,-1,3], allow_fill=True)),
                ("astype obj", lambda: pd.Series(a).astype(object).astype(a.dtype).array),
                ("reindex", lambda: pd.Series(a).reindex([7,2,9,0]).array), ("shift", lambda: pd.Series(a).shift(2).array)]:
    try:
        r=mk()
        print(name, "len", len(r), "tf a", list(r.termfreqs("a")), "ph", list(r.termfreqs(["a","b"])), "lens", list(r.doclengths()), "pos", [list(map(int,x)) for x in r.positions("a")], "df", r.docfreq("a"))
    except Exception as e:
        import traceback; print(name,"EXC",repr(e)[:300])
