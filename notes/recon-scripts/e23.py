from oracle import *
import pickle, subprocess, tempfile, os, sys, json, shutil
rng=random.Random(11)
V=[f"t{i}" for i in range(40)]
docs=[" ".join(rng.choice(V) for _ in range(rng.choice([0,0,1,3,8,20,40]))) for _ in range(57)]
for use_dir in [False, True]:
    dd=tempfile.mkdtemp(dir="/var/tmp/explore")
    a=SearchArray.index(docs,data_dir=dd if use_dir else None); v=a[5:40:3]
    pickle.dump((a,v),open(dd+"/x.pkl","wb"))
    code="import pickle,sys,json,logging,warnings;logging.disable(50);a,v=pickle.load(open(sys.argv[1],'rb'));print(json.dumps([list(map(float,a.termfreqs('t1'))),list(map(float,v.termfreqs('t1'))),list(map(float,a.score(['t0','t1']))),list(map(float,v.score('t1'))), int(v.docfreq('t1')), int(a.docfreq('t1'))]))"
    out=subprocess.run([sys.executable,"-c",code,dd+"/x.pkl"],capture_output=True,text=True,env=dict(os.environ))
    got=json.loads(out.stdout.strip().splitlines()[-1])
    exp=[list(map(float,a.termfreqs('t1'))),list(map(float,v.termfreqs('t1'))),list(map(float,a.score(['t0','t1']))),list(map(float,v.score('t1'))), int(v.docfreq('t1')), int(a.docfreq('t1'))]
    print("use_dir",use_dir,[g==e for g,e in zip(got,exp)], "v.df fresh/orig", got[4], exp[4])
    # same process round trip, query order matters?
    a2,v2=pickle.loads(pickle.dumps((a,v)))
    print("   same-process:", list(map(float,v2.score('t1')))==exp[3], int(v2.docfreq('t1')), "orig v df now", int(v.docfreq('t1')))
    shutil.rmtree(dd)
