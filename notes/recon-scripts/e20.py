import numpy as np, logging, warnings
warnings.filterwarnings("ignore"); logging.disable(logging.CRITICAL)
from searcharray import SearchArray
docs=["a b c a b","b c d","","a a a b","d e f a b","x y z","a b","c c c"]
arr=SearchArray.index(docs)
v=arr[1:6:2]
print("doc_lens of view", v.doclengths(), "strides", v.doclengths().strides, "contig", v.doclengths().flags['C_CONTIGUOUS'])
print("score", v.score("a"), "parent[key]", arr.score("a")[1:6:2])
r=arr[::-1]
print("rev score", r.score("a"))
