from oracle import *
import sys
seed=int(sys.argv[1]); rng=random.Random(seed)
def inorder_window(ts, ph, W):
    n=len(ts)
    for s in range(n):
        if ts[s]!=ph[0]: continue
        i=s; ok=True
        for t in ph[1:]:
            j=i+1
            while j<n and j-s+1<=W and ts[j]!=t: j+=1
            if j>=n or j-s+1>W: ok=False;break
            i=j
        if ok: return True
    return False
bad={}
def rec(k,m):
    bad.setdefault(k,[0,[]]); bad[k][0]+=1
    if len(bad[k][1])<2: bad[k][1].append(m)
tot=0
for it in range(25):
    nt=rng.choice([2,3,4,6]); V=[chr(97+i) for i in range(rng.choice([nt,nt+1,nt+4]))]
    L=rng.choice([100,250,400,800])
    nd=rng.choice([2,5,12])
    docs=[]
    for _ in range(nd):
        style=rng.random()
        if style<0.25: docs.append(" ".join(rng.choice(V[1:]) for _ in range(L)))   # lacks V[0]
        elif style<0.4: docs.append("")
        else: docs.append(" ".join(rng.choice(V) for _ in range(rng.choice([5,L]))))
    if all(d=="" for d in docs): continue
    arr=SearchArray.index(docs,workers=1)
    VV=[t for t in V if t in arr.term_dict.term_to_ids]
    if len(VV)<nt: continue
    for _ in range(4):
        ph=rng.sample(VV,nt); slop=rng.choice([1,3,10,12,17,25,40])
        print("CASE",seed,it,[len(d.split()) for d in docs],ph,slop,flush=True)
        got=arr.termfreqs(ph,slop=slop); tot+=1
        exact=naive_phrase(docs,ph)
        for i,d in enumerate(docs):
            ts=tok(d); g=float(got[i])
            if g<0 or g!=int(g): rec("nonint",(len(ts),ph,slop,g))
            if exact[i]>0 and g<=0: rec("lost_exact",(len(ts),ph,slop,g,i))
            if g>0 and not all(t in ts for t in ph): rec("missing_term",(len(ts),ph,slop,g,i,[t for t in ph if t not in ts]))
            if nt+slop<=18 and inorder_window(ts,ph,nt+slop) and g<=0: rec("lost_window",(len(ts),ph,slop,g,i))
print("EVALS",tot)
for k,v in bad.items(): print("==",k,v[0],v[1])
