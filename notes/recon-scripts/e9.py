from oracle import *
import sys
rng=random.Random(int(sys.argv[1]) if len(sys.argv)>1 else 0)
bad={}
def rec(k,m):
    bad.setdefault(k,[0,[]]); bad[k][0]+=1
    if len(bad[k][1])<3: bad[k][1].append(m)
def inorder_window(ts, ph, W):
    # exists i0<i1<...: ts[ij]==ph[j], i_last - i0 + 1 <= W
    n=len(ts)
    for s in range(n):
        if ts[s]!=ph[0]: continue
        i=s; ok=True
        for t in ph[1:]:
            j=i+1
            while j<n and j-s+1<=W and ts[j]!=t: j+=1
            if j>=n or j-s+1>W: ok=False;break
            i=j
        if ok: return True
    return False
tot=0
for it in range(300):
    V=[chr(97+i) for i in range(rng.choice([3,5,8,12]))]
    nd=rng.choice([1,3,8,20])
    docs=gen_corpus(rng,nd,V,rng.choice([6,20,60,200]))
    if all(d=="" for d in docs): continue
    arr=SearchArray.index(docs,workers=1)
    VV=[t for t in V if t in arr.term_dict.term_to_ids]
    for _ in range(8):
        n=rng.choice([2,3,4,5,6])
        if rng.random()<0.7 and len(VV)>=n: ph=rng.sample(VV,n)
        else: ph=[rng.choice(VV) for _ in range(n)]
        slop=rng.choice([1,2,3,5,10,18,40])
        distinct=len(set(ph))==n
        try:
            got=arr.termfreqs(ph,slop=slop)
        except Exception as e:
            rec("exc",(docs,ph,slop,repr(e)[:200])); continue
        tot+=1
        if len(got)!=len(docs): rec("len",(docs,ph,slop,len(got))); continue
        exact=naive_phrase(docs,ph)
        for i,d in enumerate(docs):
            ts=tok(d); g=float(got[i])
            if g<0 or g!=int(g): rec("nonint",(d,ph,slop,g))
            if exact[i]>0 and g<=0: rec("lost_exact",(d,ph,slop,g,"ndocs",len(docs),"i",i))
            if g>0 and not all(t in ts for t in ph): rec("missing_term",(d,ph,slop,g,"ndocs",len(docs),"i",i))
            if distinct and n+slop<=18 and inorder_window(ts,ph,n+slop) and g<=0: rec("lost_window",(d,ph,slop,g,"ndocs",len(docs),"i",i))
print("evals",tot)
for k,v in bad.items():
    print("==",k,v[0])
    for m in v[1]: print("   ",str(m)[:500])
