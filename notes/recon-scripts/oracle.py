import numpy as np, warnings, logging, random, math
warnings.filterwarnings("ignore")
logging.disable(logging.CRITICAL)
from searcharray import SearchArray

def tok(s): return s.split()
def naive_tf(docs, t): return [tok(d).count(t) for d in docs]
def naive_phrase(docs, ph):
    out=[]
    for d in docs:
        ts=tok(d); n=len(ph)
        out.append(sum(1 for i in range(len(ts)-n+1) if ts[i:i+n]==ph))
    return out
def naive_phrase_nonoverlap(docs, ph):
    out=[]
    for d in docs:
        ts=tok(d); n=len(ph); i=0; c=0
        while i<=len(ts)-n:
            if ts[i:i+n]==ph: c+=1; i+=n
            else: i+=1
        out.append(c)
    return out
def naive_pos(docs,t): return [[i for i,x in enumerate(tok(d)) if x==t] for d in docs]

def gen_corpus(rng, ndocs, vocab, maxlen, pempty=0.15):
    docs=[]
    for _ in range(ndocs):
        if rng.random()<pempty: docs.append(""); continue
        L=rng.choice([1,2,3,5,17,18,19,35,36,37,40,maxlen])
        L=min(L,maxlen)
        # skewed vocab
        docs.append(" ".join(rng.choice(vocab[:rng.choice([1,2,3,len(vocab)])]) for _ in range(L)))
    return docs
