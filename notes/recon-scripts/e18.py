import numpy as np, sys, logging, warnings, random
warnings.filterwarnings("ignore"); logging.disable(logging.CRITICAL)
from searcharray import SearchArray
# search a small trigger
for L in [20,30,40,60,100,200]:
    for slop in [1,5,17,40]:
        docs=[" ".join(["a","b"]*(L//2))]
        arr=SearchArray.index(docs,workers=1)
        print("try L",L,"slop",slop, flush=True)
        r=arr.termfreqs(["a","b"],slop=slop)
        print("   ->", r, flush=True)
