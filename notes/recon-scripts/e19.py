import numpy as np, sys, logging, warnings, random, subprocess, json, os
# driver: find a small trigger by running candidates in subprocesses
cands=[]
rng=random.Random(1)
for L in [150,250,400]:
    for nt in [2,3,4]:
        for slop in [5,17,40]:
            for rep in range(3):
                V=[chr(97+i) for i in range(nt)]
                doc=" ".join(rng.choice(V) for _ in range(L))
                cands.append((doc,V,slop))
child='''
import sys,json,logging,warnings
warnings.filterwarnings("ignore"); logging.disable(logging.CRITICAL)
from searcharray import SearchArray
doc,V,slop=json.loads(sys.argv[1])
arr=SearchArray.index([doc],workers=1)
print("R",list(map(float,arr.termfreqs(V,slop=slop))))
'''
open("/var/tmp/explore/child.py","w").write(child)
env=dict(os.environ, LD_PRELOAD=subprocess.check_output(["gcc","-print-file-name=libasan.so"]).decode().strip(), ASAN_OPTIONS="detect_leaks=0", PYTHONMALLOC="malloc", PYTHONPATH="/var/tmp/sa_asan")
best=None
for c in cands:
    p=subprocess.run(["/venv/bin/python","/var/tmp/explore/child.py",json.dumps(c)],env=env,capture_output=True,text=True)
    if "AddressSanitizer" in p.stderr:
        if best is None or len(c[0])<len(best[0]): best=c
        if len(c[0])<=2*150: break
print("smallest trigger:", best)
