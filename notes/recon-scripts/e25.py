from oracle import *
import sys, pandas as pd, re
rng=random.Random(int(sys.argv[1]))
bad={}
def rec(k,m):
    bad.setdefault(k,[0,[]]); bad[k][0]+=1
    if len(bad[k][1])<2: bad[k][1].append(str(m)[:400])
def mk_tok(kind, log):
    def base(s):
        if s is None or (isinstance(s,float) and s!=s): return []
        if kind=="ws": return s.split()
        if kind=="char": return list(s.replace(" ",""))
        if kind=="gen": return (t for t in s.split())
        if kind=="tuple": return tuple(s.split())
        if kind=="emptytok": return s.split(" ")      # yields '' tokens for double spaces
        if kind=="unicode": return [t+"é✓" for t in s.split()]
        if kind=="lower": return s.lower().split()
    def wrapped(s):
        out=list(base(s)); log.append(out); return iter(out) if kind=="gen" else out
    return wrapped
n_eval=0
for it in range(150):
    V=[chr(97+i) for i in range(rng.choice([2,4,9,30]))]
    nd=rng.choice([1,9,10,11,19,20,21,29,30,31,55,101,250])
    docs=[]
    for _ in range(nd):
        r=rng.random()
        if r<0.1: docs.append(None)
        elif r<0.15: docs.append(float('nan'))
        elif r<0.25: docs.append("")
        else:
            L=rng.choice([1,2,17,18,19,36,37,60])
            docs.append((" " if rng.random()<0.2 else "").join([]) + " ".join(rng.choice(V) for _ in range(L)) + ("  "+rng.choice(V) if rng.random()<0.2 else ""))
    if rng.random()<0.1:
        big=262143-rng.choice([0,1,2])
        docs[rng.randrange(nd)]=" ".join(rng.choice(V[:2]) for _ in range(big))
    if all((d is None or d!=d or d=="") for d in docs): continue
    kind=rng.choice(["ws","char","gen","tuple","emptytok","unicode","lower"])
    log=[]; tokz=mk_tok(kind,log)
    bs=rng.choice([1,3,7,10,100000]); w=rng.choice([1,1,2,4])
    inp=rng.choice(["list","series","nparray"])
    arg=docs if inp=="list" else (pd.Series(docs,dtype=object) if inp=="series" else np.array(docs,dtype=object))
    try:
        arr=SearchArray.index(arg,tokenizer=tokz,batch_size=bs,workers=w)
    except Exception as e:
        rec("index_exc",(kind,inp,bs,w,repr(e)[:200])); continue
    # emissions are logged in call order; with workers>1 order may interleave -> re-tokenize deterministically
    toks=[list(mk_tok(kind,[])(d)) for d in docs]
    terms=sorted({t for ts in toks for t in ts})
    for t in rng.sample(terms,min(6,len(terms)))+["@@none"]:
        n_eval+=1
        try:
            got=[float(x) for x in arr.termfreqs(t)]; exp=[float(ts.count(t)) for ts in toks]
            if got!=exp: rec("C01",(kind,inp,bs,w,t,[i for i,(g,e) in enumerate(zip(got,exp)) if g!=e][:5]))
            df=int(arr.docfreq(t)); 
            if df!=sum(1 for ts in toks if t in ts): rec("C02df",(kind,t,df))
            if t!="@@none":
                pos=[list(map(int,x)) for x in arr.positions(t)]
                if pos!=[[i for i,x in enumerate(ts) if x==t] for ts in toks]: rec("C05",(kind,inp,bs,w,t))
        except Exception as e: rec("q_exc",(kind,t,repr(e)[:200]))
    if [float(x) for x in arr.doclengths()]!=[float(len(ts)) for ts in toks]: rec("C02len",(kind,bs,w))
    if len(arr)!=nd or arr.corpus_size!=nd: rec("C02n",(kind,))
print("evals",n_eval)
for k,v in bad.items(): print("==",k,v[0],v[1])
