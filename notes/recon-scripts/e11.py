import numpy as np, random, itertools, sys
from searcharray.roaringish import intersect, adjacent, merge, unique, popcount_reduce_at, key_sum_over, sort_merge_counts
from searcharray.roaringish.intersect import intersect_with_adjacents
from searcharray.roaringish.search import binary_search, galloping_search
from searcharray.roaringish.popcount import popcount64_reduce, popcount64
from searcharray.roaringish.roaringish_ops import payload_slice, as_dense
U=lambda l: np.array(l,dtype=np.uint64)
bad={}
def rec(k,m):
    bad.setdefault(k,[0,[]]); bad[k][0]+=1
    if len(bad[k][1])<3: bad[k][1].append(m)
MASKS=[0xFFFFFFFFFFFFFFFF, 0xFFFFFFFFFFFC0000, 0xF000000000000000]
def first_idx(vals):
    d={}
    for i,v in enumerate(vals): d.setdefault(v,i)
    return d
def check_pair(l,r,mask,tag):
    delta=mask & -mask
    L=U(l); R=U(r); ml=[x&mask for x in l]; mr=[x&mask for x in r]
    fl=first_idx(ml); fr=first_idx(mr)
    common=sorted(set(ml)&set(mr))
    # drop
    try:
        li,ri=intersect(L,R,mask=mask)
        if list(li)!=[fl[v] for v in common] or list(ri)!=[fr[v] for v in common]: rec("int_drop"+tag,(l,r,hex(mask),list(li),list(ri)))
    except Exception as e: rec("int_drop_exc",(l,r,repr(e)))
    try:
        li,ri=intersect(L,R,mask=mask,drop_duplicates=False)
        if list(li)!=[i for i,v in enumerate(ml) if v in set(mr)] or list(ri)!=[i for i,v in enumerate(mr) if v in set(ml)]: rec("int_keep"+tag,(l,r,hex(mask),list(li),list(ri)))
    except Exception as e: rec("int_keep_exc",(l,r,repr(e)))
    adjv=sorted(v for v in set(ml) if (v+delta) in set(mr) and v+delta<2**64)
    try:
        li,ri=adjacent(L,R,mask=mask)
        if list(li)!=[fl[v] for v in adjv] or list(ri)!=[fr[v+delta] for v in adjv]: rec("adjacent"+tag,(l,r,hex(mask),list(li),list(ri),[fl[v] for v in adjv],[fr[v+delta] for v in adjv]))
    except Exception as e: rec("adj_exc",(l,r,repr(e)))
    try:
        li,ri,la,ra=intersect_with_adjacents(L,R,mask=mask)
        okint = list(li)==[fl[v] for v in common] and len(ri)==len(common) and all(mr[j]==v for j,v in zip(ri,common))
        okadj = list(la)==[fl[v] for v in adjv] and len(ra)==len(adjv) and all(mr[j]==v+delta for j,v in zip(ra,adjv))
        if not okint: rec("iwa_int"+tag,(l,r,hex(mask),list(li),list(ri)))
        if not okadj: rec("iwa_adj"+tag,(l,r,hex(mask),list(la),list(ra),[fl[v] for v in adjv]))
    except Exception as e: rec("iwa_exc",(l,r,repr(e)))
    if mask==MASKS[0]:
        m=merge(L,R); 
        if list(m)!=sorted(l+r): rec("merge",(l,r,list(m)))
        if len(set(l))==len(l) and len(set(r))==len(r):
            m=merge(L,R,drop_duplicates=True)
            if list(m)!=sorted(set(l)|set(r)): rec("merge_drop",(l,r,list(m)))
# exhaustive small
alpha=[0,1,2,3]
cnt=0
for mask,scale in [(MASKS[0],1),(MASKS[1],1<<18),(MASKS[2],1<<60)]:
    for nl in range(0,5):
        for nr in range(0,5):
            for l in itertools.combinations_with_replacement(alpha,nl):
                for r in itertools.combinations_with_replacement(alpha,nr):
                    # add low-bit noise for masked
                    ll=[x*scale + (0 if scale==1 else (i*7)%5) for i,x in enumerate(l)]
                    rr=[x*scale + (0 if scale==1 else (i*3)%4) for i,x in enumerate(r)]
                    ll.sort(); rr.sort()
                    check_pair(ll,rr,mask,"_small"); cnt+=1
print("small pairs",cnt)
rng=random.Random(1)
for it in range(3000):
    mask=rng.choice(MASKS); scale=mask&-mask
    def gen():
        n=rng.choice([0,1,2,5,30,200,1500])
        base=rng.choice([3,10,50,1000]) if scale<(1<<60) else rng.choice([3,10,15])
        vals=sorted(rng.randrange(0,base)*scale + (rng.randrange(0,scale) if scale>1 and rng.random()<0.5 else 0) for _ in range(n))
        return vals
    check_pair(gen(),gen(),mask,"_rand")
# unique / searches / reductions
for it in range(3000):
    n=rng.choice([0,1,2,5,40,300]); a=sorted(rng.randrange(0,rng.choice([4,50,10**6])) for _ in range(n))
    A=U(a)
    try:
        if list(unique(A))!=sorted(set(a)): rec("unique",(a,))
        sh=rng.choice([1,4,36]); 
        if list(unique(A,sh))!=sorted(set(x>>sh for x in a)): rec("unique_sh",(a,sh,list(unique(A,sh))))
    except Exception as e: rec("unique_exc",(a,repr(e)))
    if n>0:
        for t in [0, a[0], a[-1], a[-1]+1, rng.randrange(0,a[-1]+2)]:
            for fn,nm in [(binary_search,"bs"),(galloping_search,"gs")]:
                i,found=fn(A,np.uint64(t))
                lb=next((k for k,x in enumerate(a) if x>=t), None)
                if bool(found)!=(t in a): rec(nm+"_found",(a,t,int(i),bool(found)))
                if t<=a[-1] and int(i)!=lb: rec(nm+"_idx",(a,t,int(i),lb))
    ids=sorted(rng.randrange(0,6) for _ in range(n)); pay=[rng.getrandbits(64) for _ in range(n)]
    if n>0:
        k,c=popcount_reduce_at(U(ids),U(pay)); exp={}
        for i,p in zip(ids,pay): exp[i]=exp.get(i,0)+bin(p).count("1")
        if list(k)!=sorted(exp) or [int(x) for x in c]!=[exp[i] for i in sorted(exp)]: rec("pra",(ids,pay))
        small=[rng.randrange(0,100) for _ in range(n)]
        k,c=key_sum_over(U(ids),U(small)); exp={}
        for i,p in zip(ids,small): exp[i]=exp.get(i,0)+p
        if list(k)!=sorted(exp) or [int(x) for x in c]!=[exp[i] for i in sorted(exp)]: rec("kso",(ids,small))
print("done")
for k,v in bad.items():
    print("==",k,v[0])
    for m in v[1]: print("   ",str(m)[:400])
