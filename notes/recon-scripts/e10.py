import numpy as np
from searcharray.roaringish import intersect, unique
from searcharray.roaringish.search import binary_search, galloping_search
a=np.array([1,2,3,5,5],dtype=np.uint64); b=np.array([5,5,5],dtype=np.uint64)
print("keep:", intersect(a,b,drop_duplicates=False))
print("done")
