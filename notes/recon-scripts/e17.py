import numpy as np, sys, logging, warnings, random
warnings.filterwarnings("ignore"); logging.disable(logging.CRITICAL)
from searcharray import SearchArray
rng=random.Random(int(sys.argv[1]))
for it in range(60):
    nt=rng.choice([2,3,4,5,6]); V=[chr(97+i) for i in range(nt)]
    L=rng.choice([60,150,400,1200])
    docs=[" ".join(rng.choice(V) for _ in range(L)) for _ in range(rng.choice([1,3]))]+["a b"]
    arr=SearchArray.index(docs,workers=1)
    for slop in [1,5,12,17,40]:
        ph=V[:]; rng.shuffle(ph)
        r=arr.termfreqs(ph,slop=slop)
        assert len(r)==len(docs)
print("ok")
