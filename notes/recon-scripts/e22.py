from oracle import *
import searcharray.indexing as ix, concurrent.futures as cf, pickle, subprocess, tempfile, os, sys, json
rng=random.Random(11)
V=[f"t{i}" for i in range(40)]
docs=[" ".join(rng.choice(V) for _ in range(rng.choice([0,0,1,3,8,20,40]))) for _ in range(57)]
ref=SearchArray.index(docs,workers=1,batch_size=10**6)
def answers(a):
    out={t:(tuple(map(float,a.termfreqs(t))), int(a.docfreq(t)), tuple(tuple(map(int,x)) for x in a.positions(t))) for t in V if t in a.term_dict.term_to_ids}
    out['len']=tuple(map(float,a.doclengths())); out['avg']=float(a.avg_doc_length)
    out['ph']=tuple(map(float,a.termfreqs([V[0],V[1]])))
    return out
R=answers(ref)
orig=ix.as_completed
bad=0;n=0
for trial in range(60):
    perm_seed=rng.random()
    def forced(fs, _s=perm_seed):
        fs=list(fs); cf.wait(fs)
        r=random.Random(_s); r.shuffle(fs)
        return iter(fs)
    ix.as_completed=forced
    bs=rng.choice([1,2,3,5,7,10,57,58]); w=rng.choice([2,3,4,8])
    a=SearchArray.index(docs,batch_size=bs,workers=w,autowarm=rng.random()<0.5,cache_gt_than=rng.choice([0,3,25]))
    n+=1
    if answers(a)!=R: bad+=1; print("MISMATCH bs",bs,"w",w)
ix.as_completed=orig
print("forced-order trials",n,"bad",bad)
# C18 fresh interpreter
dd=tempfile.mkdtemp(dir="/var/tmp/explore")
a=SearchArray.index(docs,data_dir=dd); v=a[5:40:3]
pickle.dump((a,v),open(dd+"/x.pkl","wb"))
code="import pickle,sys,json,logging,warnings;logging.disable(50);a,v=pickle.load(open(sys.argv[1],'rb'));print(json.dumps([list(map(float,a.termfreqs('t1'))),list(map(float,v.termfreqs('t1'))),list(map(float,a.score(['t0','t1']))),list(map(float,v.score('t1')))]))"
out=subprocess.run([sys.executable,"-c",code,dd+"/x.pkl"],capture_output=True,text=True,env=dict(os.environ))
got=json.loads(out.stdout.strip().splitlines()[-1])
exp=[list(map(float,a.termfreqs('t1'))),list(map(float,v.termfreqs('t1'))),list(map(float,a.score(['t0','t1']))),list(map(float,v.score('t1')))]
print("fresh interpreter equal:", got==exp, "files", sorted(os.listdir(dd)))
import shutil; shutil.rmtree(dd)
