import numpy as np, random, sys
from searcharray.roaringish import RoaringishEncoder
from searcharray.phrase.bigram_freqs import bigram_freqs, Continuation
enc=RoaringishEncoder()
rng=random.Random(int(sys.argv[1]) if len(sys.argv)>1 else 0)
def encode(sets):  # dict doc -> sorted positions
    ks=[];ps=[]
    for d in sorted(sets):
        for p in sorted(sets[d]): ks.append(d); ps.append(p)
    if not ks: return np.array([],dtype=np.uint64)
    return enc.encode(keys=np.array(ks,dtype=np.uint64),payload=np.array(ps,dtype=np.uint64))[0]
def absf(e):
    out={}
    for w in e:
        w=int(w); d=w>>36; b=(w>>18)&0x3FFFF; s=w&0x3FFFF
        for i in range(18):
            if s>>i&1: out.setdefault(d,set()).add(18*b+i)
    return out
def gen_disjoint(ndocs):
    A={};B={};C={}
    for d in rng.sample(range(0,50),ndocs):
        base=rng.choice([0,0,0,18*rng.randrange(0,14550), 262143-rng.choice([30,60,100])])
        L=rng.choice([3,20,40,100])
        toks=[rng.choice("abcx") for _ in range(L)]
        # force boundary patterns
        for p in range(L):
            pos=base+p
            if pos>262142: break
            t=toks[p]
            if t=="a": A.setdefault(d,set()).add(pos)
            elif t=="b": B.setdefault(d,set()).add(pos)
            elif t=="c": C.setdefault(d,set()).add(pos)
    return A,B,C
bad=0;n=0;zero_words=0
for it in range(4000):
    A,B,C=gen_disjoint(rng.choice([1,2,5,12]))
    EA,EB,EC=encode(A),encode(B),encode(C)
    if len(EA)==0 or len(EB)==0: continue
    for cont in [Continuation.RHS, Continuation.LHS]:
        (ids,counts),(ln,rn)=bigram_freqs(EA.copy(),EB.copy(),cont=cont)
        n+=1
        expR={d:{p+1 for p in A[d] if p+1 in B.get(d,())} for d in A}
        expR={d:s for d,s in expR.items() if s}
        got_counts={int(i):int(c) for i,c in zip(ids,counts) if c>0}
        if got_counts!={d:len(s) for d,s in expR.items()}: bad+=1; print("COUNT",cont,A,B,got_counts) if bad<4 else None
        if cont==Continuation.RHS:
            if absf(rn)!=expR: bad+=1; print("CONT_R",A,B,absf(rn),expR) if bad<4 else None
            hdr=[int(w)>>18 for w in rn]
            if any(x>=y for x,y in zip(hdr,hdr[1:])): bad+=1; print("CONT_R not strictly increasing headers")
            zero_words+=sum(1 for w in rn if int(w)&0x3FFFF==0)
            # second step with zero-payload words present: (cont, C)
            if len(EC)>0:
                (ids2,counts2),(_,rn2)=bigram_freqs(rn.copy(),EC.copy(),cont=Continuation.RHS)
                exp2={d:{p+1 for p in s if p+1 in C.get(d,())} for d,s in expR.items()}; exp2={d:s for d,s in exp2.items() if s}
                g2={int(i):int(c) for i,c in zip(ids2,counts2) if c>0}
                if g2!={d:len(s) for d,s in exp2.items()} or absf(rn2)!=exp2: bad+=1; print("STEP2",A,B,C) if bad<4 else None
        else:
            expL={d:{p for p in A[d] if p+1 in B.get(d,())} for d in A}; expL={d:s for d,s in expL.items() if s}
            if absf(ln)!=expL: bad+=1; print("CONT_L",A,B,absf(ln),expL) if bad<4 else None
print("evals",n,"bad",bad,"zero-payload words seen in continuations",zero_words)
