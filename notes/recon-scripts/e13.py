import numpy as np, random
from searcharray.roaringish import RoaringishEncoder
enc=RoaringishEncoder()
rng=random.Random(2)
bad={}
def rec(k,m):
    bad.setdefault(k,[0,[]]); bad[k][0]+=1
    if len(bad[k][1])<3: bad[k][1].append(m)
def gen_pairs():
    nk=rng.choice([1,2,5,30])
    keyspace=rng.choice([10, 2**28])
    keys=sorted(rng.sample(range(keyspace), min(nk,keyspace))) 
    if rng.random()<0.3: keys=sorted(set(keys+[0, 2**28-1]))
    pairs=[]
    for k in keys:
        style=rng.choice(["few","run","edges","dense"])
        if style=="few": ps=rng.sample(range(262144), rng.choice([1,2,5]))
        elif style=="run": s=rng.choice([0,17,18,35,36,262100]); ps=list(range(s, min(262144,s+rng.choice([1,18,19,40]))))
        elif style=="edges": ps=[0,17,18,262125,262142,262143]
        else: b=rng.randrange(0,14563)*18; ps=list(range(b,b+18))
        for p in sorted(set(ps)): pairs.append((k,p))
    return pairs
for it in range(2000):
    pairs=gen_pairs()
    K=np.array([k for k,_ in pairs],dtype=np.uint64); P=np.array([p for _,p in pairs],dtype=np.uint64)
    e,_=enc.encode(keys=K,payload=P)
    # canonical
    hdr=[int(x)>>18 for x in e]
    if any(a>=b for a,b in zip(hdr,hdr[1:])): rec("not_increasing",pairs[:10])
    if any(int(x)&0x3FFFF==0 for x in e): rec("zero_payload",pairs[:10])
    dec=enc.decode(e)
    got=[(int(k),int(p)) for k,ps in dec for p in ps]
    if got!=pairs: rec("roundtrip",(pairs[:10],got[:10]))
    ks,cs=enc.num_values_per_key(e)
    exp={}
    for k,_ in pairs: exp[k]=exp.get(k,0)+1
    if [int(x) for x in ks]!=sorted(exp) or [int(c) for c in cs]!=[exp[k] for k in sorted(exp)]: rec("nvpk",pairs[:10])
    if [int(x) for x in enc.keys_unique(e)]!=sorted(exp): rec("keys_unique",pairs[:10])
    # slice by sorted keys
    allk=sorted(exp); sel=sorted(set(rng.sample(allk, rng.randint(0,len(allk)))+[rng.randrange(0,2**28) for _ in range(2)]))
    s=enc.slice(e, keys=np.array(sel,dtype=np.uint64))
    sub=[(k,p) for k,p in pairs if k in set(sel)]
    if sub:
        e2,_=enc.encode(keys=np.array([k for k,_ in sub],dtype=np.uint64),payload=np.array([p for _,p in sub],dtype=np.uint64))
        if list(s)!=list(e2): rec("slice",(pairs[:10],sel))
    elif len(s)!=0: rec("slice_nonempty",(pairs[:10],sel))
    # boundaries: split pairs into segments
    nseg=rng.choice([1,2,3,8,64])
    segs=[gen_pairs() for _ in range(nseg)]
    flatK=np.array([k for sg in segs for k,_ in sg],dtype=np.uint64); flatP=np.array([p for sg in segs for _,p in sg],dtype=np.uint64)
    b=np.cumsum([0]+[len(sg) for sg in segs[:-1]]).astype(np.uint64)
    eb,nb=enc.encode(keys=flatK,payload=flatP,boundaries=b)
    parts=[enc.encode(keys=np.array([k for k,_ in sg],dtype=np.uint64),payload=np.array([p for _,p in sg],dtype=np.uint64))[0] for sg in segs]
    expcat=[int(x) for p_ in parts for x in p_]; expb=list(np.cumsum([0]+[len(p_) for p_ in parts]))
    if [int(x) for x in eb]!=expcat or [int(x) for x in nb]!=expb: rec("boundaries",(nseg,[sg[:4] for sg in segs[:3]]))
for k,v in bad.items():
    print("==",k,v[0]); 
    for m in v[1]: print("   ",str(m)[:300])
print("done; empty keys_unique:", end=" ")
try: print(enc.keys_unique(np.array([],dtype=np.uint64)), enc.num_values_per_key(np.array([],dtype=np.uint64)))
except Exception as e: print("EXC",repr(e))
try: print("decode empty:", enc.decode(np.array([],dtype=np.uint64)))
except Exception as e: print("decode empty EXC",repr(e))
