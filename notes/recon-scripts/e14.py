from oracle import *
docs=["a b z c a b","a b","a b"]
a=SearchArray.index(docs)
print("D1 middle-out:", list(a.termfreqs(["a","b","c","a","b"])), "truth", naive_phrase(docs,["a","b","c","a","b"]))
# D2: R2L with trailing same-term pair; b rarest; need b at word posn 17 in odd bucket (posn 35), c at 34, posn 36 != b
rng=random.Random(0)
found=None
for L in range(30,60):
    for p in [35, 71]:
        toks=["z"]*L
        if p+1>=L: continue
        toks[p-2]="a"; toks[p-1]="c"; toks[p]="b"; toks[p+1]="y"
        docs=[" ".join(toks)]+["a c z a c z"]*3
        arr=SearchArray.index(docs)
        got=list(arr.termfreqs(["a","c","b","b"])); tr=naive_phrase(docs,["a","c","b","b"])
        if got!=tr and found is None: found=(L,p,got,tr)
print("D2 R2L same-term:", found)
