from oracle import *
import sys, time
rng=random.Random(5)
V=[f"t{i}" for i in range(400)]
docs=[" ".join(rng.choice(V) for _ in range(rng.choice([0,1,3,8,20]))) for _ in range(600)]
ref=SearchArray.index(docs,workers=1,batch_size=10**6)
def answers(a):
    out={}
    for t in V[:60]:
        out[t]=(tuple(a.termfreqs(t)), int(a.docfreq(t)))
    out['len']=tuple(a.doclengths())
    return out
R=answers(ref)
bad=0; exc=0
def slow_tok(s):
    time.sleep(0)  # yield GIL
    return s.split()
sys.setswitchinterval(1e-6)
for trial in range(40):
    bs=rng.choice([1,2,3,7,50]); w=rng.choice([2,4,8])
    try:
        a=SearchArray.index(docs,workers=w,batch_size=bs,tokenizer=slow_tok)
        A=answers(a)
        if A!=R:
            bad+=1
            ks=[k for k in R if R[k]!=A[k]]
            if bad<4: print("MISMATCH bs",bs,"w",w,"keys",ks[:5], "nterms", len(a.term_dict), len(a.term_dict.id_to_terms), "ref", len(ref.term_dict))
    except Exception as e:
        exc+=1
        if exc<4: print("EXC bs",bs,"w",w,repr(e)[:200])
print("trials 40 bad",bad,"exc",exc)
