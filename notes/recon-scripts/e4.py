from oracle import *
from searcharray.similarity import bm25_similarity, bm25_legacy_similarity, default_bm25
docs=["a b c a b","b c d","","a a a b","d e f a b","x y z","a b","c c c"]
arr=SearchArray.index(docs)
print("--- C04 corner: b ~ 1, empty doc")
for b in [0.75, 1-1e-9, 0.99999994]:
    for k1 in [1.2, 1e-50]:
        try:
            s=arr.score("a", similarity=bm25_similarity(k1=k1,b=b)); print(b,k1,s)
        except Exception as e: print(b,k1,"EXC",repr(e))
print("all-empty corpus:", SearchArray.index(["",""]).score("a"))
print("N=1:", SearchArray.index(["a"]).score("a"), SearchArray.index(["a"]).score(["a","b"]))
# custom similarity gets stats
def sim(tf,df,dl,avg,n):
    print("  custom sim got", tf, df, dl, avg, n); return tf
arr.score(["a","b"], similarity=sim)
print("--- C16 ranges")
long_docs=[" ".join(["a" if i%7==0 else ("b" if i%7==1 else "c") for i in range(130)]), "a b", " ".join(["c"]*40+["a","b"])]
la=SearchArray.index(long_docs)
for mn,mx in [(None,None),(0,17),(18,35),(36,None),(72,89),(108,125),(126,143),(144,161),(None,35),(18,17)]:
    for q in ["a",["a","b"]]:
        try:
            got=list(la.termfreqs(q,min_posn=mn,max_posn=mx))
        except Exception as e: got="EXC "+repr(e)[:100]
        lo=0 if mn is None else mn; hi=10**9 if mx is None else mx
        if isinstance(q,str): exp=[sum(1 for i,x in enumerate(tok(d)) if x==q and lo<=i<=hi) for d in long_docs]
        else: exp=[sum(1 for i in range(len(tok(d))-1) if tok(d)[i:i+2]==q and lo<=i and i+1<=hi) for d in long_docs]
        print(mn,mx,q,"got",got,"exp",exp, "" if got==exp else "  <<<<")
for mn,mx in [(1,None),(None,18),(None,16)]:
    try: print(mn,mx,la.termfreqs("a",min_posn=mn,max_posn=mx))
    except Exception as e: print(mn,mx,"EXC",type(e).__name__,e)
