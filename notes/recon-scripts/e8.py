from oracle import *
import pandas as pd, itertools
from searcharray.solr import edismax, parse_min_should_match
def ws(s): return s.split()
def two(s): return [t for t in s.split() if t!="the"]
rng=random.Random(3)
V=list("abcde")+["the"]
def ref_qf(frame, q, qf, mm, tie, q_op):
    fields=[]; 
    for f in qf:
        p=f.split("^"); fields.append((p[0], float(p[1]) if len(p)>1 else 1.0))
    toks={f: frame[f].array.tokenizer(q) for f,_ in fields}
    if q_op=="AND": mm="100%"
    ns=[len(toks[f]) for f,_ in fields]
    n=len(frame)
    if len(set(ns))==1:
        nt=ns[0]; per=[]
        for i in range(nt):
            sc=np.array([frame[f].array.score(toks[f][i]).astype(np.float64)*b for f,b in fields])
            mx=sc.max(axis=0); per.append(mx+tie*(sc.sum(axis=0)-mx))
        per=np.array(per).reshape(nt,n)
        m=parse_min_should_match(nt,mm)
        ok=(per>0).sum(axis=0)>=m
        return np.where(ok, per.sum(axis=0), 0.0), toks, fields
    else:
        fs=[]
        for f,b in fields:
            sc=np.array([frame[f].array.score(t).astype(np.float64) for t in toks[f]]).reshape(len(toks[f]),n)
            m=parse_min_should_match(len(toks[f]),mm)
            ok=(sc>0).sum(axis=0)>=m
            fs.append(np.where(ok, sc.sum(axis=0),0.0)*b)
        fs=np.array(fs); mx=fs.max(axis=0)
        return mx+tie*(fs.sum(axis=0)-mx), toks, fields
bad={}
def rec(k,m):
    bad.setdefault(k,[0,[]]); bad[k][0]+=1
    if len(bad[k][1])<2: bad[k][1].append(m)
for it in range(300):
    n=rng.choice([3,6,12])
    mk=lambda: [" ".join(rng.choice(V) for _ in range(rng.choice([0,1,3,6]))) for _ in range(n)]
    frame=pd.DataFrame({"t":SearchArray.index(mk(),tokenizer=ws), "b":SearchArray.index(mk(),tokenizer=rng.choice([ws,two])), "c":SearchArray.index(mk(),tokenizer=ws)})
    nf=rng.choice([1,2,3]); fl=rng.sample(["t","b","c"],nf)
    qf=[f+rng.choice(["","^2","^0.5","^3.5"]) for f in fl]
    q=" ".join(rng.choice(V+["zz"]) for _ in range(rng.choice([1,2,3,4,6])))
    mm=rng.choice([None,"1","2","3","-1","50%","-25%","100%","2<75%","2<-1 4<50%"]); tie=rng.choice([0.0,0.1,0.5,1.0]); qop=rng.choice(["OR","OR","AND"])
    try:
        got,_=edismax(frame,q,qf,mm=mm,tie=tie,q_op=qop)
        exp,toks,fields=ref_qf(frame,q,qf,"1" if mm is None else mm,tie,qop)
        if not np.allclose(got,exp,rtol=1e-5,atol=1e-7) or not np.array_equal(got==0,exp==0): rec("C09",(q,qf,mm,tie,qop,list(got),list(exp)))
    except Exception as e:
        rec("C09exc",(q,qf,mm,tie,qop,repr(e)[:150])); continue
    # C10
    pfs={k: [f+rng.choice(["","^2"]) for f in rng.sample(fl, rng.randint(0,nf))] for k in ["pf","pf2","pf3"]}
    if not any(pfs.values()): continue
    try:
        got2,_=edismax(frame,q,qf,mm=mm,tie=tie,q_op=qop,**{k:(v or None) for k,v in pfs.items()})
        exp2=exp.copy()
        add=np.zeros(n)
        for k,sz in [("pf",None),("pf2",2),("pf3",3)]:
            for f in pfs[k]:
                p=f.split("^"); b=float(p[1]) if len(p)>1 else 1.0; ts=toks[p[0]]
                if sz is None:
                    if len(ts)>=2: add+=b*frame[p[0]].array.score(ts).astype(np.float64)
                else:
                    for i in range(len(ts)-sz+1): add+=b*frame[p[0]].array.score(ts[i:i+sz]).astype(np.float64)
        exp2=np.where(exp>0, exp+add, 0.0)
        if not np.allclose(got2,exp2,rtol=1e-5,atol=1e-7): rec("C10",(q,qf,pfs,mm,list(np.round(got2,4)),list(np.round(exp2,4))))
    except Exception as e:
        rec("C10exc",(q,qf,pfs,repr(e)[:150]))
for k,v in bad.items():
    print("==",k,v[0])
    for m in v[1]: print("   ",str(m)[:600])
print("done")
