from oracle import *
import sys
from searcharray.phrase import middle_out as mo
rng=random.Random(int(sys.argv[1]) if len(sys.argv)>1 else 0)
bad={}
def rec(k,msg):
    bad.setdefault(k,[0,[]]); bad[k][0]+=1
    if len(bad[k][1])<2: bad[k][1].append(msg)
cnt={}
for it in range(600):
    V=[chr(97+i) for i in range(rng.choice([2,3,5]))]
    nd=rng.choice([1,2,3,7,10])
    docs=gen_corpus(rng,nd,V,rng.choice([4,20,60]))
    if all(d=="" for d in docs): continue
    arr=SearchArray.index(docs,workers=1)
    for _ in range(10):
        n=rng.choice([2,3,4,5,6])
        VV=[t for t in V if t in arr.term_dict.term_to_ids]
        ph=[rng.choice(VV) for _ in range(n)]
        adjrep=any(a==b for a,b in zip(ph,ph[1:]))
        enc=[arr.posns.encoded_term_posns[arr.term_dict.get_term_id(t)] for t in ph]
        exp=naive_phrase(docs,ph); lo=naive_phrase_nonoverlap(docs,ph)
        for name,fn in [("L2R",mo._compute_phrase_freqs_left_to_right),("R2L",mo._compute_phrase_freqs_right_to_left),("AUTO",mo.compute_phrase_freqs)]:
            try:
                ids,counts=fn(list(enc))
                got=[0]*len(docs)
                for i,c in zip(ids,counts): got[int(i)]=float(c)
            except Exception as e:
                rec(name+"_exc"+("_rep" if adjrep else ""),(docs,ph,repr(e))); continue
            key=name+("_rep" if adjrep else "")
            cnt[key]=cnt.get(key,0)+1
            if not adjrep:
                if got!=exp: rec(key,(docs,ph,got,exp))
            else:
                ok=all((g>0)==(hi>0) and l<=g<=hi for g,hi,l in zip(got,exp,lo))
                if not ok: rec(key,(docs,ph,got,exp,lo))
print(cnt)
for k,v in bad.items():
    print("==",k,v[0])
    for m in v[1]: print("   ",str(m)[:700])
