from oracle import *
found=None
for L in [40]:
    p=35
    toks=["z"]*L
    toks[2]="b"; toks[3]="b"
    toks[p-2]="a"; toks[p-1]="c"; toks[p]="b"; toks[p+1]="y"
    docs=[" ".join(toks)]+["a c z a c z"]*3
    arr=SearchArray.index(docs)
    got=list(map(float,arr.termfreqs(["a","c","b","b"]))); tr=naive_phrase(docs,["a","c","b","b"])
    print("D2:", got, tr, "doc0 =", docs[0])
