from oracle import *
import sys, pandas as pd
from concurrent.futures import ThreadPoolExecutor
from searcharray.solr import edismax
rng=random.Random(7)
V=[f"t{i}" for i in range(30)]
docs=[" ".join(rng.choice(V[:rng.choice([3,10,30])]) for _ in range(rng.choice([0,1,5,30,80]))) for _ in range(3000)]
arr=SearchArray.index(docs, cache_gt_than=5, autowarm=False)
view=arr[100:2500:3]
frame=pd.DataFrame({"a":arr,"b":SearchArray.index(docs[::-1])})
qs=[]
for i in range(300):
    k=rng.choice(["tf","ph","sc","scv","tfv","phv","edm","df"])
    t=rng.choice(V); ph=[rng.choice(V[:5]) for _ in range(rng.choice([2,3]))]
    qs.append((k,t,ph))
def run(q):
    k,t,ph=q
    if k=="tf": return arr.termfreqs(t).tobytes()
    if k=="ph": return arr.termfreqs(ph).tobytes()
    if k=="sc": return arr.score(t).tobytes()
    if k=="scv": return view.score(t).tobytes()
    if k=="tfv": return view.termfreqs(t).tobytes()
    if k=="phv": return view.termfreqs(ph).tobytes()
    if k=="df": return int(arr.docfreq(t))
    if k=="edm": return edismax(frame," ".join(ph),["a","b^2"],mm="1",tie=0.3,pf2=["a"])[0].tobytes()
serial=[run(q) for q in qs]
sys.setswitchinterval(1e-6)
nb=0
for rep in range(6):
    arr.posns.clear_cache() if rep%2 else None
    with ThreadPoolExecutor(max_workers=16) as ex:
        par=list(ex.map(run, qs))
    d=[i for i,(a,b) in enumerate(zip(serial,par)) if a!=b]
    if d: nb+=1; print("rep",rep,"diff at",[(i,qs[i][0]) for i in d[:5]])
print("reps with diffs:",nb)
