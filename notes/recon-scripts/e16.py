import numpy as np, sys
from searcharray.roaringish import unique
from searcharray.roaringish.search import binary_search, galloping_search
which=sys.argv[1]
E=np.array([],dtype=np.uint64)
if which=="uniq": print(unique(E, 36))
if which=="uniq0": print(unique(E))
if which=="bs": print(binary_search(E, np.uint64(3)))
if which=="gs": print(galloping_search(np.array([13,31],dtype=np.uint64), np.uint64(32)))
if which=="gsE": print(galloping_search(E, np.uint64(3)))
print("ok", which)
