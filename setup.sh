#!/bin/bash
# Build the whole framework from files on disk: Coq development (full .vo build), extraction, OCaml driver.
set -e
cd "$(dirname "$0")"
export PIP_NO_INDEX=1
/venv/bin/python tools/gen_consts.py
cd coq
coq_makefile -f _CoqProject -o Makefile > /dev/null
timeout 7000 make -j16 2>&1 | grep -v "conda.*WARNING" | tail -5
cd ../ocaml
./build.sh
echo "setup ok"
