#!/bin/bash
# usage: tools/try_seed_wt.sh <seed-name> [<ID> ...]  — applies seeded/<name>/patch.diff in a scratch worktree of /repo (never
# touches /repo's working tree), runs the quick checks of the given properties (default: the seed's own) against it via
# SA_REPO, restores the evidence files, removes the worktree.  Prints one line per check.
cd "$(dirname "$0")/.."
NAME=$1; shift
IDS=${@:-${NAME%%-*}}
W=/var/tmp/wtseed_$NAME
git -C /repo worktree remove --force $W >/dev/null 2>&1
git -C /repo worktree add --detach $W HEAD -q || exit 2
if ! git -C $W apply seeded/$NAME/patch.diff 2>/dev/null; then
  if ! (cd $W && patch -p1 -F3 -s < /verif/seeded/$NAME/patch.diff >/dev/null 2>&1); then echo "$NAME patch-does-not-apply"; git -C /repo worktree remove --force $W; exit 3; fi
fi
rm -rf /var/tmp/evidence.keep.$NAME; mkdir -p /var/tmp/evidence.keep.$NAME
for id in $IDS; do cp evidence/$id.json /var/tmp/evidence.keep.$NAME/ 2>/dev/null; done   # only the files these runs rewrite
for id in $IDS; do
  s=$(date +%s); out=$(SA_REPO=$W timeout 3000 ./check $id quick 2>&1); rc=$?
  echo "$NAME $id rc=$rc $(( $(date +%s) - s ))s $(echo "$out" | grep -E 'VIOLATION' | head -1 | cut -c1-120)"
done
for id in $IDS; do cp /var/tmp/evidence.keep.$NAME/$id.json evidence/$id.json 2>/dev/null; done; rm -rf /var/tmp/evidence.keep.$NAME
git -C /repo worktree remove --force $W
