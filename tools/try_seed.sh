#!/bin/bash
# usage: tools/try_seed.sh <patch.diff> <ID> [<ID> ...]   — applies the patch to /repo, runs the quick checks, reverts
cd "$(dirname "$0")/.."
P="$1"; shift
git -C /repo apply "$P" || { echo "patch does not apply"; exit 2; }
for id in "$@"; do
  s=$(date +%s); out=$(timeout 3000 ./check $id quick 2>&1); rc=$?
  echo "$id rc=$rc $(( $(date +%s) - s ))s $(echo "$out" | grep -E 'VIOLATION|KNOWN' | head -2 | tr '\n' ' ')"
done
git -C /repo checkout -- .
git -C /repo status --short | grep -v '^??' | head -3
