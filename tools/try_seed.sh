#!/bin/bash
# usage: tools/try_seed.sh <patch.diff> <ID> [<ID> ...]   — applies the patch to /repo, runs the quick checks, reverts
cd "$(dirname "$0")/.."
P="$1"; shift
git -C /repo apply "$P" || { echo "patch does not apply"; exit 2; }
# evidence written while a seeded change is applied must never be committed: keep the clean-tree files
rm -rf /var/tmp/evidence.keep; cp -r evidence /var/tmp/evidence.keep
for id in "$@"; do
  s=$(date +%s); out=$(timeout 3000 ./check $id quick 2>&1); rc=$?
  echo "$id rc=$rc $(( $(date +%s) - s ))s $(echo "$out" | grep -E 'VIOLATION|KNOWN' | head -2 | tr '\n' ' ')"
done
git -C /repo checkout -- .
rm -rf evidence; mv /var/tmp/evidence.keep evidence
git -C /repo status --short | grep -v '^??' | head -3
