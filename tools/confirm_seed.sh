#!/bin/bash
# usage: tools/confirm_seed.sh <ID> <name>  — confirms /tmp/seed_<ID> (demo fails with the change, passes without),
# stores it as /verif/seeded/<name>/ and removes the worktree
ID=$1; NAME=$2; W=${SEEDDIR:-/tmp/seed_$ID}
cd $W || exit 2
PYX=$(git diff --name-only | grep -E '\.(pyx|h)$' | head -1)
/venv/bin/python _seed/demo.py > /tmp/demo_with.log 2>&1; RC1=$?
cp -r _seed /tmp/_seed_$ID
git diff > /tmp/_seed_$ID/_applied.diff; git apply -R /tmp/_seed_$ID/_applied.diff
[ -n "$PYX" ] && { /venv/bin/python setup.py build_ext --inplace -j8 >/dev/null 2>&1; rm -rf build; }
/venv/bin/python _seed/demo.py > /tmp/demo_without.log 2>&1; RC2=$?
git apply /tmp/_seed_$ID/_applied.diff
[ -n "$PYX" ] && { /venv/bin/python setup.py build_ext --inplace -j8 >/dev/null 2>&1; rm -rf build; }
echo "$ID demo with change rc=$RC1, without rc=$RC2"
mkdir -p /verif/seeded/$NAME
cp /tmp/_seed_$ID/patch.diff /tmp/_seed_$ID/demo.py /verif/seeded/$NAME/
python3 - "$ID" "$NAME" "$RC1" "$RC2" <<'PY'
import json,sys
ID,NAME,rc1,rc2=sys.argv[1:5]
m=json.load(open(f'/tmp/_seed_{ID}/meta.json'))
m["confirmed"]={"demo_rc_with_change":int(rc1),"demo_rc_without_change":int(rc2),
                "suite_with_change":m.get("tests_run"),"how":"tools/confirm_seed.sh in the agent's scratch worktree (demo both ways); suite result as run by the agent in that worktree"}
json.dump(m,open(f'/verif/seeded/{NAME}/meta.json','w'),indent=1)
PY
rm -rf /tmp/_seed_$ID
cd /; git -C /repo worktree remove --force $W
