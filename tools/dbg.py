"""debug helper: run a property's cases and print grouped disagreements"""
import sys, random, json, collections
sys.path.insert(0, '/verif')
from harness import common as C, run as R
prop, tier = sys.argv[1], sys.argv[2] if len(sys.argv) > 2 else 'quick'
mod = R.load_mod(prop)
import os
seed = int(os.environ.get('VERIF_SEED', '0') or 0)
rng = random.Random(repr((seed, prop, tier)))
cases = mod.gen(rng, tier)
scratch = C.scratch_build()
out = R.Outcome()
R.evaluate(mod, cases, scratch, out, C.load_known_findings(prop))
print("evals", out.evals, "viol", len(out.violations), "corr", len(out.corr_breaks), "known", {k: v[0] for k, v in out.known.items()})
keyf = getattr(mod, "dbg_key", lambda c: c.get("k", ""))
g = collections.defaultdict(list)
for v in out.violations:
    g[("VIOL", keyf(v[0]))].append(v)
for v in out.corr_breaks:
    g[("CORR", keyf(v[0]))].append(v)
for k, vs in g.items():
    vs.sort(key=lambda t: len(json.dumps(t[0])))
    print(k, len(vs))
    for v in vs[:int(sys.argv[3]) if len(sys.argv) > 3 else 2]:
        print("   ", json.dumps(v, default=str)[:700])
