#!/usr/bin/env python3
"""Writes MANIFEST.json from the table below (kept in one place so it stays valid)."""
import json
import os

HERE = os.path.dirname(os.path.dirname(os.path.abspath(__file__)))
ALL = [f"C{i:02d}" for i in range(1, 21)]

COMMON_NOTE = ("Trusted: Coq 8.16.1 kernel + vm_compute (no native_compute); extraction with ExtrOcamlBasic plus ONE directive, "
               "`Extract Inlined Constant rev => \"List.rev\"` (Extract/Extract.v), ocaml/driver.ml+entries.ml (zarith for the "
               "decimal I/O of N / Z); the Python harness (generators, canonicalisation); tools/gen_consts.py. "
               "The theorem is about a hand-written Gallina model; the tie to /repo is the correspondence check "
               "(model and implementation run on the same generated inputs on every run, scratch build of the "
               "working tree). ")

AX = ("Axioms reported by Print Assumptions for the theorems that mention the binary32 BM25 kernel (via Flocq / Reals): "
      "ClassicalDedekindReals.sig_forall_dec, sig_not_dec, FunctionalExtensionality.functional_extensionality_dep, "
      "Classical_Prop.classic; the invariant theorems are closed under the global context.")

def axiom_sentence(pid):
    """what Print Assumptions printed for Props/<pid>.v in the last run of the check (read from its evidence file)"""
    try:
        ev = json.load(open(os.path.join(HERE, "evidence", pid + ".json")))
    except Exception:
        return ""
    cov = ev.get("coverage", {})
    ax = [t[len("axiom: "):] for t in cov.get("trusted_base", []) if t.startswith("axiom: ")]
    closed, total = cov.get("closed_under_global_context", 0), (cov.get("print_assumptions_outputs") or cov.get("discharged", 0))
    if not ax:
        return f" Print Assumptions: all {total} statements of Props/{pid}.v are closed under the global context (no axioms)."
    return (f" Print Assumptions for Props/{pid}.v: {closed} of {total} statements are closed under the global context; the "
            "others (those that mention the binary32 / real-number BM25 model, via Flocq and Reals) depend on the standard "
            "library's " + ", ".join(ax) + " and on nothing else (the gate fails on any axiom outside this list).")


CLAIMED = {
    "C11": dict(
        category="proof",
        text=("Theorem C11_mm_is_solr (Coq): the model of parse_min_should_match's algorithm, including Python's "
              "binary64 percentage step, equals Solr's calculateMinShouldMatch in exact arithmetic and lies in "
              "[0,n], for all n in 0..50, all percentages in -200..200, any integers and any number of conditional "
              "clauses (C11_mm_exact: every n >= 0 in exact arithmetic). The check runs the real parser against "
              "the extracted model and the extracted spec on generated and exhaustive spec families; malformed "
              "specs must raise ValueError (oracle on the implementation side)."),
        design_ref="DESIGN.md 7 (C11)",
        note=COMMON_NOTE + "String-level parsing (strip, regex, split, int) is modelled by the harness printer, not in Coq.",
        technique="Coq proof (induction on clause list + finite float grid by vm_compute) + model/impl correspondence",
    ),

    "C12": dict(
        category="proof",
        text=("Per-kernel theorems (Props/C12.v, all closed under the global context): on masked-sorted inputs of any "
              "length < 2^62 the line-level models of intersect (drop / keep), adjacent, the fused intersect_with_adjacents, "
              "merge, merge with drop, sort_merge_counts, unique, binary and galloping search, popcount_reduce_at, "
              "key_sum_over, popcount64_reduce and as_dense return exactly their set-theoretic specs (no fault, no fuel "
              "exhaustion). "
              "The check runs real kernels, models and specs on exhaustive small pairs, gallop-depth sweeps, random "
              "clustered arrays, strided views and adversarial neighbours."),
        design_ref="DESIGN.md 7 (C12)",
        note=COMMON_NOTE + "Strides are abstracted in the model (pointer = logical index); the harness passes strided and "
             "reversed views of every array argument and requires the answer of the contiguous copy.",
        technique="Coq proof (loop invariants over fuelled line-level kernel models) + model/impl/spec correspondence",
    ),
    "C13": dict(
        category="proof",
        text=("Theorems (Props/C13.v, closed): for strictly increasing (key, position) pairs with key < 2^28 and position "
              "< 2^18 the numpy-level encoder model equals the grouping spec, decode(encode ps) = group_by_key ps, the "
              "encoding is canonical (strictly increasing headers, no empty word), per-key counts and distinct keys "
              "computed on it equal those of the input; slice-by-keys returns the words of the requested keys "
              "(C13_slice_by_keys) and the boundary encoding used by indexing equals the grouping spec (C13_boundaries). "
              "The check runs the real RoaringishEncoder against model and spec on structured inputs."),
        design_ref="DESIGN.md 7 (C13)",
        note=COMMON_NOTE + "Layout constants are regenerated from the source (Gen/SourceConsts.v).",
        technique="Coq proof (induction over groups, permutation + sortedness for decode) + correspondence",
    ),
    "C14": dict(
        category="proof",
        text=("Safety theorems (Props/C14.v, one `C14_<kernel>` per kernel; closed under the global context except the BM25 "
              "walk ones, which mention the binary32 model): every access of the line-level kernel models (intersect drop / "
              "keep, adjacent, fused, merge, merge-drop, sort_merge_counts, unique, binary / galloping search, "
              "popcount_reduce_at / key_sum_over, popcount64_reduce, popcount64, payload_slice, as_dense) is a checked access and "
              "none "
              "faults, for ARBITRARY (unsorted) inputs, any mask, empty arrays, any search start/target, plus termination "
              "within the models' fuel (popcount64 and payload_slice: line-level models in Kernels/Linear2.v, proved safe for any content of "
              "the uninitialised result buffer and proved equal to the map / filter the correspondence check executes); one dead load (unique on an empty array with a shift) is proved to fault in the "
              "model and is accepted only because its value is unused. Also proved: the BM25 pointer walk is safe exactly "
              "when doc_lens is long enough and both call sites (fresh index, any chain of selections) satisfy that; "
              "the span search (_intersect_all + _span_freqs with its 512-slot table) never faults for arbitrary "
              "postings and terminates, and slop_freqs on an indexed corpus is safe incl. the scatter. Runtime tie "
              "(partial): impl == model on three memory layouts (exact-fit; interior, possibly strided views whose "
              "neighbour and gap words are adversarial; other fillers) which must agree with each other, and an "
              "AddressSanitizer build of the working tree runs the kernel inputs (incl. strided, reversed views of every "
              "array argument) plus index / query / slop / score workloads and a `contract` workload of well-typed calls "
              "whose arguments do not fit together (short doc_lens / counts, an as_dense index beyond the size, a slop phrase "
              "of more than 64 terms, reversed / broadcast / record-field views): each must raise or be harmless."),
        design_ref="DESIGN.md 7 (C14)",
        note=COMMON_NOTE + "The theorem is about the model's accesses; real accesses are observed by ASan, not proved. "
             "Compiler-introduced accesses, alignment and the allocator are outside the model.",
        technique="Coq proof (index-bound invariants on checked-access kernel models) + ASan/canary correspondence",
    ),
    "C01": dict(
        category="proof",
        text=("Theorem C01_termfreqs_is_count (Props/C01.v, closed under the global context): for every corpus within the "
              "limits (documents <= 262143 tokens, < 2^28 rows), EVERY batch size, every term present or absent, the "
              "model of SearchArray.index succeeds and termfreqs returns the per-document count of the term, one entry "
              "per row. The model covers gather, sort by (term, doc, posn), boundary encoding (galloping merge/intersect "
              "kernels), per-batch postings and concat, popcount reduce and the 10-unrolled scatter. The check compares "
              "the real termfreqs with the extracted model and spec over row counts in every residue mod 10, batch sizes, "
              "workers and tokenizers."),
        design_ref="DESIGN.md 7 (C01)",
        note=COMMON_NOTE + "Tokenizer output is the model's input (token ids by any injection); pandas/numpy glue and "
             "thread scheduling are exercised, not modelled. Corpora of 2^28 rows or more are rejected by the repaired code "
             "(ValueError) and excluded by wf_docs; they cannot be indexed within the check's time budget.",
        technique="Coq proof (composition of codec, kernel and sorting lemmas) + three-way correspondence",
    ),
    "C02": dict(
        category="proof",
        text=("Theorems C02_docfreq_is_count and C02_lengths_and_statistics (Props/C02.v, closed): for every corpus within "
              "the limits and every batch size, docfreq is the number of documents containing the term (0 if unknown), "
              "doclengths is the list of token counts (0 for empty documents, wherever they fall relative to batch "
              "boundaries), corpus_size the number of rows and the total behind the average the sum of lengths. "
              "The average as a binary32 (C02_average_is_rounded_mean, Score/AvgLen.v): with fewer than 2^24 tokens and rows, "
              "every bracketing of the float32 additions of the lengths is exact and the average is the correctly rounded "
              "mean (relative error <= 2^-24; 0 iff the corpus is all empty); beyond 2^24 tokens numpy's float32 "
              "accumulator rounds (a 2-ulp witness is recorded): outside the theorem; the check's corpora stay below 2^24 tokens and "
              "compare the float32 bit pattern exactly."),
        design_ref="DESIGN.md 7 (C02)",
        note=COMMON_NOTE + "That np.mean is a tree of float32 additions over the elements plus zero seeds is read off numpy's "
             "source, not proved.",
        technique="Coq proof (diff-trick invariant, unique-keys lemma, batching lemma) + three-way correspondence",
    ),
    "C03": dict(
        category="proof",
        text=("Theorems (Props/C03.v, closed under the global context) about the line-level model of the bigram chain (fused "
              "intersect/adjacent kernel, inner and cross-word adjacency, same-term path, adjacency-bit merge, middle-out "
              "strategy), for every corpus within the limits and every batch size: (1) for every phrase of >= 2 terms "
              "without an immediately repeated term the result is, for every document, the number of offsets at which "
              "the phrase occurs contiguously; (2) for EVERY phrase of >= 2 terms, immediate repetitions included, the "
              "frequency is positive exactly for the documents containing the phrase and lies between the non-overlapping "
              "and the overlapping occurrence counts (C03_every_phrase_bounds; the same-term step is characterised on all "
              "2^18 payloads by a computed check), and the exact count holds for every phrase mentioning two different terms "
              "(C03_exact_count_unless_one_repeated_term). Both sentences of the property are theorems. Check = real phrase "
              "search vs model vs spec / bounds oracle."),
        design_ref="DESIGN.md 7 (C03)",
        note=COMMON_NOTE,
        technique="Coq proof (bigram-step refinement incl. the same-term case + chain induction) + three-way correspondence",
    ),
    "C05": dict(
        category="proof",
        text=("Theorem C05_positions_are_offsets (Props/C05.v, closed): for every corpus within the limits, every batch size "
              "and every term of the corpus, positions() of the model returns for each row exactly the ascending offsets "
              "of the term (empty where absent), through slice-by-keys, bitwise decode and the per-row assembly; an unknown "
              "term raises TermMissingError. Check = real positions() vs model vs spec around every multiple of 18."),
        design_ref="DESIGN.md 7 (C05)",
        note=COMMON_NOTE + "Offsets near 262143 are covered by the codec theorem (C13) and its check.",
        technique="Coq proof (codec round trip + slice lemma + assembly) + three-way correspondence",
    ),

    "C04": dict(
        category="proof",
        text=("Theorems (Props/C04.v) about the bit-exact Flocq binary32 model of the kernel: tf = 0 scores exactly 0 for ALL "
              "parameters; avg = 0 gives zeros; every score is finite for integer tf/len up to 2^18, avg >= 2^-10, "
              "0 <= k1 <= 128, 0 <= b <= 1; relative error <= 2^-17 (proved: 2^-20) w.r.t. the real formula for tf and "
              "len up to 2^18, avg in [2^-32, 2^18], idf in [2^-64, 2^64], EVERY k1 in [2^-32, 2^10] and EVERY 0 <= b < 1 "
              "(C04_accuracy), and for the default similarity (1.2f, 0.75f) against the formula at 6/5, 3/4 "
              "(C04_default_accuracy); over R: legacy = (k1+1) * modern, positive denominator, idf > 0. The STATISTICS handed to the "
              "similarity (Score/Score_Stats.v, closed): for every corpus within the limits, batch size and term (present or "
              "absent) the call receives the term-frequency vector, [df], all document lengths, the total and N "
              "(C04_statistics_single_term); for every term list of >= 2 terms the phrase-frequency vector (the exact "
              "occurrence counts when two different terms are mentioned, the C03 bounds otherwise), one document frequency per "
              "term in order, and the same corpus statistics (C04_statistics_phrase, C04_statistics_phrase_exact); the default "
              "score is the kernel applied to exactly these (C04_default_score_over_the_statistics); the phrase idf of "
              "similarity.py's formula is a sum over the terms, order-independent and positive (C04_phrase_idf_*). The check compares real score() bit patterns with the model, and with a float64 "
              "evaluation on the spec's statistics; a recording similarity checks the statistics handed over."),
        design_ref="DESIGN.md 7 (C04)",
        note=COMMON_NOTE + "numpy log (idf) is an input; IEEE-754 conformance of the CPU (no FMA contraction) assumed. The model hands total and N to the "
             "similarity where the code hands the float32 average (C02_average_is_rounded_mean relates them); the idf VALUE is "
             "computed by numpy's log and is an input of the model (the recording similarity of the check compares the "
             "statistics, the bit-exact score comparison the idf).",
        technique="Coq proof over Flocq binary32 and R + bit-exact correspondence",
    ),
    "C08": dict(
        category="proof",
        text=("Theorem C08_batch_size_irrelevant (Props/C08.v, closed): any two batch sizes give the same per-term postings, "
              "document lengths and dictionary, and indexing succeeds for every batch size within the limits; so every "
              "answer is batch-independent (C01/C02/C05 are stated for all batch sizes). Worker threads (Index/Sched.v): "
              "slotting returns the batches in document order for ANY completion order; ANY interleaving of the threads' "
              "tokenisations gives an arrival-order dictionary that is total and injective on the vocabulary; two builds "
              "with different batch sizes, worker counts, completion orders and interleavings answer every query alike "
              "(C08_threaded_builds_agree). The remaining settings (Store/Settings*.v): for every non-empty corpus, any two "
              "cache thresholds, with or without auto-warming, every operation history returns the same outputs - those of a "
              "cache-free reference evaluator (C08_answers_are_cache_free, C08_cache_threshold_and_warming_irrelevant); "
              "avoid_copies True and False answer every query alike on every selection chain (C08_avoid_copies_irrelevant); "
              "an index stored in a data directory re-loads, in any later directory state, as the in-memory one "
              "(C08_data_dir_irrelevant); C08_settings_irrelevant combines batch size x threshold x auto-warming x "
              "avoid_copies x data_dir. PARTIAL: atomicity of TermDict.add_term is the model's assumption (the check "
              "forces a preemption inside it: that is how the unlocked check/len/store race, now repaired, was found); the "
              "cache machine covers avoid_copies=True pools only (avoid_copies=False objects are compared through their pure "
              "answers); np.memmap itself is not modelled; the check builds the real "
              "index under batch sizes 1..n+1, 1..8 workers, FORCED completion orders, tiny switch intervals, GIL-yielding "
              "tokenizers, cache/autowarm/avoid_copies/data_dir settings and compares every answer with the single-batch "
              "index, the model and the spec."),
        design_ref="DESIGN.md 7 (C08)",
        note=COMMON_NOTE + "The model assumes TermDict.add_term is atomic (now guaranteed by a lock in the repaired code); "
             "ThreadPoolExecutor not modelled.",
        technique="Coq proof (encode_spec append lemma, slotting under permutations, arrival-order dictionary injectivity, cache-free reference evaluator) + forced-schedule differential check",
    ),
    "C16": dict(
        category="proof",
        text=("Theorems (Props/C16.v, closed): for every corpus within the limits, every batch size and every aligned "
              "(min, max) incl. one-sided ranges, the range-restricted term frequency counts exactly the offsets inside the "
              "range, the phrase frequency (phrases without an immediately repeated term) exactly the occurrences lying "
              "entirely inside it, an empty range gives zeros, and unaligned bounds raise ValueError for terms of the "
              "corpus. Check = real termfreqs(min_posn, max_posn) vs model vs spec on documents spanning 6+ words."),
        design_ref="DESIGN.md 7 (C16)",
        note=COMMON_NOTE + "An unknown term returns zeros before the bounds are validated (outside the property's domain).",
        technique="Coq proof (bucket-filter lemma on the codec + chain theorem on filtered postings) + three-way correspondence",
    ),

    "C06": dict(
        category="proof",
        text=("Theorems (Props/C06.v): for every corpus within the limits, both avoid_copies settings and every chain of "
              "valid selections (any key order, repeats, depth), selection succeeds and the view's term frequencies, document "
              "frequencies, lengths, positions, position-ranged term frequencies, phrase frequencies (EVERY term list, "
              "immediate repetitions included, EVERY position range) and BM25 scores (every query) equal the "
              "parent's answers re-indexed by the composed key, with the parent's corpus statistics (closed; score theorems "
              "carry the Reals axioms via Flocq); element access returns each row's distinct terms and length "
              "(C06_element_access). positions(term, key=k) is the positions theorem for the chain extended by k (the "
              "identification is checked on the real call). NOT proved: pandas' key normalisation (replicated with numpy in "
              "the harness), and that copy() / take() / DataFrame operations reduce to a selection by positions: decided "
              "three-way by the check (real arr[key] / take / copy / DataFrame ops followed by every query kind vs model "
              "vs spec; slices of every step sign, masks, int arrays sorted/unsorted/duplicate/negative, depth 1..3)."),
        design_ref="DESIGN.md 7 (C06)",
        note=COMMON_NOTE + "pandas key normalisation replicated with numpy in the harness.",
        technique="Coq proof (rows-vector composition + slice/gather lemmas over index_ok) + three-way correspondence",
    ),
    "C07": dict(
        category="proof",
        text=("Theorems (Props/C07.v) about the cache-aware state machine of View/Purity.v (doc-freq / term-freq / "
              "filtered-postings caches, the filter reset of a sliced view's parent, fresh output vectors): the cache "
              "invariant holds initially and is preserved by EVERY operation; under it every output of every operation "
              "equals the history-free answer, so a repeated query returns its first answer after ANY operation sequence, "
              "arrays are only appended and the heap only grows. Generic form: two facts about the immutable postings are "
              "explicit premises (slicing twice = slicing once; a document's phrase count depends only on its own "
              "postings). UNCONDITIONAL form (C07_every_output_is_history_free, C07_repeat_same, C07_history_free): both "
              "premises are PROVED for every indexed corpus - phrase locality for every phrase incl. immediate repetitions "
              "and every position range (View/View_Phrase3.v) - so for every non-empty corpus within the limits and "
              "EVERY operation sequence (ranged tf, phrases, scores, views of views, copies, cache warming) every output "
              "is the history-free answer. RUNNING EDISMAX (or any dynamic program of queries and selections, Conc/Conc_Dyn.v) "
              "on any reachable pool returns the history-free edismax and leaves a pool on which every later operation "
              "still returns its history-free answer (C07_edismax_is_history_free, C07_dynamic_program_is_history_free). "
              "The check runs the "
              "machine against the real objects op by op on random histories, repeats every query at the end and under "
              "another history, and checks earlier returned arrays are unmodified."),
        design_ref="DESIGN.md 7 (C07)",
        note=COMMON_NOTE + "pickle round trips are mapped to copy in the state machine. The operation type of the machine has term / "
             "ranged / phrase frequencies, docfreq, positions, BM25 scores, slicing, copies and cache warming; edismax is covered as a "
             "dynamic program (above); slop searches and custom similarities are NOT operations of the model: for them purity "
             "is decided only by the check (slop on shared views in the extra phase).",
        technique="Coq proof (cache invariant by induction over operations; postings premises proved for indexed corpora; dynamic programs for edismax) + op-sequence correspondence",
    ),
    "C09": dict(
        category="proof",
        text=("Theorem C09_query_field_score (Props/C09.v): for well-formed queries without phrase fields the model of "
              "edismax (term-/field-centric choice, running max and sum, tie, boosts, mm filter over exact rationals on "
              "top of the binary32 BM25 model) equals the declarative DisMax + minimum-should-match spec, for every "
              "number of fields, terms and rows (generic form with explicit premises that the per-field score calls and the "
              "row selection succeed; C09_indexed_query_field_score: both PROVED for frames of freshly indexed columns, no "
              "premise left); q_op=AND is mm=100% (C09_and_is_100pct, n <= 50). ANY PER-FIELD SIMILARITY (C09_any_similarity, "
              "Solr/Edismax_AnySim.v): with the per-field per-term score vectors as an abstract input - any similarity - the "
              "model of the query-field combination equals the DisMax + mm spec for any number of fields, 0..50 terms per field "
              "(zero-term fields included), any tie, any boosts on the term-centric path; the field-centric path needs "
              "non-negative scores and boosts (the code's np.max has no zero seed); C09_any_similarity_any_mm is the same "
              "with an abstract mm function (closed); C09_bm25_is_instance: the BM25 model is an instance. The check compares "
              "the real edismax with model and spec (1e-6 relative, exact zero pattern) incl. unknown terms, mm "
              "variants, boosts, ties and field-centric queries; a second phase runs the real edismax with classic, "
              "parametrised / legacy BM25, the default and user-defined similarities (one for all fields or a dict per "
              "field), hands the REAL per-term score vectors to the extracted any-similarity model and spec, and compares "
              "three-way (this fails on the tree before the classic-similarity repair D31)."),
        design_ref="DESIGN.md 7 (C09)",
        note=COMMON_NOTE + "numpy's float64 combination arithmetic is modelled over Q (compared within 1e-6). wf_query carries side "
             "conditions that are hypotheses, not proved facts: every field has n rows, the idf table is non-negative "
             "(wf_nonneg), tie and boosts are >= 0, the mm spec is in the range of C11, and every field keeps AT LEAST ONE "
             "query term - zero-term fields (repaired defects D30 / D40) are covered by the check and by C09_any_similarity only. "
             "That q_op=AND is passed on as mm='100%' is read off solr.py and replicated by the harness; "
             "C09_and_is_100pct says 100% of n clauses is n.",
        technique="Coq proof (algebraic equality of algorithm and spec over Q, BM25-specific and similarity-generic) + three-way correspondence incl. an any-similarity phase",
    ),
    "C10": dict(
        category="proof",
        text=("Theorems (Props/C10.v): the model of the pf / pf2 / pf3 phases (shingles, boosts, scatter-add at the rows "
              "with positive query-field score) equals the spec `query-field score plus boost * whole-frame phrase score "
              "of each shingle once; zero stays zero` (generic form: with the premise that scores on the view of matching "
              "rows equal the whole-frame scores at those rows; C10_indexed_phrase_boosts_any_query: premise-free for frames "
              "of freshly indexed columns, any phrase fields incl. repeated terms); every "
              "adjacent pair / triple is produced exactly once and shorter queries add nothing (closed). The check "
              "compares the real edismax with model and spec incl. multi-field boosts."),
        design_ref="DESIGN.md 7 (C10)",
        note=COMMON_NOTE + "Relies on view scores using whole-frame statistics (C06). 'Premise-free' means free of the view-score "
             "premise: wf_query's side conditions (n rows per field, non-negative idf table, tie and boosts >= 0, mm in the "
             "range of C11, at least one query term per field) remain hypotheses.",
        technique="Coq proof (shingle enumeration + phase algebra; view premise proved for freshly indexed frames) + three-way correspondence",
    ),

    "C17": dict(
        category="proof",
        text=("Theorems (Props/C17.v, closed): truncate=True is the index of the first 262143 tokens of every document "
              "(the model cuts the token stream first, as the repaired code does), documents at or below the limit are "
              "unaltered, and the linear-time model variant the check executes is proved equal to the model. The check "
              "indexes real documents of length limit-2 .. limit+5 and 2x limit (first / middle / last in a batch, markers "
              "and phrases on both sides of the limit, a tail-only term) with truncate True/False and compares tf, df, "
              "lengths and phrases three-way; truncate=False raises ValueError for every corpus with an over-long document "
              "(C17_overlong_rejected: fewer than 2^28 rows and 2^61 tokens in total) and the check requires it."),
        design_ref="DESIGN.md 7 (C17)",
        note=COMMON_NOTE + "Extraction maps Coq's quadratic List.rev to OCaml's List.rev (the only Extract Constant).",
        technique="Coq proof (definition + fast-variant equality) + three-way correspondence at the real limit",
    ),
    "C18": dict(
        category="proof",
        text=("Storage state machine (Store/Store.v) with closed theorems (Props/C18.v): a new index file is appended under a "
              "fresh name (number of directory entries) and never overwrites one, the pickle state (metadata, filename) "
              "re-loads exactly the original postings also after further indexes were written to the directory, earlier "
              "files keep their content. PICKLING OF ARRAYS AND VIEWS (Store/Store_View.v, modelling what the real pickle holds: "
              "rows, lengths, dictionary, the root's postings by value or as metadata + file name, a sliced dict for "
              "non-avoid_copies views, the caches): for every corpus within the limits, any chain of selections (the array "
              "itself included), in memory or with a data directory, and every LATER directory state (more indexes, foreign "
              "files) the loaded object equals the pickled one literally (C18_view_roundtrip, C18_in_memory_roundtrip) and "
              "answers every query alike (C18_view_answers); the caches that travel with a pickle do not matter "
              "(C18_pickled_caches_do_not_matter). PARTIAL for the OS: real file contents, np.memmap, pickle bytes and a fresh "
              "interpreter are exercised by the check (histories with several indexes per directory, views incl. stepped "
              "slices, same-process and subprocess round trips), not modelled."),
        design_ref="DESIGN.md 7 (C18)",
        note=COMMON_NOTE + "Assumes no file of the directory is deleted between writing and unpickling (add-only directory histories, "
             "no concurrent writers, no foreign file named <k>.dat). Not modelled: pickle bytes, np.memmap, a fresh "
             "interpreter, the tokenizer (pickled by reference), the doc x term incidence matrix.",
        technique="Coq proof (directory invariant; pickle model of arrays, views and their caches) + history-based differential check incl. fresh interpreters",
    ),
    "C20": dict(
        category="proof",
        text=("Theorems (Props/C20.v) about the interleaving model of Conc/Conc.v (queries = programs of atomic actions on "
              "the shared state of Purity.v: handle read + filtered-postings fill, doc-freq cache, term-freq cache, the "
              "handle reset of slicing): in EVERY schedule a finished thread holds the history-free answer computed on "
              "the initial pool; any schedule that lets every thread finish gives the results of the serial schedule; "
              "the serial schedule always finishes. Generic form: the two postings premises of C07 (the phrase one in a "
              "per-term mixed form) are explicit; UNCONDITIONAL form (C20_every_interleaving, C20_schedule_eq_serial): for every "
              "non-empty indexed corpus, any pool reached by any history, any concurrent queries and any schedule "
              "(premises proved in View/View_Phrase3.v, Conc/Conc_Indexed2.v). DYNAMIC programs (Conc/Conc_Dyn.v: a thread's next "
              "query may depend on earlier results and on views the thread itself created, named by reference as in Python) "
              "incl. EDISMAX as a program in the order of solr.py (scores per term and field, selection of the matching rows, "
              "phrase phases on that view): in every interleaving every finished thread holds the history-free value, which "
              "for edismax is Solr/Edismax.v's edismax on the history-free arrays (C20_every_interleaving_dynamic, "
              "C20_edismax_threads, C20_edismax_program_is_edismax), so C09 / C10 apply to what each thread gets. "
              "PARTIAL for the runtime: the real "
              "scheduler, preemption inside an action, dict atomicity under the GIL and nogil sections cannot be "
              "exhibited by the model. The check runs 2..16 real threads released "
              "from a barrier at switch intervals down to 1 microsecond against shared arrays and views, compares with "
              "serial execution on fresh pools and with the model under seeded schedules."),
        design_ref="DESIGN.md 7 (C20)",
        note=COMMON_NOTE + "The model's schedule is unrelated to the real scheduler; atomicity of each action assumed. Slop searches, "
             "custom similarities and position-ranged phrases are not queries of the dynamic-program model; the edismax program "
             "is compared with the real edismax by the real threads' results only (the model-side comparison of C20 uses "
             "term / phrase / score programs).",
        technique="Coq proof (per-action invariant + good-value lemma => schedule independence, static and dynamic programs) + threaded differential check",
    ),
    "C15": dict(
        category="proof",
        text=("All four clauses are theorems about the line-level Coq model of _intersect_all and the repaired _span_freqs "
              "(Props/C15.v, closed under the global context; every corpus within the limits, every batch size, phrase and "
              "slop): one natural-number entry per row; every matching document contains each of the phrase's terms; and, "
              "PARTIAL - under the proviso that the positions of the phrase's terms in the document are pairwise distinct "
              "modulo 64 (e.g. every document of at most 64 tokens) AND the phrase has at most 19 terms (the property "
              "quantifies over 2..6) - an exact match stays a match (C15_exact_match_kept_partial) and, for length + slop <= 18, an in-order window of length + slop tokens "
              "matches (C15_window_match_partial, against the executable oracle). Without the proviso both are FALSE for "
              "the model and for the code (C15_exact_match_refuted): KNOWN FINDING D27, reported by the check as "
              "KNOWN-FINDING (a violation is attributed to it only when the implementation agrees with the faithful model "
              "and the stale-bit-clearing variant Span/Span_Variant.v satisfies the clauses on that input; anything else "
              "is a VIOLATION). A SECOND failure mode lies outside the property's 2..6-term quantifier and is not a known "
              "finding: the span machine looks at two adjacent 18-position words, so an exact phrase of 20 or more terms whose "
              "occurrence touches three words scores 0 with slop >= 1 (Span_Exact2.witE_breaks_only_short_phrase; on the real "
              "code a 20-term phrase starting at offset 17 gives 1 with slop 0 and 0 with slop 1). Every clause is also decided on every run by the extracted clause oracle "
              "(Span/Span_Spec.v) on implementation and model over structured near-miss corpora, as histories of "
              "several slop values on one index."),
        design_ref="DESIGN.md 7 (C15), 0 (D21-D27, D32)",
        note=COMMON_NOTE + "Slop search is documented as experimental; the check found and the repo now repairs seven defects "
             "in it (D16, D21, D22, D24, D25, D26, D32); D27 is recorded, not repaired (known_findings.json). Phrases of at "
             "most 64 terms (longer ones are rejected by the repaired code, not modelled).",
        technique="Coq proof (cursor / segment invariants, span-table invariant tracking the copies of the seed span) + clause "
                  "oracle and model/impl correspondence; known finding classified by a variant model",
    ),

    "C19": dict(
        category="proof",
        text=("Theorems (Props/C19.v, closed): an array rebuilt from elements of views of fresh indexes (any key order / "
              "repeats) and fill values — SearchArray(list(...)), pd.concat, take / reindex / shift with fill, object round "
              "trips — has, for every term, the postings of the fresh index of the corresponding documents in their new row "
              "order, hence answers every tf / df / lengths / positions / phrase query like that fresh index (fewer than 2^28 "
              "rows). Literally like the fresh index ix' of those documents (Rebuild/Rebuild_Proofs3.v: both store the same "
              "per-term postings, dictionary membership and lengths, and every query reads nothing else): EVERY phrase, "
              "immediate repetitions and position ranges included (C19_rebuilt_phrases_like_fresh_index, closed), BM25 scores "
              "and the statistics handed to a similarity (C19_rebuilt_scores_like_fresh_index), all 15 query kinds "
              "(C19_rebuilt_every_query_like_fresh_index, C19_take_with_fill_every_query_like_fresh_index); not covered: views "
              "selected FROM a rebuilt array with avoid_copies=False (record order differs; an equivalence would be needed). "
              "Check = the real pandas routes vs model vs spec, incl. docfreq and default score for constructor / "
              "concat results."),
        design_ref="DESIGN.md 7 (C19)",
        note=COMMON_NOTE + "pandas' concat / reindex machinery is exercised, not modelled. In-place assignment (arr[mask] = other, "
             "pandas where / fillna routes) is compared implementation vs spec only (no model of __setitem__).",
        technique="Coq proof (re-keying lemma + index_ok of the rebuilt index + same-store congruence of every query) + three-way correspondence",
    ),
}

NOT_YET = "no check registered in this revision (model/proof under construction; see DESIGN.md section 7)"


def main():
    checks = []
    for pid in ALL:
        if pid in CLAIMED:
            c = CLAIMED[pid]
            checks.append({
                "property_id": pid,
                "quick_cmd": f"./check {pid} quick",
                "thorough_cmd": f"./check {pid} thorough",
                "evidence_file": f"evidence/{pid}.json",
                "replay_cmd_template": "./check --replay {path}",
                "engine": "coq-model-correspondence",
                "level_claimed": {"category": c["category"], "text": c["text"], "design_ref": c["design_ref"]},
                "level_note": c["note"].rstrip() + axiom_sentence(pid),
                "technique": c["technique"],
            })
    man = {
        "version": 1,
        "setup_cmd": "./setup.sh",
        "hooks": {
            "guard": "SEARCHARRAY_VERIF",
            "enable": "no source hooks are needed; checks build the working tree in a scratch directory and "
                      "export SEARCHARRAY_VERIF=1 for uniformity",
            "baseline_off_cmd": "cd /repo && /venv/bin/python -m pytest -ra -q -p no:cacheprovider --timeout=900 "
                                "--continue-on-collection-errors",
            "source_commits": [],
            "add_only": True,
        },
        "engines": [{
            "name": "coq-model-correspondence",
            "path": "harness/run.py",
            "serves_properties": sorted(CLAIMED),
            "kind_free_text": "Coq 8.16 theorems about an executable Gallina model (coq/theories), extracted to OCaml "
                              "and compared with the implementation and with the extracted spec on generated inputs",
        }],
        "checks": checks,
        "not_applicable": [{"property_id": p, "reason": NOT_YET} for p in ALL if p not in CLAIMED],
        "notes": "See DESIGN.md. known_findings.json lists open findings and fixed defects.",
    }
    # the level each check writes into its evidence must be the level claimed here
    import importlib
    import sys
    sys.path.insert(0, HERE)
    for c in checks:
        lvl = importlib.import_module("harness.props." + c["property_id"].lower()).LEVEL
        assert lvl == c["level_claimed"]["category"], (c["property_id"], lvl, c["level_claimed"]["category"])
    with open(os.path.join(HERE, "MANIFEST.json"), "w") as f:
        json.dump(man, f, indent=1)


if __name__ == "__main__":
    main()
