#!/usr/bin/env python3
"""Writes MANIFEST.json from the table below (kept in one place so it stays valid)."""
import json
import os

HERE = os.path.dirname(os.path.dirname(os.path.abspath(__file__)))
ALL = [f"C{i:02d}" for i in range(1, 21)]

COMMON_NOTE = ("Trusted: Coq 8.16.1 kernel + vm_compute (no native_compute); extraction with ExtrOcamlBasic only and "
               "ocaml/driver.ml+entries.ml; the Python harness (generators, canonicalisation); tools/gen_consts.py. "
               "The theorem is about a hand-written Gallina model; the tie to /repo is the correspondence check "
               "(model and implementation run on the same generated inputs on every run, scratch build of the "
               "working tree). ")

CLAIMED = {
    "C11": dict(
        category="proof",
        text=("Theorem C11_mm_is_solr (Coq): the model of parse_min_should_match's algorithm, including Python's "
              "binary64 percentage step, equals Solr's calculateMinShouldMatch in exact arithmetic and lies in "
              "[0,n], for all n in 0..50, all percentages in -200..200, any integers and any number of conditional "
              "clauses (C11_mm_exact: every n >= 0 in exact arithmetic). The check runs the real parser against "
              "the extracted model and the extracted spec on generated and exhaustive spec families; malformed "
              "specs must raise ValueError (oracle on the implementation side)."),
        design_ref="DESIGN.md 7 (C11)",
        note=COMMON_NOTE + "Axioms (via Flocq/Reals): ClassicalDedekindReals.sig_forall_dec, sig_not_dec, "
             "FunctionalExtensionality.functional_extensionality_dep, Classical_Prop.classic for the float lemma; "
             "the exact-arithmetic theorems are closed under the global context. String-level parsing (strip, "
             "regex, split, int) is modelled by the harness printer, not in Coq.",
        technique="Coq proof (induction on clause list + finite float grid by vm_compute) + model/impl correspondence",
    ),

    "C12": dict(
        category="proof",
        text=("Per-kernel theorems (Props/C12.v, all closed under the global context): on masked-sorted inputs of any "
              "length < 2^62 the line-level models of intersect (drop / keep), merge, merge with drop, sort_merge_counts, "
              "unique, binary and galloping search, popcount_reduce_at, key_sum_over, popcount64_reduce and as_dense "
              "return exactly their set-theoretic specs (no fault, no fuel exhaustion). adjacent and the fused kernel are "
              "checked three-way (implementation / extracted model / extracted spec) until their proof lands. "
              "The check runs real kernels, models and specs on exhaustive small pairs, gallop-depth sweeps, random "
              "clustered arrays, strided views and adversarial neighbours."),
        design_ref="DESIGN.md 7 (C12)",
        note=COMMON_NOTE + "Strides are abstracted in the model (pointer = logical index). No axioms.",
        technique="Coq proof (loop invariants over fuelled line-level kernel models) + model/impl/spec correspondence",
    ),
    "C13": dict(
        category="proof",
        text=("Theorems (Props/C13.v, closed): for strictly increasing (key, position) pairs with key < 2^28 and position "
              "< 2^18 the numpy-level encoder model equals the grouping spec, decode(encode ps) = group_by_key ps, the "
              "encoding is canonical (strictly increasing headers, no empty word), per-key counts and distinct keys "
              "computed on it equal those of the input. Slice-by-keys and boundary encoding are checked three-way until "
              "their proofs land. The check runs the real RoaringishEncoder against model and spec on structured inputs."),
        design_ref="DESIGN.md 7 (C13)",
        note=COMMON_NOTE + "Layout constants are regenerated from the source (Gen/SourceConsts.v). No axioms.",
        technique="Coq proof (induction over groups, permutation + sortedness for decode) + correspondence",
    ),
    "C14": dict(
        category="proof",
        text=("kernel_safe theorems (Props/C14.v, closed): every access of every kernel model is a checked access and none "
              "faults, for ARBITRARY (unsorted) inputs, any mask, empty arrays, any search start/target, plus termination "
              "within the models' fuel; one dead load (unique on an empty array with a shift) is proved to fault in the "
              "model and is accepted only because its value is unused. Runtime tie (partial): impl == model on exact-fit "
              "buffers and on interior views with adversarial neighbours, and an AddressSanitizer build of the working "
              "tree runs the same inputs. Span table and BM25 kernels are not yet in the model."),
        design_ref="DESIGN.md 7 (C14)",
        note=COMMON_NOTE + "The theorem is about the model's accesses; real accesses are observed by ASan, not proved. "
             "Compiler-introduced accesses, alignment and the allocator are outside the model. No axioms.",
        technique="Coq proof (index-bound invariants on checked-access kernel models) + ASan/canary correspondence",
    ),
    "C01": dict(
        category="other",
        text=("Executable Coq model of the indexing pipeline (gather, stable sort, boundary encoding, per-batch concat) "
              "and of termfreqs (popcount reduce + 10-unrolled scatter) compared three-way with the real SearchArray and "
              "the spec `count of the term per document`; the composition theorem is in progress (its ingredients — codec "
              "counts, reduction and scatter kernels — are proved)."),
        design_ref="DESIGN.md 7 (C01)",
        note=COMMON_NOTE + "Until the composition theorem closes the level is `other` (validated model, proved ingredients).",
        technique="Coq model + proved kernel/codec lemmas + three-way correspondence",
    ),
    "C02": dict(
        category="other",
        text=("Executable Coq model of _compute_doc_lens (diff trick + last-document rule), batching and docfreq (shifted "
              "unique) compared three-way with the real docfreq / doclengths / avg_doc_length (float32 bit pattern vs "
              "correctly rounded total/n) / corpus_size; composition theorem in progress."),
        design_ref="DESIGN.md 7 (C02)",
        note=COMMON_NOTE + "np.mean of a float32 vector equals the correctly rounded exact mean while totals < 2^24 (validated).",
        technique="Coq model + proved kernel/codec lemmas + three-way correspondence",
    ),
    "C03": dict(
        category="other",
        text=("Line-level executable Coq model of the bigram chain (fused intersect/adjacent kernel, inner and cross-word "
              "adjacency, same-term path, adjacency-bit merge, strategy selection) compared three-way with the real "
              "phrase search and the spec `number of offsets where the phrase occurs` (bounds for phrases with adjacent "
              "repeats); theorem (bigram step refinement) in progress."),
        design_ref="DESIGN.md 7 (C03)",
        note=COMMON_NOTE + "No closed theorem for the chain yet: the decision on generated inputs is by the three-way check.",
        technique="Coq model + three-way correspondence (proof of the bigram step in progress)",
    ),
    "C05": dict(
        category="other",
        text=("Executable Coq model of positions() (slice by row keys through the galloping intersect, bitwise decode, "
              "per-row assembly) compared three-way with the real positions() and the spec `offsets of the term`; the "
              "codec round trip it rests on is proved (C13)."),
        design_ref="DESIGN.md 7 (C05)",
        note=COMMON_NOTE + "Composition theorem in progress.",
        technique="Coq model + proved codec round trip + three-way correspondence",
    ),

    "C04": dict(
        category="other",
        text=("Bit-exact Flocq binary32 model of the BM25 kernel (incl. the (float)(1.0-(double)b) step and the tf==0 guard) "
              "composed with the index model's statistics; scores compared as float32 bit patterns with the real score(), "
              "and against a float64 evaluation of the formula on the spec's statistics (1e-5 relative, exact zero pattern, "
              "finite); a recording similarity checks the statistics handed over. Theorems (zero pattern, finiteness, "
              "legacy = (k1+1) * modern over R, idf > 0) are being added to Props/C04.v."),
        design_ref="DESIGN.md 7 (C04)",
        note=COMMON_NOTE + "numpy log (idf) is an input; IEEE-754 conformance of the CPU; accuracy bound not proved.",
        technique="Flocq binary32 model + three-way correspondence (proofs over binary32 and R in progress)",
    ),
    "C08": dict(
        category="other",
        text=("The batched indexing pipeline (batches_of, per-batch build with doc-id offset, per-term concatenate+sort, "
              "length concatenation) is part of the Coq model; the check builds the real index under batch sizes 1..n+1, "
              "1..8 workers, FORCED completion orders of the futures, tiny switch intervals, GIL-yielding tokenizers, "
              "cache/autowarm/avoid_copies/data_dir settings and compares every answer with the single-batch index, the "
              "model and the spec. Batch-independence theorem in progress; real thread interleavings are not modelled."),
        design_ref="DESIGN.md 7 (C08)",
        note=COMMON_NOTE + "TermDict.add_term assumed atomic under the GIL; ThreadPoolExecutor not modelled.",
        technique="Coq model of batching + forced-schedule differential check",
    ),
    "C16": dict(
        category="other",
        text=("Coq model of the aligned position-range filter (validation, shifted bucket bounds, payload filter, typed "
              "empty results) feeding the term and phrase paths, compared three-way with the real termfreqs(min_posn, "
              "max_posn) and the spec `occurrences with all offsets inside the range`; unaligned bounds must raise."),
        design_ref="DESIGN.md 7 (C16)",
        note=COMMON_NOTE + "Theorem (filter = bucket range) in progress.",
        technique="Coq model + three-way correspondence",
    ),
}

NOT_YET = "no check registered in this revision (model/proof under construction; see DESIGN.md section 7)"


def main():
    checks = []
    for pid in ALL:
        if pid in CLAIMED:
            c = CLAIMED[pid]
            checks.append({
                "property_id": pid,
                "quick_cmd": f"./check {pid} quick",
                "thorough_cmd": f"./check {pid} thorough",
                "evidence_file": f"evidence/{pid}.json",
                "replay_cmd_template": "./check --replay {path}",
                "engine": "coq-model-correspondence",
                "level_claimed": {"category": c["category"], "text": c["text"], "design_ref": c["design_ref"]},
                "level_note": c["note"],
                "technique": c["technique"],
            })
    man = {
        "version": 1,
        "setup_cmd": "./setup.sh",
        "hooks": {
            "guard": "SEARCHARRAY_VERIF",
            "enable": "no source hooks are needed; checks build the working tree in a scratch directory and "
                      "export SEARCHARRAY_VERIF=1 for uniformity",
            "baseline_off_cmd": "cd /repo && /venv/bin/python -m pytest -ra -q -p no:cacheprovider --timeout=900 "
                                "--continue-on-collection-errors",
            "source_commits": [],
            "add_only": True,
        },
        "engines": [{
            "name": "coq-model-correspondence",
            "path": "harness/run.py",
            "serves_properties": sorted(CLAIMED),
            "kind_free_text": "Coq 8.16 theorems about an executable Gallina model (coq/theories), extracted to OCaml "
                              "and compared with the implementation and with the extracted spec on generated inputs",
        }],
        "checks": checks,
        "not_applicable": [{"property_id": p, "reason": NOT_YET} for p in ALL if p not in CLAIMED],
        "notes": "See DESIGN.md. known_findings.json lists open findings and fixed defects.",
    }
    with open(os.path.join(HERE, "MANIFEST.json"), "w") as f:
        json.dump(man, f, indent=1)


if __name__ == "__main__":
    main()
