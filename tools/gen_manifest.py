#!/usr/bin/env python3
"""Writes MANIFEST.json from the table below (kept in one place so it stays valid)."""
import json
import os

HERE = os.path.dirname(os.path.dirname(os.path.abspath(__file__)))
ALL = [f"C{i:02d}" for i in range(1, 21)]

COMMON_NOTE = ("Trusted: Coq 8.16.1 kernel + vm_compute (no native_compute); extraction with ExtrOcamlBasic only and "
               "ocaml/driver.ml+entries.ml; the Python harness (generators, canonicalisation); tools/gen_consts.py. "
               "The theorem is about a hand-written Gallina model; the tie to /repo is the correspondence check "
               "(model and implementation run on the same generated inputs on every run, scratch build of the "
               "working tree). ")

CLAIMED = {
    "C11": dict(
        category="proof",
        text=("Theorem C11_mm_is_solr (Coq): the model of parse_min_should_match's algorithm, including Python's "
              "binary64 percentage step, equals Solr's calculateMinShouldMatch in exact arithmetic and lies in "
              "[0,n], for all n in 0..50, all percentages in -200..200, any integers and any number of conditional "
              "clauses (C11_mm_exact: every n >= 0 in exact arithmetic). The check runs the real parser against "
              "the extracted model and the extracted spec on generated and exhaustive spec families; malformed "
              "specs must raise ValueError (oracle on the implementation side)."),
        design_ref="DESIGN.md 7 (C11)",
        note=COMMON_NOTE + "Axioms (via Flocq/Reals): ClassicalDedekindReals.sig_forall_dec, sig_not_dec, "
             "FunctionalExtensionality.functional_extensionality_dep, Classical_Prop.classic for the float lemma; "
             "the exact-arithmetic theorems are closed under the global context. String-level parsing (strip, "
             "regex, split, int) is modelled by the harness printer, not in Coq.",
        technique="Coq proof (induction on clause list + finite float grid by vm_compute) + model/impl correspondence",
    ),
}

NOT_YET = "no check registered in this revision (model/proof under construction; see DESIGN.md section 7)"


def main():
    checks = []
    for pid in ALL:
        if pid in CLAIMED:
            c = CLAIMED[pid]
            checks.append({
                "property_id": pid,
                "quick_cmd": f"./check {pid} quick",
                "thorough_cmd": f"./check {pid} thorough",
                "evidence_file": f"evidence/{pid}.json",
                "replay_cmd_template": "./check --replay {path}",
                "engine": "coq-model-correspondence",
                "level_claimed": {"category": c["category"], "text": c["text"], "design_ref": c["design_ref"]},
                "level_note": c["note"],
                "technique": c["technique"],
            })
    man = {
        "version": 1,
        "setup_cmd": "./setup.sh",
        "hooks": {
            "guard": "SEARCHARRAY_VERIF",
            "enable": "no source hooks are needed; checks build the working tree in a scratch directory and "
                      "export SEARCHARRAY_VERIF=1 for uniformity",
            "baseline_off_cmd": "cd /repo && /venv/bin/python -m pytest -ra -q -p no:cacheprovider --timeout=900 "
                                "--continue-on-collection-errors",
            "source_commits": [],
            "add_only": True,
        },
        "engines": [{
            "name": "coq-model-correspondence",
            "path": "harness/run.py",
            "serves_properties": sorted(CLAIMED),
            "kind_free_text": "Coq 8.16 theorems about an executable Gallina model (coq/theories), extracted to OCaml "
                              "and compared with the implementation and with the extracted spec on generated inputs",
        }],
        "checks": checks,
        "not_applicable": [{"property_id": p, "reason": NOT_YET} for p in ALL if p not in CLAIMED],
        "notes": "See DESIGN.md. known_findings.json lists open findings and fixed defects.",
    }
    with open(os.path.join(HERE, "MANIFEST.json"), "w") as f:
        json.dump(man, f, indent=1)


if __name__ == "__main__":
    main()
