#!/bin/bash
# usage: tools/allchecks.sh <seed> [tier]  — runs every claimed check, prints one line per property
cd "$(dirname "$0")/.."
SEED=${1:-0}; TIER=${2:-quick}
IDS=${IDS:-$(python3 -c "import json; print(' '.join(c['property_id'] for c in json.load(open('MANIFEST.json'))['checks']))")}
for id in $IDS; do
  ( s=$(date +%s); out=$(VERIF_SEED=$SEED timeout 3000 ./check $id $TIER 2>&1); rc=$?; e=$(( $(date +%s) - s ));
    echo "$id seed=$SEED rc=$rc ${e}s $(echo "$out" | grep -E 'VIOLATION|KNOWN-FINDING' | head -2 | tr '\n' ' ')" ) &
  # at most 4 at a time
  while [ $(jobs -r | wc -l) -ge 4 ]; do sleep 1; done
done
wait
