#!/venv/bin/python
"""Regenerate coq/theories/Gen/SourceConsts.v from /repo's current working tree.
Fail-closed: any constant whose defining pattern is not found makes this exit non-zero."""
import ast
import os
import re
import struct
import sys

REPO = os.environ.get("SA_REPO", "/repo")
OUT = os.path.join(os.path.dirname(os.path.dirname(os.path.abspath(__file__))),
                   "coq", "theories", "Gen", "SourceConsts.v")
errors = []


def src(rel):
    return open(os.path.join(REPO, rel)).read()


def need(pattern, text, what, group=1, flags=re.M):
    m = re.search(pattern, text, flags)
    if not m:
        errors.append(f"{what}: pattern {pattern!r} not found")
        return None
    return m.group(group) if m.re.groups >= group else m.group(0)


def py_default(rel, funcname, argname, cls=None):
    """Default value (as python literal) of argument argname of def funcname in file rel."""
    tree = ast.parse(src(rel))
    for node in ast.walk(tree):
        if isinstance(node, (ast.FunctionDef, ast.AsyncFunctionDef)) and node.name == funcname:
            args = node.args
            pos = args.posonlyargs + args.args
            defaults = [None] * (len(pos) - len(args.defaults)) + list(args.defaults)
            for a, d in zip(pos, defaults):
                if a.arg == argname and d is not None:
                    return ast.literal_eval(d)
            for a, d in zip(args.kwonlyargs, args.kw_defaults):
                if a.arg == argname and d is not None:
                    return ast.literal_eval(d)
    errors.append(f"default of {funcname}({argname}) in {rel} not found")
    return None


def f64_bits(x):
    return struct.unpack("<Q", struct.pack("<d", float(x)))[0]


def main():
    c = {}
    ro = src("searcharray/roaringish/roaringish.py")
    kb = need(r"^DEFAULT_KEY_BITS\s*=\s*np\.uint64\((\d+)\)", ro, "DEFAULT_KEY_BITS")
    # the derivation in RoaringishEncoder.__init__ must still be the one the layout lemmas assume
    need(r"payload_bits\s*=\s*_64\s*-\s*key_bits", ro, "payload_bits derivation")
    need(r"self\.payload_msb_bits\s*=\s*payload_bits\s*//\s*_2", ro, "payload_msb_bits derivation")
    need(r"self\.payload_lsb_bits\s*=\s*np\.uint64\(payload_bits\s*-\s*self\.payload_msb_bits\)", ro,
         "payload_lsb_bits derivation")
    need(r"self\.max_payload\s*=\s*np\.uint64\(2\*\*self\.payload_lsb_bits\s*-\s*1\)", ro, "max_payload")
    if kb:
        kb = int(kb)
        pb = 64 - kb
        c["key_bits"] = kb
        c["msb_bits"] = pb // 2
        c["lsb_bits"] = pb - pb // 2
    mo = src("searcharray/phrase/middle_out.py")
    need(r"^MAX_POSN\s*=\s*encoder\.max_payload", mo, "MAX_POSN")
    need(r"^encoder\s*=\s*RoaringishEncoder\(\)", mo, "middle_out encoder with default key bits")
    c["warm_gt"] = need(r"def warm\(self\):.*?if len\(encoded\)\s*>\s*(\d+):", mo, "warm threshold", flags=re.S)
    c["trim_factor"] = need(r"len\(encoded_posns\[enc_posn_idx\]\)\s*>\s*\((\d+)\s*\*\s*min_len\)", mo, "trim factor")
    trim_default = py_default("searcharray/phrase/middle_out.py", "compute_phrase_freqs", "trim")
    c["trim_default"] = 1 if trim_default else 0
    c["cache_gt_than_posn"] = py_default("searcharray/phrase/middle_out.py", "__init__", "cache_gt_than")
    sc = src("searcharray/roaringish/scatter_assign.h")
    u1 = need(r"unroll_end\s*=\s*indices\s*\+\s*\(n\s*/\s*(\d+)\)\s*\*\s*(\d+)", sc, "scatter unroll", group=1)
    u2 = need(r"unroll_end\s*=\s*indices\s*\+\s*\(n\s*/\s*(\d+)\)\s*\*\s*(\d+)", sc, "scatter unroll", group=2)
    if u1 and u2:
        if u1 != u2:
            errors.append("scatter unroll divisor and multiplier differ")
        body = sc[sc.find("while (indices < unroll_end)"):sc.find("while (indices < end)")]
        n_stores = len(re.findall(r"array\[\*indices\+\+\]\s*=\s*\*values\+\+;", body))
        if n_stores != int(u1):
            errors.append(f"scatter unrolled body has {n_stores} stores, factor is {u1}")
        c["scatter_unroll"] = int(u1)
    sp = src("searcharray/roaringish/spans.pyx")
    caps = set(re.findall(r"DTYPE_t\[(\d+)\]\s+(?:terms|posns)|np\.int64_t\[(\d+)\]\s+(?:beg|end)", sp))
    flat = {x for t in caps for x in t if x}
    if len(flat) != 1:
        errors.append(f"span table capacities not uniform: {flat}")
    else:
        c["span_cap"] = int(flat.pop())
    c["span_curr_idx_cap"] = need(r"curr_idx\s*=\s*np\.zeros\((\d+),", sp, "curr_idx capacity")
    sim = src("searcharray/similarity.py")
    k1 = py_default("searcharray/similarity.py", "bm25_similarity", "k1")
    b = py_default("searcharray/similarity.py", "bm25_similarity", "b")
    if k1 is not None and b is not None:
        c["bm25_k1_bits"] = f64_bits(k1)
        c["bm25_b_bits"] = f64_bits(b)
    need(r"^default_bm25\s*=\s*bm25_similarity\(\)", sim, "default_bm25 uses the default k1, b")
    c["index_batch_size"] = py_default("searcharray/postings.py", "index", "batch_size")
    c["index_workers"] = py_default("searcharray/postings.py", "index", "workers")
    c["index_cache_gt_than"] = py_default("searcharray/postings.py", "index", "cache_gt_than")
    if errors:
        for e in errors:
            print("gen_consts: " + e)
        sys.exit(1)
    lines = ["(* GENERATED by tools/gen_consts.py from /repo on every run. Do not edit. *)",
             "From Coq Require Import NArith.", "Open Scope N_scope.", ""]
    for k in sorted(c):
        lines.append(f"Definition src_{k} : N := {int(c[k])}.")
    text = "\n".join(lines) + "\n"
    os.makedirs(os.path.dirname(OUT), exist_ok=True)
    if not os.path.exists(OUT) or open(OUT).read() != text:
        open(OUT, "w").write(text)
        print("gen_consts: CHANGED")


if __name__ == "__main__":
    main()
