"""Shared machinery of the checks: scratch build of /repo, impl worker, model client, Coq gate,
verdicts, replay files, known findings, evidence.  Run with /venv/bin/python."""
import fcntl
import hashlib
import json
import os
import random
import re
import shutil
import subprocess
import sys
import time

VERIF = os.path.dirname(os.path.dirname(os.path.abspath(__file__)))
REPO = os.environ.get("SA_REPO", "/repo")
PY = "/venv/bin/python"
CACHE_ROOT = "/var/tmp/sa-verif-cache"
MODEL_BIN = os.path.join(VERIF, "ocaml", "samodel")
COQ_DIR = os.path.join(VERIF, "coq")
GUARD = "SEARCHARRAY_VERIF"

# ----------------------------------------------------------------------------------------------
# s-expressions (wire format of the OCaml driver)
# ----------------------------------------------------------------------------------------------


def sx(x):
    """python value -> s-expression text. ints -> decimal, bool -> 0/1, None -> none,
    list/tuple -> (...), str -> atom (must be a bare word)."""
    if isinstance(x, bool):
        return "1" if x else "0"
    if isinstance(x, int):
        return str(x)
    if x is None:
        return "none"
    if isinstance(x, str):
        return x
    if isinstance(x, (list, tuple)):
        return "(" + " ".join(sx(y) for y in x) + ")"
    raise TypeError(f"cannot encode {type(x)}")


_tok = re.compile(r"[()]|[^\s()]+")


def parse_sx(s):
    toks = _tok.findall(s)
    pos = 0

    def item():
        nonlocal pos
        t = toks[pos]
        pos += 1
        if t == "(":
            out = []
            while toks[pos] != ")":
                out.append(item())
            pos += 1
            return out
        if re.fullmatch(r"-?\d+", t):
            return int(t)
        return t
    return item()


# ----------------------------------------------------------------------------------------------
# scratch build of the working tree (content-addressed cache, rebuilt whenever the tree changes)
# ----------------------------------------------------------------------------------------------
SRC_EXT = (".py", ".pyx", ".pxd", ".h", ".pyi", ".c.in", ".cfg", ".toml")


def source_fingerprint(repo=REPO):
    h = hashlib.sha256()
    files = []
    for root, dirs, fs in os.walk(os.path.join(repo, "searcharray")):
        dirs[:] = sorted(d for d in dirs if d != "__pycache__")
        for f in sorted(fs):
            if f.endswith((".so", ".c", ".pyc", ".html")):
                continue
            files.append(os.path.join(root, f))
    files.append(os.path.join(repo, "setup.py"))
    for p in files:
        h.update(os.path.relpath(p, repo).encode())
        h.update(b"\0")
        with open(p, "rb") as fh:
            h.update(fh.read())
        h.update(b"\0")
    return h.hexdigest()[:20]


def scratch_build(asan=False, repo=REPO, log=None):
    """Build the extension modules of repo's *current working tree* in a directory outside /repo
    and /verif; returns the directory to put on PYTHONPATH, or raises BuildError."""
    fp = source_fingerprint(repo) + ("-asan" if asan else "")
    os.makedirs(CACHE_ROOT, exist_ok=True)
    dest = os.path.join(CACHE_ROOT, fp)
    lockf = open(os.path.join(CACHE_ROOT, ".lock"), "w")
    fcntl.flock(lockf, fcntl.LOCK_EX)
    try:
        if os.path.exists(os.path.join(dest, ".ok")):
            os.utime(dest, None)
            return dest
        if os.path.exists(dest):
            shutil.rmtree(dest)
        os.makedirs(dest)
        subprocess.run(["rsync", "-a", "--exclude=*.so", "--exclude=*.c", "--exclude=__pycache__",
                        "--exclude=*.pyc", os.path.join(repo, "searcharray"),
                        os.path.join(repo, "setup.py"), os.path.join(repo, "README.md"), dest + "/"],
                       check=True)
        env = dict(os.environ)
        env["PIP_NO_INDEX"] = "1"
        if asan:
            env["CFLAGS"] = "-fsanitize=address -fno-omit-frame-pointer -O1 -g"
            env["LDFLAGS"] = "-fsanitize=address"
        r = subprocess.run([PY, "setup.py", "build_ext", "--inplace", "-j8"], cwd=dest, env=env,
                           stdout=subprocess.PIPE, stderr=subprocess.STDOUT, text=True, timeout=900)
        sos = []
        for root, _, fs in os.walk(os.path.join(dest, "searcharray")):
            sos += [f for f in fs if f.endswith(".so")]
        if r.returncode != 0 or len(sos) < 8:
            tail = r.stdout[-3000:]
            shutil.rmtree(dest, ignore_errors=True)
            raise BuildError(tail)
        shutil.rmtree(os.path.join(dest, "build"), ignore_errors=True)
        open(os.path.join(dest, ".ok"), "w").write(fp)
        # prune: keep the 3 most recently used builds
        ents = sorted((e for e in os.scandir(CACHE_ROOT) if e.is_dir()), key=lambda e: e.stat().st_mtime,
                      reverse=True)
        for e in ents[3:]:
            shutil.rmtree(e.path, ignore_errors=True)
        return dest
    finally:
        fcntl.flock(lockf, fcntl.LOCK_UN)
        lockf.close()


class BuildError(Exception):
    pass


# ----------------------------------------------------------------------------------------------
# implementation side: a subprocess that imports the scratch build and runs cases one by one
# ----------------------------------------------------------------------------------------------


def run_impl(prop_mod_name, cases, scratch, timeout=1800, asan=False, extra_env=None):
    """Returns list of results (same length as cases). A result is whatever the property's impl()
    returned (JSON), or {"exc": name, "msg": ...}, or {"crash": info} for the case during which
    the worker died (later cases get {"notrun": True})."""
    tmp = os.path.join(CACHE_ROOT, f"io-{os.getpid()}-{random.getrandbits(32):08x}")
    os.makedirs(tmp, exist_ok=True)
    try:
        inp = os.path.join(tmp, "cases.json")
        outp = os.path.join(tmp, "out.jsonl")
        with open(inp, "w") as f:
            json.dump(cases, f)
        env = dict(os.environ)
        env["PYTHONPATH"] = scratch + os.pathsep + VERIF
        env["PYTHONHASHSEED"] = "0"
        env[GUARD] = "1"
        env["PYTHONFAULTHANDLER"] = "1"
        if asan:
            lib = subprocess.run(["gcc", "-print-file-name=libasan.so"], capture_output=True, text=True).stdout.strip()
            env["LD_PRELOAD"] = lib
            env["ASAN_OPTIONS"] = "detect_leaks=0:abort_on_error=0:exitcode=77"
            env["PYTHONMALLOC"] = "malloc"
        if extra_env:
            env.update(extra_env)
        results = []
        start = 0
        restarts = 0
        while start < len(cases):
            if os.path.exists(outp):
                os.remove(outp)
            try:
                r = subprocess.run([PY, "-m", "harness.implrun", prop_mod_name, inp, outp, str(start)],
                                   cwd=VERIF, env=env, stdout=subprocess.PIPE, stderr=subprocess.PIPE,
                                   text=True, timeout=timeout)
                rc, err = r.returncode, r.stderr[-4000:]
            except subprocess.TimeoutExpired as e:
                rc, err = -999, "timeout " + (e.stderr[-2000:] if isinstance(e.stderr, str) else "")
            got = []
            if os.path.exists(outp):
                with open(outp) as f:
                    for line in f:
                        line = line.strip()
                        if line:
                            try:
                                got.append(json.loads(line))
                            except Exception:
                                break
            results += got
            start = len(results)
            if start < len(cases):
                # the worker died on case `start`
                results.append({"crash": {"rc": rc, "stderr": err}})
                start += 1
                restarts += 1
                if restarts > 25:
                    while len(results) < len(cases):
                        results.append({"notrun": True})
                    break
        return results
    finally:
        shutil.rmtree(tmp, ignore_errors=True)


# ----------------------------------------------------------------------------------------------
# model side: the extracted OCaml binary
# ----------------------------------------------------------------------------------------------


def _run_model_one(lines, timeout):
    p = subprocess.run(["bash", "-c", f"ulimit -s unlimited 2>/dev/null; exec {MODEL_BIN}"],
                       input="\n".join(lines) + "\n", stdout=subprocess.PIPE, stderr=subprocess.PIPE,
                       text=True, timeout=timeout, env=dict(os.environ))
    out = p.stdout.split("\n")
    if out and out[-1] == "":
        out.pop()
    if len(out) != len(lines):
        raise RuntimeError(f"model returned {len(out)} lines for {len(lines)} requests; rc={p.returncode} "
                           f"stderr={p.stderr[-500:]}")
    return out


def run_model(lines, timeout=1800):
    """lines: list of request strings (without newline) -> list of parsed s-expressions.
    Large batches are spread over several model processes."""
    if not lines:
        return []
    if not os.path.exists(MODEL_BIN):
        raise RuntimeError("model binary missing: run ./setup.sh")
    total = sum(len(x) for x in lines)
    k = 1
    if total > 2_000_000 or len(lines) > 3000:
        k = min(12, len(lines))
    if k == 1:
        return [parse_sx(o) for o in _run_model_one(lines, timeout)]
    from concurrent.futures import ThreadPoolExecutor
    # balance by size: biggest first into the lightest bucket
    order = sorted(range(len(lines)), key=lambda i: -len(lines[i]))
    buckets = [[] for _ in range(k)]
    load = [0] * k
    for i in order:
        j = load.index(min(load))
        buckets[j].append(i)
        load[j] += len(lines[i]) + 200
    with ThreadPoolExecutor(max_workers=k) as ex:
        outs = list(ex.map(lambda b: _run_model_one([lines[i] for i in b], timeout) if b else [], buckets))
    res = [None] * len(lines)
    for b, o in zip(buckets, outs):
        for i, v in zip(b, o):
            res[i] = v
    return [parse_sx(o) for o in res]


# ----------------------------------------------------------------------------------------------
# Coq gate: grep for forbidden constructs, regenerate constants, make, re-check the property file
# ----------------------------------------------------------------------------------------------
FORBIDDEN = re.compile(r"\b(Admitted|admit|Axiom|Axioms|Parameter|Parameters|Conjecture|Conjectures|"
                       r"Admit Obligations|bypass_check|type-in-type|impredicative-set)\b|Unset\s+Guard|"
                       r"Unset\s+Positivity|Unset\s+Universe")


def strip_coq_comments(text):
    out = []
    depth = 0
    i = 0
    while i < len(text):
        if text.startswith("(*", i):
            depth += 1
            i += 2
        elif text.startswith("*)", i) and depth > 0:
            depth -= 1
            i += 2
        else:
            if depth == 0:
                out.append(text[i])
            i += 1
    return "".join(out)


def grep_gate():
    bad = []
    for root, _, fs in os.walk(os.path.join(COQ_DIR, "theories")):
        for f in fs:
            if f.endswith(".v"):
                p = os.path.join(root, f)
                txt = strip_coq_comments(open(p).read())
                for m in FORBIDDEN.finditer(txt):
                    bad.append(f"{os.path.relpath(p, COQ_DIR)}: {m.group(0)}")
                bad += [f"{os.path.relpath(p, COQ_DIR)}: {b}" for b in unsectioned_assumptions(txt)]
    return bad


_SECT = re.compile(r"^[ \t]*(Section|Module\s+Type|Module|End|Hypothesis|Hypotheses|Variable|Variables|Context)\b([^.]*)\.",
                   re.M)


def unsectioned_assumptions(txt):
    """`Variable` / `Hypothesis` / `Context` sentences that are not inside a Section declare an axiom."""
    bad, stack = [], []
    for m in _SECT.finditer(txt):
        kw, rest = m.group(1), m.group(2)
        if kw == "Section":
            stack.append("S")
        elif kw.startswith("Module"):
            if ":=" not in rest:
                stack.append("M")
        elif kw == "End":
            if stack:
                stack.pop()
        elif "S" not in stack:
            bad.append(f"{kw} outside a Section: {(kw + rest)[:80]}")
    return bad


# Axioms the standard library itself declares and this development is allowed to rest on (each is named in
# DESIGN.md section 8).  Anything else reported by Print Assumptions or coqchk -o fails the gate.
ALLOWED_AXIOMS = {
    "Classical_Prop.classic",
    "FunctionalExtensionality.functional_extensionality_dep",
    "ClassicalDedekindReals.sig_forall_dec",
    "ClassicalDedekindReals.sig_not_dec",
}


def axiom_allowed(name):
    n = name.strip()
    for pre in ("Coq.Logic.", "Coq.Reals.", "Coq."):
        if n.startswith(pre):
            n = n[len(pre):]
            break
    return n in ALLOWED_AXIOMS or any(n.endswith("." + a) or a.endswith("." + n) for a in ALLOWED_AXIOMS)


def model_sources_digest():
    """sha256 over every .v file of the development plus the OCaml driver: what the model binary is made from."""
    h = hashlib.sha256()
    files = []
    for root, _, fs in os.walk(os.path.join(COQ_DIR, "theories")):
        files += [os.path.join(root, f) for f in fs if f.endswith(".v")]
    files += [os.path.join(VERIF, "ocaml", f) for f in ("driver.ml", "entries.ml", "build.sh")]
    for f in sorted(files):
        h.update(os.path.relpath(f, VERIF).encode())
        h.update(open(f, "rb").read())
    return h.hexdigest()


def coq_gate(prop_id, full=False, chk=False):
    """Returns dict(ok, errors, assumptions, obligations, discharged, wall_s, checker_cmd)."""
    t0 = time.time()
    res = {"ok": True, "errors": [], "assumptions": [], "obligations": 0, "discharged": 0,
           "checker_cmd": f"cd coq && make && coqc -Q theories SA theories/Props/{prop_id}.v"}
    bad = grep_gate()
    if bad:
        res["ok"] = False
        res["errors"] += ["forbidden construct: " + b for b in bad]
    lockf = open(os.path.join(COQ_DIR, ".buildlock"), "w")
    fcntl.flock(lockf, fcntl.LOCK_EX)
    try:
        g = subprocess.run([PY, os.path.join(VERIF, "tools", "gen_consts.py")], capture_output=True, text=True)
        if g.returncode != 0:
            res["ok"] = False
            res["errors"].append("gen_consts failed (a source constant the model depends on is missing or "
                                 "unrecognised): " + (g.stdout + g.stderr)[-800:])
        consts_changed = "gen_consts: CHANGED" in g.stdout
        if not os.path.exists(os.path.join(COQ_DIR, "Makefile")) or full:
            subprocess.run(["coq_makefile", "-f", "_CoqProject", "-o", "Makefile"], cwd=COQ_DIR,
                           capture_output=True)
        if full:
            subprocess.run(["make", "clean"], cwd=COQ_DIR, capture_output=True)
        # build the dependency cone of this property's statement file (all of it when the regenerated
        # constants changed: the extracted model must then be rebuilt as well)
        target = ["theories/Props/%s.vo" % prop_id] if not (full or consts_changed) else []
        m = subprocess.run(["timeout", "3000", "make", "-j12"] + target, cwd=COQ_DIR, capture_output=True, text=True)
        if m.returncode != 0:
            res["ok"] = False
            err = (m.stdout + m.stderr)
            idx = err.find("Error")
            res["errors"].append("coq build failed: " + err[max(0, idx - 600): idx + 1200])
        elif consts_changed:
            b = subprocess.run(["bash", os.path.join(VERIF, "ocaml", "build.sh")], capture_output=True, text=True)
            if b.returncode != 0:
                res["ok"] = False
                res["errors"].append("re-extraction after a constant change failed: " + (b.stdout + b.stderr)[-800:])
        # the extracted model binary must come from the .v files as they are now (stamp written by ocaml/build.sh)
        if m.returncode == 0 and res["ok"]:
            stamp = os.path.join(VERIF, "ocaml", "samodel.stamp")
            want = model_sources_digest()
            have = open(stamp).read().strip() if os.path.exists(stamp) else ""
            res["model_binary"] = "current"
            if want != have or not os.path.exists(MODEL_BIN):
                b = subprocess.run(["bash", os.path.join(VERIF, "ocaml", "build.sh")], capture_output=True, text=True)
                res["model_binary"] = "re-extracted (sources changed since the last extraction)"
                if b.returncode != 0:
                    res["ok"] = False
                    res["errors"].append("re-extraction failed: " + (b.stdout + b.stderr)[-800:])
        pf = os.path.join(COQ_DIR, "theories", "Props", f"{prop_id}.v")
        if os.path.exists(pf) and m.returncode == 0:
            txt = strip_coq_comments(open(pf).read())
            thms = re.findall(r"\b(Theorem|Lemma|Corollary|Example)\s+(\w+)", txt)
            res["obligations"] = len(thms)
            res["theorems"] = [t[1] for t in thms]
            c = subprocess.run(["timeout", "900", "coqc", "-Q", "theories", "SA", pf], cwd=COQ_DIR,
                               capture_output=True, text=True)
            if c.returncode != 0:
                res["ok"] = False
                res["errors"].append("property file failed: " + (c.stdout + c.stderr)[-1500:])
            else:
                res["discharged"] = len(thms)
                ax = set()
                for blk in re.split(r"\n(?=Axioms:|Closed under)", c.stdout):
                    if blk.startswith("Axioms:"):
                        for mm in re.finditer(r"^([A-Za-z_][\w.]*)\s*(?::|$)", blk[len("Axioms:"):], re.M):
                            ax.add(mm.group(1))
                res["assumptions"] = sorted(ax)
                res["closed_count"] = c.stdout.count("Closed under the global context")
                res["print_assumptions"] = c.stdout.count("Closed under the global context") + \
                    len(re.findall(r"^Axioms:", c.stdout, re.M))
                for a in sorted(ax):
                    if not axiom_allowed(a):
                        res["ok"] = False
                        res["errors"].append(f"Print Assumptions reports an axiom outside the allowlist: {a}")
                # every named statement of the property file must be followed by its own Print Assumptions
                printed = set(re.findall(r"Print\s+Assumptions\s+(\w+)", txt))
                missing = [t[1] for t in thms if t[0] != "Example" and t[1] not in printed]
                if missing:
                    res["ok"] = False
                    res["errors"].append("statements without Print Assumptions: " + ", ".join(missing))
        elif not os.path.exists(pf):
            res["ok"] = False
            res["errors"].append(f"no property file Props/{prop_id}.v")
        if chk and res["ok"]:
            # independent re-check of the compiled statement file and everything it depends on (thorough tier)
            t1 = time.time()
            k = subprocess.run(["timeout", "2400", "coqchk", "-silent", "-o", "-Q", "theories", "SA", f"SA.Props.{prop_id}"],
                               cwd=COQ_DIR, capture_output=True, text=True)
            out = k.stdout + k.stderr
            res["coqchk"] = {"cmd": f"coqchk -silent -o -Q theories SA SA.Props.{prop_id}", "rc": k.returncode,
                             "wall_s": round(time.time() - t1, 1)}
            if k.returncode != 0:
                res["ok"] = False
                res["errors"].append("coqchk failed: " + out[-1200:])
            else:
                sec = out[out.find("* Axioms:"):] if "* Axioms:" in out else ""
                sec = sec[:sec.find("* Constants/Inductives relying on type-in-type")] if sec else ""
                axs = [ln.strip() for ln in sec.splitlines()[1:] if ln.strip() and ln.strip() != "<none>"]
                res["coqchk"]["axioms"] = axs
                for a in axs:
                    if not axiom_allowed(a):
                        res["ok"] = False
                        res["errors"].append(f"coqchk -o reports an axiom outside the allowlist: {a}")
                for key, lab in (("type-in-type", "type-in-type"), ("unsafe (co)fixpoints", "unsafe fixpoints"),
                                 ("positivity is assumed", "assumed positivity")):
                    i = out.find(key)
                    tail = out[i:i + 200].split("\n")[0] if i >= 0 else ""
                    if i >= 0 and "<none>" not in tail:
                        res["ok"] = False
                        res["errors"].append(f"coqchk reports {lab}: {tail}")
    finally:
        fcntl.flock(lockf, fcntl.LOCK_UN)
        lockf.close()
    res["wall_s"] = round(time.time() - t0, 2)
    return res


# ----------------------------------------------------------------------------------------------
# known findings
# ----------------------------------------------------------------------------------------------


def load_known_findings(prop_id):
    p = os.path.join(VERIF, "known_findings.json")
    if not os.path.exists(p):
        return []
    data = json.load(open(p))
    return [e for e in data.get("findings", []) if e.get("property") == prop_id and e.get("status") == "open"]


# ----------------------------------------------------------------------------------------------
# replay + evidence
# ----------------------------------------------------------------------------------------------


def write_replay(prop_id, payload):
    os.makedirs(os.path.join(VERIF, "replays"), exist_ok=True)
    blob = json.dumps(payload, sort_keys=True, default=str)
    h = hashlib.sha256(blob.encode()).hexdigest()[:12]
    rel = os.path.join("replays", f"{prop_id}-{h}.json")
    with open(os.path.join(VERIF, rel), "w") as f:
        json.dump(payload, f, indent=1, sort_keys=True, default=str)
    return rel


def write_evidence(prop_id, ev):
    os.makedirs(os.path.join(VERIF, "evidence"), exist_ok=True)
    with open(os.path.join(VERIF, "evidence", f"{prop_id}.json"), "w") as f:
        json.dump(ev, f, indent=1, sort_keys=True, default=str)


def case_hash(case):
    return hashlib.sha256(json.dumps(case, sort_keys=True, default=str).encode()).hexdigest()[:16]
