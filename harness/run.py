"""Generic three-way check:  impl(x)  vs  model(x) [extracted Coq]  vs  spec(x) [extracted Coq].

usage: run.py <ID> quick|thorough        |  run.py --replay <file>
Exit 0 if the property held on everything explored (KNOWN-FINDING lines allowed), 1 with a
`VIOLATION property=<id> replay=<path>` line otherwise."""
import importlib
import json
import os
import random
import sys
import time
import traceback

from harness import common as C


def load_mod(prop_id):
    return importlib.import_module(f"harness.props.{prop_id.lower()}")


class Outcome:
    def __init__(self):
        self.violations = []      # (case, impl, model, spec, why)
        self.corr_breaks = []     # (case, impl, model)
        self.known = {}           # finding id -> (count, example)
        self.evals = 0
        self.nontrivial = set()
        self.samples = []
        self.dist = {}


def evaluate(mod, cases, scratch, out, findings, asan=False):
    """Run impl / model / spec on cases and classify."""
    if not cases:
        return
    impl = C.run_impl(mod.__name__, cases, scratch, asan=asan,
                      timeout=getattr(mod, "IMPL_TIMEOUT", 1800))
    reqs, idx = [], []
    for i, c in enumerate(cases):
        for kind in ("model", "spec"):
            fn = getattr(mod, kind + "_req", None)
            r = fn(c) if fn else None
            if r is None or r == []:
                continue
            if isinstance(r, str):
                reqs.append(r)
                idx.append((i, kind, None))
            else:
                for j, rr in enumerate(r):
                    reqs.append(rr)
                    idx.append((i, kind, j))
    raw = C.run_model(reqs)
    model = [None] * len(cases)
    spec = [None] * len(cases)
    multi = {}
    for (i, kind, j), r in zip(idx, raw):
        if j is None:
            multi[(i, kind)] = r
        else:
            multi.setdefault((i, kind), []).append(r)
    for (i, kind), r in multi.items():
        if kind == "model":
            model[i] = mod.model_decode(cases[i], r)
        else:
            spec[i] = mod.spec_decode(cases[i], r)
    has_model = [m is not None for m in model]
    has_spec = [s_ is not None for s_ in spec]
    def default_eq(c, a, b):
        if isinstance(a, dict) and isinstance(b, dict) and "exc" in a and "exc" in b:
            return a["exc"] == b["exc"]
        return a == b
    eq = getattr(mod, "equal", default_eq)
    for i, c in enumerate(cases):
        out.evals += 1
        ir = impl[i]
        if isinstance(ir, dict) and ir.get("notrun"):
            out.notrun = getattr(out, "notrun", 0) + 1       # (the worker died on an earlier case, reported there)
            out.evals -= 1
            continue
        if hasattr(mod, "tally"):
            mod.tally(out.dist, c, ir)
        if hasattr(mod, "tally_model") and has_model[i]:
            mod.tally_model(out.dist, c, model[i])
        if len(out.samples) < 3:
            out.samples.append({"case": c, "impl": ir, "model": model[i], "spec": spec[i]})
        try:
            if mod.nontrivial(c, ir):
                out.nontrivial.add(C.case_hash(c))
        except Exception:
            pass
        crashed = isinstance(ir, dict) and "crash" in ir
        corr_ok = (not has_model[i]) or (not crashed and eq(c, ir, model[i]))
        if has_spec[i]:
            prop_ok = (not crashed) and eq(c, ir, spec[i])
        else:
            # no spec for this case (outside the property's domain): only an oracle, if any
            orc = getattr(mod, "oracle", None)
            if orc and getattr(mod, "ORACLE_SEES_MODEL", False):
                prop_ok = (not crashed) and orc(c, ir, model[i])
            else:
                prop_ok = (not crashed) and (orc(c, ir) if orc else True)
        if not corr_ok:
            out.corr_breaks.append((c, ir, model[i]))
        if not prop_ok:
            fid = None
            for f in findings:
                clf = getattr(mod, "CLASSIFIERS", {}).get(f["classifier"])
                if not (clf and corr_ok and has_model[i]):
                    continue
                try:
                    hit = clf(c, f.get("params", {}), ir, model[i], spec[i])      # result-aware classifiers
                except TypeError:
                    hit = clf(c, f.get("params", {}))
                if hit:
                    fid = f["id"]
                    break
            if fid:
                n, ex = out.known.get(fid, (0, None))
                out.known[fid] = (n + 1, ex or {"case": c, "impl": ir, "spec": spec[i]})
            else:
                out.violations.append((c, ir, model[i], spec[i],
                                       "crash" if crashed else "impl != spec"))


def shrink_violation(mod, v, scratch, findings):
    """Greedy shrinking with the property's own candidate generator."""
    cand_fn = getattr(mod, "shrink_candidates", None)
    if not cand_fn:
        return v
    cur = v
    for _ in range(12):
        norm = getattr(mod, "normalize", None)
        cands = cand_fn(cur[0])[:60]
        if norm:
            cands = [norm(c) for c in cands]
        if not cands:
            break
        o = Outcome()
        evaluate(mod, cands, scratch, o, findings)
        if not o.violations:
            break
        # take the smallest failing candidate
        best = min(o.violations, key=lambda t: len(json.dumps(t[0])))
        if len(json.dumps(best[0])) >= len(json.dumps(cur[0])):
            break
        cur = best
    return cur


def corpus_cases(prop_id, mod=None):
    d = os.path.join(C.VERIF, "corpus", prop_id)
    norm = getattr(mod, "normalize", None) if mod else None
    out = []
    if os.path.isdir(d):
        for f in sorted(os.listdir(d)):
            if f.endswith(".json"):
                try:
                    c = json.load(open(os.path.join(d, f)))["case"]
                    c = norm(c) if norm else c
                    if mod is not None and hasattr(mod, "model_req"):
                        mod.model_req(c)          # a corpus entry the property's encoder rejects is skipped
                    out.append(c)
                except Exception:
                    pass
    return out


def corpus_report(prop_id, mod):
    d = os.path.join(C.VERIF, "corpus", prop_id)
    files = sorted(f for f in os.listdir(d) if f.endswith(".json")) if os.path.isdir(d) else []
    return {"files": len(files), "loaded": len(corpus_cases(prop_id, mod))}


def run_check(prop_id, tier):
    t0 = time.time()
    seed = int(os.environ.get("VERIF_SEED", "0") or 0)
    mod = load_mod(prop_id)
    if hasattr(mod, "run"):                      # fully custom check
        return mod.run(tier, seed)
    rng = random.Random((seed, prop_id, tier).__repr__())
    findings = C.load_known_findings(prop_id)
    fp = C.source_fingerprint()
    gate = C.coq_gate(prop_id, full=False, chk=(tier == "thorough"))
    xc = None
    if gate["ok"]:
        from harness import xcheck
        try:
            xc = xcheck.run(prop_id, seed)
        except Exception as e:      # noqa
            xc = {"cases": 0, "ok": False, "error": repr(e)[:500]}
        if xc is not None and not xc["ok"]:
            gate["ok"] = False
            gate["errors"].append("the extracted model binary disagrees with vm_compute inside Coq: " + xc.get("error", ""))
    violations_out = []

    def report(payload, nofail=False):
        payload.update({"property": prop_id, "tier": tier, "seed": seed, "source_fingerprint": fp})
        rel = C.write_replay(prop_id, payload)
        line = f"VIOLATION property={prop_id} replay={rel}" + (" no-failing-input-found" if nofail else "")
        print(line, flush=True)
        violations_out.append(line)

    out = Outcome()
    build_err = None
    try:
        scratch = C.scratch_build()
    except C.BuildError as e:
        scratch = None
        build_err = str(e)
    if scratch is None:
        report({"kind": "build", "what": "the working tree does not build, nothing can be shown to hold",
                "log": build_err}, nofail=True)
    else:
        generated = mod.gen(rng, tier)
        cases = corpus_cases(prop_id, mod) + generated
        evaluate(mod, cases, scratch, out, findings)
        ran = out.evals
        if not generated or not ran:
            report({"kind": "harness", "what": "the generator produced no case (or none was evaluated): nothing was "
                    "shown to hold", "generated": len(generated), "evaluated": out.evals}, nofail=True)
        extra_ev = {}
        if hasattr(mod, "extra_phase"):
            ctx = {"tier": tier, "seed": seed, "rng": rng, "scratch": scratch, "cases": cases, "out": out,
                   "findings": findings}
            extra_ev = mod.extra_phase(ctx) or {}
        broken = (not gate["ok"]) or out.corr_breaks
        if broken and not out.violations:
            # correspondence or proof broke: search harder for a failing input of the property itself
            for k in range(1, 4):
                rng2 = random.Random((seed, prop_id, tier, "search", k).__repr__())
                extra = mod.gen(rng2, "search")
                for cb in out.corr_breaks[:5]:
                    if hasattr(mod, "shrink_candidates"):
                        extra += mod.shrink_candidates(cb[0])[:40]
                o2 = Outcome()
                evaluate(mod, extra, scratch, o2, findings)
                out.evals += o2.evals
                out.violations += o2.violations
                for fid, (n, ex) in o2.known.items():
                    n0, ex0 = out.known.get(fid, (0, None))
                    out.known[fid] = (n0 + n, ex0 or ex)
                if out.violations:
                    break
        if out.violations:
            v = shrink_violation(mod, out.violations[0], scratch, findings)
            report({"kind": "input", "entry": getattr(mod, "ENTRY", prop_id), "case": v[0], "impl": v[1],
                    "model": v[2], "spec": v[3], "why": v[4], "others": len(out.violations) - 1})
        elif broken:
            if not gate["ok"]:
                report({"kind": "theorem", "what": "a proof obligation, constant or the forbidden-construct gate "
                        "no longer checks", "errors": gate["errors"]}, nofail=True)
            else:
                cb = out.corr_breaks[0]
                report({"kind": "correspondence", "entry": getattr(mod, "ENTRY", prop_id),
                        "what": "implementation and Coq model disagree; no input violating the property was found",
                        "case": cb[0], "impl": cb[1], "model": cb[2], "count": len(out.corr_breaks)}, nofail=True)
    for fid, (n, ex) in sorted(out.known.items()):
        f = [x for x in findings if x["id"] == fid][0]
        print(f"KNOWN-FINDING: property={prop_id} {fid}: {f['what']} ({n} case(s) this run)", flush=True)

    level = getattr(mod, "LEVEL", "proof")
    cov = {
        "evaluations": out.evals,
        "distinct_nontrivial": len(out.nontrivial),
        "rule": getattr(mod, "RULE", ""),
        "samples": out.samples[:3],
        "obligations": gate["obligations"],
        "discharged": gate["discharged"],
        "checker_cmd": gate["checker_cmd"],
        "trusted_base": ["Coq 8.16.1 kernel (coqc), vm_compute"] +
                        ["axiom: " + a for a in gate["assumptions"]] + getattr(mod, "TRUSTED", []),
        "theorems": gate.get("theorems", []),
        "closed_under_global_context": gate.get("closed_count", 0),
        "correspondence": {"cases": out.evals, "impl_ne_model": len(out.corr_breaks)},
        "known_findings_seen": {k: v[0] for k, v in out.known.items()},
        "not_run_after_a_crash": getattr(out, "notrun", 0),
        "corpus_entries": corpus_report(prop_id, mod),
        "input_distribution": out.dist,
        "explanation": getattr(mod, "EXPLANATION", ""),
        "coq_gate_s": gate["wall_s"],
        "extraction_crosscheck": xc if xc is not None else "not sampled for this property (done for C01-C03, C05-C08, C11-C17)",
        "model_binary": gate.get("model_binary", "not checked (the Coq build failed)"),
        "print_assumptions_outputs": gate.get("print_assumptions", 0),
        "coqchk": gate.get("coqchk", "not run in this tier (thorough only)"),
    }
    try:
        cov.update(extra_ev)
    except NameError:
        pass
    ev = {"property_id": prop_id, "tier": tier if tier in ("quick", "thorough") else "quick", "seed": seed,
          "level": level, "coverage": cov, "assumptions": getattr(mod, "ASSUMPTIONS", []),
          "wall_s": round(time.time() - t0, 2), "violations": len(violations_out)}
    C.write_evidence(prop_id, ev)
    return 1 if violations_out else 0


def run_replay(path):
    if not os.path.isabs(path):
        path = os.path.join(C.VERIF, path)
    rp = json.load(open(path))
    rp["_file"] = os.path.basename(path)
    prop_id = rp["property"]
    mod = load_mod(prop_id)
    if hasattr(mod, "replay"):
        r = mod.replay(rp)
        if r is not None:             # None: the module's hook does not handle this replay file, the generic path does
            return r
    if rp.get("kind") not in ("input", "correspondence"):
        print(f"replay of kind {rp.get('kind')}: re-running the quick check")
        return run_check(prop_id, "quick")
    scratch = C.scratch_build()
    out = Outcome()
    evaluate(mod, [rp["case"]], scratch, out, C.load_known_findings(prop_id))
    if out.violations:
        v = out.violations[0]
        print(f"VIOLATION property={prop_id} replay={os.path.relpath(path, C.VERIF)}")
        print(json.dumps({"impl": v[1], "model": v[2], "spec": v[3]}, default=str)[:2000])
        return 1
    if out.corr_breaks:
        print(f"VIOLATION property={prop_id} replay={os.path.relpath(path, C.VERIF)} no-failing-input-found")
        return 1
    if out.known:
        for fid, (n, ex) in sorted(out.known.items()):
            print(f"KNOWN-FINDING: property={prop_id} {fid}: this input still fails and is attributed to the listed finding")
        return 0
    print("replay: property holds on this input now")
    return 0


if __name__ == "__main__":
    try:
        if sys.argv[1] == "--replay":
            sys.exit(run_replay(sys.argv[2]))
        sys.exit(run_check(sys.argv[1], sys.argv[2] if len(sys.argv) > 2 else "quick"))
    except SystemExit:
        raise
    except Exception:
        traceback.print_exc()
        sys.exit(2)
