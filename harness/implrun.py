"""Implementation-side worker: runs a property's impl() on each case with the scratch build on
PYTHONPATH and appends one JSON line per case (flushed), so a crash identifies its case."""
import importlib
import json
import sys
import warnings
import logging


def main():
    modname, inp, outp, start = sys.argv[1], sys.argv[2], sys.argv[3], int(sys.argv[4])
    warnings.filterwarnings("ignore")
    logging.disable(logging.CRITICAL)
    mod = importlib.import_module(modname)
    cases = json.load(open(inp))
    if hasattr(mod, "impl_setup"):
        mod.impl_setup()
    with open(outp, "a") as f:
        for c in cases[start:]:
            try:
                r = mod.impl(c)
            except BaseException as e:   # noqa
                if isinstance(e, (KeyboardInterrupt, SystemExit)):
                    raise
                r = {"exc": type(e).__name__, "msg": str(e)[:200]}
            f.write(json.dumps(r, default=lambda o: o.item() if hasattr(o, "item") else str(o)) + "\n")
            f.flush()


if __name__ == "__main__":
    main()
