"""C03 — exact phrase frequency counts contiguous in-order occurrences."""
from harness.props import corpus as K
from harness.props import c01 as B

ID = "C03"
ENTRY = "SearchArray.termfreqs(list[str]) with slop=0"
LEVEL = "proof"
RULE = ("corpora over small vocabularies with the phrase planted at every offset 0..60 relative to the 18-position "
        "word boundaries, near-miss documents (one term altered, the two halves apart, reversed), and the rarest "
        "posting list forced to every index of the phrase (so left-to-right, right-to-left and middle-out are all "
        "reached: counts in input_distribution); phrases of length 2..8 incl. unknown terms, repeated non-adjacent and "
        "adjacent terms. Non-trivial = some document has occ > 0 and some document is a near miss (occ = 0, all terms present).")
TRUSTED = B.TRUSTED
ASSUMPTIONS = B.ASSUMPTIONS + ["phrases with an immediately repeated term are only bounded (non-overlapping <= freq <= overlapping, same support)"]
EXPLANATION = ("model = line-level bigram chain (fused intersect/adjacent kernel, inner and cross-word adjacency, same-term "
               "path, adjacency-bit merge, strategy selection); spec = number of offsets where the phrase occurs.")


def plant(rng, doc, ph, at):
    d = list(doc)
    while len(d) < at + len(ph):
        d.append(rng.choice(doc) if doc else ph[0])
    d[at:at + len(ph)] = ph
    return d


def gen_case(rng, big=False):
    vocab = rng.choice([3, 4, 5, 8])
    L = rng.choice([2, 2, 3, 3, 4, 5, 6, 7, 8])
    style = rng.choice(["distinct", "distinct", "nonadj", "adjrep"])
    if style == "distinct":
        terms = list(range(1, 9))
        rng.shuffle(terms)
        ph = terms[:L]
    elif style == "nonadj":
        ph = []
        while len(ph) < L:
            t = rng.randint(1, 4)
            if not ph or ph[-1] != t:
                ph.append(t)
    else:
        ph = [rng.randint(1, 3) for _ in range(L)]
        if L >= 2:
            i = rng.randrange(L - 1)
            ph[i + 1] = ph[i]
    rare_idx = rng.randrange(L)
    rare = ph[rare_idx]
    filler = [t for t in set(ph) if t != rare] + [20, 21]
    nd = rng.randint(2, 9)
    docs = []
    for k in range(nd):
        ln = rng.choice([rng.randint(1, 30), rng.randint(20, 90), rng.randint(60, 200 if not big else 700)])
        kind = rng.choice(["hit", "hit", "near", "noise", "halves", "empty", "dense"])
        if kind == "empty":
            docs.append([])
            continue
        base = [rng.choice(filler) for _ in range(ln)]
        if kind == "dense":
            base = [rng.choice(list(set(ph))) for _ in range(ln)]
        if kind == "hit":
            for _ in range(rng.randint(1, 3)):
                at = rng.choice([rng.randint(0, 60), 18 * rng.randint(0, 6) + rng.choice([-len(ph), -2, -1, 0, 1, 16, 17]) ])
                at = max(0, at)
                base = plant(rng, base, ph, at)
        elif kind == "near":
            bad = list(ph)
            j = rng.randrange(L)
            bad[j] = 20 if rng.random() < 0.5 else ph[(j + 1) % L]
            base = plant(rng, base, bad, rng.randint(0, 40))
            if rare not in base:
                base.append(rare)
        elif kind == "halves" and L >= 3:
            h = rng.randint(1, L - 1)
            base = plant(rng, base, ph[:h], rng.randint(0, 20))
            base = plant(rng, base, ph[h:], rng.randint(30, 60))
        docs.append(base)
    voc = K.vocab_of(docs)
    qs = [["phrase", ph]]
    # sub-phrases, a permutation, an unknown term, a same-term pair
    if L >= 3:
        qs.append(["phrase", ph[1:]])
        qs.append(["phrase", ph[:-1]])
    p2 = list(ph)
    rng.shuffle(p2)
    qs.append(["phrase", p2])
    qs.append(["phrase", ph[:1] + [999]])
    qs.append(["phrase", [ph[0], ph[0]]])
    if len(voc) >= 2:
        qs.append(["phrase", [rng.choice(voc) for _ in range(rng.randint(2, 5))]])
    xs = [["strategy", q[1]] for q in qs]
    return {"docs": docs, "tokz": rng.choice(K.TOKZ), "opts": K.gen_opts(rng, len(docs)), "queries": qs, "xqueries": xs}


def gen(rng, tier):
    n = {"quick": 500, "thorough": 9000, "search": 1200}[tier]
    return [gen_case(rng, big=(tier == "thorough" and i % 10 == 0)) for i in range(n)]


impl = K.impl_index_queries
model_req = K.model_req_index
spec_req = K.spec_req_index


def model_decode(c, r):
    return K.decode_queries(c, r)


def spec_decode(c, r):
    d = K.decode_queries(c, r, n_spec_only=True)
    d["spec"] = True
    return d


def _phrase_ok(iv, sv):
    """impl answer iv = ["ok", [..]] against spec sv = ["ok", [occ, non, strict]]"""
    if iv[0] != "ok" or sv[0] != "ok":
        return False
    occ, non, strict = sv[1]
    got = iv[1]
    if len(got) != len(occ):
        return False
    if strict:
        return got == occ
    return all((g > 0) == (o > 0) and n <= g <= o for g, o, n in zip(got, occ, non))


def equal(c, a, b):
    if not isinstance(a, dict) or not isinstance(b, dict):
        return False
    if "build_exc" in a or "build_exc" in b:
        return a.get("build_exc") == b.get("build_exc")
    if b.get("spec"):
        return len(a.get("q", [])) == len(b["q"]) and all(_phrase_ok(x, y) for x, y in zip(a["q"], b["q"]))
    return a.get("q") == b.get("q")        # impl vs model: exact (strategy answers are model-only, not compared)


def nontrivial(c, r):
    if not isinstance(r, dict) or "q" not in r or r["q"][0][0] != "ok":
        return False
    ph = c["queries"][0][1]
    got = r["q"][0][1]
    hit = any(g > 0 for g in got)
    near = any(g == 0 and d and all(t in d for t in ph) for g, d in zip(got, c["docs"]))
    return hit and near


def tally(dist, c, r):
    B.tally(dist, c, r)


def tally_model(dist, c, m):
    if isinstance(m, dict) and "x" in m:
        for q, v in zip(c["queries"], m["x"]):
            if v[0] == "ok":
                k = "strategy:" + str(v[1])
                dist[k] = dist.get(k, 0) + 1


def dbg_key(c):
    return ""


shrink_candidates = B.shrink_candidates
