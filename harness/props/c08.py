"""C08 — index contents do not depend on batching, threading, caching or memory-mapping."""
import struct

from harness.common import sx
from harness.props import corpus as K
from harness.props import c01 as B
from harness.props import c04

ID = "C08"
ENTRY = "SearchArray.index(docs, **options) vs SearchArray.index(docs, workers=1, batch_size=huge)"
LEVEL = "proof"
RULE = ("corpora x batch_size in 1..n+1 x workers in 1..8 x FORCED completion orders of the in-flight futures (wrapped "
        "as_completed yields a seeded permutation) x autowarm / cache_gt_than / avoid_copies / data_dir, thread switch "
        "interval down to 1 microsecond, GIL-yielding tokenizers, and a FORCED preemption inside TermDict.add_term (between the "
        "id computation and the store) while several workers add new tokens; every answer (tf, df, positions, lengths, avg, "
        "phrase, default score bits) is compared with the single-batch single-thread index, the Coq model (batched "
        "pipeline) and the spec. Non-trivial = at least 3 batches and 2 groups of futures. Distinct by input hash.")
TRUSTED = B.TRUSTED + ["ThreadPoolExecutor / GIL scheduling are exercised, not modelled; the model assumes TermDict.add_term is atomic "
                       "(Index/Sched.v) and the check forces a preemption inside it to test exactly that"]
ASSUMPTIONS = B.ASSUMPTIONS + ["real thread interleavings inside add_term and the tokenizer cannot be exhibited by the model"]
EXPLANATION = ("model = batches_of / build_batch / concat_posts / slotting by batch offset; theorems C08_* (Props/C08.v); "
               "check = configured index vs baseline index vs model vs spec, with forced completion orders.")


def gen(rng, tier):
    n = {"quick": 150, "thorough": 3000, "search": 400}[tier]
    cases = []
    for i in range(n):
        docs, vocab = K.gen_docs(rng, n_docs=rng.choice([3, 5, 8, 12, 20, rng.randint(2, 58)]), maxlen=30, vocab=rng.choice([2, 4, 9, 40]))
        nd = len(docs)
        opts = {"batch_size": rng.choice([1, 1, 2, 3, 5, 7, nd, nd + 1, rng.randint(1, nd + 1)]),
                "workers": rng.choice([1, 2, 2, 3, 4, 8])}
        if rng.random() < 0.4:
            opts["cache_gt_than"] = rng.choice([0, 1, 3, 25])
        if rng.random() < 0.4:
            opts["autowarm"] = rng.random() < 0.5
        if rng.random() < 0.3:
            opts["avoid_copies"] = rng.random() < 0.5
        if rng.random() < 0.2:
            opts["data_dir"] = True
        voc = K.vocab_of(docs) or [0]
        qs = []
        for t in (voc if len(voc) <= 5 else rng.sample(voc, 5)):
            qs += [["tf", t], ["df", t], ["pos", t]]
        qs += [["tf", vocab + 9], ["lens"], ["n"], ["avg"]]
        if len(voc) >= 2:
            for _ in range(3):
                qs.append(["phrase", [rng.choice(voc) for _ in range(rng.randint(2, 3))]])
        for t in voc[:2]:
            dfs = [sum(1 for d in docs if d and t in d)]
            qs.append(["score", [t], c04.f64_bits(c04.idf_of(nd, dfs))])
        case = {"docs": docs, "tokz": rng.choice(["ws", "table", "gen", "yield"]), "opts": opts, "queries": qs,
                "order_seed": rng.randint(0, 10 ** 6), "switch": rng.choice([None, 1e-6, 1e-5])}
        # the settings must not change the answers of arrays DERIVED from the index either: selections, copies of
        # selections, take, selections of selections (avoid_copies decides whether these share or copy postings)
        if nd >= 2:
            der = []
            for _ in range(rng.randint(1, 3)):
                m = rng.randint(1, min(nd, 6))
                rows = rng.sample(range(nd), m) if rng.random() < 0.7 else [rng.randrange(nd) for _ in range(m)]
                if rng.random() < 0.4:
                    rows = sorted(rows)
                der.append([rng.choice(["sel", "selcopy", "selcopy", "take", "take", "selsel", "copysel"]), rows])
            case["derived"] = der
            if rng.random() < 0.5:
                case["opts"]["avoid_copies"] = rng.random() < 0.3          # mostly False: the non-default setting
        if i % 6 == 5:
            # term-dictionary race family: several threads add NEW tokens at the same time, and the harness forces a
            # preemption between the id computation and the store (see impl: yielding len in searcharray.term_dict)
            case["opts"]["workers"] = rng.choice([2, 3, 4, 8])
            case["opts"]["batch_size"] = rng.choice([1, 1, 2])
            case["preempt"] = True
            case["tokz"] = rng.choice(["table", "gen"])
        cases.append(case)
    return cases


def _run_queries(arr, qs):
    import numpy as np
    out = []
    for q in qs:
        if q[0] == "score":
            try:
                s = arr.score(K.tok_name(q[1][0]))
                out.append(["ok", ["nan" if x != x else int(np.float32(x).view(np.uint32)) for x in s]])
            except Exception as e:   # noqa
                out.append(["exc", type(e).__name__])
        else:
            out.append(K.run_query(arr, q))
    return out


def _run_derived(arr, case):
    """answers of arrays derived from the index (rows picked by position): tf / df / score / phrase / lengths"""
    import numpy as np
    out = []
    qs = [q for q in case["queries"] if q[0] in ("tf", "df", "score", "phrase", "lens")][:9]
    for kind, rows in case.get("derived", []):
        try:
            key = np.array(rows, dtype=np.int64)
            if kind == "sel":
                d = arr[key]
            elif kind == "selcopy":
                d = arr[key].copy()
            elif kind == "take":
                d = arr.take(key)
            elif kind == "selsel":
                d = arr[key][::-1][: max(1, len(rows) - 1)]
            else:
                d = arr.copy()[key]
            out.append(_run_queries(d, qs))
        except Exception as e:   # noqa
            out.append(["exc", type(e).__name__])
    return out


def impl(case):
    import random
    import sys
    import time
    import shutil
    import searcharray.indexing as ix
    from searcharray import SearchArray
    docs = case["docs"]
    table = {f"doc-{i}": [K.tok_name(t) for t in (d or [])] for i, d in enumerate(docs)}
    keys = [f"doc-{i}" for i in range(len(docs))]
    tokz = case["tokz"]
    if tokz == "ws":
        keys = [" ".join(table[k]) for k in keys]
        tk = None
    elif tokz == "table":
        def tk(s):
            return list(table[s])
    elif tokz == "gen":
        def tk(s):
            return (x for x in table[s])
    else:
        def tk(s):
            for x in table[s]:
                time.sleep(0)          # yield the GIL between tokens
                yield x
    # baseline: one batch, one thread
    base = SearchArray.index(keys, **({"tokenizer": tk} if tk else {}), workers=1, batch_size=10 ** 9)
    rbase = _run_queries(base, case["queries"])
    rbase_d = _run_derived(base, case)
    # configured build with a forced completion order
    orig = ix.as_completed
    rng = random.Random(case["order_seed"])

    def forced(futures, *a, **k):
        fs = list(futures)
        for f in fs:
            f.exception()            # wait for completion without raising here
        rng.shuffle(fs)
        return iter(fs)
    ix.as_completed = forced
    import builtins
    import searcharray.term_dict as tdm
    had_len = "len" in tdm.__dict__
    if case.get("preempt"):
        # forced schedule inside TermDict.add_term: a module-global `len` that sleeps lets every other worker run
        # between "next id = len(dict)" and the store (a legal preemption point of the real code, made certain)
        def yielding_len(x):
            n = builtins.len(x)
            time.sleep(0.0003)
            return n
        tdm.len = yielding_len
    old = sys.getswitchinterval()
    if case.get("switch"):
        sys.setswitchinterval(case["switch"])
    opts = dict(case["opts"])
    ddir = None
    if opts.get("data_dir"):
        import tempfile
        ddir = tempfile.mkdtemp(prefix="sa-verif-dd-", dir="/var/tmp")
        opts["data_dir"] = ddir
    try:
        arr = SearchArray.index(keys, **({"tokenizer": tk} if tk else {}), **opts)
        rcfg = _run_queries(arr, case["queries"])
        rcfg_d = _run_derived(arr, case)
    except Exception as e:   # noqa
        rcfg = {"build_exc": type(e).__name__, "msg": str(e)[:100]}
        rcfg_d = None
    finally:
        ix.as_completed = orig
        if case.get("preempt") and not had_len:
            del tdm.len
        sys.setswitchinterval(old)
        if ddir:
            shutil.rmtree(ddir, ignore_errors=True)
    return {"base": rbase, "cfg": rcfg, "base_d": rbase_d, "cfg_d": rcfg_d}


def model_req(case):
    n = len(case["docs"])
    bs = case["opts"].get("batch_size", 100000)
    qs = []
    for q in case["queries"]:
        if q[0] == "avg":
            qs.append(["total"])
        elif q[0] == "score":
            qs.append(["score", q[1], q[2], 4608083138725491507, 4604930618986332160])
        else:
            qs.append(list(q))
    return sx(["index_query", 0, min(bs, n + 1), K.docs_sx(case["docs"]), qs])


def spec_req(case):
    qs = []
    for q in case["queries"]:
        if q[0] == "avg":
            qs.append(["total"])
        elif q[0] == "score":
            qs.append(["n"])          # placeholder: scores are compared against the baseline index and the model only
        else:
            qs.append(list(q))
    return sx(["spec_index_query", K.docs_sx(case["docs"]), qs])


def _dec(case, r, spec=False):
    if r[0] != "ok":
        return {"build_exc": r[1]} if r[0] == "exc" else {"modelfault": r}
    out = []
    n = len(case["docs"])
    for q, v in zip(case["queries"], r[1]):
        if v[0] != "ok":
            out.append(["exc", v[1]] if v[0] == "exc" else ["modelfault", v])
        elif q[0] == "avg":
            out.append(["ok", K.rn_f32_bits(v[1], n)])
        elif q[0] == "score":
            out.append(["skip"] if spec else ["ok", ["nan" if (x & 0x7F800000) == 0x7F800000 and (x & 0x7FFFFF) else x for x in v[1]]])
        elif q[0] == "phrase" and spec:
            out.append(["phrase-spec", v[1]])
        else:
            out.append(["ok", v[1]])
    return {"q": out, "spec": spec}


def model_decode(case, r):
    return _dec(case, r)


def spec_decode(case, r):
    return _dec(case, r, spec=True)


def equal(case, a, b):
    if not isinstance(a, dict) or "base" not in a:
        return False
    if a["cfg"] != a["base"] or a.get("cfg_d") != a.get("base_d"):
        return False                      # the configuration changed an answer (of the index or of a derived array)
    if "q" not in b:
        return False
    from harness.props import c03
    if len(a["cfg"]) != len(case["queries"]) or len(b["q"]) != len(case["queries"]):
        return False                      # one answer per query on both sides
    for q, iv, ov in zip(case["queries"], a["cfg"], b["q"]):
        if ov[0] == "skip":
            continue
        if ov[0] == "phrase-spec":
            if not c03._phrase_ok(iv, ["ok", ov[1]]):
                return False
            continue
        if q[0] == "pos" and b.get("spec") and iv[0] == "exc":
            # positions of a term of the corpus must not raise; for an absent term (possible after shrinking) the
            # implementation raises TermMissingError and the spec has no opinion
            if any(q[1] in (d or []) for d in case["docs"]):
                return False
            continue
        if iv != ov:
            # positions of an absent term: implementation raises TermMissingError; spec has no opinion
            if q[0] == "pos" and b.get("spec") and not any(q[1] in (d or []) for d in case["docs"]):
                continue
            return False
    return True


def nontrivial(case, r):
    n = len(case["docs"])
    bs = case["opts"].get("batch_size", 10 ** 9)
    w = case["opts"].get("workers", 4)
    nb = -(-n // bs)
    return nb >= 3 and w > 1 and nb > w


def tally(dist, c, r):
    n = len(c["docs"])
    bs = c["opts"].get("batch_size", 10 ** 9)
    nb = -(-n // bs)
    k = "batches:" + ("1" if nb == 1 else "2-3" if nb <= 3 else "4+")
    dist[k] = dist.get(k, 0) + 1
    dist[f"workers:{c['opts'].get('workers', 4)}"] = dist.get(f"workers:{c['opts'].get('workers', 4)}", 0) + 1
    if c["opts"].get("data_dir"):
        dist["data_dir"] = dist.get("data_dir", 0) + 1
    if isinstance(r, dict) and isinstance(r.get("cfg"), dict):
        dist["cfg_build_exc"] = dist.get("cfg_build_exc", 0) + 1


def shrink_candidates(c):
    out = []
    for e in B.shrink_candidates(c):
        e = dict(e)
        qs = []
        for q in e["queries"]:
            if q[0] == "score":
                dfs = [sum(1 for d in e["docs"] if d and q[1][0] in d)]
                q = ["score", q[1], c04.f64_bits(c04.idf_of(len(e["docs"]), dfs))]
            qs.append(q)
        e["queries"] = qs
        if not e.get("opts"):
            e["opts"] = {"batch_size": c["opts"].get("batch_size", 2), "workers": c["opts"].get("workers", 2)}
        out.append(e)
    return out
