"""C02 — document frequency, document lengths and corpus statistics match the corpus."""
from harness.props import corpus as K
from harness.props import c01 as B

ID = "C02"
ENTRY = "SearchArray.docfreq / doclengths / avg_doc_length / corpus_size"
LEVEL = "proof"
RULE = ("corpora with leading/trailing/interleaved empty documents, all-empty batches, None/NaN entries, batch sizes "
        "that put empties on both sides of every boundary, workers 1..8; docfreq of every vocabulary term and absent "
        "terms, doclengths, avg_doc_length (float32 bit pattern vs correctly rounded total/n), corpus_size. "
        "Non-trivial = at least one empty and two non-empty documents. Distinct by input hash.")
TRUSTED = B.TRUSTED + ["np.mean over float32 = correctly rounded exact mean while the total is below 2^24 (validated, not proved)"]
ASSUMPTIONS = B.ASSUMPTIONS
EXPLANATION = "model = _compute_doc_lens diff trick per batch, unique keys for docfreq; spec = lengths/counts of the token lists."


def gen(rng, tier):
    n = {"quick": 250, "thorough": 4000, "search": 700}[tier]
    cases = []
    for i in range(n):
        docs, vocab = K.gen_docs(rng, empties=rng.choice([0.1, 0.3, 0.6, 0.9]), nones=rng.choice([0, 0, 0.15]))
        if rng.random() < 0.15:
            docs = [[] for _ in docs]                      # all-empty corpus
        if rng.random() < 0.3:
            docs = [[]] * rng.randint(1, 3) + docs + [[]] * rng.randint(1, 3)
        voc = K.vocab_of(docs)
        qs = [["df", t] for t in (voc if len(voc) <= 10 else rng.sample(voc, 10))] + [["df", vocab + 999]]
        qs += [["lens"], ["n"], ["avg"], ["len"]]
        tokz = "ws" if any(d is None for d in docs) else rng.choice(K.TOKZ)
        opts = K.gen_opts(rng, len(docs))
        cases.append({"docs": docs, "tokz": tokz, "opts": opts, "queries": qs})
    return cases


impl = K.impl_index_queries


def _strip(c):
    d = dict(c)
    d["queries"] = [q for q in c["queries"] if q[0] != "len"] + [["n"] for q in c["queries"] if q[0] == "len"]
    return d


def model_req(c):
    return K.model_req_index(_strip(c))


def spec_req(c):
    return K.spec_req_index(_strip(c))


def model_decode(c, r):
    return K.decode_queries(_strip(c), r)


def spec_decode(c, r):
    return K.decode_queries(_strip(c), r, n_spec_only=True)


def equal(c, a, b):
    # impl answers are in the order of c["queries"]; model/spec in the order of _strip(c)
    if isinstance(a, dict) and "q" in a and len(a["q"]) == len(c["queries"]):
        qa = [v for q, v in zip(c["queries"], a["q"]) if q[0] != "len"] + [v for q, v in zip(c["queries"], a["q"]) if q[0] == "len"]
        a = {"q": qa, "x": a.get("x", [])}
    return B.equal(c, a, b)


def nontrivial(c, r):
    ne = [d for d in c["docs"] if d]
    return len(ne) >= 2 and len(ne) < len(c["docs"])


tally = B.tally
shrink_candidates = B.shrink_candidates
