"""C07 — queries are pure: no read-only history changes any later answer."""
from harness.common import sx
from harness.props import corpus as K
from harness.props import c01 as B
from harness.props import c04

ID = "C07"
ENTRY = "every public query method before/after arbitrary other read-only calls"
LEVEL = "proof"
RULE = ("random operation sequences (5..60 ops) over a pool {base index, views, views of views, copies, pickled copies}: "
        "tf (with/without range), phrase, positions, docfreq, lengths, score, warm, select, copy, pickle round trip, "
        "edismax; postings straddle cache_gt_than (0,1,3,25) and the 255-word warm threshold. Each op's output is "
        "compared with the cache-aware Coq state machine; at the end every earlier query is repeated and compared with "
        "its first answer and with the answer of a freshly built array, and every array returned earlier is checked to be "
        "unmodified. Non-trivial = a sequence with a select on a view (every query of every sequence is repeated at its end). Distinct by hash.")
TRUSTED = B.TRUSTED + ["pickle round trips are mapped to copy in the state machine (outputs do not depend on which)"]
ASSUMPTIONS = B.ASSUMPTIONS
EXPLANATION = ("Theorems (Props/C07.v): cache invariant preserved by every operation; under it every output equals the "
               "history-free answer (generic form with two postings premises; premise-free for every indexed corpus and EVERY "
               "operation sequence: C07_every_output_is_history_free, C07_repeat_same, C07_history_free; running edismax or any dynamic program of queries and selections: "
               "C07_edismax_is_history_free). The check runs the state machine against the real objects "
               "op by op and re-asks queries under other histories.")


SIMS = ["classic", "bm25", "legacy", "user_lennorm", "user_tf", "edismax_classic"]


def _make_sim(kind):
    import numpy as np
    from searcharray.similarity import classic_similarity, bm25_similarity, bm25_legacy_similarity
    if kind in ("classic", "edismax_classic"):
        return classic_similarity()
    if kind == "bm25":
        return bm25_similarity(k1=0.9, b=0.4)
    if kind == "legacy":
        return bm25_legacy_similarity(k1=1.6, b=0.5)
    if kind == "user_lennorm":
        return lambda term_freqs, doc_freqs, doc_lens, avg_doc_lens, num_docs: term_freqs / (1.0 + doc_lens)
    return lambda term_freqs, doc_freqs, doc_lens, avg_doc_lens, num_docs: np.asarray(term_freqs, dtype=np.float64)


def gen_ops(rng, docs, voc, nd, length):
    ops = [["lens", 0]]        # asked first and again at the very end: no similarity may touch the stored lengths
    sizes = [nd]          # number of rows of each pool array
    subset = [False]
    for _ in range(length):
        a = rng.randrange(len(sizes))
        r = rng.random()
        t = rng.choice(voc + [9999])
        if r < 0.18:
            lo = hi = None
            if rng.random() < 0.4:
                # a small set of windows, one-sided ones included, so that windows sharing a bound recur in a history
                w = rng.randint(0, 2)
                lo, hi = rng.choice([None, 18 * w]), rng.choice([None, 18 * (w + rng.randint(0, 2)) + 17])
            ops.append(["tf", a, t, lo, hi])
        elif r < 0.3 and len(voc) >= 2:
            ops.append(["phrase", a, [rng.choice(voc) for _ in range(rng.randint(2, 3))], None, None])
        elif r < 0.4:
            ops.append(["pos", a, t])
        elif r < 0.5:
            ops.append(["df", a, t])
        elif r < 0.55:
            ops.append(["lens", a])
        elif r < 0.7:
            tt = rng.choice(voc)
            dfs = [sum(1 for d in docs if d and tt in d)]
            ops.append(["score", a, [tt], c04.f64_bits(c04.idf_of(nd, dfs))])
        elif r < 0.85 and len(sizes) < 7:
            n = sizes[a]
            style = rng.choice(["slice", "ints", "mask"])
            if style == "slice":
                import numpy as np
                pos = [int(x) for x in np.arange(n)[slice(rng.choice([None, rng.randint(0, n)]), rng.choice([None, rng.randint(0, n)]), rng.choice([None, 1, 2, -1]))]]
            elif style == "ints":
                pos = [rng.randrange(n) for _ in range(rng.randint(0, min(n, 8)))] if n else []
            else:
                pos = [i for i in range(n) if rng.random() < 0.6]
            ops.append(["select", a, pos])
            sizes.append(len(pos))
            subset.append(True)
        elif r < 0.9 and len(sizes) < 7:
            ops.append([rng.choice(["copy", "pickle"]), a])
            sizes.append(sizes[a])
            subset.append(subset[a])
        elif r < 0.93:
            roots = [i for i, s in enumerate(subset) if not s]
            ops.append(["warm", rng.choice(roots)])
        elif r < 0.96:
            ops.append(["edismax", a, [rng.choice(voc) for _ in range(rng.randint(1, 2))]])
        else:
            # "queries of any kind with any similarity": built-in non-default and user-defined similarities
            ops.append(["simscore", a, rng.choice(voc), rng.choice(SIMS)])
    return ops


def gen(rng, tier):
    n = {"quick": 120, "thorough": 2500, "search": 300}[tier]
    cases = []
    for i in range(n):
        big = rng.random() < 0.12
        if big:
            nd = rng.randint(258, 300)
            docs = [[rng.randrange(3) for _ in range(rng.randint(1, 4))] for _ in range(nd)]
        else:
            docs, _ = K.gen_docs(rng, n_docs=rng.randint(2, 14), maxlen=40, vocab=rng.choice([2, 3, 6]), long_doc=0.05)
        nd = len(docs)
        voc = K.vocab_of(docs) or [0]
        cases.append({"docs": docs, "tokz": "ws", "cache_gt": rng.choice([0, 1, 3, 25]), "autowarm": rng.random() < 0.3,
                      "ops": gen_ops(rng, docs, voc, nd, rng.randint(5, 60 if not big else 25))})
    return cases


def impl(case):
    import pickle
    import numpy as np
    import pandas as pd
    from searcharray.solr import edismax
    c2 = dict(case)
    c2["opts"] = {"cache_gt_than": case["cache_gt"], "autowarm": case["autowarm"]}

    def canon(v):
        if isinstance(v, np.ndarray):
            return [K._intf(x) for x in v]
        return v

    def do(pool, op, keep=None):
        k = op[0]
        arr = pool[op[1]]
        try:
            if k == "tf":
                r = arr.termfreqs(K.tok_name(op[2]), min_posn=op[3], max_posn=op[4])
                if keep is not None:
                    keep.append((r, r.copy()))
                return ["ok", [K._intf(x) for x in r]]
            if k == "phrase":
                r = arr.termfreqs([K.tok_name(t) for t in op[2]])
                if keep is not None:
                    keep.append((r, r.copy()))
                return ["ok", [K._intf(x) for x in r]]
            if k == "pos":
                return ["ok", [[int(x) for x in p] for p in arr.positions(K.tok_name(op[2]))]]
            if k == "df":
                return ["ok", int(arr.docfreq(K.tok_name(op[2])))]
            if k == "lens":
                r = arr.doclengths()
                return ["ok", [K._intf(x) for x in r]]
            if k == "score":
                r = arr.score(K.tok_name(op[2][0]))
                if keep is not None:
                    keep.append((r, r.copy()))
                return ["ok", ["nan" if x != x else int(np.float32(x).view(np.uint32)) for x in r]]
            if k == "select":
                pool.append(arr[np.array(op[2], dtype=np.int64)] if len(op[2]) % 2 else arr[list(op[2])] if op[2] else arr[np.array([], dtype=np.int64)])
                return ["ok", "unit"]
            if k == "copy":
                pool.append(arr.copy())
                return ["ok", "unit"]
            if k == "pickle":
                pool.append(pickle.loads(pickle.dumps(arr)))
                return ["ok", "unit"]
            if k == "warm":
                arr.warm()
                return ["ok", "unit"]
            if k == "edismax":
                df = pd.DataFrame({"f": arr})
                s, _ = edismax(df, q=" ".join(K.tok_name(t) for t in op[2]), qf=["f"], pf=["f"])
                return ["okf", [float(x) for x in s]]
            if k == "simscore":
                if op[3] == "edismax_classic":
                    s, _ = edismax(pd.DataFrame({"f": arr}), q=K.tok_name(op[2]), qf=["f"], similarity=_make_sim(op[3]))
                else:
                    s = arr.score(K.tok_name(op[2]), similarity=_make_sim(op[3]))
                return ["okf", ["nan" if x != x else float(x) for x in s]]
        except Exception as e:     # noqa
            return ["exc", type(e).__name__]
        return ["exc", "unknown-op"]

    pool = [K.build_array(c2)]
    keep = []
    outs = [do(pool, op, keep) for op in case["ops"]]
    # (1) repeat every query at the end: same values as the first time
    again = [do(list(pool), op) if op[0] not in ("select", "copy", "pickle", "warm") else ["ok", "unit"] for op in case["ops"]]
    # (2) a second pool with a DIFFERENT history: structural ops first, then the queries in reverse order
    pool2 = [K.build_array(c2)]
    for op in case["ops"]:
        if op[0] in ("select", "copy", "pickle"):
            do(pool2, op)
    fresh = [["ok", "unit"]] * len(case["ops"])
    for i in range(len(case["ops"]) - 1, -1, -1):
        op = case["ops"][i]
        if op[0] not in ("select", "copy", "pickle", "warm"):
            fresh[i] = do(list(pool2), op)
    unchanged = all(np.array_equal(a, b, equal_nan=True) for a, b in keep)
    return {"outs": outs, "again": again, "fresh": fresh, "unchanged": bool(unchanged)}


def _o(x):
    return "none" if x is None else ["some", x]


def model_req(case):
    ops = []
    for op in case["ops"]:
        k = op[0]
        if k == "tf":
            ops.append(["tf", op[1], op[2], _o(op[3]), _o(op[4])])
        elif k == "phrase":
            ops.append(["phrase", op[1], op[2], "none", "none"])
        elif k == "score":
            ops.append(["score", op[1], op[2], op[3], 4608083138725491507, 4604930618986332160])
        elif k == "pickle":
            ops.append(["copy", op[1]])
        elif k in ("edismax", "simscore"):
            ops.append(["lens", op[1]])       # placeholder: exercised on the implementation only
        else:
            ops.append(list(op))
    n = len(case["docs"])
    return sx(["purity_run", case["cache_gt"], n + 1, K.docs_sx(case["docs"]), ops])


def model_decode(case, r):
    if r[0] != "ok":
        return {"modelfault": r}
    outs = []
    for op, v in zip(case["ops"], r[1]):
        if op[0] in ("edismax", "simscore"):
            outs.append(["skip"])
        elif v[0] == "ok":
            val = v[1]
            if op[0] == "score":
                val = ["nan" if (x & 0x7F800000) == 0x7F800000 and (x & 0x7FFFFF) else x for x in val]
            outs.append(["ok", val])
        elif v[0] == "exc":
            outs.append(["exc", v[1]])
        else:
            outs.append(["modelfault", v])
    return {"outs": outs}


def equal(case, a, b):
    if not isinstance(a, dict) or "outs" not in a or "outs" not in b:
        return False
    if len(a["outs"]) != len(b["outs"]) or len(a["outs"]) != len(case["ops"]):
        return False                      # one answer per operation on both sides
    for x, y in zip(a["outs"], b["outs"]):
        if y == ["skip"]:
            continue
        if x != y:
            return False
    return True


def oracle(case, ir):
    if not isinstance(ir, dict) or "outs" not in ir:
        return False
    if not ir["unchanged"]:
        return False
    for op, o, ag, fr in zip(case["ops"], ir["outs"], ir["again"], ir["fresh"]):
        if o != ag or o != fr:
            return False
    return True


def nontrivial(case, r):
    sel_on_view = False
    views = set()
    n = 1
    for op in case["ops"]:
        if op[0] == "select":
            if op[1] in views:
                sel_on_view = True
            views.add(n)
            n += 1
        elif op[0] in ("copy", "pickle"):
            if op[1] in views:
                views.add(n)
            n += 1
    return sel_on_view


def tally(dist, c, r):
    for op in c["ops"]:
        dist["op:" + op[0]] = dist.get("op:" + op[0], 0) + 1
    if len(c["docs"]) > 255:
        dist["corpus>255"] = dist.get("corpus>255", 0) + 1


def shrink_candidates(c):
    out = []
    ops = c["ops"]
    for cut in (ops[: len(ops) // 2], ops[:-1], ops[1:]):
        # keep structural consistency: drop ops that reference arrays that no longer exist
        n = 1
        ok = []
        for op in cut:
            if op[1] >= n:
                continue
            ok.append(op)
            if op[0] in ("select", "copy", "pickle"):
                n += 1
        if ok and len(ok) < len(ops):
            e = dict(c)
            e["ops"] = ok
            out.append(e)
    return out


def extra_phase(ctx):
    """slop queries are queries too (not in the Coq state machine): on views over corpora with crowded documents (the
    span table overflows and falls back to an estimate) a slop frequency / score must (a) be the parent's value at the
    same rows and (b) be unchanged by read-only operations on the view.  Implementation-only oracle."""
    import random
    from harness import common as C
    tier, out = ctx["tier"], ctx["out"]
    rng = random.Random(repr((ctx["seed"], "c07-slop")))
    n = {"quick": 40, "thorough": 600, "search": 80}[tier]
    cases = []
    for _ in range(n):
        k = rng.choice([2, 2, 3])
        ph = [rng.randrange(k) for _ in range(rng.randint(2, 4))]
        docs = []
        for _d in range(rng.randint(2, 6)):
            kind = rng.choice(["crowded", "crowded", "short", "empty", "medium"])
            ln = {"crowded": rng.randint(250, 700), "short": rng.randint(1, 12), "empty": 0, "medium": rng.randint(30, 120)}[kind]
            docs.append([rng.randrange(k) if rng.random() < 0.9 else 9 for _ in range(ln)])
        nd = len(docs)
        rows = sorted(rng.sample(range(nd), rng.randint(1, nd))) if rng.random() < 0.6 else [rng.randrange(nd) for _ in range(rng.randint(1, 4))]
        cases.append({"docs": docs, "ph": ph, "slop": rng.choice([1, 2, 3, 5]), "rows": rows, "avoid": rng.random() < 0.7,
                      "ops": [rng.choice(["slice", "mask", "take", "copyslice", "edismax", "tf"]) for _ in range(rng.randint(1, 3))]})
    res = C.run_impl("harness.props.c07_slop", cases, ctx["scratch"], timeout=1800)
    bad = 0
    for c, r in zip(cases, res):
        ok = isinstance(r, dict) and "first" in r and r["first"] == r["second"] and r["sfirst"] == r["ssecond"] \
            and r["first"] == [r["parent"][i] for i in c["rows"]]
        if not ok:
            bad += 1
            out.violations.append((c, r, None, None, "slop query on a view: not repeatable / not the parent's answer"))
    return {"slop_view_cases": len(cases), "slop_view_failures": bad}
