"""impl side of C07's slop phase: a slop query on a view, a read-only selection / edismax on that view, the query again;
and the same rows of the parent (C06 for slop queries).  Not modelled in Coq: an implementation-only repeatability oracle."""


def impl(c):
    import numpy as np
    import pandas as pd
    from searcharray import SearchArray
    from searcharray.solr import edismax
    docs = [" ".join(f"t{t}" for t in d) for d in c["docs"]]
    arr = SearchArray.index(docs, avoid_copies=c["avoid"])
    ph = [f"t{t}" for t in c["ph"]]
    parent = [float(x) for x in arr.termfreqs(ph, slop=c["slop"])]
    v = arr[np.array(c["rows"], dtype=np.int64)]
    first = [float(x) for x in v.termfreqs(ph, slop=c["slop"])]
    sfirst = [float(x) for x in v.score(ph, slop=c["slop"])]
    for op in c["ops"]:
        if op == "slice":
            v[:1]
        elif op == "mask":
            v[np.array([i % 2 == 0 for i in range(len(v))], dtype=bool)]
        elif op == "take":
            v.take(np.array([0], dtype=np.int64))
        elif op == "copyslice":
            v.copy()[:1]
        elif op == "edismax":
            edismax(pd.DataFrame({"f": v}), q=" ".join(ph[:2]), qf=["f"])
        elif op == "tf":
            v.termfreqs(ph[0])
    second = [float(x) for x in v.termfreqs(ph, slop=c["slop"])]
    ssecond = [float(x) for x in v.score(ph, slop=c["slop"])]
    return {"parent": parent, "first": first, "second": second, "sfirst": sfirst, "ssecond": ssecond}
