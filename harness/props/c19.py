"""C19 — arrays rebuilt from elements answer like an index of the same documents."""
from harness.common import sx
from harness.props import corpus as K
from harness.props import c01 as B
from harness.props import c03, c04, c06

ID = "C19"
ENTRY = "pd.concat([...]) / Series.reindex / take(allow_fill) / SearchArray(list_of_elements), then any query"
LEVEL = "proof"
RULE = ("corpora x the ways pandas rebuilds an extension array from scalars: SearchArray(list(arr)), SearchArray(list(view)) "
        "(views made with unsorted / repeated keys), pd.concat of 2..4 columns, take(allow_fill=True), Series.reindex / "
        "shift, astype(object) and back; queries: tf, phrase, positions, lengths on the result, plus docfreq and default "
        "score for constructor / concat results; compared with the Coq model (element extraction, re-keying, per-term "
        "append) and with the spec = fresh index of the corresponding documents in their new row order (filled rows = "
        "empty documents). Non-trivial = a result with a non-zero answer in a row whose source row id differs from its "
        "new row. Distinct by input hash.")
TRUSTED = B.TRUSTED + ["pandas' concat / reindex / take machinery is exercised, not modelled"]
ASSUMPTIONS = B.ASSUMPTIONS
EXPLANATION = ("model = Rebuild/Rebuild.v; spec = Index spec on the re-ordered documents; theorems (Props/C19.v): the rebuilt "
               "array stores, term by term, the postings of a fresh index of the documents in their new row order and "
               "answers every tf / df / lengths / positions / phrase query like it; in-place assignment is compared "
               "implementation vs spec only.")


def gen(rng, tier):
    n = {"quick": 150, "thorough": 3000, "search": 400}[tier]
    cases = []
    for _ in range(n):
        route = rng.choice(["ctor", "ctor_view", "concat", "take_fill", "reindex", "shift", "object", "setitem"])
        nsrc = rng.randint(2, 4) if route == "concat" else 1
        sources = []
        for _s in range(nsrc):
            docs, _ = K.gen_docs(rng, n_docs=rng.randint(1, 8), maxlen=30, vocab=rng.choice([2, 3, 5]), long_doc=0.0)
            docs = [d or [] for d in docs]
            keys = []
            if route == "ctor_view" or (route == "concat" and rng.random() < 0.4):
                key = c06.gen_key(rng, len(docs))
                while key["k"] == "copy" or key["k"].startswith("df_"):
                    key = c06.gen_key(rng, len(docs))
                keys = [key]
            sources.append({"docs": docs, "avoid": rng.random() < 0.7, "keys": keys})
        if route == "concat" and rng.random() < 0.35:
            # all pieces but one are EMPTY selections, the remaining one is a proper subset of a larger index: the result
            # is still a corpus of its own (document frequencies / average length / N of ITS documents)
            keep = rng.randrange(len(sources))
            for j, src in enumerate(sources):
                n_j = len(src["docs"])
                if j == keep:
                    if n_j >= 2:
                        a = rng.randrange(n_j - 1)
                        src["keys"] = [{"k": "slice", "v": [a, rng.randint(a + 1, n_j - (1 if a == 0 else 0)), None]}]
                else:
                    src["keys"] = [{"k": "slice", "v": [0, 0, None]}]
        case = {"route": route, "sources": sources}
        n0 = _nrows(sources[0])
        if route == "take_fill":
            case["idx"] = [rng.choice([-1, rng.randrange(n0)]) if n0 else -1 for _ in range(rng.randint(1, 7))]
        elif route == "reindex":
            case["labels"] = [rng.randrange(n0 + 3) for _ in range(rng.randint(1, 7))]
        elif route == "shift":
            case["k"] = rng.choice([-2, -1, 1, 2])
        elif route == "setitem":
            # arr[targets] = arr[sources] (targets distinct; identity, permutations, one source broadcast to many)
            sources[0]["keys"] = []
            n0 = len(sources[0]["docs"])
            k = rng.randint(1, n0)
            case["targets"] = rng.sample(range(n0), k)
            mode = rng.choice(["identity", "any", "one"])
            case["srcs"] = list(case["targets"]) if mode == "identity" else \
                [rng.randrange(n0) for _ in range(k)] if mode == "any" else [rng.randrange(n0)] * k
            case["how"] = rng.choice(["array", "series_mask"])
        voc = sorted({t for s in sources for d in s["docs"] for t in d}) or [0]
        qs = []
        for t in voc[:3]:
            qs += [["tf", t], ["pos", t]]
        qs += [["tf", 999], ["lens"]]
        if len(voc) >= 2:
            qs.append(["phrase", [rng.choice(voc), rng.choice(voc)]])
            qs.append(["phrase", rng.sample(voc, 2)])
        case["queries"] = qs
        case["stats"] = route in ("ctor", "ctor_view", "concat", "object")
        cases.append(case)
    return cases


def _positions(src):
    n = len(src["docs"])
    rows = list(range(n))
    for key in src["keys"]:
        pos = c06.apply_key_positions(key, len(rows))
        rows = [rows[i] for i in pos]
    return rows


def _nrows(src):
    return len(_positions(src))


def _refs(case):
    """new row order as (source index, position in that source array) or None for a filled row"""
    route = case["route"]
    srcs = case["sources"]
    if route in ("ctor", "ctor_view", "object"):
        return [(0, i) for i in range(_nrows(srcs[0]))]
    if route == "concat":
        return [(s, i) for s in range(len(srcs)) for i in range(_nrows(srcs[s]))]
    n0 = _nrows(srcs[0])
    if route == "take_fill":
        return [None if i == -1 else (0, i) for i in case["idx"]]
    if route == "reindex":
        return [(0, lab) if lab < n0 else None for lab in case["labels"]]
    if route == "setitem":
        m = dict(zip(case["targets"], case["srcs"]))
        return [(0, m.get(i, i)) for i in range(n0)]
    if route == "shift":
        k = case["k"]
        out = []
        for i in range(n0):
            j = i - k
            out.append((0, j) if 0 <= j < n0 else None)
        return out
    raise ValueError(route)


def new_docs(case):
    out = []
    for ref in _refs(case):
        if ref is None:
            out.append([])
        else:
            s, i = ref
            src = case["sources"][s]
            out.append(src["docs"][_positions(src)[i]])
    return out


def impl(case):
    import numpy as np
    import pandas as pd
    from searcharray import SearchArray
    arrs = []
    for src in case["sources"]:
        strs = [" ".join(K.tok_name(t) for t in d) for d in src["docs"]]
        a = SearchArray.index(strs, avoid_copies=src["avoid"])
        for key in src["keys"]:
            k = key["k"]
            if k == "slice":
                a = a[slice(*key["v"])]
            elif k == "mask":
                a = a[np.array(key["v"], dtype=bool)]
            elif k == "take":
                a = a.take(np.array(key["v"], dtype=np.int64))
            else:
                a = a[np.array(key["v"], dtype=np.int64)]
        arrs.append(a)
    route = case["route"]
    try:
        if route in ("ctor", "ctor_view"):
            r = SearchArray(list(arrs[0]))
        elif route == "concat":
            r = pd.concat([pd.Series(a) for a in arrs], ignore_index=True).array
        elif route == "take_fill":
            r = arrs[0].take(np.array(case["idx"], dtype=np.int64), allow_fill=True)
        elif route == "reindex":
            r = pd.Series(arrs[0]).reindex(case["labels"]).array
        elif route == "setitem":
            src = arrs[0][np.array(case["srcs"], dtype=np.int64)]
            if case["how"] == "array":
                r = arrs[0]
                r[np.array(case["targets"], dtype=np.int64)] = src
            else:
                ser = pd.Series(arrs[0])
                order = np.argsort(case["targets"])
                mask = np.zeros(len(ser), dtype=bool)
                mask[case["targets"]] = True
                ser[mask] = pd.Series(src[np.asarray(order, dtype=np.int64)], index=ser.index[mask])
                r = ser.array
        elif route == "shift":
            r = pd.Series(arrs[0]).shift(case["k"]).array
        else:
            r = pd.Series(arrs[0]).astype(object).astype(arrs[0].dtype).array
    except Exception as e:      # noqa
        return {"build_exc": type(e).__name__, "msg": str(e)[:120]}
    out = [K.run_query(r, q) for q in case["queries"]]
    st = None
    if case["stats"]:
        voc = sorted({t for s in case["sources"] for d in s["docs"] for t in d})[:3]
        st = []
        for t in voc:
            try:
                sc = r.score(K.tok_name(t))
                st.append([int(r.docfreq(K.tok_name(t))), ["nan" if x != x else int(np.float32(x).view(np.uint32)) for x in sc]])
            except Exception as e:      # noqa
                st.append(["exc", type(e).__name__])
        st.append([K.f32_bits(r.avg_doc_length), int(r.corpus_size)])
    return {"q": out, "stats": st, "len": len(r)}


def model_req(case):
    if case["route"] == "setitem":
        return None          # in-place assignment is not in the Coq model: implementation vs the fresh-index spec only
    srcs = []
    for src in case["sources"]:
        n = len(src["docs"])
        chain = []
        for key in src["keys"]:
            pos = c06.apply_key_positions(key, n)
            chain.append(pos)
            n = len(pos)
        srcs.append([src["docs"], 1 if src["avoid"] else 0, chain])
    refs = [["fill"] if r is None else ["el", r[0], r[1]] for r in _refs(case)]
    return sx(["rebuild_query", srcs, refs, [K._mq(q) for q in case["queries"]]])


def spec_req(case):
    return sx(["spec_index_query", new_docs(case), [K._mq(q) for q in case["queries"]]])


def model_decode(case, r):
    d = K.decode_queries({"docs": new_docs(case), "queries": case["queries"]}, r)
    return d


def spec_decode(case, r):
    d = K.decode_queries({"docs": new_docs(case), "queries": case["queries"]}, r, n_spec_only=True)
    d["spec"] = True
    return d


def equal(case, a, b):
    if not isinstance(a, dict) or "q" not in a or "q" not in b:
        return False
    docs = new_docs(case)
    if a.get("len") != len(docs):
        return False
    if len(a["q"]) != len(case["queries"]) or len(b["q"]) != len(case["queries"]):
        return False                      # one answer per query on both sides
    for q, x, y in zip(case["queries"], a["q"], b["q"]):
        if q[0] == "phrase" and b.get("spec"):
            if not c03._phrase_ok(x, y):
                return False
        elif q[0] == "pos" and x[0] == "exc":
            if any(q[1] in d for d in docs):
                return False
        elif q[0] == "pos" and y[0] == "exc":
            return False if any(q[1] in d for d in docs) else True
        elif x != y:
            return False
    if b.get("spec") and case["stats"] and a.get("stats") is not None:
        # constructor / concat results are corpora of their own: df, avg, N, default BM25 of the fresh index
        n = len(docs)
        total = sum(len(d) for d in docs)
        voc = sorted({t for s in case["sources"] for d in s["docs"] for t in d})[:3]
        if len(a["stats"]) != len(voc) + 1:
            return False
        for t, st in zip(voc, a["stats"]):
            df = sum(1 for d in docs if t in d)
            if st[0] != df:
                return False
            tfs = [sum(1 for x in d if x == t) for d in docs]
            ref = c04._ref_scores({"docs": docs}, ["score", [t], "default", 1.2, 0.75, c04.f64_bits(c04.idf_of(n, [df]))], tfs,
                                  [len(d) for d in docs], total)
            got = [float("nan") if x == "nan" else c04._f32(x) for x in st[1]]
            if len(got) != len(ref) or not all(c04._close(g, r_) for g, r_ in zip(got, ref)):
                return False
        if a["stats"][-1] != [K.rn_f32_bits(total, n), n] and n > 0:
            # the constructor computes the average in float64 (python sum / n): compare by value
            import struct
            avg = struct.unpack("<f", struct.pack("<I", a["stats"][-1][0]))[0]
            if a["stats"][-1][1] != n or abs(avg - total / n) > 1e-6 * max(1.0, total / n):
                return False
    return True


def nontrivial(case, r):
    if not isinstance(r, dict) or "q" not in r:
        return False
    return any(v[0] == "ok" and isinstance(v[1], list) and any(isinstance(x, int) and x > 0 for x in v[1]) for v in r["q"])


def tally(dist, c, r):
    dist["route:" + c["route"]] = dist.get("route:" + c["route"], 0) + 1
    if isinstance(r, dict) and "build_exc" in r:
        dist["build_exc:" + r["build_exc"]] = dist.get("build_exc:" + r["build_exc"], 0) + 1


def dbg_key(c):
    return c["route"]


def shrink_candidates(c):
    out = []
    for q in c["queries"]:
        e = dict(c)
        e["queries"] = [q]
        out.append(e)
    return out
