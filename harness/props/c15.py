"""C15 — slop only relaxes: exact matches stay, in-order windows match, all terms present."""
from harness.props import corpus as K
from harness.props import c01 as B

ID = "C15"
ENTRY = "SearchArray.termfreqs(list[str], slop=s)"
LEVEL = "proof"
RULE = ("sparse and dense corpora, documents from a few to several hundred tokens, phrases of 2..6 terms, slop 1..40; exact-"
        "match documents, near-miss documents (one term missing, terms outside the window, reversed order), documents with "
        "the terms in order inside a window; for each document the real answer is compared with the line-level Coq model of "
        "_intersect_all + _span_freqs and checked against the three clauses (exact match => match; match => every term "
        "present; distinct terms, length + slop <= 18, in-order window => match) plus integrality. Non-trivial = one matching "
        "and one near-miss document. Distinct by input hash.")
TRUSTED = B.TRUSTED
ASSUMPTIONS = B.ASSUMPTIONS + ["phrases of at most 64 terms (curr_idx capacity)"]
EXPLANATION = ("Theorems (Props/C15.v, closed): one entry per row; a match contains every term; exact matches and in-order "
               "windows (length + slop <= 18) match whenever the phrase-term positions of the document are pairwise "
               "distinct modulo 64 and the phrase has at most 19 terms (the property quantifies over 2..6); false without "
               "the modulo-64 proviso (C15_exact_match_refuted = known finding D27), and false for exact phrases of 20+ "
               "terms that touch three 18-position words (outside the property's quantifier; Span_Exact2.witE_*). The model "
               "(Span/Span.v) is a line-level transliteration incl. the 512-slot table, compaction, the give-up path and "
               "the min-popcount fallback; all clauses are also decided on generated inputs by the spec oracle "
               "(Span/Span_Spec.v) on both model and implementation.")


def gen(rng, tier):
    n = {"quick": 250, "thorough": 5000, "search": 600}[tier]
    cases = []
    for i in range(n):
        vocab = rng.choice([3, 4, 6, 10])
        L = rng.randint(2, 6)
        distinct = rng.random() < 0.7
        if distinct:
            terms = list(range(1, max(L, vocab) + 1))
            rng.shuffle(terms)
            ph = terms[:L]
        else:
            ph = [rng.randint(1, min(vocab, 3)) for _ in range(L)]
        slop = rng.choice([1, 2, 3, 5, 8, 12, 18 - L if 18 - L > 0 else 1, 25, 40])
        docs = []
        if i % 4 == 1:
            # document 0 holds every phrase term within its first 18 tokens (word (0,0) is a candidate)
            d0 = list(ph) if rng.random() < 0.5 else rng.sample(ph, len(ph))
            docs.append((d0 + [50] * rng.randint(0, 5))[:18])
        for _ in range(rng.randint(2, 7)):
            kind = rng.choice(["exact", "window", "missing", "far", "reversed", "noise", "empty", "dense",
                               "alias", "straddle", "sparse", "crowded", "stale64"])
            if kind == "stale64":
                # occurrences exactly 64 before the window's terms, one term exactly length+slop before the first one
                # (the shape on which a stale position bit shadows the real continuation: known finding D27)
                mw = L + slop
                p = 64 + mw + rng.randint(0, 30)
                win = [p + j for j in range(L)] if rng.random() < 0.6 or L + slop > 18 else \
                    sorted(rng.sample(range(p, p + min(mw, 18)), L))
                win[0] = p
                d = [50] * (win[-1] + 1 + rng.randint(0, 3))
                for j, q in enumerate(win):
                    d[q] = ph[j]
                    if j == 1 and p - 64 >= 0:
                        d[p - 64] = ph[1]
                    elif j >= 2 and q - 64 >= 0 and rng.random() < 0.9:
                        d[q - 64] = ph[j]
                if p - 64 - mw >= 0:
                    d[p - 64 - mw] = ph[0]
                if p - mw >= 0 and d[p - mw] == 50:
                    d[p - mw] = ph[1]
                docs.append(d)
                continue
            ln = rng.choice([rng.randint(1, 25), rng.randint(20, 120), rng.randint(100, 400 if i % 7 == 0 else 150)])
            base = [rng.choice([50, 51, 52]) for _ in range(ln)]
            if kind == "empty":
                docs.append([])
                continue
            if kind == "dense":
                base = [rng.choice(ph + [50]) for _ in range(ln)]
            at = rng.choice([rng.randint(0, max(0, ln - 1)), 18 * rng.randint(0, 4) + rng.choice([0, 10, 15, 17])])
            if kind == "exact":
                seq = list(ph)
            elif kind == "window":
                seq = []
                gaps = rng.randint(0, max(0, min(slop, 17 - L)))
                for t in ph:
                    seq.append(t)
                    if gaps and rng.random() < 0.5:
                        g = rng.randint(1, gaps)
                        gaps -= g
                        seq += [50] * g
                while seq and seq[-1] == 50:
                    seq.pop()
            elif kind == "missing":
                seq = [t for t in ph if t != ph[rng.randrange(L)]]
            elif kind == "far":
                seq = []
                for t in ph:
                    seq += [t] + [51] * rng.randint(slop + 5, slop + 25)
            elif kind == "reversed":
                seq = list(reversed(ph))
            elif kind in ("alias", "straddle", "sparse", "crowded"):
                seq = list(ph)
            else:
                seq = []
            if kind == "straddle":
                # the occurrence crosses an 18-token bucket boundary
                at = max(0, 18 * rng.randint(1, 4) - rng.randint(1, L - 1))
                base = base + [50] * max(0, at - len(base))
            if kind == "crowded":
                # many occurrences of the phrase's terms: the 512-slot span table overflows
                ln = rng.randint(80, 400)
                base = [rng.choice(ph + [50] * rng.choice([0, 1, 3])) for _ in range(ln)]
                at = rng.randint(0, ln - 1)
            if kind == "sparse":
                base = [50] * rng.randint(20, 120)
                at = rng.randint(0, len(base))
            d = base[:at] + seq + base[at:]
            if kind in ("alias", "sparse"):
                # single phrase terms at distances that collide in a position bitmask (32, 64) or sit in the
                # neighbouring buckets of the occurrence
                for _k in range(rng.randint(1, 4)):
                    q = at + rng.randrange(L) + rng.choice([-64, -32, 32, 64, -31, 31, -33, 33, -18, 18, rng.randint(-40, 40)])
                    if 0 <= q < len(d) and not (at <= q < at + L):
                        d[q] = rng.choice(ph)
                    elif q >= len(d) and q < 500:
                        d = d + [50] * (q - len(d)) + [rng.choice(ph)]
            docs.append(d)
        # several slop values for the same phrase on ONE index (answers must not depend on the order of the queries),
        # caches switched on for short postings in half of the cases
        slops = [slop]
        if rng.random() < 0.6:
            slops += [s2 for s2 in rng.sample([1, 2, 3, 5, 8, 12, 25, 40], rng.randint(1, 3)) if s2 != slop]
            rng.shuffle(slops)
        opts = {"cache_gt_than": rng.choice([0, 0, 1])} if rng.random() < 0.5 else {}
        cases.append({"docs": docs, "tokz": "ws", "opts": opts, "queries": [["slop", ph, s2] for s2 in slops]})
    return cases


impl = K.impl_index_queries
spec_req = K.spec_req_index


def model_req(case):
    """the faithful model AND the diagnostic variant (stale position bit cleared, Span/Span_Variant.v): the variant is
    used only by the known-finding classifier below"""
    from harness.common import sx
    qs = [["slop", q[1], q[2]] for q in case["queries"]] + [["slopv", q[1], q[2]] for q in case["queries"]]
    return sx(["index_query", 0, len(case["docs"]) + 1, K.docs_sx(case["docs"]), qs])


def model_decode(c, r):
    if r[0] != "ok":
        return {"build_exc": r[1]} if r[0] == "exc" else {"modelfault": r}
    vals = [(["ok", v[1]] if v[0] == "ok" else (["exc", v[1]] if v[0] == "exc" else ["modelfault", v])) for v in r[1]]
    n = len(c["queries"])
    return {"q": vals[:n], "x": [], "variant": vals[n:2 * n]}


def spec_decode(c, r):
    d = K.decode_queries(c, r, n_spec_only=True)
    d["spec"] = True
    return d


def _entry_failure(ph, slop, g, spec_entry):
    """which clause the frequency g of one document violates: None, 'shape', 'exact', 'terms' or 'window'"""
    occ, has_all, window = spec_entry
    if not isinstance(g, int) or g < 0:
        return "shape"
    if occ > 0 and g == 0:
        return "exact"                      # an exact match must stay a match
    if g > 0 and not has_all:
        return "terms"                      # a match contains every term
    if len(set(ph)) == len(ph) and len(ph) + slop <= 18 and window and g == 0:
        return "window"                     # in-order window within length + slop tokens
    return None


def _clauses_ok(case, got, spec, qi=0):
    ph, slop = case["queries"][qi][1], case["queries"][qi][2]
    if got[0] != "ok" or spec[0] != "ok" or len(got[1]) != len(spec[1]):
        return False
    return all(_entry_failure(ph, slop, g, e) is None for g, e in zip(got[1], spec[1]))


def _alias64(doc, ph):
    """two occurrences of phrase terms at positions congruent modulo 64 (the complement of the theorems' no_alias64)"""
    seen = set()
    for i, t in enumerate(doc or []):
        if t in ph:
            if i % 64 in seen:
                return True
            seen.add(i % 64)
    return False


def equal(case, a, b):
    if not isinstance(a, dict) or not isinstance(b, dict) or "q" not in a or "q" not in b:
        return False
    if b.get("spec"):
        return len(a["q"]) == len(b["q"]) and all(_clauses_ok(case, x, y, i) for i, (x, y) in enumerate(zip(a["q"], b["q"])))
    return a["q"] == b["q"]


def _clf_stale_position_bit(case, params, ir=None, m=None, sp=None):
    """KNOWN FINDING D27 (stale position bit in _span_freqs): the implementation agrees with the faithful model (checked by
    the caller), violates a clause, and the variant of the model that clears the position bit of a width-rejected
    continuation satisfies every clause on the same input.  Any other cause is still reported as a violation."""
    if not (isinstance(m, dict) and m.get("variant") and isinstance(sp, dict) and sp.get("q") and isinstance(ir, dict)):
        return False
    if not (len(m["variant"]) == len(sp["q"]) == len(ir.get("q", [])) == len(case["queries"])):
        return False
    hits = 0
    for i, (got, var, spec) in enumerate(zip(ir["q"], m["variant"], sp["q"])):
        ph, slop = case["queries"][i][1], case["queries"][i][2]
        if got[0] != "ok" or var[0] != "ok" or spec[0] != "ok" or not (len(got[1]) == len(var[1]) == len(spec[1]) == len(case["docs"])):
            return False
        for doc, g, v, e in zip(case["docs"], got[1], var[1], spec[1]):
            f = _entry_failure(ph, slop, g, e)
            if f is None:
                continue
            # per (query, document): only a LOST match (clauses 1 / 3), only in a document where two phrase-term positions
            # coincide modulo 64 (outside that the clauses are theorems), and only if clearing the stale bit restores it
            if f not in ("exact", "window") or not _alias64(doc, set(ph)) or _entry_failure(ph, slop, v, e) is not None:
                return False
            hits += 1
    return hits > 0


CLASSIFIERS = {"stale_position_bit": _clf_stale_position_bit}


def nontrivial(case, r):
    if not isinstance(r, dict) or "q" not in r or r["q"][0][0] != "ok":
        return False
    got = r["q"][0][1]
    return any(g > 0 for g in got) and any(g == 0 and d for g, d in zip(got, case["docs"]))


def tally(dist, c, r):
    ph, slop = c["queries"][0][1], c["queries"][0][2]
    dist[f"len:{len(ph)}"] = dist.get(f"len:{len(ph)}", 0) + 1
    k = "slop<=18-len" if len(ph) + slop <= 18 else "slop>18-len"
    dist[k] = dist.get(k, 0) + 1


shrink_candidates = B.shrink_candidates
