"""C13 — the position codec is lossless, canonical and sliceable by key."""
from harness.common import sx

ID = "C13"
ENTRY = "searcharray.roaringish.RoaringishEncoder"
LEVEL = "proof"
RULE = ("strictly increasing (key, position) sequences: keys dense/sparse/extreme within 0..2^28-1, positions at the "
        "first/last bit of a word, word-aligned runs, singles, up to 262143; slices by sorted key sets (present and "
        "absent keys); boundary-encoded calls with 1..64 segments incl. two segments meeting inside one word. "
        "Non-trivial = at least two words and one word holding more than one position. Distinct by input hash.")
TRUSTED = ["extraction (ExtrOcamlBasic + Extract Inlined Constant rev => List.rev) + ocaml/driver.ml", "numpy glue of encode/decode is modelled by list combinators "
           "(floor_divide, shifts, diff/nonzero, reduceat, lexsort/unique/split)"]
ASSUMPTIONS = ["keys < 2^28 and positions <= 262143 (the property's domain)"]
EXPLANATION = ("Theorems in Props/C13.v about the numpy-level codec model; check = real encoder vs extracted model vs "
               "extracted spec (encode, decode, counts, distinct keys, slice by keys, boundary encoding).")

MAXK = (1 << 28) - 1
MAXP = (1 << 18) - 1


def gen_ps(rng, maxn=60):
    nk = rng.choice([1, 1, 2, 3, rng.randint(1, 8)])
    style = rng.choice(["dense", "sparse", "extreme"])
    if style == "dense":
        k0 = rng.choice([0, rng.randint(0, 1000)])
        keys = list(range(k0, k0 + nk))
    elif style == "sparse":
        keys = sorted(rng.sample(range(0, MAXK + 1), nk))
    else:
        keys = sorted(set([0, MAXK, MAXK - 1, 1][:nk] + [rng.randint(0, MAXK) for _ in range(max(0, nk - 4))]))
    ps = []
    for k in keys:
        n = rng.choice([1, 1, 2, 3, rng.randint(1, maxn)])
        mode = rng.choice(["low", "edges", "run", "high", "mixed"])
        pos = set()
        tries = 0
        while len(pos) < n and tries < 4 * n + 20:
            tries += 1
            if mode == "low":
                pos.add(rng.randint(0, 80))
            elif mode == "edges":
                w = rng.randint(0, 9)
                pos.add(rng.choice([18 * w, 18 * w + 17, 18 * w + 1, 18 * w + 16]))
            elif mode == "run":
                st = 18 * rng.randint(0, 20) + rng.choice([0, 0, 9, 17])
                for q in range(st, st + n):
                    pos.add(q)
            elif mode == "high":
                pos.add(rng.choice([MAXP, MAXP - 1, MAXP - 17, MAXP - 18, rng.randint(MAXP - 200, MAXP)]))
            else:
                pos.add(rng.choice([rng.randint(0, 40), rng.randint(0, MAXP), 18 * rng.randint(0, 14563)]))
        ps += [[k, p] for p in sorted(pos)[:n]]
    return ps


def coincide(rng, ps):
    """re-key ps so that the number of encoded words is (almost) the key span: sizes that shortcuts confuse with 'dense'"""
    keys = sorted(set(k for k, _ in ps))
    if len(keys) < 2:
        return ps
    words = len(set((k, p // 18) for k, p in ps))
    span = words + rng.choice([0, 0, 0, -1, 1])
    if span < len(keys) or span > MAXK:
        return ps
    k0 = rng.choice([0, rng.randint(0, 1000), MAXK - span + 1])
    inner = sorted(rng.sample(range(k0 + 1, k0 + span - 1), len(keys) - 2)) if len(keys) > 2 else []
    new = dict(zip(keys, [k0] + inner + [k0 + span - 1]))
    return [[new[k], p] for k, p in ps]


def gen(rng, tier):
    n = {"quick": 500, "thorough": 10000, "search": 1500}[tier]
    cases = [{"kind": "all", "ps": []}, {"kind": "all", "ps": [[0, 0]]}, {"kind": "all", "ps": [[MAXK, MAXP]]}]
    for _ in range(n):
        ps = gen_ps(rng)
        if rng.random() < 0.3:
            ps = coincide(rng, ps)
        cases.append({"kind": "all", "ps": ps})
        keys = sorted(set(k for k, _ in ps))
        ks = sorted(set(rng.sample(keys, rng.randint(0, len(keys))) + [rng.randint(0, MAXK) for _ in range(rng.randint(0, 2))]))
        cases.append({"kind": "slice", "ps": ps, "ks": ks})
        nseg = rng.choice([1, 2, 3, rng.randint(1, 64)])
        segs = []
        for s in range(nseg):
            seg = gen_ps(rng, maxn=8)
            if rng.random() < 0.4 and segs:
                # next term starts inside the word where the previous one ended
                lk, lp = segs[-1][-1]
                seg = [[lk, min(MAXP, lp + 1)]] + [kp for kp in seg if kp[0] > lk]
            segs.append(seg)
        cases.append({"kind": "bounds", "segs": segs})
    return cases


def impl(c):
    import numpy as np
    from searcharray.roaringish import RoaringishEncoder
    enc = RoaringishEncoder()

    def u(x):
        return np.array(x, dtype=np.uint64)
    if c["kind"] == "all":
        keys, pos = u([k for k, _ in c["ps"]]), u([p for _, p in c["ps"]])
        e = enc.encode(payload=pos, keys=keys)[0]
        dec = [[int(k), [int(x) for x in v]] for k, v in enc.decode(e, get_keys=True)] if len(e) else []
        cnt_k, cnt_v = enc.num_values_per_key(e)
        return {"enc": [int(x) for x in e], "dec": dec, "counts": [[int(a), int(b)] for a, b in zip(cnt_k, cnt_v)],
                "keys": [int(x) for x in enc.keys_unique(e)] if len(e) else []}
    if c["kind"] == "slice":
        keys, pos = u([k for k, _ in c["ps"]]), u([p for _, p in c["ps"]])
        e = enc.encode(payload=pos, keys=keys)[0]
        return [int(x) for x in enc.slice(e, keys=u(c["ks"]))]
    if c["kind"] == "bounds":
        flat = [kp for s in c["segs"] for kp in s]
        starts, acc = [], 0
        for s in c["segs"]:
            starts.append(acc)
            acc += len(s)
        e, nb = enc.encode(payload=u([p for _, p in flat]), keys=u([k for k, _ in flat]), boundaries=u(starts))
        return [[int(x) for x in e], [int(x) for x in nb]]
    raise ValueError(c["kind"])


def model_req(c):
    if c["kind"] == "all":
        return sx(["codec_all", [k for k, _ in c["ps"]], [p for _, p in c["ps"]]])
    if c["kind"] == "slice":
        return sx(["codec_slice", [k for k, _ in c["ps"]], [p for _, p in c["ps"]], c["ks"]])
    flat = [kp for s in c["segs"] for kp in s]
    starts, acc = [], 0
    for s in c["segs"]:
        starts.append(acc)
        acc += len(s)
    return sx(["codec_bounds", [k for k, _ in flat], [p for _, p in flat], starts])


def spec_req(c):
    if c["kind"] == "all":
        return sx(["spec_codec_all", c["ps"]])
    if c["kind"] == "slice":
        return sx(["spec_codec_slice", c["ps"], c["ks"]])
    return sx(["spec_codec_bounds", c["segs"]])


def _undone(r):
    if isinstance(r, list) and r and r[0] == "done":
        return r[1]
    if isinstance(r, list) and r and r[0] in ("fault", "fuel"):
        return {"modelfault": r}
    return r


def model_decode(c, r):
    if c["kind"] == "all":
        return {"enc": r[0], "dec": r[1], "counts": _undone(r[2]), "keys": _undone(r[3])}
    return _undone(r)


def spec_decode(c, r):
    if c["kind"] == "all":
        return {"enc": r[0], "dec": r[1], "counts": r[2], "keys": r[3]}
    return r


def nontrivial(c, r):
    if c["kind"] == "all":
        return isinstance(r, dict) and len(r.get("enc", [])) >= 2 and len(c["ps"]) > len(r["enc"])
    if c["kind"] == "slice":
        return isinstance(r, list) and 0 < len(r)
    return isinstance(r, list) and len(r[0]) >= 2


def tally(dist, c, r):
    dist[c["kind"]] = dist.get(c["kind"], 0) + 1
    if c["kind"] == "bounds":
        b = "segs<=3" if len(c["segs"]) <= 3 else "segs>3"
        dist[b] = dist.get(b, 0) + 1
    if isinstance(r, dict) and "exc" in r:
        dist["exc:" + r["exc"]] = dist.get("exc:" + r["exc"], 0) + 1


def shrink_candidates(c):
    out = []
    if "ps" in c:
        v = c["ps"]
        for cut in (v[: len(v) // 2], v[len(v) // 2:], v[1:], v[:-1]):
            d = dict(c)
            d["ps"] = cut
            out.append(d)
    if "segs" in c:
        v = c["segs"]
        for cut in (v[: len(v) // 2], v[len(v) // 2:], v[1:], v[:-1]):
            if cut:
                out.append({"kind": "bounds", "segs": cut})
    return out
