"""C16 — position-range restriction counts exactly the occurrences inside the range."""
from harness.props import corpus as K
from harness.props import c01 as B

ID = "C16"
ENTRY = "SearchArray.termfreqs(q, min_posn=a, max_posn=b)"
LEVEL = "proof"
RULE = ("corpora whose documents span at least 6 position words (108+ tokens) plus short ones; all aligned (min, max) "
        "pairs over words 0..8 incl. one-sided and empty-result ranges, unaligned bounds (must raise ValueError); terms "
        "and distinct-term phrases incl. occurrences straddling a bound. Non-trivial = some restricted answer of the case is not "
        "the zero vector. Distinct by input hash.")
TRUSTED = B.TRUSTED
ASSUMPTIONS = B.ASSUMPTIONS + ["phrases of distinct terms (same-term phrases under a range are only compared with the model)"]
EXPLANATION = ("model = alignment validation + payload-range filter on the bucket field + popcount reduce / bigram chain on the "
               "filtered postings; spec = occurrences with all offsets inside [min, max].")


def gen(rng, tier):
    n = {"quick": 250, "thorough": 4000, "search": 600}[tier]
    cases = []
    for i in range(n):
        nd = rng.randint(1, 8)
        vocab = rng.choice([2, 3, 5])
        docs = []
        for _ in range(nd):
            ln = rng.choice([0, rng.randint(1, 40), rng.randint(108, 200), rng.randint(108, 330)])
            docs.append([rng.randrange(vocab) for _ in range(ln)])
        voc = K.vocab_of(docs) or [0]
        qs, xs = [], []
        for _ in range(6):
            w0 = rng.randint(0, 8)
            w1 = rng.randint(w0, 9)
            lo = rng.choice([None, 18 * w0, 18 * w0])
            hi = rng.choice([None, 18 * w1 + 17, 18 * w1 + 17])
            if lo is None and hi is None:
                hi = 18 * w1 + 17
            if rng.random() < 0.12:
                if rng.random() < 0.5 and lo is not None:
                    lo += rng.randint(1, 17)
                else:
                    hi = (hi if hi is not None else 35) - rng.randint(1, 17)
                    if hi < 0:
                        hi = 5
            if rng.random() < 0.1:
                lo, hi = 18 * 200, 18 * 201 + 17          # excludes every occurrence
            if rng.random() < 0.08:
                # aligned bounds of extreme magnitude (beyond every position, beyond the 46-bit word index)
                big = 18 * 2 ** rng.choice([14, 20, 40, 45, 46, 47, 58])
                lo, hi = rng.choice([(big, None), (big, big + 17), (None, big + 17), (0, big + 17), (big - 18, None)])
            if rng.random() < 0.5:
                t = rng.choice(voc + [vocab + 5])
                unaligned = (lo is not None and lo % 18 != 0) or (hi is not None and hi % 18 != 17)
                # an unknown term returns zeros before the bounds are looked at: outside the property's domain
                (xs if (not any(t in d for d in docs) and unaligned) else qs).append(["tfr", t, lo, hi])
            else:
                L = rng.randint(2, 4)
                ph = [rng.choice(voc) for _ in range(L)]
                distinct = all(a != b for a, b in zip(ph, ph[1:]))
                (qs if distinct else xs).append(["phraser", ph, lo, hi])
        opts = K.gen_opts(rng, len(docs))
        if rng.random() < 0.4 and any(docs):
            # a HISTORY on one index: docfreq first (switches the term-frequency cache on for this term), then windows
            # that share one bound and differ in the other, repeated: answers must depend on the window only
            t = rng.choice(voc)
            opts["cache_gt_than"] = rng.choice([0, 0, 1])
            H = 18 * rng.randint(1, 9) + 17
            wins = [(0, H), (18, H), (36, H), (0, H), (18, None), (36, None), (None, H), (0, None), (18, H), (None, None)]
            rng.shuffle(wins)
            hist = [["df", t]] + [["tfr", t, lo, hi] for lo, hi in wins if not (lo is None and hi is None)] + [["tf", t]]
            qs = hist + qs
        cases.append({"docs": docs, "tokz": rng.choice(K.TOKZ), "opts": opts, "queries": qs, "xqueries": xs})
    return cases


impl = K.impl_index_queries
model_req = K.model_req_index
spec_req = K.spec_req_index
model_decode = B.model_decode
spec_decode = B.spec_decode
equal = B.equal
tally = B.tally
shrink_candidates = B.shrink_candidates
normalize = K.normalize_domain


def nontrivial(c, r):
    if not isinstance(r, dict) or "q" not in r:
        return False
    for q, v in zip(c["queries"], r["q"]):
        if v[0] == "ok" and any(x > 0 for x in v[1]):
            return True
    return False
