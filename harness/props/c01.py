"""C01 — term frequency equals the number of times the tokenizer emitted the term."""
from harness.props import corpus as K

ID = "C01"
ENTRY = "SearchArray.termfreqs(str) on SearchArray.index(...)"
LEVEL = "proof"
RULE = ("corpora: rows 1..45 hitting every residue mod 10, documents of length 0,1,17,18,19,35,36,37,... and a few "
        "hundred tokens, vocabularies 1..400 with Zipf skew, batch sizes 1..n+1, workers 1..8, whitespace / table / "
        "generator / tuple tokenizers, unusual spellings; every vocabulary term and absent terms queried. "
        "Non-trivial = corpus with >= 2 non-empty documents and a queried term occurring >= 2 times in one document.")
TRUSTED = ["extraction + ocaml driver", "token renaming (strings <-> term ids) in harness/props/corpus.py",
           "pandas/numpy glue around the modelled pipeline"]
ASSUMPTIONS = ["documents within the 262143-token limit, fewer than 2^28 rows",
               "the tokenizer is a function of the document (recorded emissions are the corpus)"]
EXPLANATION = ("model = gather -> stable sort by term -> boundary encoding -> per-term postings -> popcount reduce -> "
               "dense scatter; spec = count of the term per document; check = impl vs model vs spec.")


def gen(rng, tier):
    n = {"quick": 250, "thorough": 4000, "search": 700}[tier]
    cases = []
    for i in range(n):
        nd = None
        if i < 45:
            nd = i + 1       # every row count 1..45 (all residues of the 10-way unrolled scatter)
        docs, vocab = K.gen_docs(rng, n_docs=nd)
        if nd is None and len(docs) >= 2 and rng.random() < 0.35:
            # repeated documents (equal strings in one batch)
            for _ in range(rng.randint(1, 4)):
                docs[rng.randrange(len(docs))] = docs[rng.randrange(len(docs))]
        voc = K.vocab_of(docs)
        qs = [["tf", t] for t in (voc if len(voc) <= 12 else rng.sample(voc, 12))]
        qs += [["tf", vocab + 1000 + rng.randint(0, 5)]]          # absent term
        case = {"docs": docs, "tokz": rng.choice(K.TOKZ), "opts": K.gen_opts(rng, len(docs)), "queries": qs}
        if rng.random() < 0.35:
            # term 0 in every row + a scoring history before the queries (cached tf vectors must not be handed out)
            case["docs"] = [[0] + (d or []) for d in docs]
            case["queries"] = [["tf", 0]] + qs
            case["prescore"] = True
            if rng.random() < 0.7:
                case["opts"] = dict(case["opts"], cache_gt_than=rng.choice([0, 1, 5]))
        cases.append(case)
    return cases


impl = K.impl_index_queries
model_req = K.model_req_index
spec_req = K.spec_req_index


def model_decode(c, r):
    return K.decode_queries(c, r)


def spec_decode(c, r):
    return K.decode_queries(c, r, n_spec_only=True)


def equal(c, a, b):
    if not isinstance(a, dict) or not isinstance(b, dict):
        return False
    if "build_exc" in a or "build_exc" in b:
        return a.get("build_exc") == b.get("build_exc")
    if b.get("x") and b["x"] != a.get("x"):
        return False                      # (the spec side answers no x-queries: its list is empty)
    return a.get("q") == b.get("q")


def nontrivial(c, r):
    docs = [d for d in c["docs"] if d]
    if len(docs) < 2 or not isinstance(r, dict) or "q" not in r:
        return False
    return any(q[0] == "ok" and isinstance(q[1], list) and any(isinstance(v, (int, float)) and v >= 2 for v in q[1]) for q in r["q"])


def tally(dist, c, r):
    n = len(c["docs"])
    dist[f"rows%10={n % 10}"] = dist.get(f"rows%10={n % 10}", 0) + 1
    dist["tokz:" + c.get("tokz", "ws")] = dist.get("tokz:" + c.get("tokz", "ws"), 0) + 1
    if c.get("prescore"):
        dist["score-before-tf"] = dist.get("score-before-tf", 0) + 1
    o = c.get("opts", {})
    if o.get("batch_size", 10 ** 6) < n:
        dist["multi-batch"] = dist.get("multi-batch", 0) + 1
    if o.get("workers", 4) > 1:
        dist["threaded"] = dist.get("threaded", 0) + 1
    if isinstance(r, dict) and "build_exc" in r:
        dist["build_exc:" + r["build_exc"]] = dist.get("build_exc:" + r["build_exc"], 0) + 1


def shrink_candidates(c):
    if isinstance(c, dict) and c.get("via"):
        return []                          # a case of the maximal-length phase (C17's case format): reported as found
    out = []
    d = c["docs"]
    for cut in (d[: len(d) // 2], d[len(d) // 2:], d[1:], d[:-1]):
        if cut:
            e = dict(c)
            e["docs"] = cut
            out.append(e)
    for i, doc in enumerate(d):
        if doc and len(doc) > 1:
            for cut in (doc[: len(doc) // 2], doc[len(doc) // 2:]):
                e = dict(c)
                e["docs"] = d[:i] + [cut] + d[i + 1:]
                out.append(e)
    if c.get("opts"):
        e = dict(c)
        e["opts"] = {}
        out.append(e)
    if len(c.get("queries", [])) > 1:
        for q in c["queries"]:
            e = dict(c)
            e["queries"] = [q]
            out.append(e)
    return out


def extra_phase(ctx):
    """document ids at the 28-bit key capacity: ids below 2^28 must be encoded exactly (term frequency reported for the
    right id), a batch that needs an id of 2^28 or more must be rejected with ValueError (it used to alias row id - 2^28).
    Driven through the batch worker, because 2^28 rows cannot be indexed within the time budget.  Implementation-only."""
    import random
    from harness import common as C
    out = ctx["out"]
    rng = random.Random(repr((ctx["seed"], "c01-rows")))
    cases = []
    for _ in range(12):
        docs = [[rng.randrange(3) for _ in range(rng.randint(0, 6))] for _ in range(rng.randint(1, 5))]
        if not any(docs):
            docs[0] = [0, 1]
        beg = (1 << 28) - len(docs) - rng.choice([0, 0, 1, 5]) if rng.random() < 0.5 else (1 << 28) - rng.randint(0, len(docs) - 1)
        cases.append({"docs": docs, "beg": beg})
    res = C.run_impl("harness.props.c01_rows", cases, ctx["scratch"], timeout=600)
    bad = 0
    for c, r in zip(cases, res):
        over = c["beg"] + len(c["docs"]) - 1 >= (1 << 28)
        if over:
            ok = isinstance(r, dict) and r.get("exc") == "ValueError"
        else:
            exp = {}
            for i, d in enumerate(c["docs"]):
                for t in d:
                    exp.setdefault(str(t), {}).setdefault(c["beg"] + i, 0)
                    exp[str(t)][c["beg"] + i] += 1
            ok = isinstance(r, dict) and "tf" in r and all(
                sorted([k, float(v)] for k, v in exp[t].items()) == sorted(r["tf"].get(t, [])) for t in exp)
        if not ok:
            bad += 1
            out.violations.append((c, r, None, None, "document ids at the key capacity: wrong row or no rejection"))
    # a document of EXACTLY the maximal length (262143 tokens) under the index options that touch it: truncate on / off,
    # one worker / several; three-way through C17's machinery (its linear-time model variant), term frequencies only
    from harness.props import c17
    from harness import run as R
    L = c17.LIMIT
    lim_cases = []
    for trunc, w in ((True, 1), (True, 4), (False, 2)):
        big = {"fill": [1, 2], "len": L, "marks": {str(L - 1): 7, str(L - 2): 8, "5": 7}}
        docs = [[3, 7], big] if w != 4 else [big, [], [7]]
        lim_cases.append({"docs": docs, "truncate": trunc, "opts": {"workers": w, "batch_size": rng.choice([1, 100000])},
                          "queries": [["tf", 7], ["tf", 8], ["tf", 1], ["tf", 9]]})
    o2 = R.Outcome()
    R.evaluate(c17, lim_cases, ctx["scratch"], o2, [])
    for v in o2.violations:
        out.violations.append((dict(v[0], via="C17 machinery"), v[1], v[2], v[3], "document of maximal length: " + v[4]))
    out.corr_breaks += [(dict(c, via="C17 machinery"), i, m) for c, i, m in o2.corr_breaks]
    return {"row_limit_cases": len(cases), "row_limit_failures": bad, "max_length_document_cases": len(lim_cases),
            "max_length_document_failures": len(o2.violations)}


def replay(rp):
    """replay files of the maximal-length phase carry C17's case format: re-run them through that machinery"""
    case = rp.get("case")
    if not (isinstance(case, dict) and case.get("via")):
        return None
    from harness import common as C
    from harness import run as R
    from harness.props import c17
    o = R.Outcome()
    R.evaluate(c17, [{k: v for k, v in case.items() if k != "via"}], C.scratch_build(), o, [])
    if o.violations or o.corr_breaks:
        print(f"VIOLATION property=C01 replay=replays/{rp.get('_file', '')}" + ("" if o.violations else " no-failing-input-found"))
        return 1
    print("replay: property holds on this input now")
    return 0
