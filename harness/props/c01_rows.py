"""impl side of C01's row-limit phase: a corpus of 2^28 rows cannot be indexed inside the check's time budget, so the batch
worker is driven directly at document ids around the 28-bit key capacity (the only place where ids enter the encoding)."""


def impl(c):
    from searcharray.indexing import _tokenize_batch
    from searcharray.term_dict import TermDict
    td = TermDict()
    docs = [" ".join(f"t{t}" for t in d) for d in c["docs"]]
    try:
        _, _, posns, lens = _tokenize_batch(docs, lambda s: s.split(), td, len(docs), c["beg"])
    except ValueError as e:
        return {"exc": "ValueError"}
    out = {}
    for t in sorted({t for d in c["docs"] for t in d}):
        ids, tfs = posns.termfreqs(td.get_term_id(f"t{t}"))
        out[str(t)] = [[int(i), float(f)] for i, f in zip(ids, tfs)]
    return {"tf": out}
