"""C04 — default score is Lucene BM25 over the index's own statistics."""
import math
import struct

from harness.common import sx
from harness.props import corpus as K
from harness.props import c01 as B

ID = "C04"
ENTRY = "SearchArray.score(query, similarity=...)"
LEVEL = "proof"
RULE = ("corpora incl. all-empty corpora, empty documents, N = 1, terms in every document; single-term and distinct-term "
        "phrase queries; default BM25, parameterised BM25 over a (k1, b) grid incl. extreme values, the legacy variant and "
        "a recording similarity (statistics handed over). Scores are compared as float32 BIT PATTERNS with the Flocq "
        "model, and with a float64 evaluation of the formula on the spec's statistics (1e-5 relative, exact zero pattern, "
        "finiteness). Non-trivial = at least two distinct non-zero scores. Distinct by input hash.")
TRUSTED = B.TRUSTED + ["Flocq binary32/binary64 operations as the semantics of C float / Python float arithmetic",
                       "numpy log (idf) is an input of the model; the harness recomputes idf with the same numpy expression",
                       "float64 evaluation of the BM25 formula in the harness (tolerance oracle, not a theorem)"]
ASSUMPTIONS = B.ASSUMPTIONS + ["x86-64 SSE float arithmetic: round-to-nearest-even, no FMA contraction",
                               "np.mean of float32 lengths = correctly rounded total/n while total < 2^24"]
EXPLANATION = ("model = statistics from the index model + binary32 kernel model (bit-exact); theorems: zero pattern, "
               "finiteness under stated ranges, legacy = (k1+1) * modern over R (Props/C04.v).")

K1S = [1.2, 1.2, 1.2, 0.01, 0.5, 2.0, 10.0, 64.0]
BS = [0.75, 0.75, 0.75, 0.0, 0.1, 0.5, 0.99]


def f64_bits(x):
    return struct.unpack("<Q", struct.pack("<d", float(x)))[0]


def idf_of(n, dfs):
    import numpy as np
    d = np.asarray([np.uint64(x) for x in dfs])
    if any(x == 0 for x in dfs):
        d = np.asarray([np.uint64(x) if x else 0 for x in dfs])
    return float(np.sum(np.log(1 + (n - d + 0.5) / (d + 0.5))))


def gen(rng, tier):
    n = {"quick": 300, "thorough": 5000, "search": 800}[tier]
    cases = []
    for i in range(n):
        kind = rng.choice(["normal", "normal", "normal", "allempty", "n1", "everydoc"])
        docs, vocab = K.gen_docs(rng, vocab=rng.choice([2, 3, 5, 12]), maxlen=40, long_doc=0.02)
        if kind == "allempty":
            docs = [[] for _ in docs]
        elif kind == "n1":
            docs = docs[:1]
        elif kind == "everydoc":
            docs = [(d or []) + [0] for d in docs]
        voc = K.vocab_of(docs) or [0]
        qs = []
        for _ in range(rng.randint(2, 5)):
            if rng.random() < 0.6 or len(voc) < 2:
                ts = [rng.choice(voc + [vocab + 50])]
            else:
                ts = rng.sample(voc, min(len(voc), rng.randint(2, 3)))
            if rng.random() < 0.15:
                k1, b = rng.choice([(1e-50, 0.75), (1.2, 1 - 1e-9), (1e-30, 0.0), (1e30, 0.5)])
            else:
                k1, b = rng.choice(K1S), rng.choice(BS)
            variant = rng.choice(["default" if (k1, b) == (1.2, 0.75) else "param", "param", "legacy", "record"])
            ndocs = len(docs)
            dfs = [sum(1 for d in docs if d and t in d) for t in ts]
            qs.append(["score", ts, variant, k1, b, f64_bits(idf_of(ndocs, dfs))])
        cases.append({"docs": docs, "tokz": rng.choice(K.TOKZ), "opts": K.gen_opts(rng, len(docs)), "queries": qs})
    # large corpora in which a term occurs in (almost) every document: idf = ln(1 + 0.5/(N+0.5)) is tiny, and a float32
    # evaluation of it loses its digits (the statistics must reach the formula in double precision)
    for N in ({"quick": [300, 2500], "thorough": [300, 1000, 2500, 6000], "search": [300, 2500]}[tier]):
        docs = [[0] + [rng.randrange(1, 4) for _ in range(rng.randint(0, 2))] for _ in range(N)]
        miss = rng.sample(range(N), rng.choice([0, 1, 3]))
        for m in miss:
            docs[m] = [1]
        qs = []
        for ts, variant, k1, b in (([0], "default", 1.2, 0.75), ([0], "param", 2.0, 0.3), ([0], "legacy", 1.2, 0.75), ([0, 1], "param", 1.2, 0.75)):
            dfs = [sum(1 for d in docs if t in d) for t in ts]
            qs.append(["score", ts, variant, k1, b, f64_bits(idf_of(N, dfs))])
        cases.append({"docs": docs, "tokz": "ws", "opts": {}, "queries": qs})
    return cases


def impl(case):
    import numpy as np
    from searcharray.similarity import bm25_similarity, bm25_legacy_similarity
    try:
        arr = K.build_array(case)
    except Exception as e:   # noqa
        return {"build_exc": type(e).__name__}
    out = []
    for q in case["queries"]:
        _, ts, variant, k1, b, _idf = q
        toks = [K.tok_name(t) for t in ts]
        arg = toks[0] if len(toks) == 1 else toks
        try:
            if variant == "default":
                s = arr.score(arg)
                out.append(["ok", [int(x) for x in np.asarray(s, dtype=np.float32).view(np.uint32)]])
            elif variant == "param":
                s = arr.score(arg, similarity=bm25_similarity(k1=k1, b=b))
                out.append(["ok", [int(x) for x in np.asarray(s, dtype=np.float32).view(np.uint32)]])
            elif variant == "legacy":
                s = arr.score(arg, similarity=bm25_legacy_similarity(k1=k1, b=b))
                out.append(["okf", [float(x) for x in s]])
            else:
                rec = {}

                def recording(term_freqs, doc_freqs, doc_lens, avg_doc_lens, num_docs):
                    rec["tfs"] = [K._intf(x) for x in term_freqs]
                    rec["dfs"] = [int(x) for x in doc_freqs]
                    rec["dls"] = [K._intf(x) for x in doc_lens]
                    rec["avg"] = K.f32_bits(avg_doc_lens)
                    rec["n"] = int(num_docs)
                    return term_freqs
                arr.score(arg, similarity=recording)
                out.append(["args", rec])
        except Exception as e:      # noqa
            out.append(["exc", type(e).__name__])
    return {"q": out}


def model_req(case):
    o = case.get("opts", {})
    n = len(case["docs"])
    bs = o.get("batch_size", 100000)
    qs = []
    for q in case["queries"]:
        _, ts, variant, k1, b, idfb = q
        if variant in ("default", "param"):
            qs.append(["score", ts, idfb, f64_bits(k1), f64_bits(b)])
        else:
            qs.append(["args", ts])
    return sx(["index_query", 0, min(bs, n + 1), K.docs_sx(case["docs"]), qs])


def spec_req(case):
    qs = []
    for q in case["queries"]:
        ts = q[1]
        qs.append(["tf", ts[0]] if len(ts) == 1 else ["phrase", ts])
    qs += [["lens"], ["total"]]
    return sx(["spec_index_query", K.docs_sx(case["docs"]), qs])


def model_decode(case, r):
    if r[0] != "ok":
        return {"build_exc": r[1]} if r[0] == "exc" else {"modelfault": r}
    out = []
    n = len(case["docs"])
    for q, v in zip(case["queries"], r[1]):
        variant = q[2]
        if v[0] != "ok":
            out.append(["exc", v[1]] if v[0] == "exc" else ["modelfault", v])
        elif variant in ("default", "param"):
            out.append(["ok", v[1]])
        else:
            tfs, dfs, dls, total, nn = v[1]
            out.append(["args", {"tfs": tfs, "dfs": dfs, "dls": dls, "avg": K.rn_f32_bits(total, nn) if nn else None, "n": nn}])
    return {"q": out, "model": True}


def spec_decode(case, r):
    vals = r[1]
    nq = len(case["queries"])
    tfs = []
    for q, v in zip(case["queries"], vals[:nq]):
        if len(q[1]) == 1:
            tfs.append(v[1])
        else:
            tfs.append(v[1][0])          # phrase: [occ, non, strict]
    return {"spec": True, "tfs": tfs, "lens": vals[nq][1], "total": vals[nq + 1][1]}


def _f32(bits):
    return struct.unpack("<f", struct.pack("<I", bits))[0]


def _ref_scores(case, q, tfs, lens, total):
    _, ts, variant, k1, b, idfb = q
    n = len(case["docs"])
    idf = struct.unpack("<d", struct.pack("<Q", idfb))[0]
    avg = total / n if n else 0.0
    k1f = _f32(K.f32_bits(k1))
    bf = _f32(K.f32_bits(b))
    out = []
    for tf, ln in zip(tfs, lens):
        if avg == 0 or tf == 0:
            out.append(0.0)
        else:
            v = idf * tf / (tf + k1f * (1 - bf + bf * ln / avg))
            out.append(v * (k1 + 1) if variant == "legacy" else v)
    return out


def _close(a, r):
    if not math.isfinite(a):
        return False
    if r == 0.0:
        return a == 0.0
    return a != 0.0 and abs(a - r) <= 1e-5 * abs(r)


def equal(case, a, b):
    if not isinstance(a, dict) or not isinstance(b, dict):
        return False
    if "build_exc" in a or "build_exc" in b:
        return a.get("build_exc") == b.get("build_exc")
    if b.get("spec"):
        for q, iv, tfs in zip(case["queries"], a["q"], b["tfs"]):
            variant = q[2]
            if variant == "record":
                if iv[0] != "args":
                    return False
                rec = iv[1]
                n = len(case["docs"])
                dfs = [sum(1 for d in case["docs"] if d and t in d) for t in q[1]]
                if rec["tfs"] != tfs or rec["dls"] != b["lens"] or rec["n"] != n or rec["dfs"] != dfs:
                    return False
                if rec["avg"] != K.rn_f32_bits(b["total"], n):
                    return False
                continue
            if iv[0] not in ("ok", "okf"):
                return False
            got = [_f32(x) for x in iv[1]] if iv[0] == "ok" else iv[1]
            ref = _ref_scores(case, q, tfs, b["lens"], b["total"])
            if len(got) != len(ref) or not all(_close(g, r) for g, r in zip(got, ref)):
                return False
        return True
    # impl vs model: bit patterns / recorded statistics; legacy is not modelled bit-exactly (numpy float64 path)
    def canon(v):
        if v and v[0] == "ok":
            return ["ok", ["nan" if (x & 0x7F800000) == 0x7F800000 and (x & 0x7FFFFF) else x for x in v[1]]]
        return v
    for q, iv, mv in zip(case["queries"], a["q"], b["q"]):
        if q[2] == "legacy":
            continue
        if canon(iv) != canon(mv):
            return False
    return True


def nontrivial(case, r):
    if not isinstance(r, dict) or "q" not in r:
        return False
    for v in r["q"]:
        if v[0] == "ok" and len(set(x for x in v[1] if x != 0)) >= 2:
            return True
    return False


def tally(dist, c, r):
    for q in c["queries"]:
        dist["variant:" + q[2]] = dist.get("variant:" + q[2], 0) + 1
    if all(not d for d in c["docs"]):
        dist["all-empty"] = dist.get("all-empty", 0) + 1
    if len(c["docs"]) == 1:
        dist["N=1"] = dist.get("N=1", 0) + 1


def shrink_candidates(c):
    out = B.shrink_candidates(c)
    res = []
    for e in out:
        # idf depends on the corpus: recompute
        qs = []
        for q in e["queries"]:
            dfs = [sum(1 for d in e["docs"] if d and t in d) for t in q[1]]
            qs.append(q[:5] + [f64_bits(idf_of(len(e["docs"]), dfs))])
        e = dict(e)
        e["queries"] = qs
        res.append(e)
    return res
