"""C18 — pickle round-trips preserve every answer, with or without a data directory."""
import json
import os
import subprocess
import sys

from harness.common import sx
from harness.props import corpus as K
from harness.props import c01 as B
from harness.props import c04, c06

ID = "C18"
ENTRY = "pickle.loads(pickle.dumps(arr)) / pd.to_pickle + pd.read_pickle, then any query"
LEVEL = "proof"
RULE = ("histories over one data directory: several indexes written to it (optionally a foreign file first), arrays and "
        "views (incl. stepped slices) pickled and unpickled in the same process and in a FRESH interpreter, before and "
        "after further indexes are created; in-memory indexes as well; every array answers tf / df / positions / lengths / "
        "phrase / default score after the round trip exactly as before and as the model; file names and sizes are "
        "compared with the storage state machine. Non-trivial = at least two indexes in one directory and one "
        "fresh-interpreter round trip. Distinct by input hash.")
TRUSTED = B.TRUSTED + ["pickle, the filesystem, np.memmap are exercised, not modelled"]
ASSUMPTIONS = ["no file of the directory is deleted or renamed between writing and unpickling"]
EXPLANATION = ("storage state machine (Store/Store.v) with theorems no-overwrite / round trip / isolation (Props/C18.v); "
               "check = real histories incl. subprocess round trips vs the machine and vs the in-memory answers.")


def gen(rng, tier):
    n = {"quick": 40, "thorough": 800, "search": 80}[tier]
    cases = []
    for i in range(n):
        ops = []
        narr = 0
        corpora = []
        if i % 10 == 3:
            # many indexes in one directory (file names past one digit: "9" -> "10" -> "11"), then re-load earlier ones
            if rng.random() < 0.3:
                ops.append(["foreign"])
            for _k in range(rng.randint(11, 15)):
                docs, _ = K.gen_docs(rng, n_docs=rng.randint(1, 3), maxlen=8, vocab=rng.choice([2, 3]), long_doc=0.0)
                docs = [d or [] for d in docs]
                if not any(docs):
                    docs[0] = [0, 1]
                ops.append(["index", docs, rng.random() < 0.7])
                narr += 1
            for a in sorted(rng.sample(range(narr), 5)) + [narr - 2, narr - 3]:
                ops.append(["roundtrip", a, rng.random() < 0.3, rng.random() < 0.3])
            cases.append({"ops": ops, "seed": rng.randint(0, 10 ** 6)})
            continue
        if i % 10 in (6, 7):
            # views whose row ids LOOK like a plain range from their end points (a permutation inside a contiguous span,
            # repeats and gaps between matching ends, a reversed span), pickled at once and again after more indexes
            docs, _ = K.gen_docs(rng, n_docs=rng.randint(5, 10), maxlen=12, vocab=rng.choice([2, 3, 4]), long_doc=0.0)
            docs = [d or [] for d in docs]
            if not any(docs):
                docs[0] = [0, 1]
            ops.append(["index", docs, rng.random() < 0.5])
            narr = 1
            for _k in range(rng.randint(2, 4)):
                src = 0 if rng.random() < 0.7 else rng.randrange(narr)
                ops.append(["view", src, {"style": rng.choice(["perm_span", "perm_span", "dups_span", "rev_span"])}])
                narr += 1
                ops.append(["roundtrip", narr - 1, rng.random() < 0.4, rng.random() < 0.4])
                narr += 1
            if rng.random() < 0.5:
                d2, _ = K.gen_docs(rng, n_docs=3, maxlen=6, vocab=2, long_doc=0.0)
                ops.append(["index", [d or [0] for d in d2], True])
                narr += 1
                ops.append(["roundtrip", 1, True, False])
                narr += 1
            cases.append({"ops": ops, "seed": rng.randint(0, 10 ** 6)})
            continue
        if rng.random() < 0.3:
            ops.append(["foreign"])
        for _k in range(rng.randint(2, 9)):
            r = rng.random()
            if r < 0.35 or narr == 0:
                docs, _ = K.gen_docs(rng, n_docs=rng.randint(1, 9), maxlen=25, vocab=rng.choice([2, 4, 7]), long_doc=0.0)
                docs = [d or [] for d in docs]
                ops.append(["index", docs, rng.random() < 0.7])
                corpora.append(len(docs))
                narr += 1
            elif r < 0.55:
                a = rng.randrange(narr)
                ops.append(["view", a, c06.gen_key(rng, 0)])        # key materialised by the runner against the real length
                narr += 1
            elif r < 0.9:
                a = rng.randrange(narr)
                ops.append(["roundtrip", a, rng.random() < 0.4, rng.random() < 0.3])   # fresh interpreter?, via pandas?
                narr += 1
            else:
                ops.append(["foreign"])
        cases.append({"ops": ops, "seed": rng.randint(0, 10 ** 6)})
    return cases


QUERIES_SRC = '''
import json, sys, pickle, numpy as np
def run_queries(arr, voc):
    out = []
    for t in voc:
        out.append([float(x) for x in arr.termfreqs(t)])
        out.append(int(arr.docfreq(t)))
        try:
            out.append([[int(p) for p in row] for row in arr.positions(t)])
        except Exception as e:
            out.append(type(e).__name__)
        s = arr.score(t)
        out.append([int(np.float32(x).view(np.uint32)) if x == x else "nan" for x in s])
    if len(voc) >= 2:
        out.append([float(x) for x in arr.termfreqs([voc[0], voc[1]])])
    out.append([float(x) for x in arr.doclengths()])
    out.append([float(arr.avg_doc_length), int(arr.corpus_size), len(arr)])
    return out
'''


def impl(case):
    import pickle
    import random
    import shutil
    import tempfile
    import numpy as np
    import pandas as pd
    from searcharray import SearchArray
    ns = {}
    exec(QUERIES_SRC, ns)
    run_queries = ns["run_queries"]
    rng = random.Random(case["seed"])
    ddir = tempfile.mkdtemp(prefix="sa-verif-c18-", dir="/var/tmp")
    arrays, vocs, before, files = [], [], [], []
    try:
        for op in case["ops"]:
            if op[0] == "foreign":
                open(os.path.join(ddir, f"notes-{len(os.listdir(ddir))}.txt"), "w").write("x")
            elif op[0] == "index":
                docs = op[1]
                strs = [" ".join(K.tok_name(t) for t in d) for d in docs]
                arr = SearchArray.index(strs, data_dir=ddir if op[2] else None)
                arrays.append(arr)
                vocs.append(sorted(set(K.tok_name(t) for d in docs for t in d))[:4])
                before.append(run_queries(arr, vocs[-1]))
                files.append(sorted(os.listdir(ddir)))
            elif op[0] == "view":
                a = arrays[op[1]]
                style = op[2].get("style") if isinstance(op[2], dict) else None
                if style and len(a) >= 3:
                    m = rng.randint(3, min(len(a), 7))
                    s0 = rng.randint(0, len(a) - m)
                    inner = list(range(s0 + 1, s0 + m - 1))
                    if style == "perm_span":
                        rng.shuffle(inner)
                        if len(inner) >= 2 and inner == sorted(inner):
                            inner.reverse()
                        rows = [s0] + inner + [s0 + m - 1]
                    elif style == "dups_span":
                        rows = [s0] + [rng.choice(range(s0, s0 + m)) for _ in inner] + [s0 + m - 1]
                    else:
                        rows = list(range(s0 + m - 1, s0 - 1, -1))
                    key = {"k": "ints", "v": rows}
                else:
                    key = c06.gen_key(rng, len(a))
                while key["k"] in ("copy", "take") or key["k"].startswith("df_"):
                    key = c06.gen_key(rng, len(a))
                if key["k"] == "slice":
                    v = a[slice(*key["v"])]
                elif key["k"] == "mask":
                    v = a[np.array(key["v"], dtype=bool)]
                else:
                    v = a[np.array(key["v"], dtype=np.int64)]
                arrays.append(v)
                vocs.append(vocs[op[1]])
                before.append(run_queries(v, vocs[-1]))
            elif op[0] == "roundtrip":
                a = arrays[op[1]]
                voc = vocs[op[1]]
                if op[2]:
                    pth = os.path.join(tempfile.gettempdir(), f"sa-verif-c18-{os.getpid()}-{len(arrays)}.pkl")
                    pth = pth.replace(tempfile.gettempdir(), "/var/tmp")
                    if op[3]:
                        pd.to_pickle(pd.Series(a), pth)
                    else:
                        with open(pth, "wb") as f:
                            pickle.dump(a, f)
                    code = QUERIES_SRC + f'''
import pandas as pd
obj = pd.read_pickle({pth!r})
arr = obj.array if hasattr(obj, "array") else obj
print(json.dumps(run_queries(arr, {voc!r})))
'''
                    r = subprocess.run([sys.executable, "-c", code], capture_output=True, text=True,
                                       env=dict(os.environ), timeout=300)
                    os.remove(pth)
                    if r.returncode != 0:
                        return {"fresh_failed": r.stderr[-400:]}
                    got = json.loads(r.stdout.strip().splitlines()[-1])
                    b = pickle.loads(pickle.dumps(a))
                    arrays.append(b)
                    vocs.append(voc)
                    before.append(got)
                    if got != json.loads(json.dumps(before[op[1]])):
                        return {"mismatch": ["fresh", op[1], got[:2], before[op[1]][:2]]}
                else:
                    b = pickle.loads(pickle.dumps(pd.Series(a))).array if op[3] else pickle.loads(pickle.dumps(a))
                    got = run_queries(b, voc)
                    arrays.append(b)
                    vocs.append(voc)
                    before.append(got)
                    # the same-process round trip must answer like the ORIGINAL (not merely like itself later)
                    if json.loads(json.dumps(got)) != json.loads(json.dumps(before[op[1]])):
                        return {"mismatch": ["same-process", op[1], got[:2], before[op[1]][:2]]}
        # at the end: every array still answers as it did when first seen
        after = [run_queries(a, v) for a, v in zip(arrays, vocs)]
        listing = []
        for name in sorted(os.listdir(ddir)):
            listing.append([name, os.path.getsize(os.path.join(ddir, name))])
        same = all(json.loads(json.dumps(x)) == json.loads(json.dumps(y)) for x, y in zip(before, after))
        return {"listing": listing, "same": bool(same), "answers": json.loads(json.dumps(after)),
                "chain": None}
    finally:
        shutil.rmtree(ddir, ignore_errors=True)


def model_req(case):
    ops = []
    for op in case["ops"]:
        if op[0] == "foreign":
            ops.append(["foreign"])
        elif op[0] == "index" and op[2] and any(op[1]):
            ops.append(["index", op[1]])        # an index without a single posting writes no file
    return sx(["store_run", ops])


def model_decode(case, r):
    outs, all_ok, count = r
    files = []
    k = 0
    for o in outs:
        if o[0] == "file":
            files.append([f"{o[1]}.dat", 8 * o[2]])
    return {"files": sorted(files), "loads_ok": bool(all_ok), "count": count}


def equal(case, a, b):
    """a = impl, b = model: file names and sizes of the .dat files, all loads ok"""
    if not isinstance(a, dict) or "listing" not in a:
        return False
    dat = sorted([x for x in a["listing"] if x[0].endswith(".dat")])
    return dat == b["files"] and b["loads_ok"] and len(a["listing"]) == b["count"]


def oracle(case, ir):
    return isinstance(ir, dict) and ir.get("same") is True


def nontrivial(case, r):
    n_idx = sum(1 for op in case["ops"] if op[0] == "index" and op[2])
    fresh = any(op[0] == "roundtrip" and op[2] for op in case["ops"])
    return n_idx >= 2 and fresh


def tally(dist, c, r):
    for op in c["ops"]:
        k = op[0] + (":dir" if op[0] == "index" and op[2] else "") + (":fresh" if op[0] == "roundtrip" and op[2] else "")
        dist[k] = dist.get(k, 0) + 1
    if isinstance(r, dict) and "same" not in r:
        dist["impl-problem"] = dist.get("impl-problem", 0) + 1


def shrink_candidates(c):
    out = []
    ops = c["ops"]
    for i in range(len(ops) - 1, 0, -1):
        e = dict(c)
        e["ops"] = ops[:i]
        out.append(e)
    return out[:10]
