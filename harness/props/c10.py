"""C10 — edismax phrase boosts only re-rank matches, adding each phrase score once."""
from harness.props import c09 as B

ID = "C10"
ENTRY = "searcharray.solr.edismax(frame, q, qf, pf=..., pf2=..., pf3=...)"
LEVEL = "proof"
RULE = ("as C09 with pf / pf2 / pf3 any subsets of the query fields with boosts, frames where only some rows match the "
        "query fields (so the matching subset's statistics differ from the frame's), 2-, 3-, 4+-term queries and queries "
        "shorter than the shingle size. Non-trivial = a row with a positive score and a row kept at 0.")
TRUSTED = B.TRUSTED
ASSUMPTIONS = B.ASSUMPTIONS
EXPLANATION = ("model = phrase phases on the view of rows with positive query-field score, added back at those rows; spec = "
               "query-field score plus boost * whole-frame phrase / bigram / trigram scores, each shingle once, 0 stays 0.")


def gen(rng, tier):
    return B.gen(rng, tier, with_phrases=True)


impl = B.impl
model_req = B.model_req
spec_req = B.spec_req
model_decode = B.model_decode
spec_decode = B.spec_decode
equal = B.equal
tally = B.tally
shrink_candidates = B.shrink_candidates


def nontrivial(case, r):
    return isinstance(r, list) and any(x > 0 for x in r) and any(x == 0 for x in r)
