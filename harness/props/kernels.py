"""Shared generators / impl runners / model requests for the compiled kernels (C12, C14)."""
import itertools

from harness.common import sx

ALL = (1 << 64) - 1
HEADER = 0xFFFFFFFFFFFC0000
NIB = 0xF000000000000000
MASKS = [ALL, HEADER, NIB]
INTERSECT_KINDS = ["intersect_drop", "intersect_keep", "adjacent", "int_adj"]


def lowbit(m):
    return m & (-m) & ALL


def shift_of(mask):
    return (lowbit(mask)).bit_length() - 1


# ---------------------------------------------------------------------------------------------
# generators
# ---------------------------------------------------------------------------------------------
def lift(vals, mask, rng, top=False):
    """Place small integers into the mask's bit range, add noise below it, keep the list sorted."""
    sh = shift_of(mask)
    width = 64 - sh
    out = []
    for a in vals:
        if top:
            a = (1 << width) - 1 - a      # count down from all-ones
        noise = rng.getrandbits(sh) if sh and rng.random() < 0.7 else 0
        out.append(((a << sh) | noise) & ALL)
    return sorted(out)


def small_sorted_lists(alpha, maxlen):
    out = []
    for k in range(maxlen + 1):
        out += [list(c) for c in itertools.combinations_with_replacement(range(alpha), k)]
    return out


def gen_intersect_cases(rng, tier, kinds=INTERSECT_KINDS):
    cases = []
    lists = small_sorted_lists(4, 5)
    pairs = [(a, b) for a in lists for b in lists]
    n_small = {"quick": 700, "thorough": len(pairs), "search": 2500}[tier]
    for mask in MASKS:
        chosen = pairs if n_small >= len(pairs) else rng.sample(pairs, n_small)
        for (a, b) in chosen:
            top = rng.random() < 0.08
            l = lift(a, mask, rng, top)
            r = lift(b, mask, rng, top)
            for k in kinds:
                if tier != "thorough" and rng.random() < 0.5:
                    continue
                ls = rng.choice([1, 1, 1, 2, 3, -1, -2])
                rs = rng.choice([1, 1, 1, 2, 3, -1])
                cases.append({"k": k, "l": l, "r": r, "mask": mask, "ls": ls, "rs": rs})
    # gallop-depth sweep: the hit lands at every offset inside the last jump
    maxd = {"quick": 7, "thorough": 10, "search": 8}[tier]
    for mask in [ALL, HEADER]:      # masks wide enough for 2n+5 distinct keys
        sh = shift_of(mask)
        n = (1 << maxd) + 3
        long = [((2 * i + 2) << sh) for i in range(n)]
        step = 3 if tier == "thorough" else max(1, n // 70)
        for p in list(range(0, min(n, 40))) + list(range(40, n, step)) + [n - 2, n - 1]:
            for k in kinds:
                for hit in (0, 1):           # target present / absent (odd value just below)
                    tgt = long[p] - (0 if hit else (1 << sh))
                    short = [tgt, tgt + (1 << sh) * (2 * n + 5)]
                    if rng.random() < 0.5 or tier == "thorough":
                        cases.append({"k": k, "l": long, "r": short, "mask": mask, "ls": 1, "rs": 1})
                    if rng.random() < 0.5 or tier == "thorough":
                        cases.append({"k": k, "l": short, "r": long, "mask": mask, "ls": 1, "rs": 1})
    # random clustered arrays with long duplicate runs
    nrand, maxlen = {"quick": (120, 300), "thorough": (600, 5000), "search": (300, 400)}[tier]
    for _ in range(nrand):
        mask = rng.choice(MASKS)
        sh = shift_of(mask)

        def arr():
            n = rng.choice([0, 1, 2, rng.randint(3, 40), rng.randint(3, maxlen)])
            vals, v = [], rng.randint(0, 5)
            while len(vals) < n:
                run = rng.choice([1, 1, 1, 2, 3, rng.randint(1, 60)])
                vals += [v] * run
                v += rng.choice([1, 1, 1, 2, 2, 3, rng.randint(1, 50)])
            return lift(vals[:n], mask, rng)
        l, r = arr(), arr()
        for k in kinds:
            if rng.random() < 0.6:
                ls = rng.choice([1, 1, 2, 5, -1])
                rs = rng.choice([1, 1, 2, 5, -3])
                cases.append({"k": k, "l": l, "r": r, "mask": mask, "ls": ls, "rs": rs})
    return cases


def gen_linear_cases(rng, tier):
    cases = []
    n = {"quick": 250, "thorough": 3000, "search": 700}[tier]

    def sorted_arr(maxlen=40, dup=0.5, hi=60):
        k = rng.choice([0, 1, 2, rng.randint(0, maxlen)])
        vals, v = [], rng.randint(0, 3)
        while len(vals) < k:
            vals += [v] * (rng.choice([1, 2, 3, 7]) if rng.random() < dup else 1)
            v += rng.randint(1, max(1, hi // 10))
        return vals[:k]

    def strict_arr(maxlen=40):
        return sorted(set(sorted_arr(maxlen)))

    # searches, exhaustively: every length 1..70 (every gallop depth, clipped and unclipped last jumps), every target on
    # and between the elements, start 0 and one random start; plus duplicate runs under a header mask
    for L in range(1, 71):
        av = [2 * i + 1 for i in range(L)]
        starts = [0] if L < 3 else [0, rng.randint(1, L - 1)]
        for start in starts:
            for t in range(0, 2 * L + 2):
                if L > 40 and start != 0 and t % 5:
                    continue
                for kind in ("binary_search", "galloping_search"):
                    cases.append({"k": kind, "a": av, "target": t, "mask": ALL, "start": start})
    for _ in range({"quick": 40, "thorough": 400, "search": 80}[tier]):
        L = rng.choice([rng.randint(50, 300), rng.randint(300, 3500)])
        mask = rng.choice(MASKS)
        shm = shift_of(mask)
        keys, v = [], 0
        while len(keys) < L:
            v += rng.randint(1, 3)
            keys += [v] * rng.choice([1, 1, 2, 5])
        av = sorted(((x << shm) | (rng.getrandbits(shm) if shm else 0)) & ALL for x in keys[:L])
        for _t in range(6):
            start = rng.choice([0, 0, rng.randint(0, L - 1)])
            t = ((rng.randint(0, v + 1) << shm) | (rng.getrandbits(shm) if shm else 0)) & ALL
            for kind in ("binary_search", "galloping_search"):
                cases.append({"k": kind, "a": av, "target": t, "mask": mask, "start": start})
    for _ in range(n):
        big = rng.random() < 0.3
        sc = (1 << rng.choice([0, 18, 36, 56])) if big else 1
        # merge
        l, r = [x * sc for x in sorted_arr()], [x * sc for x in sorted_arr()]
        cases.append({"k": "merge", "l": l, "r": r})
        ls, rs = [x * sc for x in strict_arr()], [x * sc for x in strict_arr()]
        cases.append({"k": "merge_drop", "l": ls, "r": rs})
        cases.append({"k": "merge_drop", "l": l, "r": r, "nodomain": True})
        # sort_merge_counts: strictly increasing ids
        cases.append({"k": "sort_merge_counts", "li": ls, "lc": [rng.randint(0, 9) for _ in ls],
                      "ri": rs, "rc": [rng.randint(0, 9) for _ in rs]})
        # unique
        sh = rng.choice([0, 0, 1, 18, 36])
        a = sorted((x << max(0, sh - 1)) | (rng.getrandbits(sh) if sh else 0) for x in sorted_arr())
        cases.append({"k": "unique", "a": a, "rshift": sh})
        # searches: non-empty arrays
        a = sorted_arr(60) or [rng.randint(0, 9)]
        mask = rng.choice(MASKS)
        shm = shift_of(mask)
        av = sorted(((x << shm) | (rng.getrandbits(shm) if shm else 0)) & ALL for x in a)
        for kind in ("binary_search", "galloping_search"):
            tchoice = rng.choice(["in", "in", "below", "above", "between"])
            if tchoice == "in":
                t = rng.choice(av)
            elif tchoice == "below":
                t = max(0, (av[0] >> shm) - 1) << shm
            elif tchoice == "above":
                t = (((av[-1] >> shm) + rng.randint(1, 3)) << shm) & ALL
                if t < av[-1]:
                    t = av[-1]
            else:
                t = ((rng.randint(av[0] >> shm, av[-1] >> shm)) << shm) & ALL
            start = 0 if rng.random() < 0.8 else rng.randint(0, len(av) - 1)
            cases.append({"k": kind, "a": av, "target": t | (rng.getrandbits(shm) if shm else 0), "mask": mask,
                          "start": start})
        # reductions
        ids = sorted_arr(50, dup=0.8)
        cases.append({"k": "popcount_reduce_at", "ids": ids, "p": [rng.getrandbits(rng.choice([3, 18, 64])) for _ in ids]})
        cases.append({"k": "key_sum_over", "ids": ids, "p": [rng.randint(0, 40) for _ in ids]})
        if rng.random() < 0.1:
            cases.append({"k": "popcount_reduce_at", "ids": ids, "p": [1] * (len(ids) + 1)})
            cases.append({"k": "key_sum_over", "ids": ids + [7], "p": [1] * len(ids)})
        words = sorted(((k << 36) | (rng.randint(0, 3) << 18) | rng.getrandbits(18)) for k in sorted_arr(50, dup=0.8))
        cases.append({"k": "popcount64_reduce", "a": words, "shift": 36, "vmask": (1 << 18) - 1})
        cases.append({"k": "popcount64", "a": [rng.getrandbits(64) for _ in range(rng.randint(0, 12))]})
        # the same kernels on STRIDED views (every array argument is a[::2] / a[::3] of a larger buffer): the result
        # must be that of the contiguous copy
        if rng.random() < 0.35:
            stc = rng.choice([2, 3])
            for prev in cases[-12:]:
                if prev["k"] not in INTERSECT_KINDS and prev["k"] not in ("binary_search", "galloping_search") \
                        and "st" not in prev and rng.random() < 0.5:
                    e = dict(prev)
                    e["st"] = stc
                    cases.append(e)
        lo = rng.randint(0, 3) << 18
        hi = rng.choice([ALL, rng.randint(0, 3) << 18])
        cases.append({"k": "payload_slice", "a": words, "mask": 0x0000000FFFFC0000, "lo": lo, "hi": hi})
        # as_dense: every residue of the number of pairs modulo the unroll factor
        size = rng.randint(1, 60)
        m = rng.choice([rng.randint(0, 25), rng.randint(0, size)])
        if rng.random() < 0.7:
            idx = sorted(rng.sample(range(size), min(m, size)))
        else:
            idx = [rng.randrange(size) for _ in range(m)]
        cases.append({"k": "as_dense", "idx": idx, "vals": [rng.randint(1, 99) for _ in idx], "n": size})
    for m in range(0, 34):      # exact coverage of the unrolled scatter's residues
        size = m + 3
        idx = list(range(m))
        rng.shuffle(idx)
        cases.append({"k": "as_dense", "idx": idx, "vals": [i + 1 for i in range(m)], "n": size})
    return cases


# ---------------------------------------------------------------------------------------------
# implementation side
# ---------------------------------------------------------------------------------------------
def _np_arr(vals, stride=1, pad=None):
    """stride 1 = a fresh contiguous array; k > 1 = the view a[::k] of a larger buffer; k < 0 = a REVERSED view
    (negative byte stride) whose logical content is vals"""
    import numpy as np
    if stride == 1 and pad is None:
        return np.array(vals, dtype=np.uint64)
    if stride < 0:
        fwd = _np_arr(list(reversed(vals)), -stride if stride != -1 else 2)
        return fwd[::-1]
    big = np.full(len(vals) * stride + 1, 0xDEADBEEFDEADBEEF, dtype=np.uint64)
    big[0:len(vals) * stride:stride] = np.array(vals, dtype=np.uint64)
    return big[0:len(vals) * stride:stride]


def _np_f32(vals, stride=1):
    import numpy as np
    if stride == 1:
        return np.array(vals, dtype=np.float32)
    big = np.full(len(vals) * stride + 1, 12345.0, dtype=np.float32)
    big[0:len(vals) * stride:stride] = np.array(vals, dtype=np.float32)
    return big[0:len(vals) * stride:stride]


def impl_kernel(c):
    import numpy as np
    import searcharray.roaringish as R
    from searcharray.roaringish.intersect import intersect_with_adjacents
    from searcharray.roaringish.search import galloping_search, binary_search
    from searcharray.roaringish.popcount import popcount64_reduce
    from searcharray.roaringish.roaringish_ops import payload_slice, as_dense
    k = c["k"]

    def li(x):
        return [int(v) for v in x]
    if k in INTERSECT_KINDS:
        l = _np_arr(c["l"], c.get("ls", 1))
        r = _np_arr(c["r"], c.get("rs", 1))
        m = np.uint64(c["mask"])
        if k == "intersect_drop":
            a, b = R.intersect(l, r, mask=m)
            return [li(a), li(b)]
        if k == "intersect_keep":
            a, b = R.intersect(l, r, mask=m, drop_duplicates=False)
            return [li(a), li(b)]
        if k == "adjacent":
            a, b = R.adjacent(l, r, mask=m)
            return [li(a), li(b)]
        a, b, x, y = intersect_with_adjacents(l, r, mask=m)
        return [li(a), li(b), li(x), li(y)]
    st = c.get("st", 1)          # stride of every array argument of the linear kernels (1 = contiguous)
    if k == "merge":
        return li(R.merge(_np_arr(c["l"], st), _np_arr(c["r"], st)))
    if k == "merge_drop":
        return li(R.merge(_np_arr(c["l"], st), _np_arr(c["r"], st), drop_duplicates=True))
    if k == "sort_merge_counts":
        i, cn = R.sort_merge_counts(_np_arr(c["li"], st), _np_f32(c["lc"], st),
                                    _np_arr(c["ri"], st), _np_f32(c["rc"], st))
        return [[int(a), int(b)] for a, b in zip(i, cn)]
    if k == "unique":
        return li(R.unique(_np_arr(c["a"], st), c["rshift"]))
    if k in ("binary_search", "galloping_search"):
        fn = binary_search if k == "binary_search" else galloping_search
        # interior view of a larger buffer whose neighbour holds the target itself (adversarial memory)
        vals = c["a"]
        big = np.full(len(vals) + 2, np.uint64(c["target"]), dtype=np.uint64)
        big[1:1 + len(vals)] = np.array(vals, dtype=np.uint64)
        arr = big[1:1 + len(vals)]
        i, f = fn(arr, np.uint64(c["target"]), np.uint64(c["mask"]), c.get("start", 0))
        return [int(i), bool(f)]
    if k in ("popcount_reduce_at", "key_sum_over"):
        fn = R.popcount_reduce_at if k == "popcount_reduce_at" else R.key_sum_over
        i, cn = fn(_np_arr(c["ids"], st), _np_arr(c["p"], st))
        return [[int(a), int(b)] for a, b in zip(i, cn)]
    if k == "popcount64_reduce":
        i, cn = popcount64_reduce(_np_arr(c["a"], st), np.uint64(c["shift"]), np.uint64(c["vmask"]))
        return [[int(a), int(b)] for a, b in zip(i, cn)]
    if k == "popcount64":
        return li(R.popcount64(_np_arr(c["a"], st)))
    if k == "payload_slice":
        return li(payload_slice(_np_arr(c["a"], st), np.uint64(c["mask"]), np.uint64(c["lo"]), np.uint64(c["hi"])))
    if k == "as_dense":
        d = as_dense(_np_arr(c["idx"], st), _np_f32(c["vals"], st), c["n"])
        return [int(v) for v in d]
    raise ValueError("unknown kernel " + k)


# ---------------------------------------------------------------------------------------------
# model / spec requests
# ---------------------------------------------------------------------------------------------
def _args(c):
    k = c["k"]
    if k in INTERSECT_KINDS:
        return [c["l"], c["r"], c["mask"]]
    if k in ("merge", "merge_drop"):
        return [c["l"], c["r"]]
    if k == "sort_merge_counts":
        return [c["li"], c["lc"], c["ri"], c["rc"]]
    if k == "unique":
        return [c["a"], c["rshift"]]
    if k in ("binary_search", "galloping_search"):
        return [c["a"], c["target"], c["mask"], c.get("start", 0)]
    if k in ("popcount_reduce_at", "key_sum_over"):
        return [c["ids"], c["p"]]
    if k == "popcount64_reduce":
        return [c["a"], c["shift"], c["vmask"]]
    if k == "popcount64":
        return [c["a"]]
    if k == "payload_slice":
        return [c["a"], c["mask"], c["lo"], c["hi"]]
    if k == "as_dense":
        return [c["idx"], c["vals"], c["n"]]
    raise ValueError(k)


def model_req(c):
    return sx([c["k"]] + _args(c))


SPEC_NAME = {"intersect_drop": "spec_intersect_drop", "intersect_keep": "spec_intersect_keep",
             "adjacent": "spec_adjacent", "merge": "spec_merge", "merge_drop": "spec_merge_drop",
             "sort_merge_counts": "spec_sort_merge_counts", "unique": "spec_unique",
             "binary_search": "spec_search", "galloping_search": "spec_search",
             "popcount_reduce_at": "spec_popcount_reduce_at", "key_sum_over": "spec_key_sum_over",
             "popcount64_reduce": "spec_popcount64_reduce", "as_dense": "spec_as_dense"}


def spec_reqs(c):
    """list of spec requests for the case (int_adj needs two)."""
    k = c["k"]
    if c.get("nodomain"):
        return []
    if k == "int_adj":
        a = [c["l"], c["r"], c["mask"]]
        return [sx(["spec_intersect_drop"] + a), sx(["spec_adjacent"] + a)]
    if k in ("popcount_reduce_at", "key_sum_over") and len(c["ids"]) != len(c["p"]):
        return []
    if k in SPEC_NAME:
        return [sx([SPEC_NAME[k]] + _args(c))]
    return []


def decode_model(c, r):
    """-> canonical python value, or {"fault": [...]} / {"fuel": True} / {"exc": "ValueError"}"""
    if isinstance(r, list) and r and r[0] == "valueerror":
        return {"exc": "ValueError"}
    if isinstance(r, list) and r and r[0] == "fault":
        return {"fault": r[1:]}
    if isinstance(r, list) and r and r[0] == "fuel":
        return {"fuel": True}
    if isinstance(r, list) and r and r[0] == "done":
        r = r[1]
    k = c["k"]
    if k in ("binary_search", "galloping_search"):
        return [r[0], bool(r[1])]
    return r
