"""C12 — sorted-array kernels compute their set-theoretic definitions."""
from harness.props import kernels as K

ID = "C12"
ENTRY = "searcharray.roaringish kernels"
LEVEL = "proof"
RULE = ("kernel inputs: all pairs of sorted arrays over a 4-letter alphabet up to length 5 (sampled in quick, "
        "exhaustive in thorough) x masks {all bits, header, high nibble} incl. all-ones values; gallop-depth "
        "sweep with the hit at every landing offset; random clustered arrays with long duplicate runs; strided "
        "views for the intersect kernels; search targets below/inside/above with adversarial neighbours. "
        "Non-trivial = the kernel's answer is non-empty. Distinct by input hash.")
TRUSTED = ["extraction (ExtrOcamlBasic + Extract Inlined Constant rev => List.rev) + ocaml/driver.ml", "numpy array construction in harness/props/kernels.py",
           "strides are abstracted in the model (pointer = logical index); strided views are exercised on the implementation"]
ASSUMPTIONS = ["inputs sorted; mask a run of contiguous high bits; masked value + delta < 2^64 for the adjacency kernels",
               "array lengths below 2^62 (the bound of the theorems; gallop fuel 66)"]
EXPLANATION = ("Per-kernel theorems model = set-theoretic spec (Props/C12.v); the check runs the real kernels, the "
               "extracted models and the extracted specs on the same inputs.")


def gen(rng, tier):
    return K.gen_intersect_cases(rng, tier) + K.gen_linear_cases(rng, tier)


impl = K.impl_kernel
model_req = K.model_req


def _in_domain(c):
    k = c["k"]
    if k in ("adjacent", "int_adj"):
        d = K.lowbit(c["mask"])
        if any(((v & c["mask"]) + d) > K.ALL for v in c["l"]):
            return False
    if k == "as_dense":
        return all(i < c["n"] for i in c["idx"])
    if k in ("binary_search", "galloping_search"):
        # the search starts at `start`: defined when everything before it is below the target
        t = c["target"] & c["mask"]
        return all((v & c["mask"]) < t for v in c["a"][: c.get("start", 0)])
    return True


def spec_req(c):
    if not _in_domain(c):
        return None
    r = K.spec_reqs(c)
    return r if r else None


def model_decode(c, r):
    m = K.decode_model(c, r)
    if isinstance(m, dict) and ("fault" in m or "fuel" in m):
        return None          # memory-safety of the model is C14's business
    return m


def spec_decode(c, r):
    k = c["k"]
    if k == "int_adj":
        return [r[0][0], r[0][1], r[1][0], r[1][1]]
    if k in ("binary_search", "galloping_search"):
        r = r[0]
        idx = None if r[0] == "none" else r[0][1]
        return [idx, bool(r[1])]
    return r[0]


def _canon(c, v):
    if c["k"] == "int_adj" and isinstance(v, list) and len(v) == 4:
        rvals = c["r"]
        try:
            ro = [rvals[i] & c["mask"] for i in v[1]]
        except Exception:
            ro = ["bad-index"]
        return [v[0], ro, v[2], v[3]]
    return v


def equal(c, a, b):
    if isinstance(a, dict) or isinstance(b, dict):
        return isinstance(a, dict) and isinstance(b, dict) and a.get("exc") == b.get("exc") and "exc" in a
    if c["k"] in ("binary_search", "galloping_search") and isinstance(b, list) and b and b[0] is None:
        return a[1] == b[1]
    return _canon(c, a) == _canon(c, b)


def nontrivial(c, r):
    if not isinstance(r, list):
        return False
    if c["k"] in K.INTERSECT_KINDS:
        return any(len(x) > 0 for x in r)
    return len(r) > 0


def tally(dist, c, r):
    k = c["k"]
    dist[k] = dist.get(k, 0) + 1
    if k in K.INTERSECT_KINDS:
        b = "len<=5" if max(len(c["l"]), len(c["r"])) <= 5 else ("len<=64" if max(len(c["l"]), len(c["r"])) <= 64 else "len>64")
        dist[b] = dist.get(b, 0) + 1
        if c.get("ls", 1) > 1 or c.get("rs", 1) > 1:
            dist["strided"] = dist.get("strided", 0) + 1
    if isinstance(r, dict):
        e = "exc:" + str(r.get("exc", "crash"))
        dist[e] = dist.get(e, 0) + 1


def shrink_candidates(c):
    out = []
    for key in ("l", "r", "a", "ids", "idx"):
        if key in c and isinstance(c[key], list) and c[key]:
            v = c[key]
            for cut in (v[: len(v) // 2], v[len(v) // 2:], v[1:], v[:-1]):
                d = dict(c)
                d[key] = cut
                if key == "ids" and "p" in c:
                    d["p"] = c["p"][: len(cut)] if cut == v[: len(cut)] else c["p"][len(v) - len(cut):]
                if key == "idx":
                    d["vals"] = c["vals"][: len(cut)] if cut == v[: len(cut)] else c["vals"][len(v) - len(cut):]
                out.append(d)
    for d in list(out):
        if "ls" in d and (d["ls"] != 1 or d["rs"] != 1):
            e = dict(d)
            e["ls"] = e["rs"] = 1
            out.append(e)
    return out
