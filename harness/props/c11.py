"""C11 — parse_min_should_match equals Solr's calculateMinShouldMatch, result in [0, n]."""
import itertools

from harness.common import sx

ID = "C11"
ENTRY = "searcharray.solr.parse_min_should_match"
LEVEL = "proof"
RULE = ("specs generated from the Solr mm grammar as ASTs (integers -45..45, percentages -150..150, 0..3 "
        "conditional clauses), printed with varied whitespace, n in 0..40; thorough adds the exhaustive "
        "product n x simple specs x single-clause conditionals; a separate malformed stream must raise "
        "ValueError. Non-trivial = well-formed case whose answer differs from both 0 and n. Distinct = by "
        "(n, spec text).")
TRUSTED = ["extraction (ExtrOcamlBasic + Extract Inlined Constant rev => List.rev) + ocaml/driver.ml", "harness/props/c11.py printer of the mm grammar",
           "Flocq binary64 model of Python float multiplication and int() truncation",
           "string-level parsing (strip, regex, split, int()) is exercised on the implementation side only"]
ASSUMPTIONS = ["percentages within -200..200 and n within 0..50 for the float-exactness lemma (stated in the theorem)",
               "CPython float arithmetic is IEEE-754 binary64 round-to-nearest-even"]
EXPLANATION = ("Theorem C11_mm_is_solr: the model of the code's algorithm (early-return loop, clamping, binary64 "
               "percentage step) equals the declarative Solr spec and lies in [0,n]; the check runs the real "
               "parser, the extracted model and the extracted spec on the same generated specs.")


def print_simple(s):
    return f"{s[1]}" if s[0] == "int" else f"{s[1]}%"


def print_spec(spec, rng=None):
    def ws(minlen=0):
        if rng is None:
            return " " * minlen
        return "".join(rng.choice(" \t") if rng.random() < 0.9 else "\n" for _ in range(rng.choice([0, 0, 1, 2]) + minlen))
    if spec[0] != "cond":
        return ws() + print_simple(spec) + ws()
    parts = []
    for k, s in spec[1]:
        parts.append(f"{k}{ws()}<{ws()}{print_simple(s)}")
    return ws() + (" " + ws()).join(parts) + ws()


def rand_simple(rng):
    if rng.random() < 0.5:
        return ["int", rng.randint(-45, 45)]
    return ["pct", rng.choice([rng.randint(-150, 150), rng.choice([-100, -75, -50, -33, -25, 0, 25, 33, 50, 66, 75, 100, 101, 150])])]


def rand_spec(rng):
    k = rng.choice([0, 0, 1, 1, 2, 3])
    if k == 0:
        return rand_simple(rng)
    bounds = sorted(rng.randint(-2, 42) for _ in range(k))
    if rng.random() < 0.2:
        rng.shuffle(bounds)
    return ["cond", [[b, rand_simple(rng)] for b in bounds]]


MALFORMED = ["3<4 <5", "3<4<5", "2<3<4 5<6", "1<2 <3 4<5", "", "   ", "<3", "3<", "2<3 <", "abc", "3<x", "x<3", "5%0", "%", "-", "2<-", "1.5", "2<1.5", "3 4",
             "2<3 x", "2<<3", "50%%", "2<50%%", "--3", "2<--3", "٣x"]


def gen(rng, tier):
    cases = []

    def add(n, spec, text=None):
        cases.append({"n": n, "spec": spec, "text": text if text is not None else print_spec(spec)})
    nrand = {"quick": 6000, "thorough": 60000, "search": 20000}[tier]
    for _ in range(nrand):
        sp = rand_spec(rng)
        n = rng.choice([rng.randint(0, 40), rng.randint(0, 12)])
        if sp[0] == "cond" and rng.random() < 0.5:
            n = max(0, min(40, rng.choice(sp[1])[0] + rng.choice([-1, 0, 0, 1])))
        add(n, sp, print_spec(sp, rng))
    if tier in ("quick", "thorough", "search"):
        # stratified/exhaustive part
        ns = range(0, 41)
        ints = range(-45, 46)
        pcts = range(-150, 151)
        simples = [["int", c] for c in ints] + [["pct", p] for p in pcts]
        if tier == "thorough":
            for n in ns:
                for s in simples:
                    add(n, s)
            for n in ns:
                for k in range(-1, 42):
                    for s in simples[:: 1 if k % 4 == 0 else 7]:
                        add(n, ["cond", [[k, s]]])
        else:
            for n in ns:
                for s in simples[n % 5:: 5]:
                    add(n, s)
                for k in (n - 1, n, n + 1):
                    for s in simples[(n + k) % 23:: 23]:
                        add(n, ["cond", [[k, s]]])
    for m in MALFORMED:
        for n in (0, 3, 10):
            cases.append({"n": n, "text": m, "malformed": True})
    return cases


def impl(case):
    from searcharray.solr import parse_min_should_match
    return int(parse_min_should_match(case["n"], case["text"]))


def _spec_sx(spec):
    if spec[0] == "cond":
        return ["cond", [[k, [s[0], s[1]]] for k, s in spec[1]]]
    return [spec[0], spec[1]]


def model_req(case):
    if case.get("malformed"):
        return None
    return sx(["mm", case["n"], _spec_sx(case["spec"])])


def spec_req(case):
    if case.get("malformed"):
        return None
    return sx(["spec_mm", case["n"], _spec_sx(case["spec"])])


def model_decode(case, r):
    return r


def spec_decode(case, r):
    return r


def oracle(case, impl_res):
    # malformed stream: must raise ValueError
    return isinstance(impl_res, dict) and impl_res.get("exc") == "ValueError"


def nontrivial(case, impl_res):
    return (not case.get("malformed")) and isinstance(impl_res, int) and 0 < impl_res < case["n"]


def tally(dist, case, impl_res):
    k = "malformed" if case.get("malformed") else (case["spec"][0] if case["spec"][0] != "cond" else f"cond{len(case['spec'][1])}")
    dist[k] = dist.get(k, 0) + 1
    if isinstance(impl_res, dict):
        e = "exc:" + str(impl_res.get("exc", "crash"))
        dist[e] = dist.get(e, 0) + 1
