"""C09, any-similarity phase: edismax with a per-field similarity (classic, bm25 with non-default k1 / b, bm25_legacy,
the default, a user-defined function; one similarity for all fields or a dict per field) against the extracted
similarity-generic Coq model and spec (Solr/Edismax_AnySim.v, theorem C09_any_similarity).

The abstract input of that model -- the score vector of every query term on every field -- is read off the real
arrays (`arr.score(term, similarity=...)`, exact float values) by the impl side and handed to the model as rationals:
what is checked is everything edismax does WITH those vectors (running max / sum, tie, mm filter, boosts, term- vs
field-centric choice), and that the vectors themselves are finite (a nan from a similarity, as classic_similarity
gave for an empty document, spreads through edismax's max / sum)."""
import math
from fractions import Fraction

from harness.common import sx
from harness.props import c09 as B

KINDS = ["classic", "bm25", "legacy", "default", "user_tf", "user_tfnorm", "user_bool", "user_int", "user_i8", "user_f32"]


# ------------------------------------------------------------------------------------------------
# generator
# ------------------------------------------------------------------------------------------------
def _one_sim(rng):
    # user-defined similarities return arrays of several dtypes (bool / int64 / int8 / float32 / float64): edismax must
    # combine their VALUES, whatever the dtype
    k = rng.choice(["classic", "classic", "bm25", "bm25", "legacy", "default", "user_tf", "user_tfnorm",
                    "user_bool", "user_bool", "user_int", "user_i8", "user_f32"])
    if k == "bm25":
        return ["bm25", rng.choice([0.0, 0.5, 0.9, 1.6, 2.0]), rng.choice([0.0, 0.3, 0.5, 1.0])]
    if k == "legacy":
        return ["legacy", rng.choice([1.2, 0.9, 2.0]), rng.choice([0.75, 0.4, 1.0, 0.0])]
    return [k]


def gen_case(rng):
    """the C09 generator (empty documents, stop-word dropping fields, zero-term fields, boosts, mm, tie, q_op)
    plus a similarity choice.  mode: one = a single Similarity for every field; dict = one per field;
    partial = a dict that leaves some fields out (edismax then uses the default for those)."""
    c = B.gen_case(rng, False)
    nf = len(c["fields"])
    mode = rng.choice(["one", "dict", "dict", "partial"])
    if mode == "one":
        s = _one_sim(rng)
        sims = [s] * nf
    else:
        sims = [_one_sim(rng) for _ in range(nf)]
        if mode == "partial":
            drop = rng.randrange(nf)
            sims = [["omitted"] if (i == drop or rng.random() < 0.3) else s for i, s in enumerate(sims)]
    if rng.random() < 0.35:
        # the D31 shape: an empty document in a classic-similarity field that matches the query in another field
        f = rng.randrange(nf)
        r = rng.randrange(len(c["fields"][f]["docs"]))
        c["fields"][f]["docs"][r] = []
        if mode == "one":
            sims = [["classic"]] * nf
        else:
            sims[f] = ["classic"]
        if nf > 1:
            g = (f + 1 + rng.randrange(nf - 1)) % nf
            c["fields"][g]["docs"][r] = [c["q"][0]] + c["fields"][g]["docs"][r][:4]
    c["sims"] = {"mode": mode, "per_field": sims}
    return c


# ------------------------------------------------------------------------------------------------
# implementation side (runs in the worker against the scratch build)
# ------------------------------------------------------------------------------------------------
def make_sim(spec):
    import numpy as np
    from searcharray.similarity import classic_similarity, bm25_similarity, bm25_legacy_similarity, default_bm25
    k = spec[0]
    if k == "classic":
        return classic_similarity()
    if k == "bm25":
        return bm25_similarity(k1=spec[1], b=spec[2])
    if k == "legacy":
        return bm25_legacy_similarity(k1=spec[1], b=spec[2])
    if k in ("default", "omitted"):
        return default_bm25
    if k == "user_tf":
        def tf_only(term_freqs, doc_freqs, doc_lens, avg_doc_lens, num_docs):
            return np.asarray(term_freqs, dtype=np.float64)
        return tf_only
    if k == "user_tfnorm":
        def tf_norm(term_freqs, doc_freqs, doc_lens, avg_doc_lens, num_docs):
            return term_freqs / (1 + doc_lens)
        return tf_norm
    if k == "user_bool":
        def matches(term_freqs, doc_freqs, doc_lens, avg_doc_lens, num_docs):
            return term_freqs > 0
        return matches
    if k == "user_int":
        def tf_int(term_freqs, doc_freqs, doc_lens, avg_doc_lens, num_docs):
            return np.asarray(term_freqs).astype(np.int64)
        return tf_int
    if k == "user_i8":
        def tf_i8(term_freqs, doc_freqs, doc_lens, avg_doc_lens, num_docs):
            return np.minimum(np.asarray(term_freqs), 3).astype(np.int8)
        return tf_i8
    if k == "user_f32":
        def tf_f32(term_freqs, doc_freqs, doc_lens, avg_doc_lens, num_docs):
            return (np.asarray(term_freqs) * 0.5).astype(np.float32)
        return tf_f32
    raise ValueError(f"unknown similarity {spec}")


def impl(case):
    from searcharray.solr import edismax
    df, qf, kw = B.build_frame(case)
    mode, per = case["sims"]["mode"], case["sims"]["per_field"]
    sims = [make_sim(s) for s in per]
    if mode == "one":
        if per[0][0] != "default":          # "the default": no similarity argument at all
            kw["similarity"] = sims[0]
    else:
        kw["similarity"] = {f"f{i}": s for i, (s, sp) in enumerate(zip(sims, per)) if sp[0] != "omitted"}
    q = " ".join(B.tokname(t) for t in case["q"])
    # the abstract score table FIRST (a fresh similarity call per term; edismax must not depend on having been asked)
    table = []
    for i in range(len(case["fields"])):
        arr = df[f"f{i}"].array
        table.append([[float(x).hex() for x in arr.score(B.tokname(t), similarity=sims[i])]
                      for t in B.field_terms(case, i)])
    try:
        s, _ = edismax(df, q=q, qf=qf, tie=case["tie"], q_op=case["q_op"], **kw)
    except Exception as e:      # noqa
        return {"exc": type(e).__name__, "msg": str(e)[:100], "table": table}
    return {"out": [float(x).hex() for x in s], "table": table}


# ------------------------------------------------------------------------------------------------
# model / spec requests
# ------------------------------------------------------------------------------------------------
def _q(x):
    fr = Fraction(x)
    return [fr.numerator, fr.denominator]


def request(case, table, entry):
    n = len(case["fields"][0]["docs"])
    fields = []
    for fd, vecs in zip(case["fields"], table):
        b = fd["boost"]
        fields.append(["none" if b is None else _q(float(b)), [[_q(x) for x in v] for v in vecs]])
    return sx([entry, n, fields, B._mm_sx(case), _q(case["tie"])])


def _finite_table(table):
    return all(math.isfinite(x) for vecs in table for v in vecs for x in v)


def evaluate(cases, scratch, stats=None):
    """-> (violations, corr_breaks): violations are (case, impl, model, spec, why), corr_breaks (case, impl, model)."""
    from harness import common as C
    stats = stats if stats is not None else {}
    res = C.run_impl(__name__, cases, scratch, timeout=1800)
    viol, corr = [], []
    pending = []
    for c, r in zip(cases, res):
        if isinstance(r, dict) and r.get("notrun"):
            continue
        if not (isinstance(r, dict) and "out" in r):
            viol.append((c, r, None, None, "edismax with a similarity raised / crashed (any-similarity phase)"))
            continue
        table = [[[float.fromhex(x) for x in v] for v in vecs] for vecs in r["table"]]
        out = [float.fromhex(x) for x in r["out"]]
        shown = {"out": out, "table": table}
        if not _finite_table(table):
            viol.append((c, shown, None, None, "a similarity returned a non-finite score (any-similarity phase)"))
            continue
        if not all(math.isfinite(x) for x in out):
            viol.append((c, shown, None, None, "edismax returned a non-finite score (any-similarity phase)"))
            continue
        pending.append((c, out, table))
    reqs = []
    for c, out, table in pending:
        reqs.append(request(c, table, "edismax_anysim"))
        reqs.append(request(c, table, "spec_edismax_anysim"))
    raw = C.run_model(reqs)
    for k, (c, out, table) in enumerate(pending):
        m = B._dec(c, raw[2 * k])
        s = B._dec(c, raw[2 * k + 1])
        ok_spec = B.equal(c, out, s)
        ok_model = B.equal(c, out, m)
        _tally(stats, c, out, table)
        if not ok_spec:
            viol.append((c, {"out": out, "table": table}, m, s, "impl != spec (any-similarity phase)"))
        elif not ok_model:
            corr.append((c, {"out": out, "table": table}, m))
    return viol, corr


def _tally(st, c, out, table):
    def inc(k):
        st[k] = st.get(k, 0) + 1
    inc("cases")
    inc("mode:" + c["sims"]["mode"])
    for sp in c["sims"]["per_field"]:
        inc("similarity:" + sp[0])
    tc = len(set(len(v) for v in table)) == 1
    inc("term-centric" if tc else "field-centric")
    if any(len(v) == 0 for v in table):
        inc("zero-term field")
    if any(len(d) == 0 for fd in c["fields"] for d in B.view_docs(fd)):
        inc("empty document in a scored field")
    if any(len(d) == 0 for fd, sp in zip(c["fields"], c["sims"]["per_field"]) if sp[0] == "classic"
           for d in B.view_docs(fd)):
        inc("empty document in a classic-similarity field")
    n = len(out)
    zeroed = [d for d in range(n) if out[d] == 0 and any(v[d] > 0 for vecs in table for v in vecs)]
    if zeroed:
        inc("zeroed-out row (positive term score, result 0)")
    if len(set(x for x in out if x != 0)) >= 2 and any(x == 0 for x in out):
        inc("nontrivial (two distinct scores and a zero)")


def shrink(v, scratch):
    """greedy: rows / query terms dropped while the phase still reports a violation"""
    cur = v
    for _ in range(6):
        cands = [c for c in B.shrink_candidates(cur[0])[:40]]
        if not cands:
            break
        viol, _ = evaluate(cands, scratch)
        if not viol:
            break
        import json
        best = min(viol, key=lambda t: len(json.dumps(t[0])))
        if len(json.dumps(best[0])) >= len(json.dumps(cur[0])):
            break
        cur = best
    return cur


def run_phase(ctx):
    import random
    tier, out = ctx["tier"], ctx["out"]
    rng = random.Random(repr((ctx["seed"], ctx["rng"].random(), "c09-anysim")))
    n = {"quick": 150, "thorough": 2000, "search": 150}[tier]
    cases = [gen_case(rng) for _ in range(n)]
    stats = {}
    viol, corr = evaluate(cases, ctx["scratch"], stats)
    if viol:
        viol[0] = shrink(viol[0], ctx["scratch"])
    # (run.py reports out.violations[0]: an any-similarity violation goes first only if the main phase found none)
    out.violations += viol
    out.corr_breaks += corr
    return {"any_similarity_phase": dict(sorted(stats.items())),
            "any_similarity_cases": len(cases), "any_similarity_violations": len(viol),
            "any_similarity_impl_ne_model": len(corr)}
