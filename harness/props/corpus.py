"""Corpus generators and the implementation-side runner shared by the index-level properties
(C01, C02, C05, C08, C17, ...).  A corpus is a list of token-id lists (None = missing document);
token ids are the model's term ids (first-occurrence order is NOT required: the model is id-agnostic)."""
import math

from harness.common import sx

NAMES = {}


def tok_name(t):
    # a few unusual spellings; never containing whitespace (the default tokenizer splits on it)
    special = {3: "é3", 5: "w5", 7: "日本7", 11: "W11", 13: "w13.", 17: "<17>"}
    return special.get(t, f"w{t}")


def zipf_choice(rng, vocab, skew):
    # P(i) ~ 1/(i+1)^skew
    u = rng.random()
    if skew <= 0:
        return rng.randrange(vocab)
    x = int(vocab ** u) - 1 if skew >= 1 else int(u ** (1.0 / (1 - skew + 1e-9)) * vocab)
    return max(0, min(vocab - 1, x))


def gen_docs(rng, n_docs=None, vocab=None, maxlen=60, empties=0.15, nones=0.0, long_doc=0.05):
    if n_docs is None:
        n_docs = rng.choice([1, 2, 3, 7, 9, 10, 11, 19, 20, 21, rng.randint(1, 45)])
    if vocab is None:
        vocab = rng.choice([1, 2, 3, 5, 8, 30, rng.randint(2, 400)])
    skew = rng.choice([0, 0.5, 1, 1])
    docs = []
    for _ in range(n_docs):
        r = rng.random()
        if r < nones:
            docs.append(None)
            continue
        if r < nones + empties:
            docs.append([])
            continue
        ln = rng.choice([1, 1, 2, 3, 17, 18, 19, 35, 36, 37, rng.randint(1, maxlen)])
        if rng.random() < long_doc:
            ln = rng.randint(100, 700)
        docs.append([zipf_choice(rng, vocab, skew) for _ in range(ln)])
    return docs, vocab


def gen_opts(rng, n_docs, multi=True):
    o = {}
    if multi and rng.random() < 0.7:
        o["batch_size"] = rng.choice([1, 2, 3, 10, max(1, n_docs - 1), n_docs, n_docs + 1, rng.randint(1, n_docs + 1)])
    if multi and rng.random() < 0.6:
        o["workers"] = rng.choice([1, 1, 2, 3, 4, 8])
    if rng.random() < 0.3:
        o["avoid_copies"] = rng.random() < 0.5
    if rng.random() < 0.3:
        o["cache_gt_than"] = rng.choice([0, 1, 5, 25, 1000])
    if rng.random() < 0.3:
        o["autowarm"] = rng.random() < 0.5
    # "all SearchArray.index options": a data directory, and truncate=True (a no-op for documents within the limit)
    if rng.random() < 0.12:
        o["data_dir"] = True
    if rng.random() < 0.12:
        o["truncate"] = True
    return o


TOKZ = ["ws", "ws", "ws", "table", "gen", "tuple", "gensplit", "mapsplit"]


def vocab_of(docs):
    seen = []
    s = set()
    for d in docs:
        for t in (d or []):
            if t not in s:
                s.add(t)
                seen.append(t)
    return seen


# ---------------------------------------------------------------------------------------------
# implementation side
# ---------------------------------------------------------------------------------------------
def build_array(case):
    import numpy as np
    from searcharray import SearchArray
    docs = case["docs"]
    tokz = case.get("tokz", "ws")
    opts = dict(case.get("opts", {}))
    if "data_dir" in opts:
        import tempfile
        opts["data_dir"] = tempfile.mkdtemp(prefix="sa-verif-dd-", dir="/var/tmp")
        import atexit
        import shutil
        atexit.register(shutil.rmtree, opts["data_dir"], True)       # removed when the worker exits
    if tokz == "ws":
        strs = [(" ".join(tok_name(t) for t in d) if d is not None else (None if i % 2 else float("nan")))
                for i, d in enumerate(docs)]
        arr = SearchArray.index(strs, **opts)
    elif tokz in ("gensplit", "mapsplit"):
        # single-pass iterables over the document's OWN text: equal documents are equal strings (a tokenizer is any
        # function from str to an iterable of tokens; results must not be shared between rows)
        strs = [" ".join(tok_name(t) for t in (d or [])) for d in docs]
        if tokz == "gensplit":
            def tk(s):
                return (x for x in s.split())
        else:
            def tk(s):
                return map(str, s.split())
        arr = SearchArray.index(strs, tokenizer=tk, **opts)
    else:
        table = {f"doc-{i}": [tok_name(t) for t in (d or [])] for i, d in enumerate(docs)}
        keys = [f"doc-{i}" for i in range(len(docs))]
        if tokz == "table":
            def tk(s):
                return list(table[s])
        elif tokz == "gen":
            def tk(s):
                return (x for x in table[s])
        else:
            def tk(s):
                return tuple(table[s])
        arr = SearchArray.index(keys, tokenizer=tk, **opts)
    return arr


def f32_bits(x):
    import numpy as np
    return int(np.array([x], dtype=np.float32).view(np.uint32)[0])


def run_query(arr, q):
    import numpy as np
    try:
        k = q[0]
        if k == "tf":
            r = arr.termfreqs(tok_name(q[1]))
            return ["ok", [_intf(v) for v in r]]
        if k == "df":
            return ["ok", int(arr.docfreq(tok_name(q[1])))]
        if k == "pos":
            r = arr.positions(tok_name(q[1]))
            return ["ok", [[int(x) for x in p] for p in r]]
        if k == "phrase":
            r = arr.termfreqs([tok_name(t) for t in q[1]])
            return ["ok", [_intf(v) for v in r]]
        if k == "strategy":
            return ["ok", "na"]
        if k == "slop":
            r = arr.termfreqs([tok_name(t) for t in q[1]], slop=q[2])
            return ["ok", [_intf(v) for v in r]]
        if k == "tfr":
            r = arr.termfreqs(tok_name(q[1]), min_posn=q[2], max_posn=q[3])
            return ["ok", [_intf(v) for v in r]]
        if k == "phraser":
            r = arr.termfreqs([tok_name(t) for t in q[1]], min_posn=q[2], max_posn=q[3])
            return ["ok", [_intf(v) for v in r]]
        if k == "lens":
            return ["ok", [_intf(v) for v in arr.doclengths()]]
        if k == "n":
            return ["ok", int(arr.corpus_size)]
        if k == "avg":
            return ["ok", f32_bits(arr.avg_doc_length)]
        if k == "len":
            return ["ok", len(arr)]
        raise ValueError("unknown query " + str(q))
    except Exception as e:      # noqa
        return ["exc", type(e).__name__]


def _intf(v):
    f = float(v)
    return int(f) if f == int(f) else f


def impl_index_queries(case):
    try:
        arr = build_array(case)
    except Exception as e:   # noqa
        return {"build_exc": type(e).__name__}
    if case.get("prescore"):
        # a history before the queries: score every queried term first (the default BM25 works in place on
        # the tf vector it is given), then ask; answers must not depend on it
        for q in case.get("queries", []):
            if q[0] == "tf":
                try:
                    arr.score(tok_name(q[1]))
                    arr.docfreq(tok_name(q[1]))
                except Exception:      # noqa
                    pass
    return {"q": [run_query(arr, q) for q in case.get("queries", [])],
            "x": [run_query(arr, q) for q in case.get("xqueries", [])]}


# ---------------------------------------------------------------------------------------------
# model / spec side
# ---------------------------------------------------------------------------------------------
def _mq(q):
    if q[0] == "avg":
        return ["total"]
    if q[0] in ("tfr", "phraser"):
        return [q[0], q[1], "none" if q[2] is None else ["some", q[2]], "none" if q[3] is None else ["some", q[3]]]
    return list(q)


def docs_sx(docs):
    return [(d or []) for d in docs]


def model_req_index(case):
    o = case.get("opts", {})
    n = len(case["docs"])
    bs = o.get("batch_size", 100000)
    qs = [_mq(q) for q in case.get("queries", []) + case.get("xqueries", [])]
    return sx(["index_query", 1 if o.get("truncate") else 0, min(bs, n + 1), docs_sx(case["docs"]), qs])


def spec_req_index(case):
    return sx(["spec_index_query", docs_sx(case["docs"]), [_mq(q) for q in case.get("queries", [])]])


def rn_f32_bits(p, q):
    """bit pattern of the float32 nearest to p/q (ties to even)"""
    import numpy as np
    from fractions import Fraction
    if q == 0:
        return None
    x = Fraction(p, q)
    c = np.float32(p / q)
    best = None
    for cand in (np.nextafter(c, np.float32(-np.inf), dtype=np.float32), c, np.nextafter(c, np.float32(np.inf), dtype=np.float32)):
        d = abs(Fraction(float(cand)) - x)
        bits = int(np.array([cand], dtype=np.float32).view(np.uint32)[0])
        key = (d, bits & 1)
        if best is None or key < best[0]:
            best = (key, bits)
    return best[1]


def decode_queries(case, r, n_spec_only=False):
    """(ok ((ok v) ...)) -> {"q": [...], "x": [...]}; avg is turned into float32 bits of total/n"""
    if r[0] != "ok":
        if r[0] == "exc":
            return {"build_exc": r[1]}
        return {"modelfault": r}
    vals = r[1]
    qs = case.get("queries", []) + ([] if n_spec_only else case.get("xqueries", []))
    out = []
    n = len(case["docs"])
    if len(vals) != len(qs):
        return {"modelfault": ["answers", len(vals), "queries", len(qs)]}   # never compare a truncated answer list
    for q, v in zip(qs, vals):
        if v[0] == "ok":
            if q[0] == "avg":
                out.append(["ok", rn_f32_bits(v[1], n)])
            else:
                out.append(["ok", v[1]])
        elif v[0] == "exc":
            out.append(["exc", v[1]])
        else:
            out.append(["modelfault", v])
    nq = len(case.get("queries", []))
    return {"q": out[:nq], "x": out[nq:]}


def eq_exc(a, b):
    # TermMissingError is a KeyError subclass raised as itself; compare names exactly
    return a == b


def normalize_domain(case):
    """Re-establish the domain split after a case was cut down (shrinking) or loaded from the corpus: queries the SPEC has
    no opinion about move from `queries` (compared with model and spec) to `xqueries` (compared with the model only):
    positions of a term that does not occur in the corpus; a ranged tf with unaligned bounds for an unknown term."""
    if "queries" not in case or "docs" not in case:
        return case
    present = set(t for d in case["docs"] for t in (d or []))
    keep, move = [], []
    for q in case["queries"]:
        out = False
        if q[0] == "pos" and q[1] not in present:
            out = True
        if q[0] == "tfr" and q[1] not in present:
            lo, hi = q[2], q[3]
            if (lo is not None and lo % 18 != 0) or (hi is not None and hi % 18 != 17):
                out = True
        (move if out else keep).append(q)
    if not move:
        return case
    e = dict(case)
    e["queries"] = keep
    e["xqueries"] = list(case.get("xqueries", [])) + move
    return e
