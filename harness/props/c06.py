"""C06 — row selection commutes with every query (views answer like the parent)."""
import struct

from harness.common import sx
from harness.props import corpus as K
from harness.props import c01 as B
from harness.props import c03, c04

ID = "C06"
ENTRY = "arr[key] / take / copy / DataFrame ops, then termfreqs / score / positions / doclengths"
LEVEL = "proof"
RULE = ("corpora x chains (depth 1..3) of keys: slices with every sign of step incl. empty results, boolean masks, "
        "integer arrays sorted / unsorted / with duplicates / negative, take, copy, DataFrame sort_values / iloc / "
        "boolean filter / sample; under avoid_copies True and False; queries: term tf (with and without a position "
        "range), phrase, positions (with and without key=), lengths, docfreq, default-BM25 score (float32 bits), statistics handed to a custom "
        "similarity, element access. Non-trivial = a view answer that differs from the all-zero vector and from the "
        "parent's un-reindexed answer. Distinct by input hash.")
TRUSTED = B.TRUSTED + ["pandas' indexer normalisation (slice / mask / negative ints -> positions) is replicated with numpy in the harness"]
ASSUMPTIONS = B.ASSUMPTIONS + ["keys accepted by pandas.api.indexers.check_array_indexer"]
EXPLANATION = ("model = rows vector composition + FilteredPosns/slice handle + per-query gather (View/View.v); spec = the "
               "parent's spec answers re-indexed by the composed key with parent statistics; check = three-way.")


def gen_key(rng, n):
    kind = rng.choice(["slice", "slice", "mask", "ints", "ints", "ints", "take", "copy", "df_sort", "df_iloc", "df_filter", "df_sample"])
    if kind == "slice":
        step = rng.choice([None, 1, 2, 3, -1, -2])
        a = rng.choice([None, rng.randint(-n - 1, n + 1)])
        b = rng.choice([None, rng.randint(-n - 1, n + 1)])
        if rng.random() < 0.1:
            a, b, step = 2, 2, None
        return {"k": "slice", "v": [a, b, step]}
    if kind == "mask":
        return {"k": "mask", "v": [rng.random() < 0.6 for _ in range(n)]}
    if kind in ("ints", "take"):
        if n == 0:
            return {"k": kind, "v": []}
        m = rng.randint(0, min(n + 2, 9))
        style = rng.choice(["sorted", "unsorted", "dups", "neg"])
        if style == "sorted":
            v = sorted(rng.sample(range(n), min(m, n)))
        elif style == "unsorted":
            v = rng.sample(range(n), min(m, n))
        elif style == "dups":
            v = [rng.randrange(n) for _ in range(m)]
        else:
            v = [rng.randrange(-n, n) for _ in range(m)]
        return {"k": kind, "v": v}
    if kind == "copy":
        return {"k": "copy"}
    if kind == "df_sort":
        return {"k": "df_sort", "v": [rng.random() for _ in range(n)], "asc": rng.random() < 0.5}
    if kind == "df_iloc":
        return {"k": "df_iloc", "v": [rng.randrange(n) for _ in range(rng.randint(0, 6))] if n else []}
    if kind == "df_filter":
        return {"k": "df_filter", "v": [rng.random() < 0.5 for _ in range(n)]}
    return {"k": "df_sample", "seed": rng.randint(0, 999), "m": rng.randint(0, n)}


def apply_key_positions(key, n):
    """positions (into the current array of length n) that the key selects — numpy semantics"""
    import numpy as np
    idx = np.arange(n)
    k = key["k"]
    if k == "slice":
        a, b, s = key["v"]
        return [int(x) for x in idx[slice(a, b, s)]]
    if k in ("mask", "df_filter"):
        return [int(x) for x in idx[np.array(key["v"], dtype=bool)]] if n else []
    if k in ("ints", "take", "df_iloc"):
        return [int(x) for x in idx[np.array(key["v"], dtype=np.int64)]] if key["v"] else []
    if k == "copy":
        return list(range(n))
    if k == "df_sort":
        order = np.argsort(np.array(key["v"]), kind="stable")
        if not key["asc"]:
            order = np.argsort(-np.array(key["v"]), kind="stable")
        return [int(x) for x in order]
    if k == "df_sample":
        import pandas as pd
        return [int(x) for x in pd.Series(idx).sample(n=key["m"], random_state=key["seed"]).values]
    raise ValueError(k)


def gen(rng, tier):
    n = {"quick": 400, "thorough": 8000, "search": 900}[tier]
    cases = []
    for i in range(n):
        docs, vocab = K.gen_docs(rng, n_docs=rng.choice([2, 3, 5, 8, 12, rng.randint(1, 25)]), maxlen=45, vocab=rng.choice([2, 3, 5, 9]), long_doc=0.03)
        nd = len(docs)
        depth = rng.choice([1, 1, 2, 3])
        keys, cur = [], nd
        for _ in range(depth):
            key = gen_key(rng, cur)
            keys.append(key)
            cur = len(apply_key_positions(key, cur))
        voc = K.vocab_of(docs) or [0]
        qs = []
        for t in (voc if len(voc) <= 4 else rng.sample(voc, 4)):
            qs += [["tf", t], ["pos", t], ["df", t]]
        qs += [["tf", vocab + 7], ["lens"]]
        t = rng.choice(voc)
        w = rng.randint(0, 2)
        qs.append(["tfr", t, 18 * w, 18 * (w + rng.randint(0, 2)) + 17])
        if len(voc) >= 2:
            for _ in range(2):
                qs.append(["phrase", rng.sample(voc, 2) if rng.random() < 0.7 else [rng.choice(voc) for _ in range(3)]])
        for t in voc[:2]:
            dfs = [sum(1 for d in docs if d and t in d)]
            qs.append(["score", [t], c04.f64_bits(c04.idf_of(nd, dfs))])
            qs.append(["args", [t]])
        sq = [["elem", rng.randrange(cur)] for _ in range(2)] if cur else []
        # positions(term, key=...): the rows of the view picked by a key (int / slice / int array / mask)
        kq = []
        for j, q in enumerate(qs):
            if q[0] == "pos" and cur and len(kq) < 3:
                kk = rng.choice(["int", "slice", "ints", "mask"])
                if kk == "int":
                    key = {"k": "int", "v": rng.randrange(-cur, cur)}
                elif kk == "slice":
                    key = {"k": "slice", "v": [rng.choice([None, rng.randint(-cur, cur)]), rng.choice([None, rng.randint(-cur, cur)]),
                                                rng.choice([None, 1, 2, -1])]}
                elif kk == "ints":
                    key = {"k": "ints", "v": [rng.randrange(-cur, cur) for _ in range(rng.randint(0, 5))]}
                else:
                    key = {"k": "mask", "v": [rng.random() < 0.5 for _ in range(cur)]}
                kq.append(["posk", q[1], key])
        cases.append({"docs": docs, "tokz": "ws", "avoid": rng.random() < 0.6, "keys": keys, "queries": qs, "squeries": sq,
                      "kqueries": kq,
                      "opts": {"batch_size": rng.choice([1, 3, 100000])} if rng.random() < 0.3 else {}})
    return cases


def impl(case):
    import numpy as np
    import pandas as pd
    from searcharray import SearchArray
    c2 = dict(case)
    c2["opts"] = dict(case.get("opts", {}), avoid_copies=case["avoid"])
    try:
        arr = K.build_array(c2)
    except Exception as e:   # noqa
        return {"build_exc": type(e).__name__}
    try:
        for key in case["keys"]:
            k = key["k"]
            if k == "slice":
                arr = arr[slice(*key["v"])]
            elif k == "mask":
                arr = arr[np.array(key["v"], dtype=bool)]
            elif k == "ints":
                arr = arr[np.array(key["v"], dtype=np.int64)] if rngflag(key) else arr[list(key["v"])]
            elif k == "take":
                arr = arr.take(np.array(key["v"], dtype=np.int64))
            elif k == "copy":
                arr = arr.copy()
            else:
                df = pd.DataFrame({"t": arr, "x": np.arange(len(arr))})
                if k == "df_sort":
                    df["x"] = key["v"]
                    df = df.sort_values("x", ascending=key["asc"], kind="stable")
                elif k == "df_iloc":
                    df = df.iloc[key["v"]]
                elif k == "df_filter":
                    df = df[np.array(key["v"], dtype=bool)]
                else:
                    df = df.sample(n=key["m"], random_state=key["seed"])
                arr = df["t"].array
    except Exception as e:   # noqa
        return {"select_exc": type(e).__name__, "msg": str(e)[:120]}
    out = []
    for q in case["queries"]:
        if q[0] == "score":
            try:
                s = arr.score(K.tok_name(q[1][0]))
                out.append(["ok", ["nan" if x != x else int(np.float32(x).view(np.uint32)) for x in s]])
            except Exception as e:   # noqa
                out.append(["exc", type(e).__name__])
        elif q[0] == "args":
            rec = {}

            def recording(term_freqs, doc_freqs, doc_lens, avg_doc_lens, num_docs):
                rec["v"] = [[K._intf(x) for x in term_freqs], [int(x) for x in doc_freqs], [K._intf(x) for x in doc_lens],
                            K.f32_bits(avg_doc_lens), int(num_docs)]
                return term_freqs
            try:
                arr.score(K.tok_name(q[1][0]), similarity=recording)
                out.append(["ok", rec["v"]])
            except Exception as e:   # noqa
                out.append(["exc", type(e).__name__])
        else:
            out.append(K.run_query(arr, q))
    sq = []
    for q in case.get("squeries", []):
        try:
            el = arr[q[1]]
            sq.append(["ok", [sorted(el.postings.keys()), K._intf(el.doc_len)]])
        except Exception as e:   # noqa
            sq.append(["exc", type(e).__name__])
    kq = []
    for q in case.get("kqueries", []):
        key = q[2]
        try:
            kv = key["v"] if key["k"] == "int" else slice(*key["v"]) if key["k"] == "slice" else \
                np.array(key["v"], dtype=bool if key["k"] == "mask" else np.int64)
            r = arr.positions(K.tok_name(q[1]), key=kv)
            kq.append(["ok", [[int(x) for x in p_] for p_ in r]])
        except Exception as e:   # noqa
            kq.append(["exc", type(e).__name__])
    return {"q": out, "s": sq, "k": kq}


def rngflag(key):
    return (len(key["v"]) % 2) == 0


def _positions_chain(case):
    n = len(case["docs"])
    out = []
    for key in case["keys"]:
        pos = apply_key_positions(key, n)
        out.append(pos)
        n = len(pos)
    return out


def _mq(q):
    if q[0] == "score":
        return ["score", q[1], q[2], 4608083138725491507, 4604930618986332160]
    return K._mq(q)


def model_req(case):
    bs = case.get("opts", {}).get("batch_size", 100000)
    n = len(case["docs"])
    return sx(["view_query", 1 if case["avoid"] else 0, min(bs, n + 1), K.docs_sx(case["docs"]), _positions_chain(case),
               [_mq(q) for q in case["queries"]]])


def spec_req(case):
    qs = []
    for q in case["queries"]:
        if q[0] in ("score", "args"):
            qs.append(["tf", q[1][0]])
        else:
            qs.append(K._mq(q))
    qs.append(["lens"])
    return sx(["spec_view_query", K.docs_sx(case["docs"]), _positions_chain(case), qs])


def model_decode(case, r):
    if r[0] != "ok":
        return {"build_exc": r[1]} if r[0] == "exc" else {"modelfault": r}
    out = []
    for q, v in zip(case["queries"], r[1]):
        if v[0] != "ok":
            out.append(["exc", v[1]] if v[0] == "exc" else ["modelfault", v])
        elif q[0] == "score":
            out.append(["ok", ["nan" if (x & 0x7F800000) == 0x7F800000 and (x & 0x7FFFFF) else x for x in v[1]]])
        elif q[0] == "args":
            tfs, dfs, dls, total, nn = v[1]
            out.append(["ok", [tfs, dfs, dls, K.rn_f32_bits(total, nn), nn]])
        else:
            out.append(["ok", v[1]])
    return {"q": out}


def spec_decode(case, r):
    vals = r[1]
    return {"spec": True, "vals": vals[:-1], "lens": vals[-1][1]}


def equal(case, a, b):
    if not isinstance(a, dict) or not isinstance(b, dict):
        return False
    if "q" not in a:
        return False
    if not b.get("spec"):
        return a["q"] == b.get("q")
    docs = case["docs"]
    n = len(docs)
    total = sum(len(d or []) for d in docs)
    view_lens = b["lens"]
    if len(a["q"]) != len(case["queries"]) or len(b["vals"]) != len(case["queries"]):
        return False                      # one answer per query on both sides
    if len(a.get("s", [])) != len(case.get("squeries", [])) or len(a.get("k", [])) != len(case.get("kqueries", [])):
        return False
    # positions(term, key=k) = the view's positions(term) re-indexed by k
    nview = len(view_lens)
    for q, iv in zip(case.get("kqueries", []), a.get("k", [])):
        js = [j for j, q0 in enumerate(case["queries"]) if q0[:2] == ["pos", q[1]]]
        if not js:
            continue                     # (a shrunk case may have lost the reference query)
        sv = b["vals"][js[0]]
        if sv[0] != "ok" or not any(d and q[1] in d for d in docs):
            continue                     # a term absent from the corpus: positions() raises, the spec has no opinion
        key = q[2]
        sel = [key["v"] % nview] if key["k"] == "int" else apply_key_positions(key, nview)
        if iv != ["ok", [sv[1][i] for i in sel]]:
            return False
    for q, iv, sv in zip(case["queries"], a["q"], b["vals"]):
        if q[0] == "phrase":
            if not c03._phrase_ok(iv, sv):
                return False
        elif q[0] == "score":
            tfs = sv[1]
            ref = c04._ref_scores({"docs": docs}, ["score", q[1], "default", 1.2, 0.75, q[2]], tfs, view_lens, total)
            if iv[0] != "ok" or len(iv[1]) != len(ref):
                return False
            got = [float("nan") if x == "nan" else c04._f32(x) for x in iv[1]]
            if not all(c04._close(g, r_) for g, r_ in zip(got, ref)):
                return False
        elif q[0] == "args":
            dfs = [sum(1 for d in docs if d and t in d) for t in q[1]]
            if iv != ["ok", [sv[1], dfs, view_lens, K.rn_f32_bits(total, n), n]]:
                return False
        elif q[0] == "pos" and iv[0] == "exc":
            # positions() of a term unknown to the dictionary raises; spec has no opinion there
            if not any(d and q[1] in d for d in docs):
                continue
            return False
        else:
            if iv != ["ok", sv[1]] and iv != sv:
                return False
    # element access: distinct terms and length of the selected document
    chain = _positions_chain(case)
    rows = list(range(n))
    for pos in chain:
        rows = [rows[i] for i in pos]
    for q, iv in zip(case.get("squeries", []), a.get("s", [])):
        d = docs[rows[q[1]]] or []
        want = ["ok", [sorted(set(K.tok_name(t) for t in d)), len(d)]]
        if iv != want:
            return False
    return True


def nontrivial(case, r):
    if not isinstance(r, dict) or "q" not in r:
        return False
    return any(v[0] == "ok" and isinstance(v[1], list) and any(isinstance(x, int) and x > 0 for x in v[1]) for v in r["q"][:6])


def tally(dist, c, r):
    for key in c["keys"]:
        k = key["k"]
        if k == "slice":
            s = key["v"][2]
            k = "slice:" + ("neg" if (s or 1) < 0 else "pos")
        dist[k] = dist.get(k, 0) + 1
    dist[f"depth:{len(c['keys'])}"] = dist.get(f"depth:{len(c['keys'])}", 0) + 1
    dist["avoid_copies:" + str(c["avoid"])] = dist.get("avoid_copies:" + str(c["avoid"]), 0) + 1
    if isinstance(r, dict) and "select_exc" in r:
        dist["select_exc:" + r["select_exc"]] = dist.get("select_exc:" + r["select_exc"], 0) + 1


def dbg_key(c):
    return "|".join(k["k"] for k in c["keys"]) + ("|avoid" if c["avoid"] else "|copy")


def shrink_candidates(c):
    out = []
    for e in B.shrink_candidates(c):
        if len(e["docs"]) != len(c["docs"]):
            continue          # keys refer to row counts: only shrink inside documents / queries
        out.append(e)
    if len(c["keys"]) > 1:
        e = dict(c)
        e["keys"] = c["keys"][:-1]
        e["squeries"] = []
        out.append(e)
    for i, q in enumerate(c["queries"]):
        e = dict(c)
        e["queries"] = [q]
        e["squeries"] = []
        out.append(e)
    return out
