"""impl side of the ASan phase: kernel calls on exact-fit buffers and index/query workloads; results discarded."""
from harness.props import kernels as K


def _workload(c):
    import random
    import numpy as np
    from searcharray import SearchArray
    rng = random.Random(c["seed"])
    if c["w"] == "slop":
        # long uniformly random documents over few terms: many candidate spans (span table capacity)
        terms = [f"t{i}" for i in range(c["nterms"])]
        docs = [" ".join(rng.choice(terms) for _ in range(c["len"])) for _ in range(c["ndocs"])] + ["t0 t1"]
        arr = SearchArray.index(docs)
        arr.termfreqs(terms[: c["q"]], slop=c["slop"])
        arr.score(terms[:2], slop=c["slop"])
        return 0
    # index + every query kind + views (stepped / reversed / repeated rows)
    vocab = [f"w{i}" for i in range(rng.choice([2, 3, 7]))]
    docs = [" ".join(rng.choice(vocab) for _ in range(rng.choice([0, 1, 17, 18, 19, 40, 200]))) for _ in range(rng.randint(1, 23))]
    arr = SearchArray.index(docs, batch_size=rng.choice([1, 3, 100000]), workers=rng.choice([1, 2]))
    views = [arr, arr[::-1], arr[1::2], arr[np.array([0, 0, len(arr) - 1])], arr[::2][::-1], arr.copy()]
    for v in views:
        for t in vocab[:2] + ["zzz"]:
            v.termfreqs(t)
            v.score(t)
            v.docfreq(t)
            if t != "zzz":
                v.positions(t)
            v.termfreqs(t, min_posn=18, max_posn=35)
        v.termfreqs(vocab[:2] if len(vocab) >= 2 else [vocab[0], vocab[0]])
        v.score([vocab[0], vocab[-1]])
        v.termfreqs([vocab[0], vocab[-1]], slop=rng.choice([1, 3]))
    return 0


def impl(c):
    if "w" in c:
        return _workload(c)
    try:
        K.impl_kernel(c)
    except (ValueError, OverflowError):
        pass
    return 0
