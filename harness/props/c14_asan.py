"""impl side of the ASan phase: kernel calls on exact-fit buffers and index/query workloads; results discarded."""
from harness.props import kernels as K


def _contract(c):
    """well-typed calls whose arguments do not fit together: each must be REJECTED (an exception) or harmless, never an
    access outside the buffers (which AddressSanitizer would report): short doc_lens for bm25_score, short counts for
    sort_merge_counts, an as_dense index at / beyond the size, a slop phrase of more than 64 terms, a span search over
    fewer than two terms, reversed / broadcast / record-field views for the intersect kernels"""
    import numpy as np
    from searcharray import SearchArray
    from searcharray.bm25 import bm25_score
    from searcharray.roaringish.merge import sort_merge_counts
    from searcharray.roaringish.roaringish_ops import as_dense
    from searcharray.roaringish.intersect import intersect, adjacent, intersect_with_adjacents
    from searcharray.roaringish.spans import span_search
    n = c["n"]
    u = lambda x: np.array(x, dtype=np.uint64)       # noqa
    calls = [
        lambda: bm25_score(np.ones(n + 3, np.float32), np.ones(n, np.float32)[:max(1, n // 2)], 5.0, 1.0, 1.2, 0.75),
        lambda: sort_merge_counts(np.arange(n + 2, dtype=np.uint64), np.ones(1, np.float32), u([]), np.array([], dtype=np.float32)),
        lambda: as_dense(u([0, n]), np.array([1, 2], dtype=np.float32), n),
        lambda: as_dense(u([1 << 40]), np.array([1], dtype=np.float32), n),
        # the offending index anywhere: first, in the middle (inside / after the unrolled part), with valid ones last
        lambda: as_dense(u([n + 1, 1, 0]), np.array([1, 2, 3], dtype=np.float32), n + 1),
        lambda: as_dense(u([0, n + 7, 1]), np.array([1, 2, 3], dtype=np.float32), n + 2),
        lambda: as_dense(u(list(range(12)) + [n + 30] + [0]), np.ones(14, dtype=np.float32), 12),
        lambda: as_dense(u([1 << 40, 0]), np.array([1, 2], dtype=np.float32), n),
        lambda: SearchArray.index([" ".join(f"t{i}" for i in range(64 + n)), "x"]).termfreqs([f"t{i}" for i in range(64 + n)], slop=1),
        lambda: span_search(u(list(range(n))), u([0]), {}, 1, 0xFFFFFFF000000000, 0xFFFFFFFFFFFC0000, 28, 18),
        # cumulative lengths that decrease / do not start at 0 / overshoot the encoded words
        lambda: span_search(u(list(range(n + 4))), u([0, 100, n + 4]), {}, 1, 0xFFFFFFF000000000, 0xFFFFFFFFFFFC0000, 28, 18),
        lambda: span_search(u(list(range(n + 4))), u([2, 3, n + 9]), {}, 1, 0xFFFFFFF000000000, 0xFFFFFFFFFFFC0000, 28, 18),
        lambda: intersect(np.arange(2 * n + 2, 0, -1, dtype=np.uint64)[::-1], np.arange(1, n + 2, dtype=np.uint64)),
        lambda: adjacent(np.arange(2 * n + 2, 0, -1, dtype=np.uint64)[::-1], np.arange(2, n + 3, dtype=np.uint64)),
        lambda: intersect_with_adjacents(np.zeros(n + 1, [("a", "<u8"), ("b", "<u4")])["a"], np.arange(n + 1, dtype=np.uint64)),
        lambda: intersect(np.broadcast_to(u([5]), (n + 1,)), u([5, 6])),
    ]
    odd = []
    for i, f in enumerate(calls):
        try:
            f()
        except (ValueError, IndexError, OverflowError, TypeError, KeyError):
            pass
        except Exception as e:      # noqa  (a rejection of another type: still no memory fault; reported, never silent)
            odd.append([i, type(e).__name__])
    return {"contract_calls": len(calls), "other_exceptions": odd}


def _workload(c):
    import random
    import numpy as np
    from searcharray import SearchArray
    if c["w"] == "contract":
        return _contract(c)
    rng = random.Random(c["seed"])
    if c["w"] == "slop":
        # long uniformly random documents over few terms: many candidate spans (span table capacity)
        terms = [f"t{i}" for i in range(c["nterms"])]
        docs = [" ".join(rng.choice(terms) for _ in range(c["len"])) for _ in range(c["ndocs"])] + ["t0 t1"]
        arr = SearchArray.index(docs)
        arr.termfreqs(terms[: c["q"]], slop=c["slop"])
        arr.score(terms[:2], slop=c["slop"])
        return 0
    # index + every query kind + views (stepped / reversed / repeated rows)
    vocab = [f"w{i}" for i in range(rng.choice([2, 3, 7]))]
    docs = [" ".join(rng.choice(vocab) for _ in range(rng.choice([0, 1, 17, 18, 19, 40, 200]))) for _ in range(rng.randint(1, 23))]
    arr = SearchArray.index(docs, batch_size=rng.choice([1, 3, 100000]), workers=rng.choice([1, 2]))
    views = [arr, arr[::-1], arr[1::2], arr[np.array([0, 0, len(arr) - 1])], arr[::2][::-1], arr.copy()]
    for v in views:
        for t in vocab[:2] + ["zzz"]:
            v.termfreqs(t)
            v.score(t)
            v.docfreq(t)
            if any(t in d.split() for d in docs):       # (positions of a term no document has raises TermMissingError)
                v.positions(t)
            v.termfreqs(t, min_posn=18, max_posn=35)
        v.termfreqs(vocab[:2] if len(vocab) >= 2 else [vocab[0], vocab[0]])
        v.score([vocab[0], vocab[-1]])
        v.termfreqs([vocab[0], vocab[-1]], slop=rng.choice([1, 3]))
    return 0


def impl(c):
    if "w" in c:
        return _workload(c)
    try:
        K.impl_kernel(c)
    except (ValueError, OverflowError):
        pass
    return 0
