"""impl side of the ASan phase: exact-fit buffers only, result discarded."""
from harness.props import kernels as K


def impl(c):
    try:
        K.impl_kernel(c)
    except (ValueError, OverflowError):
        pass
    return 0
