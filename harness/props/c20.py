"""C20 — concurrent read-only queries return the serial answers."""
from harness.common import sx
from harness.props import corpus as K
from harness.props import c01 as B
from harness.props import c04
from harness.props import c07

ID = "C20"
ENTRY = "ThreadPoolExecutor.map(query, ...) vs [query(...) for ...]"
LEVEL = "proof"
RULE = ("2..16 threads issuing term / phrase / docfreq / score / slicing queries (and one edismax) against a shared "
        "base array and shared views, released together from a barrier, thread switch interval down to 1 microsecond, "
        "cache_gt_than in {0,1,25} so that caches are hit and missed; each round's concurrent results are compared with "
        "the same queries executed serially on an identical fresh pool, and with the Coq interleaving model run under a "
        "seeded random schedule of atomic actions. Non-trivial = at least 4 threads with a slicing op among them. "
        "Distinct by input hash.")
TRUSTED = B.TRUSTED + ["real preemption points, dict atomicity under the GIL and nogil sections are exercised, not modelled",
                       "the model's schedule is a seeded permutation of atomic actions, unrelated to the real schedule"]
ASSUMPTIONS = ["each modelled action is atomic (dict get/set under the GIL)"]
EXPLANATION = ("interleaving model (Conc/Conc.v): queries as programs of atomic actions on the shared state of Purity.v; "
               "theorems in Props/C20.v: every schedule yields the history-free answers, hence the serial results - generic form with two postings premises, and premise-free for every indexed corpus "
               "(C20_every_interleaving, C20_schedule_eq_serial). edismax is a program of the dynamic model (Conc/Conc_Edismax.v, C20_edismax_threads) but is not run by the "
               "extracted model: the real threads' edismax results are compared with the serial ones; slop runs on the real threads only.")


def gen(rng, tier):
    n = {"quick": 40, "thorough": 800, "search": 80}[tier]
    cases = []
    for _ in range(n):
        docs, _ = K.gen_docs(rng, n_docs=rng.randint(3, 14), maxlen=30, vocab=rng.choice([2, 3, 5]), long_doc=0.0)
        docs = [d or [] for d in docs]
        big = len(cases) % 5 == 4
        if big:
            # the shared-similarity family runs on a corpus large enough for numpy to release the GIL inside the similarity
            # (element-wise loops over more than ~500 rows), so that threads really overlap there
            docs = [[rng.randrange(3) for _ in range(rng.randint(0, 5))] for _ in range(rng.randint(900, 1600))]
        nd = len(docs)
        voc = K.vocab_of(docs) or [0]
        # shared pool: base + a few views
        setup, sizes = [], [nd]
        for _v in range(rng.randint(1, 3)):
            a = rng.randrange(len(sizes))
            pos = sorted(rng.sample(range(sizes[a]), rng.randint(1, sizes[a]))) if rng.random() < 0.6 else [rng.randrange(sizes[a]) for _ in range(rng.randint(1, 6))]
            setup.append(["select", a, pos])
            sizes.append(len(pos))
        nth = rng.choice([2, 3, 4, 8, 16])
        qs = []
        for _q in range(nth):
            a = rng.randrange(len(sizes))
            r = rng.random()
            t = rng.choice(voc)
            if r < 0.3:
                qs.append(["tf", a, t])
            elif r < 0.5 and len(voc) >= 2:
                qs.append(["phrase", a, [rng.choice(voc), rng.choice(voc)]])
            elif r < 0.65:
                qs.append(["df", a, t])
            elif r < 0.85:
                dfs = [sum(1 for d in docs if t in d)]
                qs.append(["score", a, t, c04.f64_bits(c04.idf_of(nd, dfs))])
            elif r < 0.95:
                n_a = sizes[a]
                qs.append(["select", a, [rng.randrange(n_a) for _ in range(rng.randint(1, 4))]])
            elif r < 0.975:
                qs.append(["edismax", a, [rng.choice(voc)]])
            else:
                # scoring with a non-default / user-defined similarity (and edismax with one), concurrently
                qs.append(["simscore", a, t, rng.choice(c07.SIMS)])
        if rng.random() < 0.3:
            qs.append(["lens", rng.randrange(len(sizes))])
        if len(cases) % 5 == 4:
            # one similarity OBJECT shared by every thread (as a caller passing `similarity=sim` everywhere does), scoring
            # different arrays of the pool at the same time
            kind = rng.choice(["classic", "legacy", "bm25", "edismax_classic", "user_lennorm"])
            qs = [["simscore", rng.randrange(len(sizes)), rng.choice(voc), kind] for _ in range(max(nth, 6))]
            qs += [["simscore", 0, rng.choice(voc), kind], ["simscore", len(sizes) - 1, rng.choice(voc), kind]]
        nact = 3 * len(qs)
        sched = [rng.randrange(len(qs)) for _ in range(nact)]
        cases.append({"docs": docs, "cache_gt": rng.choice([0, 1, 25]), "setup": setup, "queries": qs, "sched": sched,
                      "switch": rng.choice([1e-6, 1e-5, 5e-3]), "rounds": 6 if big else 3})
    return cases


def impl(case):
    import sys
    import threading
    import numpy as np
    import pandas as pd
    from searcharray import SearchArray
    from searcharray.solr import edismax
    strs = [" ".join(K.tok_name(t) for t in d) for d in case["docs"]]
    shared_sims = {k: c07._make_sim(k) for k in c07.SIMS}      # one object per kind, shared by all threads

    def build_pool():
        pool = [SearchArray.index(strs, cache_gt_than=case["cache_gt"], autowarm=False)]
        for op in case["setup"]:
            pool.append(pool[op[1]][np.array(op[2], dtype=np.int64)])
        return pool

    def run_query(pool, q):
        try:
            arr = pool[q[1]]
            if q[0] == "tf":
                return ["ok", [K._intf(x) for x in arr.termfreqs(K.tok_name(q[2]))]]
            if q[0] == "phrase":
                return ["ok", [K._intf(x) for x in arr.termfreqs([K.tok_name(t) for t in q[2]])]]
            if q[0] == "df":
                return ["ok", int(arr.docfreq(K.tok_name(q[2])))]
            if q[0] == "score":
                s = arr.score(K.tok_name(q[2]))
                return ["ok", ["nan" if x != x else int(np.float32(x).view(np.uint32)) for x in s]]
            if q[0] == "select":
                v = arr[np.array(q[2], dtype=np.int64)]
                return ["ok", "unit" if len(v) == len(q[2]) else "badlen"]
            if q[0] == "edismax":
                s, _ = edismax(pd.DataFrame({"f": arr}), q=" ".join(K.tok_name(t) for t in q[2]), qf=["f"], pf=["f"])
                return ["okf", [round(float(x), 6) for x in s]]
            if q[0] == "simscore":
                if q[3] == "edismax_classic":
                    s, _ = edismax(pd.DataFrame({"f": arr}), q=K.tok_name(q[2]), qf=["f"], similarity=shared_sims[q[3]])
                else:
                    s = arr.score(K.tok_name(q[2]), similarity=shared_sims[q[3]])
                return ["okf", ["nan" if x != x else round(float(x), 6) for x in s]]
            if q[0] == "lens":
                return ["ok", [K._intf(x) for x in arr.doclengths()]]
        except Exception as e:      # noqa
            return ["exc", type(e).__name__]
        return ["exc", "unknown"]

    serial = [run_query(build_pool(), q) for q in case["queries"]]       # each on a pool with no history
    old = sys.getswitchinterval()
    sys.setswitchinterval(case["switch"])
    mismatches = []
    try:
        for rnd in range(case["rounds"]):
            pool = build_pool()
            res = [None] * len(case["queries"])
            barrier = threading.Barrier(len(case["queries"]))

            def work(i):
                barrier.wait()
                res[i] = run_query(pool, case["queries"][i])
            ths = [threading.Thread(target=work, args=(i,)) for i in range(len(case["queries"]))]
            for t in ths:
                t.start()
            for t in ths:
                t.join()
            for i, (a, b) in enumerate(zip(res, serial)):
                if a != b:
                    mismatches.append([rnd, i, a, b])
    finally:
        sys.setswitchinterval(old)
    return {"serial": serial, "mismatches": mismatches[:5]}


def _o(x):
    return "none" if x is None else ["some", x]


def model_req(case):
    qs = []
    for q in case["queries"]:
        if q[0] == "tf":
            qs.append(["tf", q[1], q[2], "none", "none"])
        elif q[0] == "score":
            qs.append(["score", q[1], q[2], q[3], 4608083138725491507, 4604930618986332160])
        elif q[0] == "edismax":
            qs.append(["df", q[1], q[2][0]])      # placeholder action for the model's schedule
        elif q[0] in ("simscore", "lens"):
            qs.append(["df", q[1], q[2] if q[0] == "simscore" else 0])
        else:
            qs.append(list(q))
    return sx(["conc_run", case["cache_gt"], K.docs_sx(case["docs"]), case["setup"], qs, case["sched"]])


def model_decode(case, r):
    if r[0] != "ok":
        return {"modelfault": r}
    out = []
    for q, v in zip(case["queries"], r[1]):
        if q[0] in ("edismax", "simscore", "lens"):
            out.append(["skip"])
        elif v[0] == "ok":
            val = v[1]
            if q[0] == "score":
                val = ["nan" if (x & 0x7F800000) == 0x7F800000 and (x & 0x7FFFFF) else x for x in val]
            out.append(["ok", val])
        else:
            out.append(["exc", v[1]] if v[0] == "exc" else ["modelfault", v])
    return {"serial": out}


def equal(case, a, b):
    if not isinstance(a, dict) or "serial" not in a or "serial" not in b:
        return False
    if len(a["serial"]) != len(b["serial"]) or len(a["serial"]) != len(case["queries"]):
        return False                      # one answer per query on both sides
    return all(y == ["skip"] or x == y for x, y in zip(a["serial"], b["serial"]))


def oracle(case, ir):
    return isinstance(ir, dict) and ir.get("mismatches") == []


def nontrivial(case, r):
    return len(case["queries"]) >= 4 and any(q[0] == "select" for q in case["queries"])


def tally(dist, c, r):
    dist[f"threads:{len(c['queries'])}"] = dist.get(f"threads:{len(c['queries'])}", 0) + 1
    for q in c["queries"]:
        dist["q:" + q[0]] = dist.get("q:" + q[0], 0) + 1


def shrink_candidates(c):
    out = []
    qs = c["queries"]
    for i in range(len(qs)):
        if len(qs) > 2:
            e = dict(c)
            e["queries"] = qs[:i] + qs[i + 1:]
            e["sched"] = [s for s in c["sched"] if s < len(e["queries"])]
            out.append(e)
    return out
