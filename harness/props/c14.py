"""C14 — compiled kernels never touch memory outside their arguments.

Theorem side: every kernel model performs only checked accesses and `kernel_safe` says none of them
faults (Props/C14.v).  Tie to the binary: (a) impl == model on exact-fit buffers AND on interior views
of larger buffers with adversarial neighbours (results independent of outside memory); (b) the same
inputs under an AddressSanitizer build of the working tree."""
import os
import random

from harness import common as C
from harness.props import kernels as K
from harness.props import c12

ID = "C14"
ENTRY = "compiled kernels (searcharray.roaringish.*, bm25)"
LEVEL = "proof"
ORACLE_SEES_MODEL = True
RULE = ("the kernel inputs of C12 plus unsorted arrays, empty arrays, search starts/targets outside the range; each "
        "case is run on three memory layouts - the default buffers, interior (possibly strided) views of larger buffers "
        "whose neighbour and gap words are adversarial (equal to targets / run values), and the same with other fillers - "
        "whose results must agree with each other and with the model, and under AddressSanitizer (sample in quick, all "
        "in thorough) together with index / query / slop / score workloads. "
        "Non-trivial = both inputs non-empty or a search outside the array's range. Distinct by input hash.")
TRUSTED = ["extraction (ExtrOcamlBasic + Extract Inlined Constant rev => List.rev) + ocaml/driver.ml", "AddressSanitizer (gcc libasan) as observer of real accesses",
           "gcc may delete dead loads: a model fault on a load whose value is unused can have no ASan report "
           "(listed in DEAD_LOADS)", "strides abstracted in the model"]
ASSUMPTIONS = ["as_dense indices are below the requested size (the callers' contract)",
               "array lengths below 2^62", "compiler-introduced accesses, alignment and the allocator are outside the model"]
EXPLANATION = ("C14_<kernel> safety theorems (Props/C14.v): no checked access of the model faults, for arbitrary inputs (all sorted-array kernels, "
               "the BM25 walk and its call sites, the span search and its 512-slot table); the check compares impl and "
               "model on three memory layouts that must agree with each other and runs an ASan build.")

# model faults accepted without an ASan report: loads whose value is never used (gcc removes them)
DEAD_LOADS = [("unique", ["R", 0, 0])]


def gen(rng, tier):
    cases = K.gen_intersect_cases(rng, "quick" if tier != "thorough" else "thorough") + K.gen_linear_cases(rng, tier)
    cases = [c for c in cases if not (c["k"] == "as_dense" and any(i >= c["n"] for i in c["idx"]))]
    n = {"quick": 400, "thorough": 4000, "search": 800}[tier]
    for _ in range(n):
        mask = rng.choice(K.MASKS)
        sh = K.shift_of(mask)

        def arr(maxlen=12, sort=False):
            k = rng.choice([0, 0, 1, 2, rng.randint(0, maxlen)])
            v = [((rng.randint(0, 6) << sh) | (rng.getrandbits(sh) if sh and rng.random() < 0.5 else 0)) & K.ALL
                 for _ in range(k)]
            if rng.random() < 0.1:
                v = [K.ALL if rng.random() < 0.5 else x for x in v]
            return sorted(v) if sort else v
        srt = rng.random() < 0.4
        l, r = arr(sort=srt), arr(sort=srt)
        for k in K.INTERSECT_KINDS:
            cases.append({"k": k, "l": l, "r": r, "mask": mask, "ls": 1, "rs": 1})
        # equal runs reaching the end of either array (guard-order bugs)
        v = rng.randint(1, 5) << sh
        cases.append({"k": "intersect_keep", "l": sorted(arr(5, True) + [v] * rng.randint(1, 4)),
                      "r": [v] * rng.randint(1, 4), "mask": mask, "ls": 1, "rs": 1})
        a = arr(10)
        cases.append({"k": "merge", "l": arr(), "r": arr()})
        cases.append({"k": "merge_drop", "l": arr(), "r": arr()})
        cases.append({"k": "unique", "a": a, "rshift": rng.choice([0, 1, 18, 36])})
        for kind in ("binary_search", "galloping_search"):
            t = rng.choice([0, K.ALL, (rng.randint(0, 8) << sh)])
            cases.append({"k": kind, "a": a, "target": t, "mask": mask, "start": rng.choice([0, 0, len(a), rng.randint(0, len(a) + 1)])})
        ids = arr(10)
        cases.append({"k": "popcount_reduce_at", "ids": ids, "p": arr(0) + [rng.getrandbits(20) for _ in ids]})
        cases.append({"k": "popcount64_reduce", "a": arr(10), "shift": rng.choice([0, 36, 63]), "vmask": rng.choice([K.ALL, 0x3FFFF])})
    return cases


def _view(vals, neighbours, stride=1):
    """interior (possibly strided) view of a larger buffer: 3 words before, 3 after, and every gap word between the
    view's elements are filled from `neighbours`"""
    import numpy as np
    if stride < 0:
        return _view(list(reversed(vals)), neighbours, -stride if stride != -1 else 2)[::-1]
    span = len(vals) * stride
    big = np.empty(span + 6, dtype=np.uint64)
    for i in range(len(big)):
        big[i] = neighbours[i % len(neighbours)]
    v = big[3:3 + span:stride]
    if len(vals):
        v[:] = np.array(vals, dtype=np.uint64)
    return v


def impl(c):
    """[result on the default buffers, on interior views with adversarial neighbours, on interior views with other
    neighbours]: all three must agree (a kernel that reads outside its arguments sees different words)"""
    from harness.props import kernels as KK
    r1 = KK.impl_kernel(c)
    adv = []
    for key in ("l", "r", "a", "ids"):
        if key in c:
            adv += list(c[key][-2:]) + list(c[key][:1])
    if "target" in c:
        adv.append(c["target"])
    adv = adv or [0xDEADBEEF]
    other = [0, K.ALL, 0x5555555555555555]
    orig = KK._np_arr
    out = [r1]
    for fill in (adv, other):
        def patched(vals, stride=1, pad=None, fill=fill):
            return _view(vals, fill, stride)
        KK._np_arr = patched
        try:
            out.append(KK.impl_kernel(c))
        finally:
            KK._np_arr = orig
    return out


model_req = K.model_req


def model_decode(c, r):
    return K.decode_model(c, r)


def equal(c, a, b):
    # a = impl pair, b = model value
    if isinstance(b, dict) and ("fault" in b or "fuel" in b):
        return True       # no defined model value to compare with; the oracle reports the fault
    if isinstance(a, dict):
        return isinstance(b, dict) and a.get("exc") == b.get("exc")
    return all(c12.equal(c, x, b) if not isinstance(x, dict) else (isinstance(b, dict) and x.get("exc") == b.get("exc")) for x in a)


def oracle(c, ir, m):
    # the three memory layouts must give one answer: otherwise the result depends on memory outside the arguments
    if isinstance(ir, list) and any(x != ir[0] for x in ir[1:]):
        return False
    if isinstance(m, dict) and "fuel" in m:
        return False
    if isinstance(m, dict) and "fault" in m:
        return (c["k"], m["fault"]) in DEAD_LOADS
    return True


def nontrivial(c, r):
    if c["k"] in K.INTERSECT_KINDS:
        return bool(c["l"]) and bool(c["r"])
    return True


def tally(dist, c, r):
    c12.tally(dist, c, r if not isinstance(r, list) or len(r) != 3 else r[0])


shrink_candidates = c12.shrink_candidates


def extra_phase(ctx):
    """AddressSanitizer run of the same cases (exact-fit only)."""
    tier, out = ctx["tier"], ctx["out"]
    cases = ctx["cases"]
    rng = random.Random(repr((ctx["seed"], "asan")))
    if tier != "thorough" and len(cases) > 2500:
        # the two search kernels make up half of the cases: sample those, keep every case of the rarer kernels' DETERMINISTIC
        # sweeps (e.g. as_dense with every pair count 0..33: each residue of the unrolled scatter) and a sample of the rest
        # (a miss taught this: a sampled-away sweep is a blind spot for defects only AddressSanitizer can see)
        searches = [c for c in cases if c["k"] in ("binary_search", "galloping_search")]
        inter = [c for c in cases if c["k"] in ("intersect_keep", "intersect_drop", "int_adj", "adjacent")]
        linear = [c for c in cases if c["k"] not in ("binary_search", "galloping_search", "intersect_keep", "intersect_drop",
                                                     "int_adj", "adjacent")]
        cases = linear + inter + rng.sample(searches, min(len(searches), 6000))
    try:
        asan = C.scratch_build(asan=True)
    except C.BuildError as e:
        out.violations.append(({"k": "asan-build"}, {"build_error": str(e)[-800:]}, None, None, "ASan build failed"))
        return {"asan_cases": 0}
    # index / query workloads (C01-C06 style) and slop searches that stress the 512-slot span table
    nw = {"quick": 12, "thorough": 150, "search": 20}[tier]
    work = [{"w": "index", "seed": rng.randint(0, 10 ** 6)} for _ in range(nw)]
    work += [{"w": "slop", "seed": rng.randint(0, 10 ** 6), "nterms": rng.choice([3, 6]), "len": rng.choice([200, 1200]),
              "ndocs": 3, "q": rng.choice([2, 3, 6]), "slop": rng.choice([3, 10, 40])} for _ in range(max(3, nw // 3))]
    work.append({"w": "slop", "seed": 7, "nterms": 6, "len": 1200, "ndocs": 3, "q": 6, "slop": 40})
    # arguments that do not fit together: must be rejected, never read or written out of bounds
    work += [{"w": "contract", "n": k} for k in (1, 2, 5, 40)]
    cases = cases + work
    res = C.run_impl("harness.props.c14_asan", cases, asan, asan=True, timeout=3000)
    reports = 0
    incomplete, notrun, odd = [], 0, []
    for c, r in zip(cases, res):
        if isinstance(r, dict) and r.get("notrun"):
            notrun += 1
        if isinstance(r, dict) and "exc" in r and "w" in c:
            incomplete.append([c.get("w"), r.get("exc")])      # a workload that stopped early covered less than planned
        if isinstance(r, dict) and r.get("other_exceptions"):
            odd += r["other_exceptions"]
        if isinstance(r, dict) and "crash" in r:
            err = r["crash"].get("stderr", "")
            if "AddressSanitizer" in err or r["crash"].get("rc") not in (0, None):
                reports += 1
                summary = [ln for ln in err.splitlines() if "ERROR: AddressSanitizer" in ln or "SUMMARY" in ln or " #0 " in ln][:4]
                out.violations.append((c, {"asan": summary or err[-600:]}, None, None, "AddressSanitizer report"))
    return {"asan_cases": len(cases), "asan_reports": reports, "asan_not_run_after_a_crash": notrun,
            "asan_workloads_stopped_by_an_exception": incomplete, "asan_contract_rejections_of_unexpected_type": odd}
