"""C09 — edismax query-field score follows the DisMax + minimum-should-match model.
(c10.py reuses this module with phrase boosts switched on.)"""
import math
from fractions import Fraction

from harness.common import sx
from harness.props import corpus as K
from harness.props import c04, c11

ID = "C09"
ENTRY = "searcharray.solr.edismax(frame, q, qf, mm, tie, q_op, similarity)"
LEVEL = "proof"
WITH_PHRASES = False
RULE = ("frames with 1..3 SearchArray columns (same or different tokenizers: a stop-word dropping tokenizer makes the "
        "per-field term counts differ, which selects the field-centric path), queries of 1..6 terms incl. unknown terms, "
        "field boosts, the mm grammar of C11, tie in {0, 0.1, 0.5, 1}, q_op in {OR, AND}. Compared: real edismax vs the "
        "Coq model (exact rationals over binary32 BM25 scores) vs the declarative spec, 1e-6 relative + exact zero "
        "pattern. Non-trivial = at least two distinct non-zero scores and one zeroed-out row. Distinct by hash.")
TRUSTED = ["extraction + ocaml driver", "float64/float32 combination arithmetic of numpy is modelled exactly over Q (tolerance 1e-6)",
           "any-similarity phase: arr.score(term, similarity) asked by the harness returns what edismax gets (C07: queries are pure)",
           "idf values recomputed by the harness with numpy", "mm spec printer shared with C11"]
ASSUMPTIONS = ["a query field may tokenize the query to NO term at all (stop-word-only queries): such a field scores 0; at most "
               "50 terms per field (the float-exact range of mm, C11)",
               "main phase: the default BM25 similarity (binary32 model; its single-term scores are non-negative: hypothesis "
               "wf_nonneg of C09_query_field_score). any-similarity phase: the per-term score vectors are read off the real "
               "arrays and are an input of the generic model; theorem C09_any_similarity needs them non-negative on the "
               "field-centric path only (all similarities exercised are non-negative), and finite (checked on every case)",
               "boosts are non-negative"]
EXPLANATION = ("model = solr.py's running max/sum, tie, mm filter, term-/field-centric choice, phrase phases on the view "
               "of matching rows; spec = dismax formula per document on whole-frame scores. "
               "Any-similarity phase (C09 only, harness/props/c09_anysim.py): edismax is called with similarity= one of "
               "classic / bm25(k1, b) / bm25_legacy / default / a user function, as one Similarity or a dict per field; the "
               "score vector of every (field, query term) is read from the real array, must be finite, and is the input of "
               "the similarity-generic model and spec (Solr/Edismax_AnySim.v; theorem C09_any_similarity: model = spec for "
               "every score table), both compared with edismax's output.")

STOP = 9000


def tokname(t):
    return "stop" if t == STOP else K.tok_name(t)


def gen_case(rng, with_phrases):
    nf = rng.choice([1, 2, 2, 3])
    nrows = rng.randint(2, 9)
    vocab = rng.choice([3, 4, 6])
    fields = []
    for f in range(nf):
        drop = rng.random() < (0.35 if f > 0 else 0.06)       # (the first field rarely drops tokens too)
        docs = []
        for _ in range(nrows):
            ln = rng.choice([0, rng.randint(1, 8), rng.randint(4, 25)])
            docs.append([rng.choice(list(range(vocab)) + [STOP]) for _ in range(ln)])
        boost = rng.choice([None, None, 1.0, 2.0, 0.5, 2.5, 10.0])
        fields.append({"docs": docs, "drop": drop, "boost": boost})
    L = rng.randint(1, 6)
    q = [rng.choice(list(range(vocab)) + [vocab + 40]) for _ in range(L)]
    if any(f["drop"] for f in fields) and rng.random() < 0.8:
        q.insert(rng.randrange(len(q) + 1), STOP)
    if any(f["drop"] for f in fields) and rng.random() < 0.15:
        q = [STOP] * rng.randint(1, 3)          # a stop-word-only query: the dropping fields get NO query term at all
    mmkind = rng.choice(["none", "int", "ast", "ast"])
    mm = None
    if mmkind == "int":
        mm = ["rawint", rng.randint(0, 4)]
    elif mmkind == "ast":
        mm = c11.rand_spec(rng)
    case = {"fields": fields, "q": q, "mm": mm, "tie": rng.choice([0.0, 0.1, 0.5, 1.0]),
            "q_op": rng.choice(["OR", "OR", "AND"]), "pf": [], "pf2": [], "pf3": []}
    if with_phrases:
        for key in ("pf", "pf2", "pf3"):
            for f in range(nf):
                if rng.random() < 0.5:
                    case[key].append([f, rng.choice([None, 1.0, 2.0, 0.5])])
        if not (case["pf"] or case["pf2"] or case["pf3"]):
            case["pf2"].append([0, None])
    return case


def field_terms(case, f):
    fd = case["fields"][f]
    return [t for t in case["q"] if not (fd["drop"] and t == STOP)]


def view_docs(fd):
    return [[t for t in d if not (fd["drop"] and t == STOP)] for d in fd["docs"]]


def gen(rng, tier, with_phrases=None):
    wp = WITH_PHRASES if with_phrases is None else with_phrases
    n = {"quick": 250, "thorough": 5000, "search": 600}[tier]
    # (any field, even every field, may be left without a query term -- stop-word-only queries: such a field scores 0)
    return [gen_case(rng, wp) for _ in range(n)]


def build_frame(case):
    """-> (frame, qf, keyword arguments mm / pf / pf2 / pf3)"""
    import pandas as pd
    from searcharray import SearchArray
    cols = {}
    for i, fd in enumerate(case["fields"]):
        strs = [" ".join(tokname(t) for t in d) for d in fd["docs"]]
        if fd["drop"]:
            def tk(s):
                return [w for w in s.split() if w != "stop"]
            cols[f"f{i}"] = SearchArray.index(strs, tokenizer=tk)
        else:
            cols[f"f{i}"] = SearchArray.index(strs)
    df = pd.DataFrame(cols)

    def spec(i, b):
        return f"f{i}" if b is None else f"f{i}^{b}"
    qf = [spec(i, fd["boost"]) for i, fd in enumerate(case["fields"])]
    kw = {}
    mm = case["mm"]
    if mm is not None:
        kw["mm"] = mm[1] if mm[0] == "rawint" else c11.print_spec(mm)
    for key in ("pf", "pf2", "pf3"):
        if case[key]:
            kw[key] = [spec(i, b) for i, b in case[key]]
    return df, qf, kw


def impl(case):
    from searcharray.solr import edismax
    df, qf, kw = build_frame(case)
    try:
        s, _ = edismax(df, q=" ".join(tokname(t) for t in case["q"]), qf=qf, tie=case["tie"], q_op=case["q_op"], **kw)
    except Exception as e:      # noqa
        return {"exc": type(e).__name__, "msg": str(e)[:100]}
    return [float(x) for x in s]


def _mm_sx(case):
    if case["q_op"] == "AND":
        return ["pct", 100]
    mm = case["mm"]
    if mm is None:
        return ["int", 1]
    if mm[0] == "rawint":
        return ["int", mm[1]]
    return c11._spec_sx(mm)


def _boost_sx(b):
    return "none" if b is None else ["some", c04.f64_bits(float(b))]


def _requests(case, entry):
    n = len(case["fields"][0]["docs"])
    fields, idf = [], []
    for i, fd in enumerate(case["fields"]):
        docs = view_docs(fd)
        terms = field_terms(case, i)
        fields.append([docs, _boost_sx(fd["boost"]), terms])
        need = [[t] for t in terms]
        if len(terms) >= 2:
            need.append(terms)
        need += [terms[j:j + 2] for j in range(len(terms) - 1)]
        need += [terms[j:j + 3] for j in range(len(terms) - 2)]
        seen = []
        for ts in need:
            if ts in seen:
                continue
            seen.append(ts)
            dfs = [sum(1 for d in docs if t in d) for t in ts]
            idf.append([i, ts, c04.f64_bits(c04.idf_of(n, dfs))])
    tie = Fraction(case["tie"])
    return sx([entry, n, fields, _mm_sx(case), [tie.numerator, tie.denominator],
               [[f, _boost_sx(b)] for f, b in case["pf"]], [[f, _boost_sx(b)] for f, b in case["pf2"]],
               [[f, _boost_sx(b)] for f, b in case["pf3"]], idf])


def model_req(case):
    return _requests(case, "edismax")


def spec_req(case):
    return _requests(case, "spec_edismax")


def _dec(case, r):
    if r[0] == "ok":
        return [Fraction(int(a), int(b)) for a, b in r[1]]
    if r[0] == "exc":
        return {"exc": r[1]}
    return {"modelfault": r}


model_decode = _dec
spec_decode = _dec


def equal(case, a, b):
    if isinstance(a, dict) or isinstance(b, dict):
        return isinstance(a, dict) and isinstance(b, dict) and a.get("exc") == b.get("exc") and "exc" in a
    if len(a) != len(b):
        return False
    for x, y in zip(a, b):
        y = float(y)
        if not math.isfinite(x):
            return False
        if y == 0.0:
            if x != 0.0:
                return False
        elif x == 0.0 or abs(x - y) > 1e-6 * abs(y):
            return False
    return True


def nontrivial(case, r):
    return isinstance(r, list) and len(set(x for x in r if x != 0)) >= 2 and any(x == 0 for x in r)


def tally(dist, c, r):
    tc = len(set(len(field_terms(c, f)) for f in range(len(c["fields"])))) == 1
    dist["term-centric" if tc else "field-centric"] = dist.get("term-centric" if tc else "field-centric", 0) + 1
    dist[f"fields:{len(c['fields'])}"] = dist.get(f"fields:{len(c['fields'])}", 0) + 1
    dist["q_op:" + c["q_op"]] = dist.get("q_op:" + c["q_op"], 0) + 1
    for key in ("pf", "pf2", "pf3"):
        if c[key]:
            dist[key] = dist.get(key, 0) + 1
    if isinstance(r, dict):
        dist["exc:" + str(r.get("exc"))] = dist.get("exc:" + str(r.get("exc")), 0) + 1


def shrink_candidates(c):
    out = []
    n = len(c["fields"][0]["docs"])
    for keep in (range(n // 2), range(n // 2, n), range(1, n), range(n - 1)):
        keep = list(keep)
        if keep:
            e = dict(c)
            e["fields"] = [dict(fd, docs=[fd["docs"][i] for i in keep]) for fd in c["fields"]]
            out.append(e)
    if len(c["q"]) > 1:
        for i in range(len(c["q"])):
            e = dict(c)
            e["q"] = c["q"][:i] + c["q"][i + 1:]
            out.append(e)
    for key in ("pf", "pf2", "pf3"):
        if c[key]:
            e = dict(c)
            e[key] = []
            out.append(e)
    return out


def extra_phase(ctx):
    """edismax with a per-field similarity against the similarity-generic model / spec (C09 only: c10.py does not
    take this function over)."""
    from harness.props import c09_anysim
    return c09_anysim.run_phase(ctx)


def replay(rp):
    """a replay file written by the any-similarity phase (its case carries a "sims" entry) is re-run by that phase;
    None = not one of those: run.py's generic replay takes over."""
    case = rp.get("case")
    if not (rp.get("kind") in ("input", "correspondence") and isinstance(case, dict) and "sims" in case):
        return None
    from harness import common as C
    from harness.props import c09_anysim
    viol, corr = c09_anysim.evaluate([case], C.scratch_build())
    if viol:
        print(f"VIOLATION property={ID} replay(any-similarity phase): {viol[0][4]}")
        return 1
    if corr:
        print(f"VIOLATION property={ID} replay(any-similarity phase) no-failing-input-found")
        return 1
    print("replay: property holds on this input now")
    return 0
