"""C17 — over-long documents are rejected or truncated exactly, never silently corrupted."""
from harness.common import sx
from harness.props import corpus as K
from harness.props import c01 as B
from harness.props import c03

ID = "C17"
ENTRY = "SearchArray.index(docs, truncate=...)"
LEVEL = "proof"
LIMIT = 262143
RULE = ("one or two very long documents of length limit-2 .. limit+5 and ~2x limit (limit = 262143) placed first / "
        "middle / last among short neighbours, marker terms and phrases on both sides of the limit (positions "
        "limit-3 .. limit+3) and a term that only occurs in the cut-off tail; truncate in {False, True}; several batch "
        "sizes. Answers (tf, df, lengths, phrase, tf of neighbours) are compared with the Coq model and with the spec "
        "evaluated on the first 262143 tokens of each document; truncate=False on an over-long document must raise "
        "ValueError. Non-trivial = a document longer than the limit or exactly at it. Distinct by input hash.")
TRUSTED = B.TRUSTED + ["Extract Inlined Constant rev => List.rev", "index_g (linear-time variant) is proved equal to index"]
ASSUMPTIONS = ["fewer than 2^28 rows"]
EXPLANATION = ("model = index_opt (truncate = cut the token stream first; else ValueError when a length exceeds MAX_POSN); "
               "spec = the index of firstn 262143 of each document.")


def expand(d):
    """compact document description -> token list"""
    if isinstance(d, list):
        return d
    toks = [d["fill"][i % len(d["fill"])] for i in range(d["len"])]
    for p, t in d.get("marks", {}).items():
        if int(p) < d["len"]:
            toks[int(p)] = t
    return toks


def gen(rng, tier):
    n = {"quick": 8, "thorough": 60, "search": 10}[tier]
    cases = []
    lens = [LIMIT - 2, LIMIT - 1, LIMIT, LIMIT + 1, LIMIT + 2, LIMIT + 5, 2 * LIMIT + 7]
    for i in range(n):
        ln = lens[i % len(lens)] if rng.random() < 0.85 else rng.choice(lens)
        marks = {}
        # marker 7 around the limit, phrase 8 9 straddling it, tail-only term 5
        for p in (LIMIT - 3, LIMIT - 2, LIMIT - 1, LIMIT, LIMIT + 1):
            if rng.random() < 0.5:
                marks[str(p)] = 7
        q = rng.choice([LIMIT - 3, LIMIT - 2, LIMIT - 1, LIMIT])
        marks[str(q)] = 8
        marks[str(q + 1)] = 9
        if ln > LIMIT + 1:
            marks[str(ln - 1)] = 5
        marks[str(rng.randint(0, 50))] = 7
        big = {"fill": rng.choice([[1], [1, 2], [1, 2, 3]]), "len": ln, "marks": marks}
        small = [[rng.randrange(1, 10) for _ in range(rng.randint(0, 12))] for _ in range(rng.randint(1, 4))]
        where = rng.choice(["first", "middle", "last"])
        docs = ([big] + small) if where == "first" else (small + [big]) if where == "last" else (small[:1] + [big] + small[1:])
        if rng.random() < 0.2:
            docs.append({"fill": [2, 4], "len": LIMIT + 1, "marks": {}})
        trunc = rng.random() < 0.65
        qs = [["tf", 7], ["tf", 1], ["tf", 5], ["tf", 8], ["df", 7], ["df", 5], ["lens"], ["n"],
              ["phrase", [8, 9]], ["phrase", [1, 2]], ["phrase", [7, 8]], ["tf", 4]]
        cases.append({"docs": docs, "truncate": trunc, "opts": {"batch_size": rng.choice([1, 2, 3, 100000]), "workers": rng.choice([1, 2])},
                      "queries": qs})
    # every indexing path must reject / truncate: workers = 1 takes build_index_no_workers, workers > 1 the thread pool
    for w in (1, 2, 4):
        for trunc in (False, True):
            big = {"fill": [1, 2], "len": LIMIT + 1 + (w % 2), "marks": {str(LIMIT - 1): 7, str(LIMIT): 5}}
            docs = [[3, 4], big] if w != 2 else [big, [3, 4]]
            cases.append({"docs": docs, "truncate": trunc, "opts": {"batch_size": rng.choice([1, 100000]), "workers": w},
                          "queries": [["tf", 7], ["tf", 5], ["lens"], ["df", 5]]})
    # small-scale sanity: ordinary documents are never altered by truncate=True
    for _ in range(n):
        docs, _ = K.gen_docs(rng, n_docs=rng.randint(1, 6), maxlen=30, vocab=5)
        docs = [d or [] for d in docs]
        cases.append({"docs": docs, "truncate": True, "opts": {}, "queries": [["tf", 0], ["tf", 1], ["lens"], ["df", 2]]})
    return cases


def impl(case):
    c2 = {"docs": [expand(d) for d in case["docs"]], "tokz": "ws", "opts": dict(case["opts"], truncate=case["truncate"]),
          "queries": case["queries"]}
    return K.impl_index_queries(c2)


def model_req(case):
    docs = [expand(d) for d in case["docs"]]
    bs = case["opts"].get("batch_size", 100000)
    return sx(["index_query", 1 if case["truncate"] else 0, min(bs, len(docs) + 1), docs, [K._mq(q) for q in case["queries"]]])


def spec_req(case):
    docs = [expand(d) for d in case["docs"]]
    if not case["truncate"] and any(len(d) > LIMIT for d in docs):
        return None          # must raise: handled by the oracle
    return sx(["spec_index_query_trunc", docs, [K._mq(q) for q in case["queries"]]])


def oracle(case, ir):
    return isinstance(ir, dict) and ir.get("build_exc") == "ValueError"


def model_decode(case, r):
    return K.decode_queries(case, r)


def spec_decode(case, r):
    d = K.decode_queries(case, r, n_spec_only=True)
    d["spec"] = True
    return d


def equal(case, a, b):
    if not isinstance(a, dict) or not isinstance(b, dict):
        return False
    if "build_exc" in a or "build_exc" in b:
        return a.get("build_exc") == b.get("build_exc")
    if b.get("spec"):
        if len(a["q"]) != len(case["queries"]) or len(b["q"]) != len(case["queries"]):
            return False                  # one answer per query on both sides
        for q, x, y in zip(case["queries"], a["q"], b["q"]):
            if q[0] == "phrase":
                if not c03._phrase_ok(x, y):
                    return False
            elif x != y:
                return False
        return True
    return a.get("q") == b.get("q")


def nontrivial(case, r):
    return any((isinstance(d, dict) and d["len"] >= LIMIT) for d in case["docs"])


def tally(dist, c, r):
    for d in c["docs"]:
        if isinstance(d, dict):
            k = "len-limit=" + str(d["len"] - LIMIT)
            dist[k] = dist.get(k, 0) + 1
    dist["truncate=" + str(c["truncate"])] = dist.get("truncate=" + str(c["truncate"]), 0) + 1
    if isinstance(r, dict) and "build_exc" in r:
        dist["build_exc:" + r["build_exc"]] = dist.get("build_exc:" + r["build_exc"], 0) + 1


def shrink_candidates(c):
    out = []
    if len(c["docs"]) > 1:
        for i in range(len(c["docs"])):
            e = dict(c)
            e["docs"] = c["docs"][:i] + c["docs"][i + 1:]
            out.append(e)
    for q in c["queries"]:
        e = dict(c)
        e["queries"] = [q]
        out.append(e)
    return out
