"""C05 — positions() returns exactly the token offsets of the term in every document."""
from harness.props import corpus as K
from harness.props import c01 as B

ID = "C05"
ENTRY = "SearchArray.positions(term) on a freshly indexed array"
LEVEL = "proof"
RULE = ("corpora whose documents place the queried terms on both sides of every multiple of 18 up to 180 and far into "
        "the document, documents with and without the term at the start / middle / end; all vocabulary terms queried "
        "(absent terms only against the model). Non-trivial = the term occurs at an offset >= 18 in some document and "
        "some document lacks it.")
TRUSTED = B.TRUSTED
ASSUMPTIONS = B.ASSUMPTIONS
EXPLANATION = "model = slice by row keys (galloping intersect) + bitwise decode + per-row assembly; spec = offsets of the term."


def gen(rng, tier):
    n = {"quick": 200, "thorough": 3000, "search": 500}[tier]
    cases = []
    for i in range(n):
        nd = rng.randint(1, 14)
        vocab = rng.choice([2, 3, 6, 20])
        docs = []
        for _ in range(nd):
            r = rng.random()
            if r < 0.2:
                docs.append([])
                continue
            ln = rng.choice([rng.randint(1, 40), rng.randint(18, 200), rng.choice([17, 18, 19, 35, 36, 37, 53, 54, 55, 179, 180, 181])])
            d = [rng.randrange(1, vocab) for _ in range(ln)]
            # plant term 0 around word boundaries
            for _ in range(rng.randint(0, 4)):
                w = rng.randint(0, max(0, ln // 18))
                p = 18 * w + rng.choice([-1, 0, 1, 17])
                if 0 <= p < ln:
                    d[p] = 0
            docs.append(d)
        voc = K.vocab_of(docs)
        qs = [["pos", t] for t in (voc if len(voc) <= 8 else rng.sample(voc, 8))]
        xs = [["pos", vocab + 77]]
        cases.append({"docs": docs, "tokz": rng.choice(K.TOKZ), "opts": K.gen_opts(rng, len(docs)), "queries": qs, "xqueries": xs})
    return cases


impl = K.impl_index_queries
model_req = K.model_req_index
spec_req = K.spec_req_index
model_decode = B.model_decode
spec_decode = B.spec_decode
equal = B.equal
tally = B.tally
shrink_candidates = B.shrink_candidates
normalize = K.normalize_domain


def nontrivial(c, r):
    if not isinstance(r, dict) or "q" not in r:
        return False
    for q in r["q"]:
        if q[0] == "ok" and any(any(p >= 18 for p in row) for row in q[1]) and any(len(row) == 0 for row in q[1]):
            return True
    return False
