"""Cross-check of the EXTRACTED model binary against evaluation INSIDE Coq (vm_compute).

The correspondence check runs `ocaml/samodel`, i.e. it trusts Coq's extraction, the one `Extract Inlined Constant`
directive, the OCaml compiler and the s-expression driver.  This module samples that trust: for a few entry points it
generates inputs, asks the binary for the answers, writes a Coq file in which every answer is a goal
`<model applied to the input> = <the binary's answer>` closed by `vm_compute; reflexivity`, and compiles it.  A binary that
disagrees with the kernel's own evaluation of the same Gallina definition makes that file fail.  (A test of the extraction
on sampled inputs - not a proof of it.)"""
import os
import random
import subprocess
import time

from harness import common as C

XDIR = os.path.join("/var/tmp", "sa-verif-cache", "xcheck")


def _nl(l):
    return "[" + "; ".join(str(int(x)) for x in l) + "]"


def _z(z):
    return f"({int(z)})%Z"


def _simple(s):
    return ("SInt " if s[0] == "int" else "SPct ") + _z(s[1])


def _mmspec(sp):
    if sp[0] == "cond":
        return "Cond [" + "; ".join(f"({_z(k)}, {_simple(s)})" for k, s in sp[1]) + "]"
    return "Simple (" + _simple(sp) + ")"


def _mmspec_sx(sp):
    if sp[0] == "cond":
        return ["cond", [[k, [s[0], s[1]]] for k, s in sp[1]]]
    return [sp[0], sp[1]]


def _result(r, payload):
    if r[0] == "done":
        return "Done " + payload(r[1])
    if r[0] == "fault":
        return f"Fault {'Rd' if r[1] == 'R' else 'Wr'} {int(r[2])} {int(r[3])}"
    if r[0] == "fuel":
        return "OutOfFuel"
    raise ValueError(r)


def _pair_nl(p):
    return f"({_nl(p[0])}, {_nl(p[1])})"


def _mm_cases(rng, n):
    out = []
    for _ in range(n):
        def simple():
            return ["int", rng.randint(-45, 45)] if rng.random() < 0.5 else ["pct", rng.randint(-150, 150)]
        if rng.random() < 0.5:
            sp = simple()
        else:
            sp = ["cond", [[rng.randint(-1, 42), simple()] for _ in range(rng.randint(1, 3))]]
        nn = rng.randint(0, 40)
        for entry, fn in (("mm", "mm_f64"), ("spec_mm", "solr_mm")):
            out.append({"req": C.sx([entry, nn, _mmspec_sx(sp)]), "lhs": f"{fn} {_z(nn)} ({_mmspec(sp)})",
                        "rhs": lambda r: _z(r)})
    return out


def _intersect_cases(rng, n):
    out = []
    masks = [0xFFFFFFFFFFFFFFFF, 0xFFFFFFFFFFFC0000, 0xFFFFFFF000000000]
    for _ in range(n):
        mask = rng.choice(masks)
        sh = (mask & -mask).bit_length() - 1

        def arr():
            keys = sorted(rng.sample(range(0, 40), rng.randint(0, 9)))
            out_ = []
            for k in keys:
                for _ in range(rng.choice([1, 1, 2])):
                    out_.append((k << sh) | (rng.getrandbits(sh) if sh and rng.random() < 0.7 else 0))
            return out_
        l, r = arr(), arr()
        if rng.random() < 0.1:
            rng.shuffle(l)                      # unsorted input: the models still answer (possibly with a fault)
        for entry in ("intersect_drop", "intersect_keep"):
            out.append({"req": C.sx([entry, l, r, mask]), "lhs": f"{entry} {_nl(l)} {_nl(r)} {mask}",
                        "rhs": lambda res: _result(res, _pair_nl)})
    return out


def _groups(g):
    return "[" + "; ".join(f"({int(k)}, {_nl(ps)})" for k, ps in g) + "]"


def _codec_cases(rng, n):
    """decode on arbitrary 64-bit words (sorted or not, duplicated headers allowed) and encode on structured (key, position)
    columns; positions straddle the 18-position word boundary."""
    out = []
    for i in range(n):
        if i % 2 == 0:
            ws = []
            for _ in range(rng.randint(0, 5)):
                kind = rng.random()
                if kind < 0.3:
                    ws.append(rng.getrandbits(64))
                else:
                    ws.append((rng.randint(0, 5) << 36) | (rng.randint(0, 4) << 18) | rng.getrandbits(rng.choice([1, 4, 18])))
            if rng.random() < 0.6:
                ws.sort()
            out.append({"req": C.sx(["decode", ws]), "lhs": f"decode {_nl(ws)}", "rhs": _groups})
        else:
            m = rng.randint(0, 8)
            keys = sorted(rng.randint(0, 4) for _ in range(m))
            pos = [rng.choice([0, 1, 17, 18, 19, 35, 36, 37, 262143]) if rng.random() < 0.6 else rng.randint(0, 80)
                   for _ in range(m)]
            out.append({"req": C.sx(["codec_all", keys, pos]),
                        "lhs": f"let e := encode {_nl(keys)} {_nl(pos)} in (e, decode e)",
                        "rhs": lambda r: f"({_nl(r[0])}, {_groups(r[1])})"})
    return out


_EXN = {"ValueError": "ValueError", "KeyError": "KeyError", "TypeError": "TypeError", "IndexError": "IndexError",
        "TermMissingError": "TermMissing"}


def _api(r, payload):
    if r[0] == "ok":
        return "AOk " + payload(r[1])
    if r[0] == "exc":
        return "AExc " + _EXN[r[1]]
    if r[0] == "fault":
        return f"AFault {'Rd' if r[1] == 'R' else 'Wr'} {int(r[2])} {int(r[3])}"
    if r[0] == "fuel":
        return "AFuel"
    raise ValueError(r)


def _nll(ll):
    return "[" + "; ".join(_nl(l) for l in ll) + "]"


def _index_cases(rng, n):
    """index (any batch size, truncate flag) followed by the single-term queries, an exact phrase and the statistics:
    the path on which the `rev` directive and the single-pass reduceat of Index/Fast.v are used by the binary."""
    out = []
    for _ in range(n):
        nd = rng.randint(1, 5)
        vocab = rng.randint(1, 4)
        docs = []
        for _ in range(nd):
            ln = rng.choice([0, 1, 2, 3, 5, 17, 18, 19, 20, 37, 40])
            docs.append([rng.randint(1, vocab) for _ in range(ln)])
        t = rng.randint(1, vocab + 1)
        ph = [rng.randint(1, vocab) for _ in range(rng.randint(2, 3))]
        tr = rng.randint(0, 1)
        bs = rng.randint(1, nd + 1)
        qs = [["tf", t], ["df", t], ["pos", t], ["phrase", ph], ["lens"], ["n"], ["total"]]
        lhs = (f"match index_opt_g {'true' if tr else 'false'} {bs}%nat {_nll(docs)} with AOk ix => Some (termfreqs ix {t}, "
               f"docfreq ix {t}, positions ix {t}, phrase_freqs ix {_nl(ph)}, doclengths ix, corpus_size ix, total_len ix) "
               "| _ => None end")

        def rhs(r):
            if r[0] != "ok":
                return "None"
            a = r[1]
            return ("Some (" + ", ".join([_api(a[0], _nl), _api(a[1], lambda x: str(int(x))), _api(a[2], _nll),
                                          _api(a[3], _nl), _nl(a[4][1]), str(int(a[5][1])), str(int(a[6][1]))]) + ")")
        out.append({"req": C.sx(["index_query", tr, bs, docs, qs]), "lhs": lhs, "rhs": rhs})
    return out


def _range_cases(rng, n):
    """index, then term and phrase frequencies restricted to a position range (aligned and unaligned bounds)"""
    out = []

    def opt(v):
        return "None" if v is None else f"(Some {v})"

    def osx(v):
        return "none" if v is None else ["some", v]
    for _ in range(n):
        nd = rng.randint(1, 4)
        vocab = rng.randint(1, 3)
        docs = [[rng.randint(1, vocab) for _ in range(rng.choice([0, 2, 17, 19, 37, 60]))] for _ in range(nd)]
        t = rng.randint(1, vocab + 1)
        ph = [rng.randint(1, vocab) for _ in range(2)]
        lo = rng.choice([None, 0, 18, 36, 5, 54])
        hi = rng.choice([None, 17, 35, 53, 20, 71])
        bs = rng.randint(1, nd + 1)
        qs = [["tfr", t, osx(lo), osx(hi)], ["phraser", ph, osx(lo), osx(hi)]]
        lhs = (f"match index_opt_g false {bs}%nat {_nll(docs)} with AOk ix => Some (termfreqs_range ix {t} {opt(lo)} {opt(hi)}, "
               f"phrase_freqs_range ix {_nl(ph)} {opt(lo)} {opt(hi)}) | _ => None end")

        def rhs(r):
            if r[0] != "ok":
                return "None"
            return "Some (" + _api(r[1][0], _nl) + ", " + _api(r[1][1], _nl) + ")"
        out.append({"req": C.sx(["index_query", 0, bs, docs, qs]), "lhs": lhs, "rhs": rhs})
    return out


def _view_cases(rng, n):
    """index, a chain of positional selections (repeats, any order, occasionally out of range), queries on the view"""
    out = []
    for _ in range(n):
        nd = rng.randint(1, 5)
        vocab = rng.randint(1, 3)
        docs = [[rng.randint(1, vocab) for _ in range(rng.choice([0, 1, 3, 18, 19, 37]))] for _ in range(nd)]
        keys, cur = [], nd
        for _ in range(rng.randint(0, 3)):
            k = [rng.randint(0, max(cur - 1, 0)) for _ in range(rng.randint(0, 4))]
            if rng.random() < 0.08:
                k.append(cur + 1)
            keys.append(k)
            cur = len(k)
        t = rng.randint(1, vocab + 1)
        ph = [rng.randint(1, vocab) for _ in range(2)]
        avoid = rng.randint(0, 1)
        bs = rng.randint(1, nd + 1)
        qs = [["tf", t], ["phrase", ph], ["df", t], ["pos", t], ["lens"]]
        lhs = (f"match index_g false {bs}%nat {_nll(docs)} with AOk ix => match select_chain (of_index ix "
               f"{'true' if avoid else 'false'}) {_nll(keys)} with AOk a => Some (v_termfreqs a {t} None None, "
               f"v_phrase_freqs a {_nl(ph)} None None, v_docfreq a {t}, v_positions a {t}, v_doclengths a) "
               "| _ => None end | _ => None end")

        def rhs(r):
            if r[0] != "ok":
                return "None"
            a = r[1]
            return ("Some (" + ", ".join([_api(a[0], _nl), _api(a[1], _nl), _api(a[2], lambda x: str(int(x))),
                                          _api(a[3], _nll), _nl(a[4][1])]) + ")")
        out.append({"req": C.sx(["view_query", avoid, bs, docs, keys, qs]), "lhs": lhs, "rhs": rhs})
    return out


def _slop_cases(rng, n):
    """index, then phrase frequencies with slop (documents long enough for positions that alias modulo 64)"""
    out = []
    for _ in range(n):
        nd = rng.randint(1, 3)
        vocab = rng.randint(2, 4)
        docs = [[rng.randint(1, vocab + 2) for _ in range(rng.choice([0, 3, 8, 20, 40, 75]))] for _ in range(nd)]
        ph = rng.sample(range(1, vocab + 1), rng.randint(2, min(3, vocab)))
        sl = rng.choice([1, 1, 2, 3, 5])
        bs = nd + 1
        lhs = (f"match index_opt_g false {bs}%nat {_nll(docs)} with AOk ix => Some (slop_freqs ix {_nl(ph)} {sl}) "
               "| _ => None end")

        def rhs(r):
            return "None" if r[0] != "ok" else "Some (" + _api(r[1][0], _nl) + ")"
        out.append({"req": C.sx(["index_query", 0, bs, docs, [["slop", ph, sl]]]), "lhs": lhs, "rhs": rhs})
    return out


def _purity_cases(rng, n):
    """operation sequences of the purity state machine (queries, selections, copies, cache warming) on a fresh index;
    score operations are left to the extracted binary (Flocq terms under vm_compute cost seconds each)"""
    out = []

    def opt(v):
        return "None" if v is None else f"(Some {v})"

    def osx(v):
        return "none" if v is None else ["some", v]
    for _ in range(n):
        nd = rng.randint(1, 4)
        vocab = rng.randint(1, 3)
        docs = [[rng.randint(1, vocab) for _ in range(rng.choice([0, 2, 5, 19, 37]))] for _ in range(nd)]
        narr, sizes = 1, [nd]
        sxops, cops, kinds = [], [], []
        for _ in range(rng.randint(2, 7)):
            a = rng.randint(0, narr - 1) if rng.random() < 0.95 else narr + 1
            k = rng.choice(["tf", "phrase", "pos", "df", "lens", "select", "copy", "warm"])
            t = rng.randint(1, vocab + 1)
            if k == "tf":
                lo, hi = rng.choice([(None, None), (0, 17), (18, None), (None, 35), (3, 17)])
                sxops.append(["tf", a, t, osx(lo), osx(hi)]); cops.append(f"OTf {a}%nat {t} {opt(lo)} {opt(hi)}"); kinds.append("RVec")
            elif k == "phrase":
                ph = [rng.randint(1, vocab) for _ in range(2)]
                sxops.append(["phrase", a, ph, "none", "none"]); cops.append(f"OPhrase {a}%nat {_nl(ph)} None None"); kinds.append("RVec")
            elif k == "pos":
                sxops.append(["pos", a, t]); cops.append(f"OPos {a}%nat {t}"); kinds.append("RPos")
            elif k == "df":
                sxops.append(["df", a, t]); cops.append(f"ODf {a}%nat {t}"); kinds.append("RNum")
            elif k == "lens":
                sxops.append(["lens", a]); cops.append(f"OLens {a}%nat"); kinds.append("RVec")
            elif k == "select":
                sz = sizes[a] if a < narr else 1
                pos = [rng.randint(0, max(sz - 1, 0)) for _ in range(rng.randint(0, 3))]
                sxops.append(["select", a, pos]); cops.append(f"OSelect {a}%nat {_nl(pos)}"); kinds.append("RUnit")
                if a < narr and sz > 0:
                    narr += 1; sizes.append(len(pos))
            elif k == "copy":
                sxops.append(["copy", a]); cops.append(f"OCopy {a}%nat"); kinds.append("RUnit")
                if a < narr:
                    narr += 1; sizes.append(sizes[a])
            else:
                sxops.append(["warm", a]); cops.append(f"OWarm {a}%nat"); kinds.append("RUnit")
        cg = rng.choice([0, 1, 50])
        bs = nd + 1
        lhs = (f"match index_g false {bs}%nat {_nll(docs)} with AOk ix => Some (fst (run (init_pool ix {cg}) "
               f"[{'; '.join(cops)}])) | _ => None end")

        def rhs(r, kinds=kinds):
            if r[0] != "ok":
                return "None"
            items = []
            for o in r[1]:
                # the constructor is recovered from the shape of the payload, not from the request
                if o[0] != "ok":
                    items.append(None)
                    continue
                v = o[1]
                if v == "unit":
                    items.append("RUnit (AOk tt)")
                elif isinstance(v, list) and v and isinstance(v[0], list):
                    items.append("RPos (AOk " + _nll(v) + ")")
                elif isinstance(v, list):
                    items.append(None if not v else "RVec (AOk " + _nl(v) + ")")
                else:
                    items.append("RNum (AOk " + str(int(v)) + ")")
            for i, o in enumerate(r[1]):
                if items[i] is None:        # errors and empty lists: constructor from the operation kind
                    if o[0] == "ok":
                        items[i] = f"{kinds[i]} (AOk [])"
                    else:
                        items[i] = None
            if any(x is None for x in items):
                return None
            return "Some [" + "; ".join(items) + "]"
        out.append({"req": C.sx(["purity_run", cg, bs, docs, sxops]), "lhs": lhs, "rhs": rhs})
    return out


PROVIDERS = {
    "C11": ("From SA Require Import Base.Prelude Solr.MM Solr.MM_Spec.\nOpen Scope Z_scope.\n", _mm_cases, 150),
    "C12": ("From SA Require Import Base.Prelude Kernels.Intersect.\nOpen Scope N_scope.\n", _intersect_cases, 120),
    "C14": ("From SA Require Import Base.Prelude Kernels.Intersect.\nOpen Scope N_scope.\n", _intersect_cases, 120),
    "C01": ("From SA Require Import Base.Prelude Index.Index Index.Truncate Query.Phrase.\nOpen Scope N_scope.\n", _index_cases, 80),
    "C02": ("From SA Require Import Base.Prelude Index.Index Index.Truncate Query.Phrase.\nOpen Scope N_scope.\n", _index_cases, 80),
    "C05": ("From SA Require Import Base.Prelude Index.Index Index.Truncate Query.Phrase.\nOpen Scope N_scope.\n", _index_cases, 80),
    "C17": ("From SA Require Import Base.Prelude Index.Index Index.Truncate Query.Phrase.\nOpen Scope N_scope.\n", _index_cases, 80),
    "C03": ("From SA Require Import Base.Prelude Index.Index Index.Truncate Query.Phrase.\nOpen Scope N_scope.\n", _index_cases, 80),
    "C16": ("From SA Require Import Base.Prelude Index.Index Index.Truncate Query.Phrase Query.Range.\nOpen Scope N_scope.\n", _range_cases, 80),
    "C06": ("From SA Require Import Base.Prelude Index.Index Index.Fast View.View.\nOpen Scope N_scope.\n", _view_cases, 80),
    "C15": ("From SA Require Import Base.Prelude Index.Index Index.Truncate Span.Span.\nOpen Scope N_scope.\n", _slop_cases, 60),
    "C07": ("From SA Require Import Base.Prelude Index.Index Index.Fast View.View View.Purity.\nOpen Scope N_scope.\n", _purity_cases, 80),
    "C08": ("From SA Require Import Base.Prelude Index.Index Index.Truncate Query.Phrase.\nOpen Scope N_scope.\n", _index_cases, 80),
    "C13": ("From SA Require Import Base.Prelude Codec.Codec.\nOpen Scope N_scope.\n", _codec_cases, 120),
}


def run(prop_id, seed=0):
    """-> dict(cases, ok, wall_s[, error]); None when the property has no provider"""
    if prop_id not in PROVIDERS:
        return None
    t0 = time.time()
    header, gen, n = PROVIDERS[prop_id]
    rng = random.Random(repr((seed, prop_id, "xcheck")))
    cases = gen(rng, n)
    answers = C.run_model([c["req"] for c in cases])
    os.makedirs(XDIR, exist_ok=True)
    skipped = 0
    name = f"X_{prop_id}_{os.getpid()}"
    path = os.path.join(XDIR, name + ".v")
    with open(path, "w") as f:
        f.write("(* generated by harness/xcheck.py: the extracted binary's answers, re-evaluated by vm_compute *)\n")
        f.write("From Coq Require Import ZArith NArith List.\nImport ListNotations.\n" + header)
        for c, a in zip(cases, answers):
            if c["rhs"](a) is None:
                skipped += 1
                continue
            f.write(f"Goal ({c['lhs']}) = ({c['rhs'](a)}). Proof. vm_compute. reflexivity. Qed.\n")
    p = subprocess.run(["timeout", "600", "coqc", "-Q", os.path.join(C.COQ_DIR, "theories"), "SA", path],
                       capture_output=True, text=True, cwd=XDIR)
    res = {"cases": len(cases) - skipped, "skipped_error_outputs": skipped, "ok": p.returncode == 0, "wall_s": round(time.time() - t0, 1),
           "what": "answers of ocaml/samodel re-evaluated inside Coq by vm_compute (sampled test of the extraction)"}
    if p.returncode != 0:
        res["error"] = (p.stdout + p.stderr)[-1200:]
        res["file"] = path
    else:
        for ext in (".v", ".vo", ".glob", ".vok", ".vos"):
            try:
                os.remove(os.path.join(XDIR, name + ext))
            except OSError:
                pass
        try:
            os.remove(os.path.join(XDIR, "." + name + ".aux"))
        except OSError:
            pass
    return res
