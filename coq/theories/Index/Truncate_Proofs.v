(* C17: a document longer than MAX_POSN = 262143 tokens is rejected with ValueError by index(truncate=False)
   -- by the FIRST batch that contains such a document, all earlier batches being built normally --
   and index(truncate=True) is a correct index (index_ok) of the documents cut to their first 262143
   tokens; documents within the limit are not altered by truncate=True.

   The only added hypothesis of C17_reject is a bound on the total number of tokens (< 2^61): the model of
   the galloping kernel called by encode_b (intersect_drop) carries a constant fuel (GFUEL = 66) and its
   termination theorem needs both of its arguments shorter than 2^62; they are the term boundaries
   (<= #tokens) and the merged change indices (<= 2 * #tokens). *)
From Coq Require Import Sorted Permutation.
From SA Require Import Base.Prelude Kernels.Spec Kernels.Intersect Kernels.Intersect_Safe
  Kernels.Linear Kernels.Linear_Proofs
  Codec.Codec Codec.Codec_Spec Codec.Codec_Proofs Codec.Codec_Proofs2
  Index.Index Index.Index_Spec Index.Index_Proofs Index.Index_Proofs2 Index.Index_Proofs3
  Index.Fast Index.Truncate.
Open Scope N_scope.

Definition overlong (d : list N) : Prop := MAX_POSN < N.of_nat (length d).

(* ================= 1. encode_b is total (below 2^62 elements) ================= *)
Lemma mrgd_length : forall l r, (length (mrgd l r) <= length l + length r)%nat.
Proof.
  induction l as [|x l IHl]; intros r; [rewrite mrgd_nil_l; lia|].
  induction r as [|y r IHr]; [rewrite mrgd_nil_r; lia|].
  rewrite mrgd_cons. destruct (x <? y).
  - specialize (IHl (y :: r)). cbn [length] in *. lia.
  - destruct (y <? x); cbn [length] in *; [lia|]. specialize (IHl r). lia.
Qed.

Lemma tsf_length : forall l i, (length (term_starts_from i l) <= length l - 1)%nat.
Proof.
  induction l as [|x t IH]; intros i; [cbn; lia|]. destruct t as [|y t']; [cbn; lia|].
  rewrite tsf_cons2. specialize (IH (i + 1)). destruct (x <? y); cbn [length] in *; lia.
Qed.

Lemma map2_length {A B C} (f : A -> B -> C) : forall l1 l2, (length (map2 f l1 l2) <= length l1)%nat.
Proof.
  induction l1 as [|a l1 IH]; intros l2; [cbn; lia|]. destruct l2 as [|b l2]; cbn [map2 length]; [lia|].
  specialize (IH l2). lia.
Qed.

Lemma encode_b_done keys payload bnd :
  N.of_nat (length bnd) < 2 ^ 62 -> N.of_nat (1 + (length keys - 1) + length bnd) < 2 ^ 62 ->
  exists r, encode_b keys payload bnd = Done r.
Proof.
  intros H1 H2. unfold encode_b. cbv zeta. rewrite merge_drop_model. cbn [bind].
  set (change := mrgd (change_indices (map2 enc_col keys payload)) bnd).
  assert (Hc : N.of_nat (length change) < 2 ^ 62).
  { unfold change. pose proof (mrgd_length (change_indices (map2 enc_col keys payload)) bnd) as L.
    assert (Eci : length (change_indices (map2 enc_col keys payload)) = S (length (diff_nonzero_from 0 (map2 enc_col keys payload))))
      by reflexivity.
    rewrite Eci in L.
    pose proof (dnf_length (map2 enc_col keys payload) 0). pose proof (map2_length enc_col keys payload).
    rewrite pow62 in *. lia. }
  pose proof (intersect_drop_terminates bnd change wmask H1 Hc) as D.
  destruct (intersect_drop bnd change wmask) as [ix| |]; cbn [is_done] in D; try contradiction.
  cbn [bind]. destruct payload; eexists; reflexivity.
Qed.

(* ================= 2. one batch with an over-long document ================= *)
Lemma lens_overflow docs : Exists overlong docs -> existsb (fun n => MAX_POSN <? n) (lens_spec docs) = true.
Proof.
  intro H. apply existsb_exists. apply Exists_exists in H. destruct H as (d & Hin & Hd).
  exists (N.of_nat (length d)). split; [unfold lens_spec; apply in_map_iff; eauto|]. apply N.ltb_lt. exact Hd.
Qed.

Theorem build_batch_reject beg batch : Exists overlong batch -> N.of_nat (length (concat batch)) < 2 ^ 61 ->
  build_batch false beg batch = AExc ValueError.
Proof.
  intros Hex Hn. unfold build_batch. cbv zeta.
  set (sorted := stable_sort_by_term (gather false beg batch)).
  assert (Hlen : length sorted = length (concat batch)).
  { unfold sorted. destruct (sort_props (gather false beg batch)) as [_ P].
    rewrite <- (Permutation_length P). apply gather_length. }
  assert (Hpos : (1 <= length (concat batch))%nat).
  { apply Exists_exists in Hex. destruct Hex as (d & Hin & Hd). unfold overlong in Hd. rewrite MAX_POSN_val in Hd.
    apply in_split in Hin. destruct Hin as (l1 & l2 & ->). rewrite concat_app. cbn [concat].
    rewrite !app_length. lia. }
  destruct (encode_b_done (map t_doc sorted) (map t_posn sorted) (term_starts (map t_term sorted))) as [[enc nb] E].
  - unfold term_starts. cbn [length]. pose proof (tsf_length (map t_term sorted) 0) as L. rewrite map_length in L.
    rewrite pow62. change (2 ^ 61) with 2305843009213693952 in Hn. lia.
  - unfold term_starts. cbn [length]. pose proof (tsf_length (map t_term sorted) 0) as L. rewrite !map_length in *.
    rewrite pow62. change (2 ^ 61) with 2305843009213693952 in Hn. lia.
  - rewrite E. cbn [lift abind]. cbv beta iota zeta. rewrite doc_lens_correct, lens_overflow by exact Hex. reflexivity.
Qed.

(* ================= 3. the batches before the first over-long document are built normally ================= *)
Lemma short_or_long docs : short_docs docs \/ Exists overlong docs.
Proof.
  induction docs as [|d r IH]; [left; constructor|].
  destruct (N.le_gt_cases (N.of_nat (length d)) 262143) as [Hd|Hd].
  - destruct IH as [IH|IH]; [left; constructor; assumption|right; apply Exists_cons_tl; exact IH].
  - right. apply Exists_cons_hd. unfold overlong. rewrite MAX_POSN_val. exact Hd.
Qed.

Lemma short_not_long docs : short_docs docs -> ~ Exists overlong docs.
Proof.
  intros Hs Hex. apply Exists_exists in Hex. destruct Hex as (d & Hin & Hd). unfold short_docs in Hs.
  rewrite Forall_forall in Hs. specialize (Hs d Hin). unfold overlong in Hd. rewrite MAX_POSN_val in Hd. lia.
Qed.

Lemma index_batches_reject bs : (1 <= bs)%nat -> forall fuel rest beg posts lens,
  (length rest <= fuel)%nat -> Exists overlong rest -> beg + N.of_nat (length rest) <= 2 ^ 28 ->
  N.of_nat (length (concat rest)) < 2 ^ 61 ->
  index_batches false (N.of_nat bs) beg (batches_of bs fuel rest) posts lens = AExc ValueError.
Proof.
  intros Hbs. induction fuel as [|f IH]; intros rest beg posts lens Hlen Hex Hbeg Htok.
  - destruct rest; [inversion Hex|cbn [length] in Hlen; lia].
  - destruct rest as [|x r] eqn:Er; [inversion Hex|].
    rewrite <- Er in *. assert (Hne : rest <> []) by (rewrite Er; discriminate).
    assert (Eb : batches_of bs (S f) rest = firstn bs rest :: batches_of bs f (skipn bs rest)).
    { rewrite Er. reflexivity. }
    clear Er x r. rewrite Eb. cbn [index_batches].
    set (b := firstn bs rest) in *. set (rest' := skipn bs rest) in *.
    assert (Esplit : rest = b ++ rest') by (symmetry; apply firstn_skipn).
    assert (Hcat : (length (concat rest) = length (concat b) + length (concat rest'))%nat).
    { rewrite Esplit at 1. rewrite concat_app, app_length. reflexivity. }
    assert (Hl : (length rest = length b + length rest')%nat).
    { rewrite Esplit at 1. apply app_length. }
    destruct (short_or_long b) as [Hshort|Hlong].
    + destruct (build_batch_correct beg b Hshort) as (ts & _ & _ & EB); [lia|].
      rewrite EB. cbn [abind].
      assert (Hex' : Exists overlong rest').
      { rewrite Esplit in Hex. apply Exists_app in Hex. destruct Hex as [Hex|Hex]; [|exact Hex].
        exfalso. exact (short_not_long b Hshort Hex). }
      assert (Hr' : rest' <> []) by (intro E0; rewrite E0 in Hex'; inversion Hex').
      assert (Hbl : length b = bs).
      { unfold b. apply firstn_length_le. destruct (Nat.le_gt_cases bs (length rest)) as [Hle|Hgt]; [exact Hle|].
        exfalso. apply Hr'. unfold rest'. apply skipn_all2. lia. }
      apply IH; [lia|exact Hex'|lia|lia].
    + rewrite build_batch_reject; [reflexivity|exact Hlong|lia].
Qed.

(* ================= 4. C17 ================= *)
(* truncate=False: an over-long document anywhere in the collection makes index raise ValueError *)
Theorem C17_reject : forall docs bs, N.of_nat (length docs) < 2 ^ 28 ->
  Exists (fun d => MAX_POSN < N.of_nat (length d)) docs ->
  N.of_nat (length (concat docs)) < 2 ^ 61 ->
  index false bs docs = AExc ValueError.
Proof.
  intros docs bs Hn Hex Htok. unfold index. unfold doc.
  rewrite (index_batches_reject (Nat.max 1 bs)); [reflexivity|lia|apply Nat.le_refl|exact Hex|lia|exact Htok].
Qed.

(* the single-batch instance *)
Corollary C17_reject_single : forall (docs : list (list N)) bs, (bs >= length docs)%nat -> N.of_nat (length docs) < 2 ^ 28 ->
  Exists (fun d => MAX_POSN < N.of_nat (length d)) docs -> N.of_nat (length (concat docs)) < 2 ^ 61 ->
  index false bs docs = AExc ValueError.
Proof. intros docs bs _. apply C17_reject. Qed.

(* the token bound follows from a per-document bound *)
Lemma concat_length_bound33 (docs : list (list N)) : Forall (fun d => N.of_nat (length d) < 2 ^ 33) docs ->
  N.of_nat (length (concat docs)) <= 8589934591 * N.of_nat (length docs).
Proof.
  induction 1 as [|d r Hd _ IH]; [cbn; lia|]. cbn [concat length]. rewrite app_length.
  change (2 ^ 33) with 8589934592 in Hd. lia.
Qed.

Corollary C17_reject_per_doc : forall docs bs, N.of_nat (length docs) < 2 ^ 28 ->
  Exists (fun d => MAX_POSN < N.of_nat (length d)) docs ->
  Forall (fun d => N.of_nat (length d) < 2 ^ 33) docs ->
  index false bs docs = AExc ValueError.
Proof.
  intros docs bs Hn Hex Hf. apply C17_reject; try assumption.
  pose proof (concat_length_bound33 docs Hf). rewrite pow28 in Hn. change (2 ^ 61) with 2305843009213693952. lia.
Qed.

(* rejection happens exactly when some document is over-long *)
Corollary C17_reject_iff : forall docs bs, N.of_nat (length docs) < 2 ^ 28 ->
  N.of_nat (length (concat docs)) < 2 ^ 61 ->
  (index false bs docs = AExc ValueError <-> Exists (fun d => MAX_POSN < N.of_nat (length d)) docs).
Proof.
  intros docs bs Hn Htok. split; [|intro Hex; apply C17_reject; assumption].
  intro E. destruct (short_or_long docs) as [Hs|Hl]; [|exact Hl].
  destruct (index_any_ok docs bs (conj Hs Hn)) as (ix & E' & _). rewrite E in E'. discriminate.
Qed.

(* truncate=True: every answer is that of the first 262143 tokens of every document *)
Lemma truncate_wf docs : N.of_nat (length docs) < 2 ^ 28 -> wf_docs (truncate_docs docs).
Proof.
  intro Hn. unfold truncate_docs. split; [|now rewrite map_length].
  rewrite Forall_map. apply Forall_forall. intros d _. rewrite firstn_length, MAX_POSN_val. lia.
Qed.

Theorem C17_truncate : forall docs bs, N.of_nat (length docs) < 2 ^ 28 ->
  exists ix, index_opt true bs docs = AOk ix /\ index_ok (truncate_docs docs) ix.
Proof. intros docs bs Hn. unfold index_opt. apply index_any_ok, truncate_wf, Hn. Qed.

Lemma truncate_short docs : short_docs docs -> truncate_docs docs = docs.
Proof.
  unfold truncate_docs. induction 1 as [|d r Hd _ IH]; [reflexivity|]. cbn [map]. rewrite IH. f_equal.
  apply firstn_all2. rewrite MAX_POSN_val. lia.
Qed.

Theorem C17_unaltered : forall docs, wf_docs docs -> forall bs, index_opt true bs docs = index_opt false bs docs.
Proof. intros docs [Hs _] bs. unfold index_opt. now rewrite truncate_short. Qed.

(* what truncation keeps: the stored lengths are min(len, 262143) and every single-term answer is the
   answer on the cut documents *)
Corollary C17_truncate_lens : forall docs bs, N.of_nat (length docs) < 2 ^ 28 ->
  exists ix, index_opt true bs docs = AOk ix /\
    doclengths ix = map (fun d => N.min (N.of_nat (length d)) MAX_POSN) docs /\
    forall t, termfreqs ix t = AOk (tf_spec (truncate_docs docs) t).
Proof.
  intros docs bs Hn. destruct (C17_truncate docs bs Hn) as (ix & E & Hok). exists ix. split; [exact E|]. split.
  - destruct (doclens_ok _ _ Hok) as [-> _]. unfold truncate_docs, lens_spec. rewrite map_map.
    apply map_ext. intro d. rewrite firstn_length, MAX_POSN_val. lia.
  - intro t. apply termfreqs_ok; [apply truncate_wf, Hn|exact Hok].
Qed.

(* the statements on concrete inputs: MAX_POSN + 1 equal tokens, batch size 1, after two short documents *)
Example C17_ex_hyp :
  let docs := [[1; 2]; [3]; repeat 7 (N.to_nat 262144); [4]] in
  N.of_nat (length docs) < 2 ^ 28 /\ N.of_nat (length (concat docs)) < 2 ^ 61 /\
  Exists (fun d => MAX_POSN < N.of_nat (length d)) docs.
Proof.
  cbn zeta. split; [cbn [length]; rewrite pow28; lia|]. split.
  - cbn [concat]. rewrite !app_length, repeat_length. cbn [length]. change (2 ^ 61) with 2305843009213693952. lia.
  - apply Exists_cons_tl, Exists_cons_tl, Exists_cons_hd. rewrite repeat_length, MAX_POSN_val. lia.
Qed.

Print Assumptions C17_reject.
Print Assumptions C17_reject_single.
Print Assumptions C17_reject_per_doc.
Print Assumptions C17_reject_iff.
Print Assumptions C17_truncate.
Print Assumptions C17_unaltered.
Print Assumptions C17_truncate_lens.
