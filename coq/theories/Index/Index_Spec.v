(* Specs for C01, C02, C05: what term frequency, document frequency, lengths and positions mean
   in terms of the token lists alone. *)
From SA Require Import Base.Prelude.
Open Scope N_scope.

Definition count_tok (t : N) (d : list N) : N := N.of_nat (length (filter (N.eqb t) d)).
Definition tf_spec (docs : list (list N)) (t : N) : list N := map (count_tok t) docs.
Definition df_spec (docs : list (list N)) (t : N) : N :=
  N.of_nat (length (filter (fun d => existsb (N.eqb t) d) docs)).
Definition lens_spec (docs : list (list N)) : list N := map (fun d => N.of_nat (length d)) docs.
Definition total_spec (docs : list (list N)) : N := N.of_nat (length (concat docs)).
Fixpoint offsets_from (i : N) (t : N) (d : list N) : list N :=
  match d with [] => [] | x :: r => if x =? t then i :: offsets_from (i + 1) t r else offsets_from (i + 1) t r end.
Definition positions_spec (docs : list (list N)) (t : N) : list (list N) := map (offsets_from 0 t) docs.

(* domain of indexing: lengths within the position limit, fewer than 2^28 rows *)
Definition wf_docs (docs : list (list N)) : Prop :=
  Forall (fun d => N.of_nat (length d) <= 262143) docs /\ N.of_nat (length docs) < 2 ^ 28.
