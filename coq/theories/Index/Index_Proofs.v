(* C01 / C02 / C05, part 1: what one build_batch call stores.
   - the flat (term, doc, posn) triples of `gather`, sorted by TripleSort, fall into one run per term, in
     increasing term order, the run of t being  tp_from beg batch t  (all (doc, offset) occurrences of t);
   - term_starts / take_idx / encode_b / slices_by_bounds then give  (t, encode_spec (tp_from beg batch t))  per term;
   - compute_doc_lens gives lens_spec.
   Everything is stated for an arbitrary batch_beg so that the batching proof (Index_Proofs3) can reuse it. *)
From Coq Require Import Sorted Permutation Mergesort.
From SA Require Import Base.Prelude Kernels.Spec Kernels.Linear Kernels.Linear_Proofs
  Codec.Codec Codec.Codec_Spec Codec.Codec_Proofs Codec.Codec_Proofs2 Index.Index Index.Index_Spec.
Open Scope N_scope.

(* ================= 0. statements' vocabulary ================= *)
(* (doc id, offset) of every occurrence of t in the documents numbered i, i+1, ... *)
Fixpoint tp_from (i : N) (docs : list (list N)) (t : N) : list (N * N) :=
  match docs with
  | [] => []
  | d :: r => map (fun p => (i, p)) (offsets_from 0 t d) ++ tp_from (i + 1) r t
  end.
Fixpoint enum_docs_from (i : N) (docs : list (list N)) : list (N * list N) :=
  match docs with [] => [] | d :: r => (i, d) :: enum_docs_from (i + 1) r end.
Definition enum_docs (docs : list (list N)) := enum_docs_from 0 docs.
Definition term_pairs (docs : list (list N)) (t : N) : list (N * N) :=
  concat (map (fun '(i, d) => map (fun p => (i, p)) (offsets_from 0 t d)) (enum_docs docs)).

Lemma term_pairs_tp docs t : term_pairs docs t = tp_from 0 docs t.
Proof.
  unfold term_pairs, enum_docs. generalize 0 at 2 3 as i.
  induction docs as [|d r IH]; intros i; [reflexivity|].
  cbn [enum_docs_from map concat tp_from]. now rewrite IH.
Qed.

Example term_pairs_ex : term_pairs [[1;2;1;3];[];[2];[1;1;2];[]] 1 = [(0,0);(0,2);(3,0);(3,1)].
Proof. vm_compute. reflexivity. Qed.

(* ================= 1. generic list facts ================= *)
Lemma Permutation_filter' {A} (f : A -> bool) l1 l2 : Permutation l1 l2 -> Permutation (filter f l1) (filter f l2).
Proof.
  induction 1 as [|x l l' P IH|x y l|l l' l'' P1 IH1 P2 IH2]; cbn [filter].
  - constructor.
  - destruct (f x); [constructor|]; exact IH.
  - destruct (f x), (f y); try apply Permutation_refl. apply perm_swap.
  - etransitivity; eassumption.
Qed.

Lemma SS_filter {A} (R : A -> A -> Prop) (f : A -> bool) l : StronglySorted R l -> StronglySorted R (filter f l).
Proof.
  induction 1 as [|a l S IH F]; cbn [filter]; [constructor|].
  destruct (f a); [|exact IH]. constructor; [exact IH|]. apply Forall_filter. exact F.
Qed.

Lemma filter_false {A} (f : A -> bool) l : Forall (fun x => f x = false) l -> filter f l = [].
Proof. induction 1 as [|x l H _ IH]; [reflexivity|]. cbn [filter]. now rewrite H. Qed.
Lemma filter_true {A} (f : A -> bool) l : Forall (fun x => f x = true) l -> filter f l = l.
Proof. induction 1 as [|x l H _ IH]; [reflexivity|]. cbn [filter]. now rewrite H, IH. Qed.

Lemma sorted2_app l1 l2 : sorted2 l1 -> sorted2 l2 -> Forall (fun a => Forall (lt2 a) l2) l1 -> sorted2 (l1 ++ l2).
Proof.
  induction l1 as [|a t IH]; intros S1 S2 F; [exact S2|].
  destruct S1 as [Hhd S1]. inversion F as [|? ? Fa Ft]; subst.
  cbn [app sorted2]. split; [|apply IH; assumption].
  destruct t as [|b t'].
  - cbn [app]. destruct l2 as [|c l2']; [exact I|]. inversion Fa; assumption.
  - exact Hhd.
Qed.

Lemma sorted2_SS l : sorted2 l -> StronglySorted kple l.
Proof. intro H. apply Sorted_StronglySorted; [exact kple_transitive|apply sorted2_Sorted; exact H]. Qed.

(* ================= 2. the triple order ================= *)
Definition le3 (x y : N * N * N) : Prop := is_true (TripleOrder.leb x y).
Lemma le3_iff x y : le3 x y <->
  (t_term x < t_term y \/ (t_term x = t_term y /\ (t_doc x < t_doc y \/ (t_doc x = t_doc y /\ t_posn x <= t_posn y)))).
Proof.
  destruct x as [[tx dx] px], y as [[ty dy] py]. unfold le3, is_true, TripleOrder.leb, t_term, t_doc, t_posn.
  cbn [fst snd].
  destruct (N.ltb_spec tx ty); [intuition lia|]. destruct (N.ltb_spec ty tx); [intuition (try discriminate; lia)|].
  destruct (N.ltb_spec dx dy); [intuition lia|]. destruct (N.ltb_spec dy dx); [intuition (try discriminate; lia)|].
  rewrite N.leb_le. intuition lia.
Qed.
Lemma le3_trans : RelationClasses.Transitive le3.
Proof. intros x y z. rewrite !le3_iff. lia. Qed.

Definition dp (x : N * N * N) : N * N := (t_doc x, t_posn x).
Definition tag (t : N) (q : N * N) : N * N * N := (t, fst q, snd q).
Lemma dp_tag t q : dp (tag t q) = q. Proof. destruct q; reflexivity. Qed.
Lemma term_tag t q : t_term (tag t q) = t. Proof. reflexivity. Qed.
Lemma tag_dp x : tag (t_term x) (dp x) = x. Proof. destruct x as [[t d] p]; reflexivity. Qed.
Lemma map_dp_tag t l : map dp (map (tag t) l) = l.
Proof. rewrite map_map. rewrite <- (map_id l) at 2. apply map_ext. intro q. apply dp_tag. Qed.

Lemma sort_props l : StronglySorted le3 (stable_sort_by_term l) /\ Permutation l (stable_sort_by_term l).
Proof.
  split; [|apply TripleSort.Permuted_sort].
  apply Sorted_StronglySorted; [exact le3_trans|]. exact (TripleSort.Sorted_sort l).
Qed.

Lemma SS_same_term t L : StronglySorted le3 L -> Forall (fun x => t_term x = t) L -> StronglySorted kple (map dp L).
Proof.
  induction 1 as [|a L S IH F]; intros Ht; cbn [map]; [constructor|].
  inversion Ht as [|? ? Ha Ht']; subst. constructor; [apply IH; exact Ht'|].
  rewrite Forall_map. rewrite Forall_forall in *. intros y Hy. specialize (F y Hy). specialize (Ht' y Hy).
  apply le3_iff in F. apply kple_iff. unfold dp. cbn [fst snd]. lia.
Qed.

(* ================= 3. runs of equal terms ================= *)
Definition group := (N * list (N * N))%type.
Definition untag (g : group) : list (N * N * N) := map (tag (fst g)) (snd g).
Fixpoint runs (S : list (N * N * N)) : list group :=
  match S with
  | [] => []
  | x :: r =>
      match runs r with
      | (t', l) :: rest => if t_term x =? t' then (t', dp x :: l) :: rest else (t_term x, [dp x]) :: (t', l) :: rest
      | [] => [(t_term x, [dp x])]
      end
  end.

Lemma runs_concat S : concat (map untag (runs S)) = S.
Proof.
  induction S as [|x r IH]; [reflexivity|]. cbn [runs].
  destruct (runs r) as [|[t' l] rest].
  - cbn in IH. subst r. cbn [map concat untag fst snd app]. now rewrite tag_dp.
  - destruct (N.eqb_spec (t_term x) t') as [E|E].
    + rewrite <- IH. cbn [map concat untag fst snd app]. rewrite <- E, tag_dp. reflexivity.
    + rewrite <- IH. cbn [map concat untag fst snd app]. rewrite tag_dp. reflexivity.
Qed.

Lemma runs_head x r : exists l rest, runs (x :: r) = (t_term x, l) :: rest /\ l <> [].
Proof.
  cbn [runs]. destruct (runs r) as [|[t' l] rest]; [eexists _, _; split; [reflexivity|discriminate]|].
  destruct (N.eqb_spec (t_term x) t') as [E|E]; [subst t'|]; eexists _, _; split; try reflexivity; discriminate.
Qed.

Lemma runs_nonempty S : Forall (fun g : group => snd g <> []) (runs S).
Proof.
  induction S as [|x r IH]; [constructor|]. cbn [runs].
  destruct (runs r) as [|[t' l] rest]; [repeat constructor; discriminate|].
  inversion IH; subst.
  destruct (t_term x =? t'); repeat constructor; cbn [snd]; try discriminate; assumption.
Qed.

Lemma runs_keys_sorted S : StronglySorted le3 S -> Sorted N.lt (map fst (runs S)).
Proof.
  induction 1 as [|x r SS IH F]; [constructor|].
  cbn [runs]. destruct r as [|y r'].
  - cbn [runs map fst]. repeat constructor.
  - destruct (runs_head y r') as (l & rest & E & _). rewrite E in *.
    inversion F as [|? ? Fy _]; subst. apply le3_iff in Fy.
    destruct (N.eqb_spec (t_term x) (t_term y)) as [Ee|Ee].
    + cbn [map fst] in *. exact IH.
    + cbn [map fst] in *. constructor; [exact IH|]. constructor. lia.
Qed.

Lemma filter_untag_same t (l : list (N * N)) : filter (fun x => t_term x =? t) (map (tag t) l) = map (tag t) l.
Proof. apply filter_true. rewrite Forall_map. apply Forall_forall. intros q _. cbn [t_term tag fst]. apply N.eqb_refl. Qed.
Lemma filter_untag_other t t' (l : list (N * N)) : t' <> t -> filter (fun x => t_term x =? t) (map (tag t') l) = [].
Proof.
  intro H. apply filter_false. rewrite Forall_map. apply Forall_forall. intros q _. cbn [t_term tag fst].
  apply N.eqb_neq. exact H.
Qed.

Lemma filter_groups_absent t (gs : list group) : ~ In t (map fst gs) ->
  filter (fun x => t_term x =? t) (concat (map untag gs)) = [].
Proof.
  induction gs as [|[t' l'] gs IH]; intros Hn; [reflexivity|].
  cbn [map concat]. rewrite filter_app. unfold untag at 1. cbn [fst snd].
  rewrite filter_untag_other by (intro; subst; apply Hn; left; reflexivity).
  apply IH. intro; apply Hn; right; assumption.
Qed.

Lemma filter_groups t l (gs : list group) : NoDup (map fst gs) -> In (t, l) gs ->
  filter (fun x => t_term x =? t) (concat (map untag gs)) = map (tag t) l.
Proof.
  induction gs as [|[t' l'] gs IH]; intros Hnd Hin; [destruct Hin|].
  cbn [map fst] in Hnd. inversion Hnd as [|? ? Hni Hnd']; subst.
  cbn [map concat]. rewrite filter_app. unfold untag at 1. cbn [fst snd].
  destruct Hin as [E|Hin].
  - inversion E; subst. rewrite filter_untag_same, filter_groups_absent by assumption. apply app_nil_r.
  - assert (t' <> t).
    { intro; subst. apply Hni. apply (in_map fst) in Hin. exact Hin. }
    rewrite filter_untag_other by assumption. apply IH; assumption.
Qed.

Lemma sorted_lt_nodup l : Sorted N.lt l -> NoDup l.
Proof. intro H. apply ss_lt_nodup, sorted_lt_ss, H. Qed.

Lemma map_dp_groups (gs : list group) : map dp (concat (map untag gs)) = concat (map snd gs).
Proof.
  induction gs as [|[t l] gs IH]; [reflexivity|]. cbn [map concat]. rewrite map_app, IH.
  unfold untag. cbn [fst snd]. now rewrite map_dp_tag.
Qed.

(* ================= 4. the gathered triples ================= *)
Lemma gather_false_cons i d r :
  gather false i (d :: r) = map (fun tp => (fst tp, i, snd tp)) (enum_tokens 0 d) ++ gather false (i + 1) r.
Proof. reflexivity. Qed.

Lemma enum_filter i t : forall d j,
  map dp (filter (fun x => t_term x =? t) (map (fun tp : N * N => (fst tp, i, snd tp)) (enum_tokens j d))) =
  map (fun p => (i, p)) (offsets_from j t d).
Proof.
  induction d as [|x d IH]; intros j; [reflexivity|].
  cbn [enum_tokens map filter offsets_from t_term fst snd].
  destruct (x =? t); cbn [map]; now rewrite IH.
Qed.

Lemma gather_filter t : forall docs i,
  map dp (filter (fun x => t_term x =? t) (gather false i docs)) = tp_from i docs t.
Proof.
  induction docs as [|d r IH]; intros i; [reflexivity|].
  rewrite gather_false_cons, filter_app, map_app, enum_filter, IH. reflexivity.
Qed.

Lemma offsets_bounds t : forall d j, Forall (fun p => j <= p /\ p < j + N.of_nat (length d)) (offsets_from j t d).
Proof.
  induction d as [|x d IH]; intros j; [constructor|]. cbn [offsets_from length].
  assert (F : Forall (fun p => j <= p /\ p < j + N.of_nat (S (length d))) (offsets_from (j + 1) t d)).
  { eapply Forall_impl; [|apply IH]. cbn beta. intros p Hp. lia. }
  destruct (x =? t); [constructor; [lia|]|]; exact F.
Qed.

Lemma offsets_sorted t i : forall d j, sorted2 (map (fun p => (i, p)) (offsets_from j t d)).
Proof.
  induction d as [|x d IH]; intros j; [exact I|]. cbn [offsets_from].
  destruct (x =? t); [|apply IH]. cbn [map sorted2]. split; [|apply IH].
  pose proof (offsets_bounds t d (j + 1)) as B.
  destruct (offsets_from (j + 1) t d) as [|q qs]; [exact I|]. cbn [map].
  inversion B; subst. right. cbn [fst snd]. split; [reflexivity|lia].
Qed.

Lemma tp_keys t : forall docs i,
  Forall (fun kp => i <= fst kp /\ fst kp < i + N.of_nat (length docs)) (tp_from i docs t).
Proof.
  induction docs as [|d r IH]; intros i; [constructor|]. cbn [tp_from length]. apply Forall_app. split.
  - rewrite Forall_map. apply Forall_forall. intros p _. cbn [fst]. lia.
  - eapply Forall_impl; [|apply IH]. cbn beta. intros kp H. lia.
Qed.

Lemma tp_sorted t : forall docs i, sorted2 (tp_from i docs t).
Proof.
  induction docs as [|d r IH]; intros i; [exact I|]. cbn [tp_from].
  apply sorted2_app; [apply offsets_sorted|apply IH|].
  rewrite Forall_map. apply Forall_forall. intros p _.
  eapply Forall_impl; [|apply (tp_keys t r (i + 1))]. cbn beta. intros kp H. left. cbn [fst]. lia.
Qed.

Definition short_docs (docs : list (list N)) : Prop := Forall (fun d => N.of_nat (length d) <= 262143) docs.

Lemma tp_bounded t : forall docs i, short_docs docs -> i + N.of_nat (length docs) <= 2 ^ 28 -> bounded (tp_from i docs t).
Proof.
  unfold bounded. induction docs as [|d r IH]; intros i Hs Hn; [constructor|]. cbn [tp_from].
  inversion Hs as [|? ? Hd Hr]; subst. cbn [length] in Hn. apply Forall_app. split.
  - rewrite Forall_map. eapply Forall_impl; [|apply (offsets_bounds t d 0)]. cbn beta. intros p Hp.
    cbn [fst snd]. pows. lia.
  - apply IH; [exact Hr|lia].
Qed.

Lemma offsets_nil_iff t : forall d j, offsets_from j t d = [] <-> ~ In t d.
Proof.
  induction d as [|x d IH]; intros j; cbn [offsets_from In]; [tauto|].
  destruct (N.eqb_spec x t) as [E|E].
  - split; [discriminate|]. intro H. exfalso. apply H. left. exact E.
  - rewrite IH. tauto.
Qed.

Lemma tp_nil_iff t : forall docs i, tp_from i docs t = [] <-> ~ In t (concat docs).
Proof.
  induction docs as [|d r IH]; intros i; cbn [tp_from concat]; [cbn; tauto|].
  rewrite in_app_iff. split.
  - intro H. apply app_eq_nil in H. destruct H as [H1 H2]. apply map_eq_nil in H1.
    apply offsets_nil_iff in H1. apply IH in H2. tauto.
  - intro H. assert (H1 : ~ In t d) by tauto. assert (H2 : ~ In t (concat r)) by tauto.
    apply (offsets_nil_iff t d 0) in H1. apply (IH (i + 1)) in H2. now rewrite H1, H2.
Qed.

Lemma gather_length : forall docs i, length (gather false i docs) = length (concat docs).
Proof.
  induction docs as [|d r IH]; intros i; [reflexivity|].
  rewrite gather_false_cons. cbn [concat]. rewrite !app_length, map_length, IH. f_equal.
  generalize 0. induction d as [|x d IHd]; intros j; [reflexivity|]. cbn [enum_tokens length]. now rewrite IHd.
Qed.

Lemma concat_length_bound docs : short_docs docs ->
  N.of_nat (length (concat docs)) <= 262143 * N.of_nat (length docs).
Proof.
  induction 1 as [|d r Hd _ IH]; [cbn; lia|]. cbn [concat length]. rewrite app_length. lia.
Qed.
