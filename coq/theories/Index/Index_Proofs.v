(* C01 / C02 / C05, part 1: what one build_batch call stores.
   - the flat (term, doc, posn) triples of `gather`, sorted by TripleSort, fall into one run per term, in
     increasing term order, the run of t being  tp_from beg batch t  (all (doc, offset) occurrences of t);
   - term_starts / take_idx / encode_b / slices_by_bounds then give  (t, encode_spec (tp_from beg batch t))  per term;
   - compute_doc_lens gives lens_spec.
   Everything is stated for an arbitrary batch_beg so that the batching proof (Index_Proofs3) can reuse it. *)
From Coq Require Import Sorted Permutation Mergesort.
From SA Require Import Base.Prelude Kernels.Spec Kernels.Linear Kernels.Linear_Proofs
  Codec.Codec Codec.Codec_Spec Codec.Codec_Proofs Codec.Codec_Proofs2 Index.Index Index.Index_Spec.
Open Scope N_scope.

(* ================= 0. statements' vocabulary ================= *)
(* (doc id, offset) of every occurrence of t in the documents numbered i, i+1, ... *)
Fixpoint tp_from (i : N) (docs : list (list N)) (t : N) : list (N * N) :=
  match docs with
  | [] => []
  | d :: r => map (fun p => (i, p)) (offsets_from 0 t d) ++ tp_from (i + 1) r t
  end.
Fixpoint enum_docs_from (i : N) (docs : list (list N)) : list (N * list N) :=
  match docs with [] => [] | d :: r => (i, d) :: enum_docs_from (i + 1) r end.
Definition enum_docs (docs : list (list N)) := enum_docs_from 0 docs.
Definition term_pairs (docs : list (list N)) (t : N) : list (N * N) :=
  concat (map (fun '(i, d) => map (fun p => (i, p)) (offsets_from 0 t d)) (enum_docs docs)).

Lemma term_pairs_tp docs t : term_pairs docs t = tp_from 0 docs t.
Proof.
  unfold term_pairs, enum_docs. generalize 0 at 2 3 as i.
  induction docs as [|d r IH]; intros i; [reflexivity|].
  cbn [enum_docs_from map concat tp_from]. now rewrite IH.
Qed.

Example term_pairs_ex : term_pairs [[1;2;1;3];[];[2];[1;1;2];[]] 1 = [(0,0);(0,2);(3,0);(3,1)].
Proof. vm_compute. reflexivity. Qed.

(* ================= 1. generic list facts ================= *)
Lemma Permutation_filter' {A} (f : A -> bool) l1 l2 : Permutation l1 l2 -> Permutation (filter f l1) (filter f l2).
Proof.
  induction 1 as [|x l l' P IH|x y l|l l' l'' P1 IH1 P2 IH2]; cbn [filter].
  - constructor.
  - destruct (f x); [constructor|]; exact IH.
  - destruct (f x), (f y); try apply Permutation_refl. apply perm_swap.
  - etransitivity; eassumption.
Qed.

Lemma SS_filter {A} (R : A -> A -> Prop) (f : A -> bool) l : StronglySorted R l -> StronglySorted R (filter f l).
Proof.
  induction 1 as [|a l S IH F]; cbn [filter]; [constructor|].
  destruct (f a); [|exact IH]. constructor; [exact IH|]. apply Forall_filter. exact F.
Qed.

Lemma filter_false {A} (f : A -> bool) l : Forall (fun x => f x = false) l -> filter f l = [].
Proof. induction 1 as [|x l H _ IH]; [reflexivity|]. cbn [filter]. now rewrite H. Qed.
Lemma filter_true {A} (f : A -> bool) l : Forall (fun x => f x = true) l -> filter f l = l.
Proof. induction 1 as [|x l H _ IH]; [reflexivity|]. cbn [filter]. now rewrite H, IH. Qed.

Lemma sorted2_app l1 l2 : sorted2 l1 -> sorted2 l2 -> Forall (fun a => Forall (lt2 a) l2) l1 -> sorted2 (l1 ++ l2).
Proof.
  induction l1 as [|a t IH]; intros S1 S2 F; [exact S2|].
  destruct S1 as [Hhd S1]. inversion F as [|? ? Fa Ft]; subst.
  cbn [app sorted2]. split; [|apply IH; assumption].
  destruct t as [|b t'].
  - cbn [app]. destruct l2 as [|c l2']; [exact I|]. inversion Fa; assumption.
  - exact Hhd.
Qed.

Lemma sorted2_SS l : sorted2 l -> StronglySorted kple l.
Proof. intro H. apply Sorted_StronglySorted; [exact kple_transitive|apply sorted2_Sorted; exact H]. Qed.

(* ================= 2. the triple order ================= *)
Definition le3 (x y : N * N * N) : Prop := is_true (TripleOrder.leb x y).
Lemma le3_iff x y : le3 x y <->
  (t_term x < t_term y \/ (t_term x = t_term y /\ (t_doc x < t_doc y \/ (t_doc x = t_doc y /\ t_posn x <= t_posn y)))).
Proof.
  destruct x as [[tx dx] px], y as [[ty dy] py]. unfold le3, is_true, TripleOrder.leb, t_term, t_doc, t_posn.
  cbn [fst snd].
  destruct (N.ltb_spec tx ty); [intuition lia|]. destruct (N.ltb_spec ty tx); [intuition (try discriminate; lia)|].
  destruct (N.ltb_spec dx dy); [intuition lia|]. destruct (N.ltb_spec dy dx); [intuition (try discriminate; lia)|].
  rewrite N.leb_le. intuition lia.
Qed.
Lemma le3_trans : RelationClasses.Transitive le3.
Proof. intros x y z. rewrite !le3_iff. lia. Qed.

Definition dp (x : N * N * N) : N * N := (t_doc x, t_posn x).
Definition tag (t : N) (q : N * N) : N * N * N := (t, fst q, snd q).
Lemma dp_tag t q : dp (tag t q) = q. Proof. destruct q; reflexivity. Qed.
Lemma term_tag t q : t_term (tag t q) = t. Proof. reflexivity. Qed.
Lemma tag_dp x : tag (t_term x) (dp x) = x. Proof. destruct x as [[t d] p]; reflexivity. Qed.
Lemma map_dp_tag t l : map dp (map (tag t) l) = l.
Proof. rewrite map_map. rewrite <- (map_id l) at 2. apply map_ext. intro q. apply dp_tag. Qed.

Lemma sort_props l : StronglySorted le3 (stable_sort_by_term l) /\ Permutation l (stable_sort_by_term l).
Proof.
  split; [|apply TripleSort.Permuted_sort].
  apply Sorted_StronglySorted; [exact le3_trans|]. exact (TripleSort.Sorted_sort l).
Qed.

Lemma SS_same_term t L : StronglySorted le3 L -> Forall (fun x => t_term x = t) L -> StronglySorted kple (map dp L).
Proof.
  induction 1 as [|a L S IH F]; intros Ht; cbn [map]; [constructor|].
  inversion Ht as [|? ? Ha Ht']; subst. constructor; [apply IH; exact Ht'|].
  rewrite Forall_map. rewrite Forall_forall in *. intros y Hy. specialize (F y Hy). specialize (Ht' y Hy).
  apply le3_iff in F. apply kple_iff. unfold dp. cbn [fst snd]. lia.
Qed.

(* ================= 3. runs of equal terms ================= *)
Definition group := (N * list (N * N))%type.
Definition untag (g : group) : list (N * N * N) := map (tag (fst g)) (snd g).
Fixpoint runs (S : list (N * N * N)) : list group :=
  match S with
  | [] => []
  | x :: r =>
      match runs r with
      | (t', l) :: rest => if t_term x =? t' then (t', dp x :: l) :: rest else (t_term x, [dp x]) :: (t', l) :: rest
      | [] => [(t_term x, [dp x])]
      end
  end.

Lemma runs_concat S : concat (map untag (runs S)) = S.
Proof.
  induction S as [|x r IH]; [reflexivity|]. cbn [runs].
  destruct (runs r) as [|[t' l] rest].
  - cbn in IH. subst r. cbn [map concat untag fst snd app]. now rewrite tag_dp.
  - destruct (N.eqb_spec (t_term x) t') as [E|E].
    + rewrite <- IH. cbn [map concat untag fst snd app]. rewrite <- E, tag_dp. reflexivity.
    + rewrite <- IH. cbn [map concat untag fst snd app]. rewrite tag_dp. reflexivity.
Qed.

Lemma runs_head x r : exists l rest, runs (x :: r) = (t_term x, l) :: rest /\ l <> [].
Proof.
  cbn [runs]. destruct (runs r) as [|[t' l] rest]; [eexists _, _; split; [reflexivity|discriminate]|].
  destruct (N.eqb_spec (t_term x) t') as [E|E]; [subst t'|]; eexists _, _; split; try reflexivity; discriminate.
Qed.

Lemma runs_nonempty S : Forall (fun g : group => snd g <> []) (runs S).
Proof.
  induction S as [|x r IH]; [constructor|]. cbn [runs].
  destruct (runs r) as [|[t' l] rest]; [repeat constructor; discriminate|].
  inversion IH; subst.
  destruct (t_term x =? t'); repeat constructor; cbn [snd]; try discriminate; assumption.
Qed.

Lemma runs_keys_sorted S : StronglySorted le3 S -> Sorted N.lt (map fst (runs S)).
Proof.
  induction 1 as [|x r SS IH F]; [constructor|].
  cbn [runs]. destruct r as [|y r'].
  - cbn [runs map fst]. repeat constructor.
  - destruct (runs_head y r') as (l & rest & E & _). rewrite E in *.
    inversion F as [|? ? Fy _]; subst. apply le3_iff in Fy.
    destruct (N.eqb_spec (t_term x) (t_term y)) as [Ee|Ee].
    + cbn [map fst] in *. exact IH.
    + cbn [map fst] in *. constructor; [exact IH|]. constructor. lia.
Qed.

Lemma filter_untag_same t (l : list (N * N)) : filter (fun x => t_term x =? t) (map (tag t) l) = map (tag t) l.
Proof. apply filter_true. rewrite Forall_map. apply Forall_forall. intros q _. cbn [t_term tag fst]. apply N.eqb_refl. Qed.
Lemma filter_untag_other t t' (l : list (N * N)) : t' <> t -> filter (fun x => t_term x =? t) (map (tag t') l) = [].
Proof.
  intro H. apply filter_false. rewrite Forall_map. apply Forall_forall. intros q _. cbn [t_term tag fst].
  apply N.eqb_neq. exact H.
Qed.

Lemma filter_groups_absent t (gs : list group) : ~ In t (map fst gs) ->
  filter (fun x => t_term x =? t) (concat (map untag gs)) = [].
Proof.
  induction gs as [|[t' l'] gs IH]; intros Hn; [reflexivity|].
  cbn [map concat]. rewrite filter_app. unfold untag at 1. cbn [fst snd].
  rewrite filter_untag_other by (intro; subst; apply Hn; left; reflexivity).
  apply IH. intro; apply Hn; right; assumption.
Qed.

Lemma filter_groups t l (gs : list group) : NoDup (map fst gs) -> In (t, l) gs ->
  filter (fun x => t_term x =? t) (concat (map untag gs)) = map (tag t) l.
Proof.
  induction gs as [|[t' l'] gs IH]; intros Hnd Hin; [destruct Hin|].
  cbn [map fst] in Hnd. inversion Hnd as [|? ? Hni Hnd']; subst.
  cbn [map concat]. rewrite filter_app. unfold untag at 1. cbn [fst snd].
  destruct Hin as [E|Hin].
  - inversion E; subst. rewrite filter_untag_same, filter_groups_absent by assumption. apply app_nil_r.
  - assert (t' <> t).
    { intro; subst. apply Hni. apply (in_map fst) in Hin. exact Hin. }
    rewrite filter_untag_other by assumption. apply IH; assumption.
Qed.

Lemma sorted_lt_nodup l : Sorted N.lt l -> NoDup l.
Proof. intro H. apply ss_lt_nodup, sorted_lt_ss, H. Qed.

Lemma map_dp_groups (gs : list group) : map dp (concat (map untag gs)) = concat (map snd gs).
Proof.
  induction gs as [|[t l] gs IH]; [reflexivity|]. cbn [map concat]. rewrite map_app, IH.
  unfold untag. cbn [fst snd]. now rewrite map_dp_tag.
Qed.

(* ================= 4. the gathered triples ================= *)
Lemma gather_false_cons i d r :
  gather false i (d :: r) = map (fun tp => (fst tp, i, snd tp)) (enum_tokens 0 d) ++ gather false (i + 1) r.
Proof. reflexivity. Qed.

Lemma enum_filter i t : forall d j,
  map dp (filter (fun x => t_term x =? t) (map (fun tp : N * N => (fst tp, i, snd tp)) (enum_tokens j d))) =
  map (fun p => (i, p)) (offsets_from j t d).
Proof.
  induction d as [|x d IH]; intros j; [reflexivity|].
  cbn [enum_tokens map filter offsets_from t_term fst snd].
  destruct (x =? t); cbn [map]; now rewrite IH.
Qed.

Lemma gather_filter t : forall docs i,
  map dp (filter (fun x => t_term x =? t) (gather false i docs)) = tp_from i docs t.
Proof.
  induction docs as [|d r IH]; intros i; [reflexivity|].
  rewrite gather_false_cons, filter_app, map_app, enum_filter, IH. reflexivity.
Qed.

Lemma offsets_bounds t : forall d j, Forall (fun p => j <= p /\ p < j + N.of_nat (length d)) (offsets_from j t d).
Proof.
  induction d as [|x d IH]; intros j; [constructor|]. cbn [offsets_from length].
  assert (F : Forall (fun p => j <= p /\ p < j + N.of_nat (S (length d))) (offsets_from (j + 1) t d)).
  { eapply Forall_impl; [|apply IH]. cbn beta. intros p Hp. lia. }
  destruct (x =? t); [constructor; [lia|]|]; exact F.
Qed.

Lemma offsets_sorted t i : forall d j, sorted2 (map (fun p => (i, p)) (offsets_from j t d)).
Proof.
  induction d as [|x d IH]; intros j; [exact I|]. cbn [offsets_from].
  destruct (x =? t); [|apply IH]. cbn [map sorted2]. split; [|apply IH].
  pose proof (offsets_bounds t d (j + 1)) as B.
  destruct (offsets_from (j + 1) t d) as [|q qs]; [exact I|]. cbn [map].
  inversion B; subst. right. cbn [fst snd]. split; [reflexivity|lia].
Qed.

Lemma tp_keys t : forall docs i,
  Forall (fun kp => i <= fst kp /\ fst kp < i + N.of_nat (length docs)) (tp_from i docs t).
Proof.
  induction docs as [|d r IH]; intros i; [constructor|]. cbn [tp_from length]. apply Forall_app. split.
  - rewrite Forall_map. apply Forall_forall. intros p _. cbn [fst]. lia.
  - eapply Forall_impl; [|apply IH]. cbn beta. intros kp H. lia.
Qed.

Lemma tp_sorted t : forall docs i, sorted2 (tp_from i docs t).
Proof.
  induction docs as [|d r IH]; intros i; [exact I|]. cbn [tp_from].
  apply sorted2_app; [apply offsets_sorted|apply IH|].
  rewrite Forall_map. apply Forall_forall. intros p _.
  eapply Forall_impl; [|apply (tp_keys t r (i + 1))]. cbn beta. intros kp H. left. cbn [fst]. lia.
Qed.

Definition short_docs (docs : list (list N)) : Prop := Forall (fun d => N.of_nat (length d) <= 262143) docs.

Lemma tp_bounded t : forall docs i, short_docs docs -> i + N.of_nat (length docs) <= 2 ^ 28 -> bounded (tp_from i docs t).
Proof.
  unfold bounded. induction docs as [|d r IH]; intros i Hs Hn; [constructor|]. cbn [tp_from].
  inversion Hs as [|? ? Hd Hr]; subst. cbn [length] in Hn. apply Forall_app. split.
  - rewrite Forall_map. eapply Forall_impl; [|apply (offsets_bounds t d 0)]. cbn beta. intros p Hp.
    cbn [fst snd]. pows. lia.
  - apply IH; [exact Hr|lia].
Qed.

Lemma offsets_nil_iff t : forall d j, offsets_from j t d = [] <-> ~ In t d.
Proof.
  induction d as [|x d IH]; intros j; cbn [offsets_from In]; [tauto|].
  destruct (N.eqb_spec x t) as [E|E].
  - split; [discriminate|]. intro H. exfalso. apply H. left. exact E.
  - rewrite IH. tauto.
Qed.

Lemma tp_nil_iff t : forall docs i, tp_from i docs t = [] <-> ~ In t (concat docs).
Proof.
  induction docs as [|d r IH]; intros i; cbn [tp_from concat]; [cbn; tauto|].
  rewrite in_app_iff. split.
  - intro H. apply app_eq_nil in H. destruct H as [H1 H2]. apply map_eq_nil in H1.
    apply offsets_nil_iff in H1. apply IH in H2. tauto.
  - intro H. assert (H1 : ~ In t d) by tauto. assert (H2 : ~ In t (concat r)) by tauto.
    apply (offsets_nil_iff t d 0) in H1. apply (IH (i + 1)) in H2. now rewrite H1, H2.
Qed.

Lemma gather_length : forall docs i, length (gather false i docs) = length (concat docs).
Proof.
  induction docs as [|d r IH]; intros i; [reflexivity|].
  rewrite gather_false_cons. cbn [concat]. rewrite !app_length, map_length, IH. f_equal.
  generalize 0. induction d as [|x d IHd]; intros j; [reflexivity|]. cbn [enum_tokens length]. now rewrite IHd.
Qed.

Lemma concat_length_bound docs : short_docs docs ->
  N.of_nat (length (concat docs)) <= 262143 * N.of_nat (length docs).
Proof.
  induction 1 as [|d r Hd _ IH]; [cbn; lia|]. cbn [concat length]. rewrite app_length. lia.
Qed.

(* ================= 5. the runs of the sorted triples are the per-term occurrence lists ================= *)
Section SortedRuns.
Variables (beg : N) (docs : list (list N)).
Let flat := gather false beg docs.
Let S := stable_sort_by_term flat.

Lemma run_is_tp t l : In (t, l) (runs S) -> l = tp_from beg docs t.
Proof.
  intro Hin. destruct (sort_props flat) as [SS P]. fold S in SS, P.
  pose proof (runs_keys_sorted S SS) as K. apply sorted_lt_nodup in K.
  pose proof (filter_groups t l (runs S) K Hin) as F. rewrite runs_concat in F.
  assert (El : l = map dp (filter (fun x => t_term x =? t) S)) by (rewrite F; symmetry; apply map_dp_tag).
  symmetry. rewrite El. apply sorted_perm_eq.
  - apply sorted2_SS, tp_sorted.
  - apply (SS_same_term t); [apply SS_filter; exact SS|].
    apply Forall_forall. intros x Hx. apply filter_In in Hx. destruct Hx as [_ Hx]. apply N.eqb_eq. exact Hx.
  - unfold flat in P. rewrite <- (gather_filter t docs beg).
    apply Permutation_map, Permutation_filter'. exact P.
Qed.

Lemma runs_eq : runs S = map (fun t => (t, tp_from beg docs t)) (map fst (runs S)).
Proof.
  rewrite map_map. rewrite <- (map_id (runs S)) at 1. apply map_ext_in.
  intros [t l] Hin. cbn [fst]. f_equal. apply run_is_tp. exact Hin.
Qed.

Lemma run_keys t : In t (map fst (runs S)) <-> In t (concat docs).
Proof.
  split.
  - intro H. apply in_map_iff in H. destruct H as ([t' l] & E & Hin). cbn [fst] in E. subst t'.
    pose proof (run_is_tp t l Hin) as El.
    pose proof (runs_nonempty S) as Hne. rewrite Forall_forall in Hne. specialize (Hne _ Hin). cbn [snd] in Hne.
    destruct (in_dec N.eq_dec t (concat docs)) as [Hi|Hn]; [exact Hi|].
    exfalso. apply Hne. rewrite El. apply tp_nil_iff. exact Hn.
  - intro H. destruct (in_dec N.eq_dec t (map fst (runs S))) as [Hi|Hn]; [exact Hi|]. exfalso.
    pose proof (filter_groups_absent t (runs S) Hn) as F. rewrite runs_concat in F.
    destruct (sort_props flat) as [_ P]. fold S in P.
    pose proof (Permutation_filter' (fun x => t_term x =? t) _ _ P) as PF. rewrite F in PF.
    apply Permutation_sym, Permutation_nil in PF.
    apply (f_equal (map dp)) in PF. unfold flat in PF. rewrite gather_filter in PF. cbn [map] in PF.
    apply tp_nil_iff in PF. contradiction.
Qed.
End SortedRuns.

(* ================= 6. term_starts / take_idx / slices_by_bounds on grouped data ================= *)
Definition termcol (gs : list group) : list N := map t_term (concat (map untag gs)).

Lemma termcol_cons t l gs : termcol ((t, l) :: gs) = repeat t (length l) ++ termcol gs.
Proof.
  unfold termcol. cbn [map concat]. rewrite map_app. f_equal. unfold untag. cbn [fst snd].
  induction l as [|q l IH]; [reflexivity|]. cbn [map length repeat]. now rewrite IH.
Qed.

Lemma tsf_cons2 i x y t :
  term_starts_from i (x :: y :: t) =
  if x <? y then (i + 1) :: term_starts_from (i + 1) (y :: t) else term_starts_from (i + 1) (y :: t).
Proof. reflexivity. Qed.

Lemma tsf_run_end t : forall n off, term_starts_from off (repeat t n) = [].
Proof.
  induction n as [|n IH]; intros off; [reflexivity|]. destruct n as [|n]; [reflexivity|].
  change (repeat t (S (S n))) with (t :: t :: repeat t n). rewrite tsf_cons2, N.ltb_irrefl. apply (IH (off + 1)).
Qed.

Lemma tsf_run t y rest : t < y -> forall n off, n <> O ->
  term_starts_from off (repeat t n ++ y :: rest) = (off + N.of_nat n) :: term_starts_from (off + N.of_nat n) (y :: rest).
Proof.
  intros Hty. induction n as [|n IH]; intros off Hn; [congruence|]. destruct n as [|n].
  - change (repeat t 1 ++ y :: rest) with (t :: y :: rest). rewrite tsf_cons2.
    replace (t <? y) with true by (symmetry; apply N.ltb_lt; exact Hty).
    replace (off + N.of_nat 1) with (off + 1) by lia. reflexivity.
  - change (repeat t (S (S n)) ++ y :: rest) with (t :: t :: (repeat t n ++ y :: rest)).
    rewrite tsf_cons2, N.ltb_irrefl.
    change (t :: repeat t n ++ y :: rest) with (repeat t (S n) ++ y :: rest).
    rewrite IH by discriminate. replace (off + 1 + N.of_nat (S n)) with (off + N.of_nat (S (S n))) by lia. reflexivity.
Qed.

Lemma termcol_head t q l gs : termcol ((t, q :: l) :: gs) = t :: (repeat t (length l) ++ termcol gs).
Proof. rewrite termcol_cons. reflexivity. Qed.

Lemma tsf_groups : forall (gs : list group) off, gs <> [] ->
  Forall (fun g : group => snd g <> []) gs -> Sorted N.lt (map fst gs) ->
  off :: term_starts_from off (termcol gs) = ST off (map snd gs).
Proof.
  induction gs as [|[t l] gs IH]; intros off Hne Hn Hs; [congruence|].
  inversion Hn as [|? ? Hl Hn']; subst. cbn [snd] in Hl. cbn [map snd ST]. f_equal.
  rewrite termcol_cons. destruct gs as [|[t' l'] gs'].
  - unfold termcol. cbn [map concat ST]. rewrite app_nil_r. apply tsf_run_end.
  - inversion Hn' as [|? ? Hl' _]; subst. cbn [snd] in Hl'. destruct l' as [|q' l']; [congruence|].
    cbn [map fst] in Hs. inversion Hs as [|? ? Hs' Hhd]; subst. inversion Hhd; subst.
    rewrite termcol_head.
    assert (Hln : length l <> O) by (destruct l; [congruence|discriminate]).
    rewrite (tsf_run t t' _ H0 _ _ Hln).
    rewrite <- (termcol_head t' q' l' gs'). apply IH; [discriminate|assumption|assumption].
Qed.

Lemma take_idx_groups : forall (gs : list group) pre, Forall (fun g : group => snd g <> []) gs ->
  take_idx (pre ++ termcol gs) (ST (N.of_nat (length pre)) (map snd gs)) = map fst gs.
Proof.
  induction gs as [|[t l] gs IH]; intros pre Hn; [reflexivity|].
  inversion Hn as [|? ? Hl Hn']; subst. cbn [snd] in Hl. cbn [map snd fst ST]. rewrite take_idx_cons. f_equal.
  - rewrite Nat2N.id, app_nth2 by lia. rewrite Nat.sub_diag. destruct l as [|q l]; [congruence|].
    rewrite termcol_head. reflexivity.
  - rewrite termcol_cons, app_assoc. specialize (IH (pre ++ repeat t (length l)) Hn').
    rewrite app_length, repeat_length, Nat2N.inj_add in IH. exact IH.
Qed.

Lemma prefix_sums_head acc l : exists tl, prefix_sums acc l = acc :: tl.
Proof. destruct l; eexists; reflexivity. Qed.

Lemma slices_concat : forall (ws : list (list N)) ids pre, length ids = length ws ->
  slices_by_bounds (pre ++ concat ws) ids (prefix_sums (N.of_nat (length pre)) (map (fun w => N.of_nat (length w)) ws))
  = combine ids ws.
Proof.
  induction ws as [|w ws IH]; intros ids pre Hl.
  - destruct ids; [reflexivity|discriminate].
  - destruct ids as [|id ids]; [discriminate|]. cbn [length] in Hl. cbn [map prefix_sums combine].
    destruct (prefix_sums_head (N.of_nat (length pre) + N.of_nat (length w)) (map (fun w => N.of_nat (length w)) ws)) as [tl E].
    rewrite E. cbn [slices_by_bounds]. rewrite <- E. f_equal.
    + f_equal. unfold slice_nat. rewrite <- Nat2N.inj_add, !Nat2N.id.
      replace (length pre + length w - length pre)%nat with (length w) by lia.
      rewrite skipn_app_len. cbn [concat]. apply firstn_app_len.
    + specialize (IH ids (pre ++ w)). rewrite app_length, Nat2N.inj_add in IH. cbn [concat].
      rewrite app_assoc. apply IH. lia.
Qed.

Lemma lookup_map_keys {A} (f : N -> A) t : forall ts,
  lookup t (map (fun k => (k, f k)) ts) = if mem_n t ts then Some (f t) else None.
Proof.
  induction ts as [|k ts IH]; [reflexivity|]. cbn [map lookup mem_n existsb].
  destruct (N.eqb_spec t k) as [->|Hne]; [reflexivity|]. exact IH.
Qed.

Lemma mem_n_in t l : mem_n t l = true <-> In t l.
Proof.
  unfold mem_n. rewrite existsb_exists. split.
  - intros (x & Hx & E). apply N.eqb_eq in E. now subst.
  - intro H. exists t. split; [exact H|apply N.eqb_refl].
Qed.

(* ================= 7. the postings of one batch ================= *)
Lemma MAX_POSN_val : MAX_POSN = 262143. Proof. reflexivity. Qed.

Lemma encode_b_empty : encode_b [] [] [0] = Done ([], [0; 1]).
Proof. vm_compute. reflexivity. Qed.

Definition batch_posts (beg : N) (docs : list (list N)) (ts : list N) : list (N * list N) :=
  map (fun t => (t, encode_spec (tp_from beg docs t))) ts.

Lemma batch_posts_gen beg docs : short_docs docs -> beg + N.of_nat (length docs) <= 2 ^ 28 ->
  let sorted := stable_sort_by_term (gather false beg docs) in
  exists ts, Sorted N.lt ts /\ (forall t, In t ts <-> In t (concat docs)) /\
    exists nb,
    encode_b (map t_doc sorted) (map t_posn sorted) (term_starts (map t_term sorted)) =
      Done (concat (map (fun t => encode_spec (tp_from beg docs t)) ts), nb) /\
    match concat (map (fun t => encode_spec (tp_from beg docs t)) ts) with
    | [] => []
    | _ :: _ => slices_by_bounds (concat (map (fun t => encode_spec (tp_from beg docs t)) ts))
                  (take_idx (map t_term sorted) (term_starts (map t_term sorted))) nb
    end = batch_posts beg docs ts.
Proof.
  intros Hs Hn sorted.
  destruct (sort_props (gather false beg docs)) as [SS P]. fold sorted in SS, P.
  set (gs := runs sorted). set (ts := map fst gs).
  assert (K : Sorted N.lt ts) by (apply runs_keys_sorted; exact SS).
  assert (Hkeys : forall t, In t ts <-> In t (concat docs)) by (intro t; apply run_keys).
  assert (Egs : gs = map (fun t => (t, tp_from beg docs t)) ts) by apply runs_eq.
  assert (ES : sorted = concat (map untag gs)) by (symmetry; apply runs_concat).
  assert (Hne : Forall (fun g : group => snd g <> []) gs) by apply runs_nonempty.
  exists ts. split; [exact K|]. split; [exact Hkeys|].
  assert (Ets : map fst gs = ts) by reflexivity.
  clearbody ts. clearbody gs. clearbody sorted.
  assert (Hcase : gs = [] \/ gs <> []) by (destruct gs; [left; reflexivity|right; discriminate]).
  destruct Hcase as [Eg|Hgs].
  - (* no tokens at all *)
    rewrite Eg in Ets. cbn [map] in Ets. subst ts.
    rewrite Eg in ES. cbn [map concat] in ES. rewrite ES.
    cbn [map concat term_starts term_starts_from].
    exists [0; 1]. split; [exact encode_b_empty|reflexivity].
  - set (segs := map snd gs).
    assert (Esegs : segs = map (fun t => tp_from beg docs t) ts).
    { unfold segs. rewrite Egs at 1. rewrite map_map. reflexivity. }
    assert (Hcols : map dp sorted = concat segs) by (rewrite ES; apply map_dp_groups).
    assert (Hd : map t_doc sorted = map fst (concat segs)).
    { rewrite <- Hcols, map_map. reflexivity. }
    assert (Hp : map t_posn sorted = map snd (concat segs)).
    { rewrite <- Hcols, map_map. reflexivity. }
    assert (Hst : term_starts (map t_term sorted) = starts segs).
    { rewrite starts_ST. unfold term_starts. rewrite ES. apply (tsf_groups gs 0); try assumption. rewrite Ets. exact K. }
    assert (Hsegs : Forall (fun s => sorted2 s /\ bounded s /\ s <> []) segs).
    { rewrite Esegs at 1. rewrite Forall_map. apply Forall_forall. intros t Ht. split; [apply tp_sorted|].
      split; [apply tp_bounded; assumption|]. rewrite tp_nil_iff. intro Hc. apply Hc. apply Hkeys. exact Ht. }
    assert (Hlen : N.of_nat (length (concat segs)) < 2 ^ 62).
    { rewrite <- Hcols, map_length. rewrite <- (Permutation_length P), gather_length.
      pose proof (concat_length_bound docs Hs). rewrite pow62. pows. nia. }
    assert (Hsne : segs <> []) by (unfold segs; destruct gs; [congruence|discriminate]).
    pose proof (encode_b_correct segs Hsegs Hsne Hlen) as EB. cbn zeta in EB.
    rewrite Hd, Hp, Hst, EB. unfold boundaries_spec.
    assert (Eenc : map encode_spec segs = map (fun t => encode_spec (tp_from beg docs t)) ts).
    { rewrite Esegs, map_map. reflexivity. }
    rewrite Eenc. eexists. split; [reflexivity|].
    assert (Hids : take_idx (map t_term sorted) (starts segs) = ts).
    { rewrite starts_ST, ES, <- Ets. apply (take_idx_groups gs []). exact Hne. }
    rewrite Hids.
    assert (Hsl : slices_by_bounds (concat (map (fun t => encode_spec (tp_from beg docs t)) ts)) ts
               (prefix_sums 0 (map (fun s => N.of_nat (length (encode_spec s))) segs)) = batch_posts beg docs ts).
    { pose proof (slices_concat (map (fun t => encode_spec (tp_from beg docs t)) ts) ts []) as SL.
      cbn [app length] in SL. change (N.of_nat 0) with 0 in SL. rewrite map_map in SL.
      rewrite Esegs, map_map. rewrite SL by (now rewrite map_length).
      unfold batch_posts. clear. induction ts as [|t ts IH]; [reflexivity|]. cbn [map combine]. now rewrite IH. }
    destruct (concat (map (fun t => encode_spec (tp_from beg docs t)) ts)) eqn:Ec in |- * at 1; [|exact Hsl].
    exfalso. destruct ts as [|t0 ts0]; [apply Hgs; rewrite Egs; reflexivity|].
    cbn [map concat] in Ec. apply app_eq_nil in Ec. destruct Ec as [Ec _].
    revert Ec. apply encode_spec_nonempty. rewrite tp_nil_iff. intro Hc. apply Hc, Hkeys. left. reflexivity.
Qed.

(* ================= 8. document lengths: the -diff(posns)+1 scan ================= *)
Fixpoint flatP (docs : list (list N)) : list N :=
  match docs with [] => [] | d :: r => map snd (enum_tokens 0 d) ++ flatP r end.
Fixpoint flatD (i : N) (docs : list (list N)) : list N :=
  match docs with [] => [] | d :: r => repeat i (length d) ++ flatD (i + 1) r end.

Lemma gather_P : forall docs b, map t_posn (gather false b docs) = flatP docs.
Proof.
  induction docs as [|d r IH]; intros b; [reflexivity|].
  rewrite gather_false_cons, map_app, IH. cbn [flatP]. f_equal. rewrite map_map. reflexivity.
Qed.

Lemma map_const_enum {B} (c : B) : forall d j, map (fun _ : N * N => c) (enum_tokens j d) = repeat c (length d).
Proof. induction d as [|x d IH]; intros j; [reflexivity|]. cbn [enum_tokens map length repeat]. now rewrite IH. Qed.

Lemma gather_D beg : forall docs i, map (fun x => t_doc x - beg) (gather false (beg + i) docs) = flatD i docs.
Proof.
  induction docs as [|d r IH]; intros i; [reflexivity|].
  rewrite gather_false_cons, map_app. replace (beg + i + 1) with (beg + (i + 1)) by lia. rewrite IH.
  cbn [flatD]. f_equal. rewrite map_map. cbn [t_doc fst snd].
  replace (beg + i - beg) with i by lia. apply map_const_enum.
Qed.

Lemma dl_scan_cons2 p q pt d dt dense :
  dl_scan (p :: q :: pt) (d :: dt) dense =
  dl_scan (q :: pt) dt
    (if (0 <? - (Z.of_N q - Z.of_N p) + 1)%Z then list_set dense (N.to_nat d) (Z.to_N (- (Z.of_N q - Z.of_N p) + 1)) else dense).
Proof. reflexivity. Qed.
Lemma dl_scan_one p D dense : dl_scan [p] D dense = dense.
Proof. destruct D; reflexivity. Qed.

Lemma enum_tokens_cons j x d : enum_tokens j (x :: d) = (x, j) :: enum_tokens (j + 1) d.
Proof. reflexivity. Qed.

(* inside one document nothing is written; at its last token, followed by offset 0 of the next
   non-empty document, the length is written *)
Lemma scan_doc' i j rp rd : forall d p0 dense,
  dl_scan (p0 :: map snd (enum_tokens (p0 + 1) d) ++ 0 :: rp) (i :: repeat i (length d) ++ j :: rd) dense =
  dl_scan (0 :: rp) (j :: rd) (list_set dense (N.to_nat i) (p0 + 1 + N.of_nat (length d))).
Proof.
  induction d as [|y d IH]; intros p0 dense.
  - cbn [enum_tokens map app length repeat]. rewrite dl_scan_cons2.
    replace (0 <? - (Z.of_N 0 - Z.of_N p0) + 1)%Z with true by (symmetry; apply Z.ltb_lt; lia).
    do 2 f_equal. lia.
  - cbn [enum_tokens map snd length repeat app]. rewrite dl_scan_cons2.
    replace (0 <? - (Z.of_N (p0 + 1) - Z.of_N p0) + 1)%Z with false by (symmetry; apply Z.ltb_ge; lia).
    rewrite IH. do 2 f_equal. lia.
Qed.

Lemma scan_doc i j rp rd d dense : d <> [] ->
  dl_scan (map snd (enum_tokens 0 d) ++ 0 :: rp) (repeat i (length d) ++ j :: rd) dense =
  dl_scan (0 :: rp) (j :: rd) (list_set dense (N.to_nat i) (N.of_nat (length d))).
Proof.
  destruct d as [|x d]; [congruence|]. intros _. cbn [enum_tokens map snd length repeat app].
  rewrite scan_doc'. do 2 f_equal. lia.
Qed.

Lemma scan_last' i : forall d p0 dense,
  dl_scan (p0 :: map snd (enum_tokens (p0 + 1) d)) (i :: repeat i (length d)) dense = dense.
Proof.
  induction d as [|y d IH]; intros p0 dense; [reflexivity|].
  cbn [enum_tokens map snd length repeat]. rewrite dl_scan_cons2.
  replace (0 <? - (Z.of_N (p0 + 1) - Z.of_N p0) + 1)%Z with false by (symmetry; apply Z.ltb_ge; lia).
  apply IH.
Qed.

Lemma scan_last i d dense : dl_scan (map snd (enum_tokens 0 d)) (repeat i (length d)) dense = dense.
Proof. destruct d as [|x d]; [reflexivity|]. cbn [enum_tokens map snd length repeat]. apply scan_last'. Qed.

Definition finish (P D : list N) (dense : list N) : list N :=
  match rev D, rev P with
  | dlast :: _, plast :: _ => list_set dense (N.to_nat dlast) (plast + 1)
  | _, _ => dense
  end.
Lemma compute_doc_lens_finish P D n : compute_doc_lens P D n = finish P D (dl_scan P D (repeat 0 n)).
Proof. reflexivity. Qed.

Lemma finish_snoc P p D d dense : finish (P ++ [p]) (D ++ [d]) dense = list_set dense (N.to_nat d) (p + 1).
Proof. unfold finish. rewrite !rev_unit. reflexivity. Qed.

Lemma finish_app A B A' B' dense : B <> [] -> B' <> [] -> finish (A ++ B) (A' ++ B') dense = finish B B' dense.
Proof.
  intros HB HB'. destruct (exists_last HB) as (b & x & ->). destruct (exists_last HB') as (b' & x' & ->).
  rewrite !app_assoc, !finish_snoc. reflexivity.
Qed.

Lemma enum_tokens_snoc : forall d j x, enum_tokens j (d ++ [x]) = enum_tokens j d ++ [(x, j + N.of_nat (length d))].
Proof.
  induction d as [|y d IH]; intros j x.
  - cbn [app enum_tokens length]. now rewrite N.add_0_r.
  - cbn [app enum_tokens length]. rewrite IH. cbn [app]. replace (j + 1 + N.of_nat (length d)) with (j + N.of_nat (S (length d))) by lia. reflexivity.
Qed.

Lemma repeat_snoc {A} (c : A) n : repeat c (S n) = repeat c n ++ [c].
Proof. induction n as [|n IH]; [reflexivity|]. cbn [repeat app] in *. now rewrite <- IH. Qed.

Lemma finish_one i d dense : d <> [] ->
  finish (map snd (enum_tokens 0 d)) (repeat i (length d)) dense = list_set dense (N.to_nat i) (N.of_nat (length d)).
Proof.
  intro Hne. destruct (exists_last Hne) as (d' & x & ->).
  rewrite enum_tokens_snoc, map_app, app_length. cbn [map snd length].
  replace (length d' + 1)%nat with (S (length d')) by lia. rewrite repeat_snoc, finish_snoc. f_equal. lia.
Qed.

Fixpoint set_all (i : N) (docs : list (list N)) (dense : list N) : list N :=
  match docs with
  | [] => dense
  | d :: r => set_all (i + 1) r (match d with [] => dense | _ => list_set dense (N.to_nat i) (N.of_nat (length d)) end)
  end.

Lemma flatP_head : forall r q rp, flatP r = q :: rp -> q = 0.
Proof.
  induction r as [|d r IH]; intros q rp H; [discriminate|]. cbn [flatP] in H.
  destruct d as [|x d]; [exact (IH _ _ H)|]. cbn [enum_tokens map snd app] in H. congruence.
Qed.
Lemma flatPD_length : forall r i, length (flatP r) = length (flatD i r).
Proof.
  induction r as [|d r IH]; intros i; [reflexivity|]. cbn [flatP flatD].
  rewrite !app_length, map_length, repeat_length, (IH (i + 1)). f_equal.
  generalize 0. induction d as [|x d IHd]; intros j; [reflexivity|]. cbn [enum_tokens length]. now rewrite IHd.
Qed.
Lemma set_all_empty : forall r i dense, flatP r = [] -> set_all i r dense = dense.
Proof.
  induction r as [|d r IH]; intros i dense H; [reflexivity|]. cbn [flatP] in H.
  destruct d as [|x d]; [|discriminate]. cbn [set_all]. apply IH. exact H.
Qed.

Lemma cdl_correct : forall docs i dense,
  finish (flatP docs) (flatD i docs) (dl_scan (flatP docs) (flatD i docs) dense) = set_all i docs dense.
Proof.
  induction docs as [|d r IH]; intros i dense; [reflexivity|].
  destruct d as [|x d'].
  - cbn [flatP flatD set_all enum_tokens map length repeat app]. apply IH.
  - set (d := x :: d'). assert (Hd : d <> []) by discriminate.
    cbn [flatP flatD]. change (set_all i (d :: r) dense) with
      (set_all (i + 1) r (list_set dense (N.to_nat i) (N.of_nat (length d)))).
    clearbody d. destruct (flatP r) as [|q rp] eqn:EP.
    + pose proof (flatPD_length r (i + 1)) as L. rewrite EP in L.
      destruct (flatD (i + 1) r) as [|? ?]; [|discriminate]. rewrite !app_nil_r.
      rewrite scan_last, finish_one, set_all_empty by assumption. reflexivity.
    + pose proof (flatP_head r q rp EP) as ->.
      pose proof (flatPD_length r (i + 1)) as L. rewrite EP in L.
      destruct (flatD (i + 1) r) as [|j rd] eqn:ED; [discriminate|].
      rewrite scan_doc by exact Hd. rewrite finish_app by discriminate.
      rewrite <- (IH (i + 1)). rewrite ED. reflexivity.
Qed.

Lemma list_set_app : forall pre x rest v, list_set (pre ++ x :: rest) (length pre) v = pre ++ v :: rest.
Proof. induction pre as [|a pre IH]; intros x rest v; [reflexivity|]. cbn [app length list_set]. now rewrite IH. Qed.

Lemma set_all_zeros : forall docs i pre, N.to_nat i = length pre ->
  set_all i docs (pre ++ repeat 0 (length docs)) = pre ++ lens_spec docs.
Proof.
  induction docs as [|d r IH]; intros i pre Hi; [reflexivity|].
  cbn [set_all length repeat lens_spec map]. fold (lens_spec r).
  assert (E : forall v, pre ++ v :: lens_spec r = (pre ++ [v]) ++ lens_spec r) by (intro; now rewrite <- app_assoc).
  destruct d as [|x d'].
  - cbn [length]. change (N.of_nat 0) with 0. rewrite E, <- (IH (i + 1) (pre ++ [0])).
    + now rewrite <- app_assoc.
    + rewrite app_length. cbn [length]. lia.
  - rewrite Hi, list_set_app, E, <- (IH (i + 1) (pre ++ [N.of_nat (length (x :: d'))])).
    + now rewrite <- app_assoc.
    + rewrite app_length. cbn [length]. lia.
Qed.

Theorem doc_lens_correct beg docs :
  compute_doc_lens (map t_posn (gather false beg docs)) (map (fun x => t_doc x - beg) (gather false beg docs)) (length docs)
  = lens_spec docs.
Proof.
  rewrite gather_P. pose proof (gather_D beg docs 0) as E. rewrite N.add_0_r in E. rewrite E.
  rewrite compute_doc_lens_finish, cdl_correct. apply (set_all_zeros docs 0 []). reflexivity.
Qed.

(* ================= 9. build_batch ================= *)
Lemma lens_no_overflow docs : short_docs docs -> existsb (fun n => MAX_POSN <? n) (lens_spec docs) = false.
Proof.
  induction 1 as [|d r Hd _ IH]; [reflexivity|]. cbn [lens_spec map existsb]. fold (lens_spec r). rewrite IH.
  rewrite MAX_POSN_val. replace (262143 <? N.of_nat (length d)) with false; [reflexivity|].
  symmetry. apply N.ltb_ge. exact Hd.
Qed.

Theorem build_batch_correct beg docs : short_docs docs -> beg + N.of_nat (length docs) <= 2 ^ 28 ->
  exists ts, Sorted N.lt ts /\ (forall t, In t ts <-> In t (concat docs)) /\
    build_batch false beg docs = AOk {| b_posts := batch_posts beg docs ts; b_lens := lens_spec docs |}.
Proof.
  intros Hs Hn. destruct (batch_posts_gen beg docs Hs Hn) as (ts & K & Hkeys & nb & EB & SL). cbn zeta in *.
  exists ts. split; [exact K|]. split; [exact Hkeys|].
  unfold build_batch. rewrite EB. cbn [lift abind]. cbv beta iota zeta. rewrite SL, doc_lens_correct, lens_no_overflow by exact Hs.
  reflexivity.
Qed.

Print Assumptions doc_lens_correct.
Print Assumptions build_batch_correct.
