(* C01 / C02 / C05, part 2: the single-term queries on an index whose stored postings are, term by term,
   encode_spec (term_pairs docs t)  (predicate index_ok), and the single-batch instance of index_ok. *)
From Coq Require Import Sorted Permutation Mergesort.
From SA Require Import Base.Prelude Kernels.Spec Kernels.Linear Kernels.Linear_Proofs
  Codec.Codec Codec.Codec_Spec Codec.Codec_Proofs Codec.Codec_Proofs2 Index.Index Index.Index_Spec Index.Index_Proofs.
Open Scope N_scope.

(* ================= 1. what a correct index stores ================= *)
Definition index_ok (docs : list (list N)) (ix : sindex) : Prop :=
  (forall t, In t (concat docs) -> lookup t (ix_posts ix) = Some (encode_spec (term_pairs docs t))) /\
  (forall t, ~ In t (concat docs) -> lookup t (ix_posts ix) = None) /\
  ix_terms ix = nodup_n [] (concat docs) /\
  ix_lens ix = lens_spec docs.

(* nodup_n [] l : the distinct elements of l in first-occurrence order *)
Lemma nodup_n_in x : forall l seen, In x (nodup_n seen l) <-> In x l /\ ~ In x seen.
Proof.
  induction l as [|y l IH]; intros seen; cbn [nodup_n In]; [tauto|].
  destruct (existsb (N.eqb y) seen) eqn:E.
  - apply (mem_n_in y seen) in E. rewrite IH. split; [tauto|]. intros [[->|H] Hn]; tauto.
  - assert (Hy : ~ In y seen) by (intro H; apply (mem_n_in y seen) in H; unfold mem_n in H; congruence).
    cbn [In]. rewrite IH. cbn [In]. destruct (N.eq_dec y x) as [->|Hne]; [tauto|]. tauto.
Qed.
Lemma nodup_n_nodup : forall l seen, NoDup (nodup_n seen l).
Proof.
  induction l as [|y l IH]; intros seen; cbn [nodup_n]; [constructor|].
  destruct (existsb (N.eqb y) seen); [apply IH|]. constructor; [|apply IH].
  rewrite nodup_n_in. cbn [In]. tauto.
Qed.
Lemma known_iff docs ix t : ix_terms ix = nodup_n [] (concat docs) -> (known ix t = true <-> In t (concat docs)).
Proof.
  intro E. unfold known. rewrite E. fold (mem_n t (nodup_n [] (concat docs))). rewrite mem_n_in, nodup_n_in.
  cbn [In]. tauto.
Qed.
Lemma known_false docs ix t : ix_terms ix = nodup_n [] (concat docs) -> ~ In t (concat docs) -> known ix t = false.
Proof.
  intros E H. destruct (known ix t) eqn:K; [|reflexivity]. apply (known_iff docs ix t E) in K. contradiction.
Qed.
Lemma known_true docs ix t : ix_terms ix = nodup_n [] (concat docs) -> In t (concat docs) -> known ix t = true.
Proof. intros E H. apply (known_iff docs ix t E). exact H. Qed.

(* ================= 2. one batch: index_ok ================= *)
Lemma batches_of_nil bs f : batches_of bs f [] = [].
Proof. destruct f; reflexivity. Qed.

Lemma batches_single bs docs : docs <> [] -> (length docs <= bs)%nat -> batches_of bs (length docs) docs = [docs].
Proof.
  intros Hne Hl. destruct docs as [|d r]; [congruence|]. cbn [length batches_of].
  rewrite firstn_all2, skipn_all2 by exact Hl. now rewrite batches_of_nil.
Qed.

Lemma wf_short docs : wf_docs docs -> short_docs docs.
Proof. intros [H _]. exact H. Qed.

Lemma lookup_batch_posts beg docs ts t : (forall x, In x ts <-> In x (concat docs)) ->
  lookup t (batch_posts beg docs ts) =
  if in_dec N.eq_dec t (concat docs) then Some (encode_spec (tp_from beg docs t)) else None.
Proof.
  intro Hk. unfold batch_posts. rewrite (lookup_map_keys (fun t => encode_spec (tp_from beg docs t))).
  destruct (in_dec N.eq_dec t (concat docs)) as [Hi|Hn].
  - replace (mem_n t ts) with true; [reflexivity|]. symmetry. apply mem_n_in, Hk, Hi.
  - destruct (mem_n t ts) eqn:E; [|reflexivity]. apply mem_n_in, Hk in E. contradiction.
Qed.

Theorem index_single_ok docs bs : wf_docs docs -> (bs >= length docs)%nat ->
  exists ix, index false bs docs = AOk ix /\ index_ok docs ix.
Proof.
  intros Hwf Hbs. unfold index. set (bsz := Nat.max 1 bs). assert (Hbsz : (length docs <= bsz)%nat) by lia.
  destruct docs as [|d0 r0] eqn:Ed.
  - cbn [length batches_of index_batches abind concat]. eexists. split; [reflexivity|].
    unfold index_ok. cbn [ix_posts ix_terms ix_lens fst snd lookup concat In nodup_n lens_spec map]. tauto.
  - rewrite <- Ed in *. assert (Hne : docs <> []) by (rewrite Ed; discriminate). clear Ed d0 r0.
    rewrite batches_single by assumption. cbn [index_batches].
    destruct Hwf as [Hs Hn].
    destruct (build_batch_correct 0 docs Hs) as (ts & K & Hk & EB); [lia|].
    rewrite EB. cbn [abind index_batches b_posts b_lens concat_posts app fst snd].
    eexists. split; [reflexivity|]. unfold index_ok. cbn [ix_posts ix_terms ix_lens].
    repeat split.
    + intros t Ht. rewrite (lookup_batch_posts 0 docs ts t Hk), term_pairs_tp.
      destruct (in_dec N.eq_dec t (concat docs)); [reflexivity|contradiction].
    + intros t Ht. rewrite (lookup_batch_posts 0 docs ts t Hk).
      destruct (in_dec N.eq_dec t (concat docs)); [contradiction|reflexivity].
Qed.

(* the statement asked for: whatever index returns in one batch satisfies the postings lemma *)
Theorem postings_single_batch docs bs : wf_docs docs -> forall ix, index false bs docs = AOk ix ->
  (bs >= length docs)%nat ->
  (forall t, In t (concat docs) -> lookup t (ix_posts ix) = Some (encode_spec (term_pairs docs t))) /\
  (forall t, ~ In t (concat docs) -> lookup t (ix_posts ix) = None) /\
  ix_terms ix = nodup_n [] (concat docs) /\ ix_lens ix = lens_spec docs.
Proof.
  intros Hwf ix E Hbs. destruct (index_single_ok docs bs Hwf Hbs) as (ix' & E' & Hok).
  rewrite E in E'. inversion E'; subst. exact Hok.
Qed.

(* ================= 3. the per-document grouping of term_pairs ================= *)
Fixpoint gk_from (i : N) (docs : list (list N)) (t : N) : list (N * list N) :=
  match docs with
  | [] => []
  | d :: r => match offsets_from 0 t d with
              | [] => gk_from (i + 1) r t
              | l => (i, l) :: gk_from (i + 1) r t
              end
  end.

Lemma gk_keys t : forall docs i,
  Forall (fun g : N * list N => i <= fst g /\ fst g < i + N.of_nat (length docs)) (gk_from i docs t).
Proof.
  induction docs as [|d r IH]; intros i; [constructor|]. cbn [gk_from length].
  assert (F : Forall (fun g : N * list N => i <= fst g /\ fst g < i + N.of_nat (S (length r))) (gk_from (i + 1) r t)).
  { eapply Forall_impl; [|apply IH]. cbn beta. intros g Hg. lia. }
  destruct (offsets_from 0 t d); [exact F|]. constructor; [cbn [fst]; lia|exact F].
Qed.

Lemma gbk_run i : forall l rest, l <> [] ->
  match group_by_key rest with (k', _) :: _ => i <> k' | [] => True end ->
  group_by_key (map (fun p => (i, p)) l ++ rest) = (i, l) :: group_by_key rest.
Proof.
  induction l as [|p l IH]; intros rest Hne Hk; [congruence|]. destruct l as [|q l'].
  - cbn [map app group_by_key]. destruct (group_by_key rest) as [|[k' l''] rest']; [reflexivity|].
    replace (i =? k') with false by (symmetry; apply N.eqb_neq; exact Hk). reflexivity.
  - change (map (fun p0 => (i, p0)) (p :: q :: l') ++ rest) with ((i, p) :: (map (fun p0 => (i, p0)) (q :: l') ++ rest)).
    cbn [group_by_key]. rewrite IH by (try discriminate; exact Hk). rewrite N.eqb_refl. reflexivity.
Qed.

Lemma gbk_tp t : forall docs i, group_by_key (tp_from i docs t) = gk_from i docs t.
Proof.
  induction docs as [|d r IH]; intros i; [reflexivity|]. cbn [tp_from gk_from].
  destruct (offsets_from 0 t d) as [|p l] eqn:E; [apply IH|].
  rewrite gbk_run; [now rewrite IH|discriminate|]. rewrite IH.
  pose proof (gk_keys t r (i + 1)) as F. destruct (gk_from (i + 1) r t) as [|[k' l'] rest]; [exact I|].
  inversion F as [|? ? Hk _]; subst. cbn [fst] in Hk. lia.
Qed.

Lemma offsets_length t : forall d j, length (offsets_from j t d) = length (filter (N.eqb t) d).
Proof.
  induction d as [|x d IH]; intros j; [reflexivity|]. cbn [offsets_from filter]. rewrite (N.eqb_sym t x).
  destruct (x =? t); cbn [length]; now rewrite IH.
Qed.

Lemma existsb_in t d : existsb (N.eqb t) d = true <-> In t d.
Proof. apply (mem_n_in t d). Qed.

Lemma gk_length_le t : forall docs i, (length (gk_from i docs t) <= length docs)%nat.
Proof.
  induction docs as [|d r IH]; intros i; [apply Nat.le_refl|]. cbn [gk_from length].
  specialize (IH (i + 1)). destruct (offsets_from 0 t d); cbn [length]; lia.
Qed.

Lemma gk_length_df t : forall docs i, N.of_nat (length (gk_from i docs t)) = df_spec docs t.
Proof.
  unfold df_spec. induction docs as [|d r IH]; intros i; [reflexivity|]. cbn [gk_from filter].
  destruct (offsets_from 0 t d) as [|p l] eqn:E.
  - apply (offsets_nil_iff t d 0) in E.
    replace (existsb (N.eqb t) d) with false; [apply IH|].
    symmetry. destruct (existsb (N.eqb t) d) eqn:X; [|reflexivity]. apply existsb_in in X. contradiction.
  - assert (In t d).
    { destruct (in_dec N.eq_dec t d) as [Hi|Hn]; [exact Hi|]. apply (offsets_nil_iff t d 0) in Hn. congruence. }
    replace (existsb (N.eqb t) d) with true by (symmetry; apply existsb_in; assumption).
    cbn [length]. rewrite !Nat2N.inj_succ. f_equal. apply IH.
Qed.

Lemma filter_len_le {A} (f : A -> bool) l : (length (filter f l) <= length l)%nat.
Proof. induction l as [|a l IH]; [apply Nat.le_refl|]. cbn [filter]. destruct (f a); cbn [length]; lia. Qed.

Lemma tp_length_le t : forall docs i, (length (tp_from i docs t) <= length (concat docs))%nat.
Proof.
  induction docs as [|d r IH]; intros i; [apply Nat.le_refl|]. cbn [tp_from concat].
  rewrite !app_length, map_length, offsets_length. specialize (IH (i + 1)).
  pose proof (filter_len_le (N.eqb t) d). lia.
Qed.

Lemma lookup_absent {A} k : forall (l : list (N * A)), Forall (fun g => fst g <> k) l -> lookup k l = None.
Proof.
  induction 1 as [|[k' v] l H _ IH]; [reflexivity|]. cbn [lookup]. cbn [fst] in H.
  replace (k =? k') with false by (symmetry; apply N.eqb_neq; congruence). exact IH.
Qed.

Lemma combine_fst_snd {A B} (l : list (A * B)) : combine (map fst l) (map snd l) = l.
Proof. induction l as [|[a b] l IH]; [reflexivity|]. cbn [map combine fst snd]. now rewrite IH. Qed.

Lemma find_app {A} (f : A -> bool) l1 l2 :
  find f (l1 ++ l2) = match find f l1 with Some x => Some x | None => find f l2 end.
Proof. induction l1 as [|a l1 IH]; [reflexivity|]. cbn [app find]. destruct (f a); [reflexivity|exact IH]. Qed.

Lemma find_absent {B} k (l : list (N * B)) : Forall (fun g => fst g <> k) l -> find (fun iv => fst iv =? k) l = None.
Proof.
  induction 1 as [|g l H _ IH]; [reflexivity|]. cbn [find].
  replace (fst g =? k) with false by (symmetry; apply N.eqb_neq; exact H). exact IH.
Qed.

Lemma seq_N_sorted : forall n k, Sorted N.lt (map N.of_nat (seq k n)).
Proof.
  induction n as [|n IH]; intros k; [constructor|]. cbn [seq map]. constructor; [apply IH|].
  destruct n; cbn [seq map]; constructor. lia.
Qed.

(* ================= 4. dense scatter of the per-document counts ================= *)
Definition kc_of_g (g : N * list N) : N * N := (fst g, N.of_nat (length (snd g))).
Definition dval (kc : list (N * N)) (i : N) : N :=
  match find (fun iv => fst iv =? i) (rev kc) with Some iv => snd iv | None => 0 end.

Lemma dval_absent kc i : Forall (fun g => fst g <> i) kc -> dval kc i = 0.
Proof. intro F. unfold dval. rewrite find_absent; [reflexivity|]. apply Forall_rev. exact F. Qed.
Lemma dval_cons_same kc k v : Forall (fun g => fst g <> k) kc -> dval ((k, v) :: kc) k = v.
Proof.
  intro F. unfold dval. cbn [rev]. rewrite find_app, find_absent by (apply Forall_rev; exact F).
  cbn [find fst snd]. now rewrite N.eqb_refl.
Qed.
Lemma dval_cons_other kc k v i : k <> i -> dval ((k, v) :: kc) i = dval kc i.
Proof.
  intro H. unfold dval. cbn [rev]. rewrite find_app. destruct (find (fun iv => fst iv =? i) (rev kc)); [reflexivity|].
  cbn [find fst]. replace (k =? i) with false by (symmetry; apply N.eqb_neq; exact H). reflexivity.
Qed.

Lemma count_tok_offsets t d : count_tok t d = N.of_nat (length (offsets_from 0 t d)).
Proof. unfold count_tok. now rewrite offsets_length. Qed.

Lemma gk_keys_above t r k : Forall (fun g : N * N => fst g <> N.of_nat k) (map kc_of_g (gk_from (N.of_nat (S k)) r t)).
Proof.
  rewrite Forall_map. eapply Forall_impl; [|apply gk_keys]. cbn beta. intros g Hg. unfold kc_of_g. cbn [fst]. lia.
Qed.

Lemma dense_gk t : forall docs k,
  map (dval (map kc_of_g (gk_from (N.of_nat k) docs t))) (map N.of_nat (seq k (length docs))) = map (count_tok t) docs.
Proof.
  induction docs as [|d r IH]; intros k; [reflexivity|]. cbn [gk_from length seq map].
  replace (N.of_nat k + 1) with (N.of_nat (S k)) by lia. rewrite count_tok_offsets.
  destruct (offsets_from 0 t d) as [|p l] eqn:E.
  - f_equal; [|apply IH]. cbn [length]. apply dval_absent, gk_keys_above.
  - cbn [map]. f_equal.
    + unfold kc_of_g at 1. cbn [fst snd]. apply dval_cons_same, gk_keys_above.
    + rewrite <- (IH (S k)). apply map_ext_in. intros i Hi. unfold kc_of_g at 1. cbn [fst snd]. apply dval_cons_other.
      apply in_map_iff in Hi. destruct Hi as (j & <- & Hj). apply in_seq in Hj. lia.
Qed.

Lemma count_absent t : forall docs, ~ In t (concat docs) -> map (count_tok t) docs = repeat 0 (length docs).
Proof.
  induction docs as [|d r IH]; intros Hn; [reflexivity|]. cbn [concat] in Hn. rewrite in_app_iff in Hn.
  cbn [map length repeat]. rewrite IH by tauto. f_equal. rewrite count_tok_offsets.
  replace (offsets_from 0 t d) with (@nil N); [reflexivity|]. symmetry. apply offsets_nil_iff. tauto.
Qed.

(* ================= 5. C01 / C02 / C05 on any index satisfying index_ok ================= *)
Lemma tp_wf docs : wf_docs docs -> forall t, sorted2 (tp_from 0 docs t) /\ bounded (tp_from 0 docs t).
Proof.
  intros [Hs Hn] t. split; [apply tp_sorted|]. apply tp_bounded; [exact Hs|]. lia.
Qed.

Section Queries.
Variables (docs : list (list N)) (ix : sindex).
Hypothesis Hwf : wf_docs docs.
Hypothesis Hok : index_ok docs ix.

Let Hposts := proj1 Hok.
Let Habsent := proj1 (proj2 Hok).
Let Hterms := proj1 (proj2 (proj2 Hok)).
Let Hlens := proj2 (proj2 (proj2 Hok)).

Lemma lens_length : length (ix_lens ix) = length docs.
Proof. rewrite Hlens. unfold lens_spec. apply map_length. Qed.

Theorem termfreqs_ok t : termfreqs ix t = AOk (tf_spec docs t).
Proof.
  unfold termfreqs, tf_spec. destruct (in_dec N.eq_dec t (concat docs)) as [Hi|Hn].
  - rewrite (known_true docs ix t Hterms Hi). cbn [negb]. unfold get_posts. rewrite (Hposts t Hi). cbn [abind].
    rewrite term_pairs_tp. destruct (tp_wf docs Hwf t) as [Hs Hb]. rewrite counts_correct by assumption. cbn [lift abind].
    unfold n_docs. rewrite lens_length.
    assert (Ecs : counts_spec (tp_from 0 docs t) = map kc_of_g (gk_from 0 docs t)).
    { unfold counts_spec. rewrite gbk_tp. reflexivity. }
    rewrite Ecs. rewrite as_dense_correct.
    + cbn [unpy lift]. f_equal. unfold as_dense_spec. rewrite combine_fst_snd, Nat2N.id.
      exact (dense_gk t docs 0).
    + now rewrite !map_length.
    + rewrite map_map, Forall_map. eapply Forall_impl; [|apply gk_keys]. cbn beta. intros g Hg.
      unfold kc_of_g. cbn [fst]. lia.
  - rewrite (known_false docs ix t Hterms Hn). cbn [negb]. rewrite lens_length. f_equal. symmetry.
    apply count_absent. exact Hn.
Qed.

Theorem docfreq_ok t : docfreq ix t = AOk (df_spec docs t).
Proof.
  unfold docfreq. destruct (in_dec N.eq_dec t (concat docs)) as [Hi|Hn].
  - rewrite (known_true docs ix t Hterms Hi). cbn [negb]. unfold get_posts. rewrite (Hposts t Hi). cbn [abind].
    rewrite term_pairs_tp. destruct (tp_wf docs Hwf t) as [Hs Hb].
    rewrite keys_unique_correct; [|assumption|assumption|rewrite tp_nil_iff; tauto].
    cbn [lift abind]. f_equal. unfold keys_spec. rewrite map_length, gbk_tp. apply gk_length_df.
  - rewrite (known_false docs ix t Hterms Hn). cbn [negb]. f_equal.
    rewrite <- (gk_length_df t docs 0), <- gbk_tp.
    replace (tp_from 0 docs t) with (@nil (N * N)); [reflexivity|]. symmetry. apply tp_nil_iff. exact Hn.
Qed.

Lemma fold_add_lens : forall ds a, fold_left N.add (lens_spec ds) a = a + N.of_nat (length (concat ds)).
Proof.
  induction ds as [|d r IH]; intros a; [cbn; lia|]. cbn [lens_spec map fold_left concat]. fold (lens_spec r).
  rewrite IH, app_length. lia.
Qed.

Theorem doclens_ok :
  doclengths ix = lens_spec docs /\ corpus_size ix = N.of_nat (length docs) /\ total_len ix = total_spec docs.
Proof.
  unfold doclengths, corpus_size, n_docs, total_len, total_spec. rewrite lens_length.
  split; [exact Hlens|]. split; [reflexivity|]. rewrite Hlens, fold_add_lens. lia.
Qed.
End Queries.

(* ================= 6. C05: positions ================= *)
Lemma fill_gk t : forall docs k,
  map (fun r => match lookup r (gk_from (N.of_nat k) docs t) with Some p => p | None => [] end)
      (map N.of_nat (seq k (length docs)))
  = map (offsets_from 0 t) docs.
Proof.
  induction docs as [|d r IH]; intros k; [reflexivity|]. cbn [gk_from length seq map].
  replace (N.of_nat k + 1) with (N.of_nat (S k)) by lia.
  destruct (offsets_from 0 t d) as [|p l] eqn:E.
  - f_equal; [|apply IH]. rewrite lookup_absent; [reflexivity|].
    eapply Forall_impl; [|apply gk_keys]. cbn beta. intros g Hg. lia.
  - f_equal.
    + cbn [lookup]. now rewrite N.eqb_refl.
    + rewrite <- (IH (S k)). apply map_ext_in. intros i Hi. cbn [lookup].
      apply in_map_iff in Hi. destruct Hi as (j & <- & Hj). apply in_seq in Hj.
      replace (N.of_nat j =? N.of_nat k) with false by (symmetry; apply N.eqb_neq; lia). reflexivity.
Qed.

Lemma gk_full t : forall docs i, length (gk_from i docs t) = length docs ->
  map snd (gk_from i docs t) = map (offsets_from 0 t) docs.
Proof.
  induction docs as [|d r IH]; intros i Hl; [reflexivity|]. cbn [gk_from length map] in *.
  destruct (offsets_from 0 t d) as [|p l] eqn:E.
  - pose proof (gk_length_le t r (i + 1)). lia.
  - cbn [length map snd] in *. f_equal. apply IH. lia.
Qed.

Lemma match_nonempty {A B} (l : list A) (x y : B) : l <> [] -> match l with [] => x | _ :: _ => y end = y.
Proof. destruct l; congruence. Qed.

Section Positions.
Variables (docs : list (list N)) (ix : sindex).
Hypothesis Hwf : wf_docs docs.
Hypothesis Hok : index_ok docs ix.

Theorem positions_ok t : In t (concat docs) -> positions ix t = AOk (positions_spec docs t).
Proof.
  intro Hi. destruct Hok as (Hposts & _ & Hterms & Hlens). destruct (tp_wf docs Hwf t) as [Hs Hb].
  destruct Hwf as [Hshort Hn].
  unfold positions, positions_spec. rewrite (known_true docs ix t Hterms Hi). cbn [negb]. cbv zeta.
  rewrite (Hposts t Hi), term_pairs_tp, (lens_length docs ix Hok).
  set (rows := map N.of_nat (seq 0 (length docs))).
  assert (Hrl : length rows = length docs) by (unfold rows; now rewrite map_length, seq_length).
  rewrite slice_keys_correct; try assumption.
  - cbn [lift abind]. unfold slice_spec.
    rewrite filter_true.
    2:{ eapply Forall_impl; [|apply (tp_keys t docs 0)]. cbn beta. intros kp Hk. apply mem_n_in. unfold rows.
        apply in_map_iff. exists (N.to_nat (fst kp)). split; [lia|]. apply in_seq. lia. }
    rewrite decode_encode, gbk_tp by assumption.
    assert (HG : gk_from 0 docs t <> []).
    { intro E0. pose proof (gbk_tp t docs 0) as E1. rewrite E0 in E1.
      destruct (tp_from 0 docs t) as [|[k p] rest] eqn:Etp; [apply tp_nil_iff in Etp; contradiction|].
      destruct (group_by_key_head k p rest) as (l & r & E2). congruence. }
    rewrite match_nonempty by exact HG. rewrite Hrl.
    destruct (Nat.eqb (length (gk_from 0 docs t)) (length docs)) eqn:EL; cbn [negb]; f_equal.
    + apply gk_full. apply Nat.eqb_eq. exact EL.
    + exact (fill_gk t docs 0).
  - apply seq_N_sorted.
  - unfold rows. rewrite Forall_map. apply Forall_forall. intros j Hj. apply in_seq in Hj. pows. lia.
  - pose proof (tp_length_le t docs 0). pose proof (concat_length_bound docs Hshort). rewrite pow62. rewrite pow28 in Hn. nia.
  - rewrite Hrl, pow62. rewrite pow28 in Hn. lia.
Qed.
End Positions.

(* ================= 7. the single-batch theorems ================= *)
Theorem C01_termfreqs_single docs bs ix : wf_docs docs -> index false bs docs = AOk ix -> (bs >= length docs)%nat ->
  forall t, termfreqs ix t = AOk (tf_spec docs t).
Proof. intros Hwf E Hbs t. apply termfreqs_ok; [exact Hwf|]. exact (postings_single_batch docs bs Hwf ix E Hbs). Qed.

Theorem C02_docfreq_single docs bs ix : wf_docs docs -> index false bs docs = AOk ix -> (bs >= length docs)%nat ->
  forall t, docfreq ix t = AOk (df_spec docs t).
Proof. intros Hwf E Hbs t. apply docfreq_ok; [exact Hwf|]. exact (postings_single_batch docs bs Hwf ix E Hbs). Qed.

Theorem C02_doclens_single docs bs ix : wf_docs docs -> index false bs docs = AOk ix -> (bs >= length docs)%nat ->
  doclengths ix = lens_spec docs /\ corpus_size ix = N.of_nat (length docs) /\ total_len ix = total_spec docs.
Proof. intros Hwf E Hbs. apply doclens_ok. exact (postings_single_batch docs bs Hwf ix E Hbs). Qed.

Theorem C05_positions_single docs bs ix : wf_docs docs -> index false bs docs = AOk ix -> (bs >= length docs)%nat ->
  forall t, In t (concat docs) -> positions ix t = AOk (positions_spec docs t).
Proof. intros Hwf E Hbs t. apply positions_ok; [exact Hwf|]. exact (postings_single_batch docs bs Hwf ix E Hbs). Qed.

(* absent terms (completing C05's picture): a term that is in no document is not in the dictionary *)
Theorem positions_absent docs ix t : index_ok docs ix -> ~ In t (concat docs) -> positions ix t = AExc TermMissing.
Proof.
  intros (_ & _ & Hterms & _) Hn. unfold positions. now rewrite (known_false docs ix t Hterms Hn).
Qed.

Print Assumptions index_single_ok.
Print Assumptions postings_single_batch.
Print Assumptions C01_termfreqs_single.
Print Assumptions C02_docfreq_single.
Print Assumptions C02_doclens_single.
Print Assumptions C05_positions_single.
