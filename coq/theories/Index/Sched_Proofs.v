(* Proofs about Index/Sched.v:
     A. slotting is independent of the completion order (and its asserts do fire on bad input);
     B. the arrival-order dictionary is a bijection tokens <-> 0..V-1 whatever the interleaving, and the id a
        thread saw equals the final dictionary's;
     C. answers never depend on the term ids, hence not on the schedule, the completion orders, the number of
        workers or the batch size;
     D. executable instances. *)
From Coq Require Import Permutation.
From SA Require Import Base.Prelude Index.Index Index.Index_Spec Index.Index_Proofs3
  Query.Phrase Query.Phrase_Spec Query.Phrase_Final Index.Sched.
Open Scope nat_scope.

(* ================================================================== *)
(* A. slotting                                                         *)
(* ================================================================== *)
Section SlotProofs.
Context {A : Type}.
Implicit Types (s : list (option A)) (r a b : A).

Definition obind {X Y} (o : option X) (f : X -> option Y) : option Y :=
  match o with Some x => f x | None => None end.

Lemma set_slot_twice : forall s i a b s', set_slot s i a = Some s' -> set_slot s' i b = None.
Proof.
  induction s as [|x t IH]; intros i a b s' H; [destruct i; discriminate|].
  destruct i as [|i].
  - destruct x; cbn [set_slot] in H; [discriminate|]. inversion H; subst. reflexivity.
  - cbn [set_slot] in H. destruct (set_slot t i a) as [t'|] eqn:E.
    + assert (s' = x :: t') by (destruct x; congruence). subst s'.
      cbn [set_slot]. rewrite (IH i a b t' E). destruct x; reflexivity.
    + destruct x; discriminate.
Qed.

Lemma set_slot_S x t i a : set_slot (x :: t) (S i) a = match set_slot t i a with Some t' => Some (x :: t') | None => None end.
Proof. destruct x; reflexivity. Qed.

(* two stores commute: different slots are independent, the same slot fails either way *)
Lemma set_slot_comm : forall s i j a b,
  obind (set_slot s i a) (fun s' => set_slot s' j b) = obind (set_slot s j b) (fun s' => set_slot s' i a).
Proof.
  induction s as [|x t IH]; intros i j a b; [destruct i, j; reflexivity|].
  destruct i as [|i], j as [|j].
  - destruct x; reflexivity.
  - rewrite set_slot_S. destruct x as [v|]; cbn [set_slot obind].
    + destruct (set_slot t j b); reflexivity.
    + destruct (set_slot t j b); reflexivity.
  - rewrite set_slot_S. destruct x as [v|]; cbn [set_slot obind].
    + destruct (set_slot t i a); reflexivity.
    + destruct (set_slot t i a); reflexivity.
  - rewrite !set_slot_S. specialize (IH i j a b).
    destruct (set_slot t i a) as [ti|] eqn:Ei, (set_slot t j b) as [tj|] eqn:Ej; cbn [obind] in *;
      rewrite ?set_slot_S; try rewrite IH; try rewrite <- IH; reflexivity.
Qed.

Lemma place_all_cons bs last s beg r rest :
  place_all bs last s ((beg, r) :: rest) = obind (set_slot s (slot bs last beg) r) (fun s' => place_all bs last s' rest).
Proof. reflexivity. Qed.

(* the slots after the loop do not depend on the order in which the futures complete *)
Lemma place_all_perm bs last (c1 c2 : list (nat * A)) : Permutation c1 c2 -> forall s, place_all bs last s c1 = place_all bs last s c2.
Proof.
  induction 1 as [|[beg r] l l' HP IH|[b1 r1] [b2 r2] l|l1 l2 l3 H1 IH1 H2 IH2]; intro s.
  - reflexivity.
  - rewrite !place_all_cons. destruct (set_slot s (slot bs last beg) r); cbn [obind]; [apply IH|reflexivity].
  - rewrite !place_all_cons.
    pose proof (set_slot_comm s (slot bs last b1) (slot bs last b2) r1 r2) as C.
    destruct (set_slot s (slot bs last b1) r1) as [s1|], (set_slot s (slot bs last b2) r2) as [s2|]; cbn [obind] in *;
      rewrite ?place_all_cons; first [reflexivity | rewrite C; reflexivity | rewrite <- C; reflexivity].
  - rewrite IH1. apply IH2.
Qed.

Lemma place_round_perm bs last k (c1 c2 : list (nat * A)) : Permutation c1 c2 -> place_round bs last k c1 = place_round bs last k c2.
Proof. intro H. unfold place_round. now rewrite (place_all_perm bs last c1 c2 H). Qed.

Lemma set_slot_next : forall (done : list A) r m,
  set_slot (map Some done ++ None :: repeat None m) (length done) r = Some (map Some (done ++ [r]) ++ repeat None m).
Proof.
  induction done as [|x t IH]; intros r m; [reflexivity|].
  cbn [map app length]. rewrite set_slot_S, IH. reflexivity.
Qed.

Lemma slot_beg bs last n : 1 <= bs -> slot bs last (last + n * bs) = n.
Proof. intro H. unfold slot. replace (last + n * bs - last) with (n * bs) by lia. apply Nat.div_mul. lia. Qed.

(* in submission order the futures fill the slots left to right *)
Lemma place_all_in_order bs last : 1 <= bs -> forall rs (done : list A),
  place_all bs last (map Some done ++ repeat None (length rs)) (with_begs bs (last + length done * bs) rs)
  = Some (map Some (done ++ rs)).
Proof.
  intro Hbs. induction rs as [|r t IH]; intro done.
  - cbn [length repeat with_begs place_all]. now rewrite !app_nil_r.
  - cbn [length repeat with_begs place_all]. rewrite slot_beg by exact Hbs. rewrite set_slot_next.
    replace (last + length done * bs + bs) with (last + length (done ++ [r]) * bs) by (rewrite app_length; cbn [length]; lia).
    rewrite IH. now rewrite <- app_assoc.
Qed.

Lemma all_filled_somes : forall rs : list A, all_filled (map Some rs) = Some rs.
Proof. induction rs as [|r t IH]; [reflexivity|]. cbn [map all_filled]. now rewrite IH. Qed.

(* the list  [(last + j*bs, r_j) | j < k]  written with combine/seq *)
Lemma with_begs_spec {X} bs : forall (l : list X) beg,
  with_begs bs beg l = combine (map (fun j => beg + j * bs) (seq 0 (length l))) l.
Proof.
  induction l as [|x t IH]; intro beg; [reflexivity|].
  cbn [with_begs length seq map combine]. rewrite Nat.mul_0_l, Nat.add_0_r. f_equal.
  rewrite IH, <- seq_shift, map_map. f_equal. apply map_ext. intro j. lia.
Qed.

(* THEOREM A: whatever the completion order, _process_batches returns the round's results in document order *)
Theorem place_round_any_order bs last (rs : list A) completed : 1 <= bs ->
  Permutation completed (with_begs bs last rs) ->
  place_round bs last (length rs) completed = Some rs.
Proof.
  intros Hbs HP. rewrite (place_round_perm _ _ _ _ _ HP). unfold place_round.
  pose proof (place_all_in_order bs last Hbs rs []) as H. cbn [map app length] in H.
  rewrite Nat.mul_0_l, Nat.add_0_r in H. rewrite H. apply all_filled_somes.
Qed.

Corollary place_round_any_order' bs last (rs : list A) completed : 1 <= bs ->
  Permutation completed (combine (map (fun j => last + j * bs) (seq 0 (length rs))) rs) ->
  place_round bs last (length rs) completed = Some rs.
Proof. intros Hbs HP. apply place_round_any_order; [exact Hbs|]. now rewrite with_begs_spec. Qed.

(* ---- the asserts are real ---- *)
Lemma set_slot_out_of_range : forall s i a, length s <= i -> set_slot s i a = None.
Proof.
  induction s as [|x t IH]; intros i a H; [destruct i; reflexivity|].
  destruct i as [|i]; cbn [length] in H; [lia|]. rewrite set_slot_S, IH by lia. reflexivity.
Qed.
Lemma set_slot_length : forall s i a s', set_slot s i a = Some s' -> length s' = length s.
Proof.
  induction s as [|x t IH]; intros i a s' H; [destruct i; discriminate|].
  destruct i as [|i].
  - destruct x; cbn [set_slot] in H; [discriminate|]. inversion H. reflexivity.
  - rewrite set_slot_S in H. destruct (set_slot t i a) eqn:E; [|discriminate]. inversion H. cbn [length].
    f_equal. eapply IH; eassumption.
Qed.
Lemma place_all_none bs last : forall c, place_all bs last (A := A) [] c = match c with [] => Some [] | _ => None end.
Proof. destruct c as [|[b r] c]; reflexivity. Qed.

(* a batch_beg outside the round: the store fails (IndexError) *)
Theorem place_round_out_of_range bs last k completed beg r :
  In (beg, r) completed -> k <= slot bs last beg -> place_round bs last k completed = None.
Proof.
  intros Hin Hk. destruct (in_split _ _ Hin) as (c1 & c2 & ->).
  rewrite (place_round_perm _ _ _ _ ((beg, r) :: c1 ++ c2)) by (symmetry; apply Permutation_middle).
  unfold place_round. rewrite place_all_cons, set_slot_out_of_range; [reflexivity|]. now rewrite repeat_length.
Qed.

(* two futures mapped to the same slot: `assert batch_results[idx] is None` fires *)
Theorem place_round_duplicate bs last k c1 c2 c3 g1 r1 g2 r2 :
  slot bs last g1 = slot bs last g2 ->
  place_round bs last k (c1 ++ (g1, r1) :: c2 ++ (g2, r2) :: c3) = None.
Proof.
  intro E.
  rewrite (place_round_perm _ _ _ _ ((g1, r1) :: (g2, r2) :: c1 ++ c2 ++ c3)).
  - unfold place_round. rewrite !place_all_cons.
    destruct (set_slot (repeat None k) (slot bs last g1) r1) as [s1|] eqn:E1; cbn [obind]; [|reflexivity].
    rewrite place_all_cons, <- E, (set_slot_twice _ _ _ r2 _ E1). reflexivity.
  - symmetry. etransitivity; [|apply Permutation_middle]. apply perm_skip.
    rewrite !app_assoc. apply Permutation_middle.
Qed.

(* a future that never reports: `assert result is not None` fires.  Stated as: success needs k completions *)
Fixpoint count_some s : nat := match s with [] => 0 | Some _ :: t => S (count_some t) | None :: t => count_some t end.
Lemma set_slot_count : forall s i a s', set_slot s i a = Some s' -> count_some s' = S (count_some s).
Proof.
  induction s as [|x t IH]; intros i a s' H; [destruct i; discriminate|].
  destruct i as [|i].
  - destruct x; cbn [set_slot] in H; [discriminate|]. inversion H. reflexivity.
  - rewrite set_slot_S in H. destruct (set_slot t i a) eqn:E; [|discriminate]. inversion H.
    destruct x; cbn [count_some]; erewrite IH by eassumption; reflexivity.
Qed.
Lemma place_all_count bs last : forall c s s', place_all bs last s c = Some s' ->
  count_some s' = count_some s + length c /\ length s' = length s.
Proof.
  induction c as [|[b r] c IH]; intros s s' H.
  - inversion H. cbn [length]. lia.
  - rewrite place_all_cons in H. destruct (set_slot s (slot bs last b) r) as [s1|] eqn:E; [|discriminate].
    cbn [obind] in H. apply IH in H. rewrite (set_slot_count _ _ _ _ E), (set_slot_length _ _ _ _ E) in H.
    cbn [length]. lia.
Qed.
Lemma all_filled_count : forall s l, all_filled s = Some l -> count_some s = length s /\ length l = length s.
Proof.
  induction s as [|[x|] t IH]; intros l H; cbn [all_filled] in H; [inversion H; split; reflexivity| |discriminate].
  destruct (all_filled t) eqn:E; [|discriminate]. inversion H. destruct (IH _ eq_refl). cbn [count_some length]. lia.
Qed.
Lemma count_some_repeat k : count_some (repeat (@None A) k) = 0.
Proof. induction k; [reflexivity|exact IHk]. Qed.
Theorem place_round_needs_all bs last k (completed : list (nat * A)) l :
  place_round bs last k completed = Some l -> length completed = k /\ length l = k.
Proof.
  unfold place_round. destruct (place_all bs last (repeat None k) completed) as [s|] eqn:E; [|discriminate].
  intro H. apply all_filled_count in H. apply place_all_count in E.
  rewrite count_some_repeat, repeat_length in E. lia.
Qed.

(* ---- rounds ---- *)
Lemma firstn_with_begs {X} bs : forall w (l : list X) beg, firstn w (with_begs bs beg l) = with_begs bs beg (firstn w l).
Proof.
  induction w as [|w IH]; intros l beg; [reflexivity|]. destruct l as [|x t]; [reflexivity|].
  cbn [with_begs firstn]. now rewrite IH.
Qed.
Lemma skipn_with_begs {X} bs : forall w (l : list X) beg,
  skipn w (with_begs bs beg l) = with_begs bs (beg + length (firstn w l) * bs) (skipn w l).
Proof.
  induction w as [|w IH]; intros l beg.
  - cbn [skipn firstn length]. f_equal. lia.
  - destruct l as [|x t]; [reflexivity|]. cbn [with_begs skipn firstn length]. rewrite IH. f_equal. lia.
Qed.
Lemma with_begs_length {X} bs : forall (l : list X) beg, length (with_begs bs beg l) = length l.
Proof. induction l as [|x t IH]; intro beg; [reflexivity|]. cbn [with_begs length]. now rewrite IH. Qed.

Lemma nth_error_all {X} : forall l : list X, map (nth_error l) (seq 0 (length l)) = map Some l.
Proof.
  induction l as [|x t IH]; [reflexivity|]. cbn [length seq map nth_error]. f_equal.
  rewrite <- seq_shift, map_map. exact IH.
Qed.
Lemma pick_some {X} (l : list X) : forall o, Forall (fun i => i < length l) o ->
  exists c, pick o l = Some c /\ map Some c = map (nth_error l) o.
Proof.
  induction o as [|i o IH]; intro H; [exists []; split; reflexivity|].
  inversion H as [|? ? Hi Ho]; subst. destruct (IH Ho) as (c & E & M).
  destruct (nth_error l i) as [x|] eqn:Ex; [|apply nth_error_None in Ex; lia].
  exists (x :: c). cbn [pick map]. rewrite Ex, E, M. split; reflexivity.
Qed.
(* a completion order that is a permutation of the round's futures yields a permutation of them *)
Lemma pick_perm {X} (l : list X) o : Permutation o (seq 0 (length l)) -> exists c, pick o l = Some c /\ Permutation c l.
Proof.
  intro HP. destruct (pick_some l o) as (c & E & M).
  - apply Forall_forall. intros i Hi. apply (Permutation_in _ HP) in Hi. apply in_seq in Hi. lia.
  - exists c. split; [exact E|].
    assert (P : Permutation (map Some c) (map Some l)).
    { rewrite M, <- nth_error_all. apply Permutation_map. exact HP. }
    apply Permutation_map_inv in P. destruct P as (l3 & E3 & P3).
    assert (c = l3).
    { clear -E3. revert l3 E3. induction c as [|x c IH]; intros [|y l3] E3; try discriminate; [reflexivity|].
      inversion E3. f_equal. now apply IH. }
    subst l3. now symmetry.
Qed.

Definition valid_orders {X} (orders : list (list nat)) (rounds : list (list X)) : Prop :=
  Forall2 (fun o rd => Permutation o (seq 0 (length rd))) orders rounds.

Lemma chunks_cons {X} w f (l : list X) : l <> [] -> chunks w (S f) l = firstn w l :: chunks w f (skipn w l).
Proof. destruct l; [congruence|reflexivity]. Qed.

Lemma rounds_loop_any_order bs w : 1 <= bs -> forall fuel (rs : list A) last orders,
  length rs <= fuel -> 1 <= w -> valid_orders orders (chunks w fuel rs) ->
  rounds_loop bs last (chunks w fuel (with_begs bs last rs)) orders = Some rs.
Proof.
  intro Hbs. induction fuel as [|f IH]; intros rs last orders Hlen Hw Hv.
  - destruct rs; [reflexivity|cbn [length] in Hlen; lia].
  - assert (Hne : rs = [] \/ rs <> []) by (destruct rs; [left|right]; congruence).
    destruct Hne as [->|Hne]; [reflexivity|].
    assert (Hne' : with_begs bs last rs <> []) by (destruct rs; [congruence|discriminate]).
    assert (Hl1 : 1 <= length rs) by (destruct rs; [congruence|cbn [length]; lia]).
    rewrite (chunks_cons _ _ _ Hne) in Hv. rewrite (chunks_cons _ _ _ Hne').
    inversion Hv as [|o r1 ot rt Ho Hot]; subst.
    cbn [rounds_loop]. rewrite firstn_with_begs, skipn_with_begs.
    destruct (pick_perm (with_begs bs last (firstn w rs)) o) as (c & Ep & Pc).
    { now rewrite with_begs_length. }
    rewrite Ep. rewrite with_begs_length. rewrite (place_round_any_order bs last (firstn w rs) c Hbs Pc).
    rewrite IH; [now rewrite firstn_skipn|..]; try assumption.
    rewrite skipn_length. lia.
Qed.

(* THEOREM A (rounds): for every number of workers and every completion order of every round, the main
   thread sees the batch results in document order *)
Theorem process_rounds_any_order bs workers (rs : list A) orders : 1 <= bs ->
  valid_orders orders (rounds_of workers rs) ->
  process_rounds bs workers (with_begs bs 0 rs) orders = Some rs.
Proof.
  intros Hbs Hv. unfold process_rounds. rewrite with_begs_length.
  apply rounds_loop_any_order; try assumption; lia.
Qed.
End SlotProofs.

(* ================================================================== *)
(* B. the arrival-order dictionary                                     *)
(* ================================================================== *)
(* ids are 0 .. V-1 in insertion order, one entry per token *)
Definition dict_ok (d : dict) : Prop :=
  map snd d = map N.of_nat (seq 0 (length d)) /\ NoDup (map fst d).

Lemma lookup_in {V} t : forall (d : list (N * V)) i, lookup t d = Some i -> In (t, i) d.
Proof.
  induction d as [|[k v] d IH]; intros i H; [discriminate|]. cbn [lookup] in H.
  destruct (N.eqb_spec t k) as [->|Hne]; [inversion H; now left|right; now apply IH].
Qed.
Lemma lookup_none {V} t : forall (d : list (N * V)), lookup t d = None -> ~ In t (map fst d).
Proof.
  induction d as [|[k v] d IH]; intros H; [intros []|]. cbn [lookup] in H.
  destruct (N.eqb_spec t k) as [->|Hne]; [discriminate|]. cbn [map fst]. intros [E|E]; [congruence|now apply IH].
Qed.
Lemma lookup_of_in {V} t : forall (d : list (N * V)), In t (map fst d) -> exists i, lookup t d = Some i.
Proof.
  intros d H. destruct (lookup t d) as [i|] eqn:E; [now exists i|]. now apply lookup_none in E.
Qed.
Lemma snd_nodup_inj {K V} : forall (d : list (K * V)) a b i, NoDup (map snd d) -> In (a, i) d -> In (b, i) d -> a = b.
Proof.
  induction d as [|[k v] d IH]; intros a b i ND Ha Hb; [destruct Ha|].
  cbn [map snd] in ND. inversion ND as [|? ? Hnot ND']; subst.
  destruct Ha as [Ea|Ha], Hb as [Eb|Hb].
  - congruence.
  - inversion Ea; subst. exfalso. apply Hnot. apply in_map_iff. now exists (b, i).
  - inversion Eb; subst. exfalso. apply Hnot. apply in_map_iff. now exists (a, i).
  - eapply IH; eassumption.
Qed.

Lemma dict_ok_ids_nodup d : dict_ok d -> NoDup (map snd d).
Proof.
  intros [E _]. rewrite E. apply FinFun.Injective_map_NoDup; [intros x y; apply Nat2N.inj|apply seq_NoDup].
Qed.
Lemma dict_ok_bound d t i : dict_ok d -> lookup_tok d t = Some i -> (i < N.of_nat (length d))%N.
Proof.
  intros [E _] H. apply lookup_in in H. assert (Hi : In i (map snd d)) by (apply in_map_iff; now exists (t, i)).
  rewrite E in Hi. apply in_map_iff in Hi. destruct Hi as (n & <- & Hn). apply in_seq in Hn. lia.
Qed.
Lemma dict_ok_inj d t1 t2 i : dict_ok d -> lookup_tok d t1 = Some i -> lookup_tok d t2 = Some i -> t1 = t2.
Proof.
  intros Hok H1 H2. apply lookup_in in H1, H2. exact (snd_nodup_inj d t1 t2 i (dict_ok_ids_nodup d Hok) H1 H2).
Qed.

Lemma dict_ok_nil : dict_ok [].
Proof. split; [reflexivity|constructor]. Qed.

Lemma add_term_ok d t : dict_ok d -> dict_ok (fst (add_term d t)).
Proof.
  intros [E ND]. unfold add_term. destruct (lookup_tok d t) eqn:L; cbn [fst]; [split; assumption|].
  split.
  - rewrite map_app, app_length. cbn [length map snd]. rewrite Nat.add_1_r, seq_S, map_app, E. reflexivity.
  - rewrite map_app. cbn [map fst]. apply (Permutation_NoDup (Permutation_cons_append (map fst d) t)).
    constructor; [now apply lookup_none|exact ND].
Qed.
(* add_term returns the id under which the token is (now) stored *)
Lemma add_term_lookup d t : lookup_tok (fst (add_term d t)) t = Some (snd (add_term d t)).
Proof.
  unfold add_term, lookup_tok. destruct (lookup t d) eqn:L; cbn [fst snd]; [exact L|].
  rewrite lookup_app, L. cbn [lookup]. now rewrite N.eqb_refl.
Qed.
Lemma add_term_ext d t : exists ext, fst (add_term d t) = d ++ ext /\ forall x, In x (map fst ext) -> x = t.
Proof.
  unfold add_term. destruct (lookup_tok d t) eqn:L; cbn [fst].
  - exists []. split; [now rewrite app_nil_r|intros x []].
  - eexists. split; [reflexivity|]. intros x [<-|[]]. reflexivity.
Qed.

Lemma run_adds_spec : forall arr d, dict_ok d ->
  dict_ok (fst (run_adds d arr)) /\
  (exists ext, fst (run_adds d arr) = d ++ ext) /\
  (forall t, In t (map fst (fst (run_adds d arr))) <-> In t (map fst d) \/ In t arr) /\
  snd (run_adds d arr) = map (id_of (fst (run_adds d arr))) arr.
Proof.
  induction arr as [|a arr IH]; intros d Hok.
  - cbn [run_adds fst snd map]. split; [exact Hok|]. split; [exists []; now rewrite app_nil_r|].
    split; [intro t; cbn [In]; tauto|reflexivity].
  - cbn [run_adds]. pose proof (add_term_ok d a Hok) as Hok1. pose proof (add_term_lookup d a) as L1.
    destruct (add_term_ext d a) as (ext1 & E1 & Hext1).
    destruct (add_term d a) as [d1 i]. cbn [fst snd] in *.
    destruct (IH d1 Hok1) as (Hok2 & (ext2 & E2) & Hdom & Hids).
    destruct (run_adds d1 arr) as [d2 ids]. cbn [fst snd] in *.
    split; [exact Hok2|]. split; [exists (ext1 ++ ext2); now rewrite E2, E1, app_assoc|]. split.
    + intro t. rewrite Hdom, E1, map_app, in_app_iff. cbn [In]. split.
      * intros [[H|H]|H]; [now left|right; left; symmetry; now apply Hext1|right; now right].
      * intros [H|[<-|H]]; [left; now left| |now right].
        left. apply in_app_iff. rewrite <- map_app, <- E1.
        apply lookup_in in L1. apply in_map_iff. now exists (a, i).
    + cbn [map]. f_equal; [|exact Hids]. unfold id_of, lookup_tok in *. rewrite E2, lookup_app, L1. reflexivity.
Qed.

Lemma dict_of_ok arr : dict_ok (dict_of arr).
Proof. exact (proj1 (run_adds_spec arr [] dict_ok_nil)). Qed.

(* THEOREM B: whatever the arrival sequence, the dictionary is total on the tokens that arrived (and holds
   nothing else), gives distinct tokens distinct ids, and the ids are exactly 0 .. V-1 *)
Theorem dict_of_bijection arr :
  (forall t, In t arr <-> exists i, lookup_tok (dict_of arr) t = Some i) /\
  (forall t1 t2 i, lookup_tok (dict_of arr) t1 = Some i -> lookup_tok (dict_of arr) t2 = Some i -> t1 = t2) /\
  (forall t i, lookup_tok (dict_of arr) t = Some i -> (i < N.of_nat (length (dict_of arr)))%N) /\
  map snd (dict_of arr) = map N.of_nat (seq 0 (length (dict_of arr))).
Proof.
  destruct (run_adds_spec arr [] dict_ok_nil) as (Hok & _ & Hdom & _). fold (dict_of arr) in *.
  split; [|split; [|split]].
  - intro t. specialize (Hdom t). cbn [map In] in Hdom. split.
    + intro H. apply lookup_of_in. apply Hdom. now right.
    + intros (i & H). apply lookup_in in H. assert (In t (map fst (dict_of arr))) by (apply in_map_iff; now exists (t, i)).
      tauto.
  - intros t1 t2 i. now apply dict_ok_inj.
  - intros t i. now apply dict_ok_bound.
  - exact (proj1 Hok).
Qed.

(* the id each thread got from add_term at the time is the id the final dictionary gives the token:
   translating the corpus with the final dictionary is what the threads did *)
Theorem ids_seen_final arr : ids_seen arr = map (id_of (dict_of arr)) arr.
Proof. exact (proj2 (proj2 (proj2 (run_adds_spec arr [] dict_ok_nil)))). Qed.

(* the query-time translation is injective on ALL tokens, known or not *)
Theorem id_of_injective d : dict_ok d -> forall t1 t2, id_of d t1 = id_of d t2 -> t1 = t2.
Proof.
  intros Hok t1 t2. unfold id_of.
  destruct (lookup_tok d t1) as [i|] eqn:L1, (lookup_tok d t2) as [j|] eqn:L2; intro E.
  - subst j. exact (dict_ok_inj d t1 t2 i Hok L1 L2).
  - pose proof (dict_ok_bound d t1 i Hok L1). lia.
  - pose proof (dict_ok_bound d t2 j Hok L2). lia.
  - lia.
Qed.

(* ---- schedules: an interleaving only reorders the tokens ---- *)
Lemma set_nth_tokens : forall (streams : list (list tok)) i x more, nth_error streams i = Some (x :: more) ->
  forall t, In t (concat streams) <-> t = x \/ In t (concat (set_nth streams i more)).
Proof.
  induction streams as [|s0 st IH]; intros i x more H t; [destruct i; discriminate|].
  destruct i as [|i]; cbn [nth_error] in H.
  - inversion H; subst. cbn [set_nth concat]. rewrite !in_app_iff. cbn [In]. intuition congruence.
  - cbn [set_nth concat]. rewrite !in_app_iff, (IH i x more H t). tauto.
Qed.
Lemma interleave_tokens : forall sched streams t,
  In t (concat streams) <-> In t (fst (interleave streams sched)) \/ In t (concat (snd (interleave streams sched))).
Proof.
  induction sched as [|i rest IH]; intros streams t; cbn [interleave]; [cbn [fst snd In]; tauto|].
  destruct (nth_error streams i) as [[|x more]|] eqn:E; try apply IH.
  rewrite (set_nth_tokens streams i x more E t), (IH (set_nth streams i more) t).
  destruct (interleave (set_nth streams i more) rest) as [arr fin]. cbn [fst snd In]. intuition congruence.
Qed.
Lemma all_nil_concat : forall l : list (list tok),
  forallb (fun s => match s with [] => true | _ => false end) l = true -> concat l = [].
Proof.
  induction l as [|[|x s] l IH]; cbn [forallb concat]; intro H; [reflexivity|now apply IH|discriminate].
Qed.
Lemma complete_arrivals streams sched : complete streams sched = true ->
  forall t, In t (arrivals streams sched) <-> In t (concat streams).
Proof.
  intros H t. unfold complete in H. apply all_nil_concat in H. unfold arrivals.
  rewrite (interleave_tokens sched streams t), H. cbn [In]. tauto.
Qed.

Lemma concat_batches_of bs : 1 <= bs -> forall fuel (l : list doc),
  length l <= fuel -> concat (batches_of bs fuel l) = l.
Proof.
  intro Hbs. induction fuel as [|f IH]; intros l Hl.
  - destruct l; [reflexivity|cbn [length] in Hl; lia].
  - destruct l as [|d l']; [reflexivity|]. remember (d :: l') as l eqn:El.
    assert (E : batches_of bs (S f) l = firstn bs l :: batches_of bs f (skipn bs l)) by (subst l; reflexivity).
    rewrite E. cbn [concat]. rewrite IH; [apply firstn_skipn|]. rewrite skipn_length. subst l. unfold doc in *. cbn [length] in *. lia.
Qed.
Lemma concat_map_concat {X} : forall B : list (list (list X)), concat (map (@concat X) B) = concat (concat B).
Proof. induction B as [|b B IH]; [reflexivity|]. cbn [map concat]. now rewrite concat_app, IH. Qed.
Lemma streams_of_tokens bs tdocs : concat (streams_of bs tdocs) = concat tdocs.
Proof.
  unfold streams_of. rewrite concat_map_concat. f_equal. apply (concat_batches_of (Nat.max 1 bs)); [lia|apply Nat.le_refl].
Qed.

(* THEOREM B for schedules: for every batch size and every complete interleaving of the batch threads, every
   token of the corpus (and nothing else) has an id, distinct tokens have distinct ids, ids are 0 .. V-1 *)
Theorem sched_dict_total_injective bs tdocs sched : complete (streams_of bs tdocs) sched = true ->
  dict_ok (sched_dict bs tdocs sched) /\
  (forall t, In t (concat tdocs) <-> exists i, lookup_tok (sched_dict bs tdocs sched) t = Some i) /\
  (forall t1 t2 i, lookup_tok (sched_dict bs tdocs sched) t1 = Some i ->
                   lookup_tok (sched_dict bs tdocs sched) t2 = Some i -> t1 = t2) /\
  (forall t1 t2, id_of (sched_dict bs tdocs sched) t1 = id_of (sched_dict bs tdocs sched) t2 -> t1 = t2).
Proof.
  intro Hc. unfold sched_dict.
  destruct (dict_of_bijection (arrivals (streams_of bs tdocs) sched)) as (Hdom & Hinj & _ & _).
  split; [apply dict_of_ok|]. split; [|split; [exact Hinj|apply id_of_injective, dict_of_ok]].
  intro t. rewrite <- Hdom, (complete_arrivals _ _ Hc), streams_of_tokens. tauto.
Qed.

(* ================================================================== *)
(* C. term ids, schedules, completion orders are irrelevant            *)
(* ================================================================== *)
Open Scope N_scope.

(* ---- C.0 the counting specs are invariant under an injective renaming ---- *)
Definition inj_on (f : tok -> N) (l : list tok) : Prop :=
  forall x y, In x l -> In y l -> f x = f y -> x = y.

Lemma inj_on_incl f l l' : incl l' l -> inj_on f l -> inj_on f l'.
Proof. intros Hi H x y Hx Hy. apply H; apply Hi; assumption. Qed.
Lemma inj_on_global f l : (forall x y, f x = f y -> x = y) -> inj_on f l.
Proof. intros H x y _ _. apply H. Qed.
Lemma inj_eqb f l x y : inj_on f l -> In x l -> In y l -> (f x =? f y) = (x =? y).
Proof.
  intros H Hx Hy. destruct (N.eqb_spec x y) as [->|Hne]; [apply N.eqb_refl|].
  apply N.eqb_neq. intro E. apply Hne. now apply H.
Qed.

(* f distinguishes t from every token of l exactly as the tokens themselves do *)
Definition eq_on (f : tok -> N) (t : tok) (l : list tok) : Prop := forall x, In x l -> (f t =? f x) = (t =? x).
Lemma eq_on_of_inj f t l : inj_on f (t :: l) -> eq_on f t l.
Proof. intros H x Hx. apply (inj_eqb f (t :: l)); [exact H|now left|now right]. Qed.
Lemma eq_on_doc f t docs d : eq_on f t (concat docs) -> In d docs -> eq_on f t d.
Proof. intros H Hd x Hx. apply H. apply in_concat. now exists d. Qed.

Lemma filter_map_length {X Y} (g : X -> Y) (p : Y -> bool) (q : X -> bool) : forall l,
  (forall x, In x l -> p (g x) = q x) -> length (filter p (map g l)) = length (filter q l).
Proof.
  induction l as [|x l IH]; intro H; [reflexivity|]. cbn [map filter].
  rewrite (H x (or_introl eq_refl)). specialize (IH (fun y Hy => H y (or_intror Hy))).
  destruct (q x); cbn [length]; now rewrite IH.
Qed.

Lemma count_tok_rename f t d : eq_on f t d -> count_tok (f t) (map f d) = count_tok t d.
Proof. intro H. unfold count_tok. f_equal. apply filter_map_length. exact H. Qed.
Lemma existsb_rename f t : forall d, eq_on f t d -> existsb (N.eqb (f t)) (map f d) = existsb (N.eqb t) d.
Proof.
  induction d as [|x d IH]; intro H; [reflexivity|]. cbn [map existsb].
  rewrite (H x (or_introl eq_refl)), IH; [reflexivity|]. intros y Hy. apply H. now right.
Qed.
Lemma offsets_rename f t : forall d i, eq_on f t d -> offsets_from i (f t) (map f d) = offsets_from i t d.
Proof.
  induction d as [|x d IH]; intros i H; [reflexivity|]. cbn [map offsets_from].
  rewrite (N.eqb_sym (f x)), (H x (or_introl eq_refl)), (N.eqb_sym t x).
  rewrite IH; [reflexivity|]. intros y Hy. apply H. now right.
Qed.

Lemma tf_spec_rename f t docs : eq_on f t (concat docs) -> tf_spec (map (map f) docs) (f t) = tf_spec docs t.
Proof.
  intro H. unfold tf_spec. rewrite map_map. apply map_ext_in. intros d Hd.
  apply count_tok_rename. exact (eq_on_doc f t docs d H Hd).
Qed.
Lemma df_spec_rename f t docs : eq_on f t (concat docs) -> df_spec (map (map f) docs) (f t) = df_spec docs t.
Proof.
  intro H. unfold df_spec. f_equal.
  apply (filter_map_length (map f) (fun d => existsb (N.eqb (f t)) d) (fun d => existsb (N.eqb t) d)).
  intros d Hd. apply existsb_rename. exact (eq_on_doc f t docs d H Hd).
Qed.
Lemma lens_spec_rename f docs : lens_spec (map (map f) docs) = lens_spec docs.
Proof. unfold lens_spec. rewrite map_map. apply map_ext. intro d. now rewrite map_length. Qed.
Lemma total_spec_rename f docs : total_spec (map (map f) docs) = total_spec docs.
Proof. unfold total_spec. now rewrite <- concat_map, map_length. Qed.
Lemma positions_spec_rename f t docs : eq_on f t (concat docs) ->
  positions_spec (map (map f) docs) (f t) = positions_spec docs t.
Proof.
  intro H. unfold positions_spec. rewrite map_map. apply map_ext_in. intros d Hd.
  apply offsets_rename. exact (eq_on_doc f t docs d H Hd).
Qed.
Lemma in_corpus_rename f t docs : inj_on f (t :: concat docs) ->
  In (f t) (concat (map (map f) docs)) <-> In t (concat docs).
Proof.
  intro H. rewrite <- concat_map, in_map_iff. split.
  - intros (x & E & Hx). assert (x = t) by (apply H; [now right|now left|exact E]). now subst x.
  - intro Ht. now exists t.
Qed.

Lemma prefix_rename f : forall ph d, (forall p x, In p ph -> In x d -> (f p =? f x) = (p =? x)) ->
  prefix_eqb (map f ph) (map f d) = prefix_eqb ph d.
Proof.
  induction ph as [|p ph IH]; intros d H; [reflexivity|]. destruct d as [|x d]; [reflexivity|].
  cbn [map prefix_eqb]. rewrite (H p x (or_introl eq_refl) (or_introl eq_refl)). f_equal.
  apply IH. intros p' x' Hp Hx. apply H; now right.
Qed.
Lemma occ_rename f ph : forall d, (forall p x, In p ph -> In x d -> (f p =? f x) = (p =? x)) ->
  occ (map f ph) (map f d) = occ ph d.
Proof.
  induction d as [|x d IH]; intro H; [reflexivity|].
  cbn [map occ]. change (f x :: map f d) with (map f (x :: d)). rewrite (prefix_rename f ph (x :: d) H).
  f_equal. apply IH. intros p' x' Hp Hx. apply H; [exact Hp|now right].
Qed.
Lemma phrase_spec_rename f ph docs : inj_on f (ph ++ concat docs) ->
  phrase_spec (map (map f) docs) (map f ph) = phrase_spec docs ph.
Proof.
  intro H. unfold phrase_spec. rewrite map_map. apply map_ext_in. intros d Hd. apply occ_rename.
  intros p x Hp Hx. apply (inj_eqb f _ p x H); apply in_app_iff; [now left|right].
  apply in_concat. now exists d.
Qed.
Lemma no_adjacent_repeat_rename f : forall ph, inj_on f ph -> no_adjacent_repeat (map f ph) = no_adjacent_repeat ph.
Proof.
  induction ph as [|x [|y t] IH]; intro H; [reflexivity|reflexivity|].
  change (no_adjacent_repeat (map f (x :: y :: t)))
    with (negb (f x =? f y) && no_adjacent_repeat (map f (y :: t)))%bool.
  change (no_adjacent_repeat (x :: y :: t)) with (negb (x =? y) && no_adjacent_repeat (y :: t))%bool.
  rewrite IH.
  - rewrite (inj_eqb f (x :: y :: t) x y H); [reflexivity|now left|right; now left].
  - apply (inj_on_incl f (x :: y :: t)); [intros z Hz; now right|exact H].
Qed.

(* wf_docs only bounds the shape (lengths, number of rows), which a renaming keeps *)
Lemma wf_docs_rename f tdocs : wf_docs tdocs -> wf_docs (map (map f) tdocs).
Proof.
  intros [Hl Hn]. split; [|now rewrite map_length].
  apply Forall_map. eapply Forall_impl; [|exact Hl]. intros d Hd. cbn beta. now rewrite map_length.
Qed.

(* ---- C.1 one renaming: the answers are the counting specs of the TOKEN corpus ---- *)
Record answers_are_spec (f : tok -> N) (tdocs : list (list tok)) (ix : sindex) : Prop := {
  a_termfreqs : forall t, inj_on f (t :: concat tdocs) -> termfreqs ix (f t) = AOk (tf_spec tdocs t);
  a_docfreq : forall t, inj_on f (t :: concat tdocs) -> docfreq ix (f t) = AOk (df_spec tdocs t);
  a_doclengths : doclengths ix = lens_spec tdocs;
  a_corpus_size : corpus_size ix = N.of_nat (length tdocs);
  a_total_len : total_len ix = total_spec tdocs;
  a_positions : forall t, inj_on f (t :: concat tdocs) -> In t (concat tdocs) ->
                positions ix (f t) = AOk (positions_spec tdocs t);
  a_positions_absent : forall t, inj_on f (t :: concat tdocs) -> ~ In t (concat tdocs) ->
                positions ix (f t) = AExc TermMissing;
  a_phrase : forall ph, inj_on f (ph ++ concat tdocs) -> (2 <= length ph)%nat -> no_adjacent_repeat ph = true ->
                phrase_freqs ix (map f ph) = AOk (phrase_spec tdocs ph);
  a_phrase_absent : forall ph t, inj_on f (t :: concat tdocs) -> In t ph -> ~ In t (concat tdocs) ->
                phrase_freqs ix (map f ph) = AOk (repeat 0 (length tdocs))
}.

Theorem renamed_index_answers f tdocs bs : wf_docs tdocs ->
  exists ix, index false bs (map (map f) tdocs) = AOk ix /\ answers_are_spec f tdocs ix.
Proof.
  intro Hwf0. pose proof (wf_docs_rename f tdocs Hwf0) as Hwf. set (docs := map (map f) tdocs) in *.
  destruct (C01_termfreqs_any docs bs Hwf) as (ix & E & Htf). exists ix. split; [exact E|].
  destruct (C02_docfreq_any docs bs Hwf) as (ix2 & E2 & Hdf). rewrite E in E2. inversion E2; subst ix2. clear E2.
  destruct (C02_doclens_any docs bs Hwf) as (ix2 & E2 & Hlen & Hn & Htot). rewrite E in E2. inversion E2; subst ix2. clear E2.
  destruct (C05_positions_any docs bs Hwf) as (ix2 & E2 & Hpos & Hposa). rewrite E in E2. inversion E2; subst ix2. clear E2.
  constructor.
  - intros t Hi. rewrite Htf. f_equal. apply tf_spec_rename, eq_on_of_inj, Hi.
  - intros t Hi. rewrite Hdf. f_equal. apply df_spec_rename, eq_on_of_inj, Hi.
  - rewrite Hlen. apply lens_spec_rename.
  - rewrite Hn. unfold docs. now rewrite map_length.
  - rewrite Htot. apply total_spec_rename.
  - intros t Hi Hin. rewrite Hpos by (apply (in_corpus_rename f t tdocs Hi); exact Hin).
    f_equal. apply positions_spec_rename, eq_on_of_inj, Hi.
  - intros t Hi Hnin. apply Hposa. intro H. apply Hnin. apply (in_corpus_rename f t tdocs Hi). exact H.
  - intros ph Hi Hlen2 Hrep.
    destruct (C03_phrase_freqs docs bs (map f ph) Hwf) as (ix2 & E2 & Hph).
    { now rewrite map_length. }
    { rewrite no_adjacent_repeat_rename; [exact Hrep|].
      apply (inj_on_incl f (ph ++ concat tdocs)); [intros z Hz; apply in_app_iff; now left|exact Hi]. }
    rewrite E in E2. inversion E2; subst ix2. etransitivity; [exact Hph|]. f_equal. apply phrase_spec_rename, Hi.
  - intros ph t Hi Hin Hnin.
    destruct (C03_absent_term_zero docs bs (map f ph) (f t) Hwf) as (ix2 & E2 & Hph).
    { apply in_map. exact Hin. }
    { intro H. apply Hnin. apply (in_corpus_rename f t tdocs Hi). exact H. }
    rewrite E in E2. inversion E2; subst ix2. etransitivity; [exact Hph|]. unfold docs. now rewrite map_length.
Qed.

(* ---- C.2 two renamings, two batch sizes: the same answers ---- *)
Theorem term_ids_irrelevant f1 f2 tdocs bs1 bs2 : wf_docs tdocs ->
  exists ix1 ix2,
    index false bs1 (map (map f1) tdocs) = AOk ix1 /\ index false bs2 (map (map f2) tdocs) = AOk ix2 /\
    (forall t, inj_on f1 (t :: concat tdocs) -> inj_on f2 (t :: concat tdocs) ->
       termfreqs ix1 (f1 t) = termfreqs ix2 (f2 t) /\ docfreq ix1 (f1 t) = docfreq ix2 (f2 t) /\
       positions ix1 (f1 t) = positions ix2 (f2 t)) /\
    doclengths ix1 = doclengths ix2 /\ corpus_size ix1 = corpus_size ix2 /\ total_len ix1 = total_len ix2 /\
    (forall ph, inj_on f1 (ph ++ concat tdocs) -> inj_on f2 (ph ++ concat tdocs) ->
       (2 <= length ph)%nat -> no_adjacent_repeat ph = true ->
       phrase_freqs ix1 (map f1 ph) = phrase_freqs ix2 (map f2 ph)).
Proof.
  intro Hwf. destruct (renamed_index_answers f1 tdocs bs1 Hwf) as (ix1 & E1 & A1).
  destruct (renamed_index_answers f2 tdocs bs2 Hwf) as (ix2 & E2 & A2).
  exists ix1, ix2. split; [exact E1|]. split; [exact E2|]. split; [|split; [|split; [|split]]].
  - intros t H1 H2. rewrite (a_termfreqs _ _ _ A1 t H1), (a_termfreqs _ _ _ A2 t H2).
    rewrite (a_docfreq _ _ _ A1 t H1), (a_docfreq _ _ _ A2 t H2). split; [reflexivity|]. split; [reflexivity|].
    destruct (in_dec N.eq_dec t (concat tdocs)) as [Hin|Hnin].
    + now rewrite (a_positions _ _ _ A1 t H1 Hin), (a_positions _ _ _ A2 t H2 Hin).
    + now rewrite (a_positions_absent _ _ _ A1 t H1 Hnin), (a_positions_absent _ _ _ A2 t H2 Hnin).
  - now rewrite (a_doclengths _ _ _ A1), (a_doclengths _ _ _ A2).
  - now rewrite (a_corpus_size _ _ _ A1), (a_corpus_size _ _ _ A2).
  - now rewrite (a_total_len _ _ _ A1), (a_total_len _ _ _ A2).
  - intros ph H1 H2 Hl Hr. now rewrite (a_phrase _ _ _ A1 ph H1 Hl Hr), (a_phrase _ _ _ A2 ph H2 Hl Hr).
Qed.

(* ---- C.3 the threaded build IS the sequential build, for every completion order and worker count ---- *)
Open Scope nat_scope.
Fixpoint batch_results (trunc : bool) (bs beg : nat) (bl : list (list doc)) : list (api batch_index) :=
  match bl with
  | [] => []
  | b :: rest => build_batch trunc (N.of_nat beg) b :: batch_results trunc bs (beg + bs) rest
  end.
Lemma futures_eq trunc bs : forall bl beg,
  map (tokenize_future trunc) (with_begs bs beg bl) = with_begs bs beg (batch_results trunc bs beg bl).
Proof. induction bl as [|b bl IH]; intro beg; [reflexivity|]. cbn [with_begs map batch_results]. now rewrite IH. Qed.
Lemma batch_results_length trunc bs : forall bl beg, length (batch_results trunc bs beg bl) = length bl.
Proof. induction bl as [|b bl IH]; intro beg; [reflexivity|]. cbn [batch_results length]. now rewrite IH. Qed.
Lemma fold_results_eq trunc bs : forall bl beg posts lens,
  fold_results (batch_results trunc bs beg bl) posts lens
  = index_batches trunc (N.of_nat bs) (N.of_nat beg) bl posts lens.
Proof.
  induction bl as [|b bl IH]; intros beg posts lens; [reflexivity|].
  cbn [batch_results fold_results index_batches]. destruct (build_batch trunc (N.of_nat beg) b); cbn [abind]; try reflexivity.
  rewrite IH. now rewrite Nat2N.inj_add.
Qed.

(* validity of the completion orders only depends on how many batches there are *)
Lemma valid_orders_length {X Y} w : forall fuel orders (l : list X) (l' : list Y), length l = length l' ->
  valid_orders orders (chunks w fuel l) -> valid_orders orders (chunks w fuel l').
Proof.
  induction fuel as [|f IH]; intros orders l l' Hlen Hv; [cbn [chunks] in *; inversion Hv; constructor|].
  destruct l as [|x l], l' as [|y l']; try discriminate; [cbn [chunks] in *; inversion Hv; constructor|].
  rewrite (chunks_cons w f (x :: l)) in Hv by discriminate. rewrite (chunks_cons w f (y :: l')) by discriminate.
  inversion Hv as [|o r1 ot rt Ho Hot]; subst.
  constructor.
  - rewrite firstn_length in *. now rewrite <- Hlen.
  - apply (IH ot (skipn w (x :: l))); [|exact Hot]. rewrite !skipn_length. now rewrite Hlen.
Qed.
Lemma batches_of_map (g : doc -> doc) bs : forall fuel l,
  batches_of bs fuel (map g l) = map (map g) (batches_of bs fuel l).
Proof.
  induction fuel as [|f IH]; intro l; [reflexivity|]. destruct l as [|d l]; [reflexivity|].
  change (map g (d :: l)) with (g d :: map g l) at 1. cbn [batches_of].
  change (g d :: map g l) with (map g (d :: l)). rewrite firstn_map, skipn_map, IH. reflexivity.
Qed.

(* the completion orders handed to a run are legal: one permutation of the round's futures per round *)
Definition legal_orders (bs workers : nat) (orders : list (list nat)) (tdocs : list (list tok)) : Prop :=
  valid_orders orders (rounds_of workers (batches_of (Nat.max 1 bs) (length tdocs) tdocs)).

Theorem index_sched_is_index bs workers orders f tdocs : legal_orders bs workers orders tdocs ->
  index_sched bs workers orders f tdocs = Some (index false bs (map (map f) tdocs)).
Proof.
  intro Hv. unfold index_sched. rewrite futures_eq.
  set (bsz := Nat.max 1 bs) in *. set (docs := map (map f) tdocs).
  rewrite process_rounds_any_order.
  - unfold index. fold bsz. rewrite fold_results_eq. reflexivity.
  - lia.
  - unfold legal_orders, rounds_of in *. fold bsz in Hv. rewrite batch_results_length.
    unfold docs. rewrite map_length, (batches_of_map (map f)), map_length.
    eapply valid_orders_length; [|exact Hv]. now rewrite batch_results_length, map_length.
Qed.

(* ---- C.4 end to end ---- *)
Open Scope N_scope.
(* one run: any batch size, worker count, completion orders, token interleaving.  The build succeeds, the
   corpus is translated with ids the dictionary really assigned, and every answer, queried through the run's
   own dictionary, is the counting spec of the token corpus: no ids, no schedule in the right-hand sides. *)
Theorem threaded_build_correct tdocs bs workers orders sched :
  wf_docs tdocs -> legal_orders bs workers orders tdocs -> complete (streams_of bs tdocs) sched = true ->
  let d := sched_dict bs tdocs sched in
  exists ix, index_run bs workers orders sched tdocs = Some (AOk ix) /\
    (forall t, In t (concat tdocs) -> lookup_tok d t = Some (id_of d t)) /\
    (forall t, termfreqs ix (id_of d t) = AOk (tf_spec tdocs t)) /\
    (forall t, docfreq ix (id_of d t) = AOk (df_spec tdocs t)) /\
    doclengths ix = lens_spec tdocs /\ corpus_size ix = N.of_nat (length tdocs) /\ total_len ix = total_spec tdocs /\
    (forall t, In t (concat tdocs) -> positions ix (id_of d t) = AOk (positions_spec tdocs t)) /\
    (forall t, ~ In t (concat tdocs) -> positions ix (id_of d t) = AExc TermMissing) /\
    (forall ph, (2 <= length ph)%nat -> no_adjacent_repeat ph = true ->
       phrase_freqs ix (map (id_of d) ph) = AOk (phrase_spec tdocs ph)) /\
    (forall ph t, In t ph -> ~ In t (concat tdocs) ->
       phrase_freqs ix (map (id_of d) ph) = AOk (repeat 0 (length tdocs))).
Proof.
  intros Hwf Hv Hc d.
  destruct (sched_dict_total_injective bs tdocs sched Hc) as (Hok & Hdom & _ & Hinj). fold d in Hok, Hdom, Hinj.
  destruct (renamed_index_answers (id_of d) tdocs bs Hwf) as (ix & E & A).
  exists ix. split; [unfold index_run; fold d; now rewrite index_sched_is_index, E|].
  pose proof (fun l => inj_on_global (id_of d) l Hinj) as Hg.
  split.
  { intros t Ht. apply Hdom in Ht. destruct Ht as (i & L). unfold id_of. now rewrite L. }
  split; [intro t; apply (a_termfreqs _ _ _ A), Hg|].
  split; [intro t; apply (a_docfreq _ _ _ A), Hg|].
  split; [apply (a_doclengths _ _ _ A)|]. split; [apply (a_corpus_size _ _ _ A)|]. split; [apply (a_total_len _ _ _ A)|].
  split; [intros t Ht; apply (a_positions _ _ _ A); [apply Hg|exact Ht]|].
  split; [intros t Ht; apply (a_positions_absent _ _ _ A); [apply Hg|exact Ht]|].
  split; [intros ph Hl Hr; apply (a_phrase _ _ _ A); [apply Hg|exact Hl|exact Hr]|].
  intros ph t Hin Hnin. apply (a_phrase_absent _ _ _ A ph t); [apply Hg|exact Hin|exact Hnin].
Qed.

(* MAIN COROLLARY C: two runs of the threaded build over the same token corpus -- different batch sizes, worker
   counts, completion orders and token interleavings, hence different term ids -- answer every query alike *)
Theorem threaded_build_irrelevant tdocs bs1 w1 orders1 sched1 bs2 w2 orders2 sched2 :
  wf_docs tdocs ->
  legal_orders bs1 w1 orders1 tdocs -> complete (streams_of bs1 tdocs) sched1 = true ->
  legal_orders bs2 w2 orders2 tdocs -> complete (streams_of bs2 tdocs) sched2 = true ->
  let d1 := sched_dict bs1 tdocs sched1 in
  let d2 := sched_dict bs2 tdocs sched2 in
  exists ix1 ix2,
    index_run bs1 w1 orders1 sched1 tdocs = Some (AOk ix1) /\
    index_run bs2 w2 orders2 sched2 tdocs = Some (AOk ix2) /\
    (forall t, termfreqs ix1 (id_of d1 t) = termfreqs ix2 (id_of d2 t)) /\
    (forall t, docfreq ix1 (id_of d1 t) = docfreq ix2 (id_of d2 t)) /\
    doclengths ix1 = doclengths ix2 /\ corpus_size ix1 = corpus_size ix2 /\ total_len ix1 = total_len ix2 /\
    (forall t, positions ix1 (id_of d1 t) = positions ix2 (id_of d2 t)) /\
    (forall ph, (2 <= length ph)%nat -> no_adjacent_repeat ph = true ->
       phrase_freqs ix1 (map (id_of d1) ph) = phrase_freqs ix2 (map (id_of d2) ph)) /\
    (forall ph t, In t ph -> ~ In t (concat tdocs) ->
       phrase_freqs ix1 (map (id_of d1) ph) = phrase_freqs ix2 (map (id_of d2) ph)).
Proof.
  intros Hwf Hv1 Hc1 Hv2 Hc2 d1 d2.
  destruct (threaded_build_correct tdocs bs1 w1 orders1 sched1 Hwf Hv1 Hc1)
    as (ix1 & E1 & _ & T1 & D1 & L1 & N1 & S1 & P1 & Q1 & F1 & G1).
  destruct (threaded_build_correct tdocs bs2 w2 orders2 sched2 Hwf Hv2 Hc2)
    as (ix2 & E2 & _ & T2 & D2 & L2 & N2 & S2 & P2 & Q2 & F2 & G2).
  fold d1 in T1, D1, P1, Q1, F1, G1. fold d2 in T2, D2, P2, Q2, F2, G2.
  exists ix1, ix2. split; [exact E1|]. split; [exact E2|].
  split; [intro t; now rewrite T1, T2|]. split; [intro t; now rewrite D1, D2|].
  split; [now rewrite L1, L2|]. split; [now rewrite N1, N2|]. split; [now rewrite S1, S2|].
  split.
  { intro t. destruct (in_dec N.eq_dec t (concat tdocs)) as [Hin|Hnin].
    - now rewrite (P1 t Hin), (P2 t Hin).
    - now rewrite (Q1 t Hnin), (Q2 t Hnin). }
  split; [intros ph Hl Hr; now rewrite (F1 ph Hl Hr), (F2 ph Hl Hr)|].
  intros ph t Hin Hnin. now rewrite (G1 ph t Hin Hnin), (G2 ph t Hin Hnin).
Qed.

(* ================================================================== *)
(* D. executable instances                                             *)
(* ================================================================== *)
Open Scope nat_scope.

(* 7 batches of size 2, 3 workers: rounds {0,1,2} {3,4,5} {6}; the futures complete scrambled *)
Example D_seven_batches_scrambled :
  let futures := with_begs 2 0 [100; 101; 102; 103; 104; 105; 106] in
  futures = [(0, 100); (2, 101); (4, 102); (6, 103); (8, 104); (10, 105); (12, 106)] /\
  process_rounds 2 3 futures [[2; 0; 1]; [1; 2; 0]; [0]] = Some [100; 101; 102; 103; 104; 105; 106] /\
  process_rounds 2 3 futures [[0; 1; 2]; [2; 1; 0]; [0]] = Some [100; 101; 102; 103; 104; 105; 106] /\
  process_rounds 2 2 futures [[1; 0]; [1; 0]; [0; 1]; [0]] = Some [100; 101; 102; 103; 104; 105; 106].
Proof. vm_compute. repeat split. Qed.

(* the asserts fire: the same future reported twice; a beg of another round; a future that never reports;
   and, at the level of rounds, an order that is not a permutation *)
Example D_asserts_fire :
  place_round 2 6 3 [(8, 1); (6, 0); (8, 2)] = None /\
  place_round 2 6 3 [(8, 1); (6, 0); (12, 2)] = None /\
  place_round 2 6 3 [(8, 1); (6, 0)] = None /\
  place_round 2 6 3 [(10, 2); (6, 0); (8, 1)] = Some [0; 1; 2] /\
  process_rounds 2 3 (with_begs 2 0 [100; 101; 102; 103]) [[0; 0; 1]; [0]] = None.
Proof. vm_compute. repeat split. Qed.

Open Scope N_scope.
Definition D_corpus : list (list tok) := [[50; 60; 50]; [70; 50]; [60; 80; 70]; []; [90; 50; 60]; [60]; [80; 80; 50]].

(* the whole threaded build on 7 one-document batches, 3 workers, scrambled completion: the index of the
   sequential model, and the hypotheses of the theorems hold for it *)
Example D_threaded_build :
  let sched := [6; 6; 0; 1; 6; 2; 4; 0; 5; 2; 1; 4; 0; 2; 4]%nat in
  wf_docs D_corpus /\
  legal_orders 1 3 [[2; 0; 1]; [1; 2; 0]; [0]]%nat D_corpus /\
  complete (streams_of 1 D_corpus) sched = true /\
  sched_dict 1 D_corpus sched = [(80, 0); (50, 1); (70, 2); (60, 3); (90, 4)] /\
  index_run 1 3 [[2; 0; 1]; [1; 2; 0]; [0]]%nat sched D_corpus
    = Some (index false 1 (map (map (id_of (sched_dict 1 D_corpus sched))) D_corpus)).
Proof.
  cbv zeta. split; [unfold D_corpus; split; [repeat constructor; cbn; lia|cbn; lia]|].
  split.
  { unfold legal_orders, rounds_of. cbn.
    constructor; [exact (Permutation_cons_append [0; 1] 2)%nat|].
    constructor; [symmetry; exact (Permutation_cons_append [1; 2] 0)%nat|].
    constructor; [apply Permutation_refl|constructor]. }
  vm_compute. repeat split.
Qed.

(* two interleavings of the same threads: different dictionaries, the same answers for every token *)
Example D_two_schedules :
  let s1 := serial_sched (streams_of 2 D_corpus) in
  let s2 := [3; 3; 3; 2; 0; 2; 1; 2; 0; 1; 2; 0; 1; 0; 0]%nat in
  let d1 := sched_dict 2 D_corpus s1 in
  let d2 := sched_dict 2 D_corpus s2 in
  complete (streams_of 2 D_corpus) s1 = true /\ complete (streams_of 2 D_corpus) s2 = true /\
  d1 = [(50, 0); (60, 1); (70, 2); (80, 3); (90, 4)] /\
  d2 = [(80, 0); (50, 1); (90, 2); (60, 3); (70, 4)] /\
  match index_run 2 2 [[0; 1]; [1; 0]]%nat s1 D_corpus, index_run 2 3 [[2; 1; 0]; [0]]%nat s2 D_corpus with
  | Some (AOk ix1), Some (AOk ix2) =>
      ix_posts ix1 <> ix_posts ix2 /\
      map (fun t => termfreqs ix1 (id_of d1 t)) [50; 60; 70; 80; 90; 99]
        = map (fun t => termfreqs ix2 (id_of d2 t)) [50; 60; 70; 80; 90; 99] /\
      termfreqs ix1 (id_of d1 50) = AOk [2; 1; 0; 0; 1; 0; 1] /\
      termfreqs ix2 (id_of d2 50) = AOk [2; 1; 0; 0; 1; 0; 1] /\
      termfreqs ix1 (id_of d2 50) = AOk [1; 0; 1; 0; 1; 1; 0] /\     (* the other run's id: token 60's row *)
      docfreq ix1 (id_of d1 80) = docfreq ix2 (id_of d2 80) /\
      positions ix1 (id_of d1 60) = positions ix2 (id_of d2 60) /\
      phrase_freqs ix1 (map (id_of d1) [50; 60]) = phrase_freqs ix2 (map (id_of d2) [50; 60]) /\
      phrase_freqs ix1 (map (id_of d1) [50; 60]) = AOk [1; 0; 0; 0; 1; 0; 0]
  | _, _ => False
  end.
Proof. vm_compute. repeat split. discriminate. Qed.

(* ---- the hypotheses are satisfiable for EVERY corpus and configuration: in-order completion and the serial
   schedule (thread 0 to the end, then thread 1, ...) are legal ---- *)
Open Scope nat_scope.
Definition identity_orders {X} (rounds : list (list X)) : list (list nat) := map (fun rd => seq 0 (length rd)) rounds.
Lemma identity_orders_valid {X} (rounds : list (list X)) : valid_orders (identity_orders rounds) rounds.
Proof. induction rounds as [|rd rounds IH]; constructor; [apply Permutation_refl|exact IH]. Qed.

Lemma set_nth_app {X} : forall (done : list X) x rest v, set_nth (done ++ x :: rest) (length done) v = done ++ v :: rest.
Proof. induction done as [|y done IH]; intros x rest v; [reflexivity|]. cbn [app length set_nth]. now rewrite IH. Qed.
Lemma nth_error_mid {X} : forall (done : list X) x rest, nth_error (done ++ x :: rest) (length done) = Some x.
Proof. induction done as [|y done IH]; intros x rest; [reflexivity|]. cbn [app length nth_error]. apply IH. Qed.

Lemma interleave_drain : forall (s : list tok) done todo rest,
  interleave (done ++ s :: todo) (repeat (length done) (length s) ++ rest)
  = (s ++ fst (interleave (done ++ [] :: todo) rest), snd (interleave (done ++ [] :: todo) rest)).
Proof.
  induction s as [|x s IH]; intros done todo rest.
  - cbn [length repeat app]. now destruct (interleave (done ++ [] :: todo) rest).
  - cbn [length repeat app interleave]. rewrite nth_error_mid, set_nth_app, IH. reflexivity.
Qed.

Definition sched_from (k : nat) (todo : list (list tok)) : list nat :=
  concat (map (fun js => repeat (fst js) (length (snd js))) (combine (seq k (length todo)) todo)).
Lemma serial_drains : forall todo done,
  snd (interleave (done ++ todo) (sched_from (length done) todo)) = done ++ map (fun _ => []) todo.
Proof.
  induction todo as [|s todo IH]; intro done; [reflexivity|].
  unfold sched_from. cbn [length seq combine map concat fst snd]. fold (sched_from (S (length done)) todo).
  rewrite interleave_drain. cbn [snd].
  replace (done ++ [] :: todo) with ((done ++ [[]]) ++ todo) by now rewrite <- app_assoc.
  replace (S (length done)) with (length (done ++ [[]])) by (rewrite app_length; cbn [length]; lia).
  rewrite IH. now rewrite <- app_assoc.
Qed.
Lemma serial_sched_complete streams : complete streams (serial_sched streams) = true.
Proof.
  unfold complete. pose proof (serial_drains streams []) as H. cbn [app length] in H.
  unfold sched_from in H. unfold serial_sched. rewrite H. apply forallb_forall. intros x Hx.
  apply in_map_iff in Hx. destruct Hx as (y & <- & _). reflexivity.
Qed.

Theorem legal_run_exists tdocs bs workers : exists orders sched,
  legal_orders bs workers orders tdocs /\ complete (streams_of bs tdocs) sched = true.
Proof.
  exists (identity_orders (rounds_of workers (batches_of (Nat.max 1 bs) (length tdocs) tdocs))),
         (serial_sched (streams_of bs tdocs)).
  split; [apply identity_orders_valid|apply serial_sched_complete].
Qed.

Print Assumptions place_round_any_order.
Print Assumptions process_rounds_any_order.
Print Assumptions place_round_duplicate.
Print Assumptions place_round_out_of_range.
Print Assumptions place_round_needs_all.
Print Assumptions dict_of_bijection.
Print Assumptions ids_seen_final.
Print Assumptions sched_dict_total_injective.
Print Assumptions renamed_index_answers.
Print Assumptions term_ids_irrelevant.
Print Assumptions index_sched_is_index.
Print Assumptions threaded_build_correct.
Print Assumptions threaded_build_irrelevant.
Print Assumptions legal_run_exists.
