(* SearchArray.index(docs, truncate=...) after the repair of D11: with truncate=True the token stream of
   every document is cut to MAX_POSN tokens BEFORE anything else sees it
   (indexing.py:_gather_tokens:  for token in islice(tokenizer(doc), trunc_posn)), so the dictionary, the
   postings and the lengths are those of the truncated documents; with truncate=False an over-long
   document makes _tokenize_batch raise ValueError.  No proofs here. *)
From SA Require Import Base.Prelude Codec.Codec Index.Index Index.Fast.
Open Scope N_scope.

Definition truncate_docs (docs : list doc) : list doc := map (firstn (N.to_nat MAX_POSN)) docs.
Definition index_opt (trunc : bool) (bs : nat) (docs : list doc) : api sindex :=
  if trunc then index false bs (truncate_docs docs) else index false bs docs.
Definition index_opt_g (trunc : bool) (bs : nat) (docs : list doc) : api sindex :=
  if trunc then index_g false bs (truncate_docs docs) else index_g false bs docs.
