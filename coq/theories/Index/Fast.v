(* Linear-time variants of the quadratic list combinators used by the executable model, so that the
   extracted model can index 262143-token documents (C17).  Index_g is PROVED equal to Index.index
   (Index/Fast_Proofs.v), so every theorem about [index] applies to what the check runs.
   No proofs here. *)
From SA Require Import Base.Prelude Gen.SourceConsts Kernels.Intersect Kernels.Linear Codec.Codec Index.Index.
Open Scope N_scope.

(* one pass over xs: start a new OR-accumulator at every index of idx (idx strictly increasing) *)
Fixpoint ra_fast (xs : list N) (pos : N) (idx : list N) (cur : option N) : list N :=
  match xs with
  | [] => match cur with Some c => [c] | None => [] end
  | x :: t =>
      match idx with
      | i :: irest =>
          if pos =? i then
            match cur with
            | Some c => c :: ra_fast t (pos + 1) irest (Some x)
            | None => ra_fast t (pos + 1) irest (Some x)
            end
          else ra_fast t (pos + 1) idx (option_map (fun c => N.lor c x) cur)
      | [] => ra_fast t (pos + 1) [] (option_map (fun c => N.lor c x) cur)
      end
  end.

Fixpoint strictly_incr_below (bound : N) (idx : list N) : bool :=
  match idx with
  | [] => true
  | [a] => a <? bound
  | a :: ((b :: _) as t) => andb (a <? b) (strictly_incr_below bound t)
  end.

(* the guard makes the equality with reduceat_or unconditional *)
Definition reduceat_g (xs idx : list N) : list N :=
  match idx with
  | [] => []
  | _ => if strictly_incr_below (N.of_nat (length xs)) idx then ra_fast xs 0 idx None else reduceat_or xs idx
  end.

Definition encode_b_g (keys payload boundaries : list N) : result (list N * list N) :=
  let cols := map2 enc_col keys payload in
  let cio := change_indices cols in
  do change <- merge_drop cio boundaries;
  do ix <- intersect_drop boundaries change wmask;
  let new_boundaries := snd ix ++ [N.of_nat (length change)] in
  match payload with
  | [] => Done ([], new_boundaries)
  | _ => Done (reduceat_g (encode_words keys payload) change, new_boundaries)
  end.

Definition build_batch_g (trunc : bool) (batch_beg : N) (batch : list doc) : api batch_index :=
  let flat := gather trunc batch_beg batch in
  let lens := compute_doc_lens (map t_posn flat) (map (fun x => t_doc x - batch_beg) flat) (length batch) in
  let sorted := stable_sort_by_term flat in
  let starts := term_starts (map t_term sorted) in
  ado eb <- lift (encode_b_g (map t_doc sorted) (map t_posn sorted) starts);
  let '(enc, nb) := eb in
  let posts := match enc with
               | [] => []
               | _ => slices_by_bounds enc (take_idx (map t_term sorted) starts) nb
               end in
  if existsb (fun n => MAX_POSN <? n) lens then AExc ValueError
  else AOk {| b_posts := posts; b_lens := lens |}.

Fixpoint index_batches_g (trunc : bool) (bs : N) (beg : N) (bl : list (list doc))
  (posts : list (N * list N)) (lens : list N) : api (list (N * list N) * list N) :=
  match bl with
  | [] => AOk (posts, lens)
  | b :: rest =>
      ado bi <- build_batch_g trunc beg b;
      index_batches_g trunc bs (beg + bs) rest (concat_posts posts (b_posts bi)) (lens ++ b_lens bi)
  end.

Definition index_g (trunc : bool) (bs : nat) (docs : list doc) : api sindex :=
  let bsz := Nat.max 1 bs in
  ado r <- index_batches_g trunc (N.of_nat bsz) 0 (batches_of bsz (length docs) docs) [] [];
  AOk {| ix_terms := nodup_n [] (concat docs); ix_posts := fst r; ix_lens := snd r |}.
