(* Model of the threaded index build (searcharray/indexing.py 166-199, 237-297; term_dict.py 16-22):
   completion order of the batch futures, and the arrival-order term ids of the shared TermDict.
   Definitions only; proofs in Sched_Proofs.v.

     1. _process_batches: the futures of one round complete in ANY order (as_completed); each result carries
        the batch_beg it was given and is stored at slot (batch_beg - last_batch_beg_processed) // batch_size.
     2. build_index_from_tokenizer: batches are submitted in document order, batch j with beg j*batch_size;
        every `workers` futures form a round; last_batch_beg_processed += len(futures) * batch_size.
     3. TermDict.add_term: all threads share one dictionary; a new token gets id len(dict), so ids follow the
        order in which the threads' tokens ARRIVE.  A schedule says whose next token arrives.
     4. index_sched: the build assembled from 1-3 on top of Index.build_batch / concat_posts.

   Not modelled: negative Python indices (a batch_beg below last_batch_beg_processed never occurs: the begs of
   a round start at last); preemption INSIDE add_term (assumed atomic, see section 3); which failing future
   re-raises first (all are ValueError; none fails within the
   limits); the uint32 cast of term ids; rounds are barriers, so only batches of one round really interleave --
   the schedules below allow MORE interleavings than the thread pool does. *)
From SA Require Import Base.Prelude Index.Index.
Open Scope nat_scope.

(* ================= 1. slotting of completed futures ================= *)
Section Slots.
Context {A : Type}.

(* idx = (batch_beg - last_batch_beg_processed) // batch_size *)
Definition slot (bs last beg : nat) : nat := (beg - last) / bs.

(* batch_results[idx] = r, with  assert batch_results[idx] is None ; an index past the list fails too *)
Fixpoint set_slot (slots : list (option A)) (i : nat) (r : A) : option (list (option A)) :=
  match slots, i with
  | [], _ => None
  | None :: t, O => Some (Some r :: t)
  | Some _ :: _, O => None
  | s :: t, S i' => match set_slot t i' r with Some t' => Some (s :: t') | None => None end
  end.

(* for future in as_completed(futures): ... *)
Fixpoint place_all (bs last : nat) (slots : list (option A)) (completed : list (nat * A)) : option (list (option A)) :=
  match completed with
  | [] => Some slots
  | (beg, r) :: rest =>
      match set_slot slots (slot bs last beg) r with
      | Some slots' => place_all bs last slots' rest
      | None => None
      end
  end.

(* for result in batch_results: assert result is not None *)
Fixpoint all_filled (slots : list (option A)) : option (list A) :=
  match slots with
  | [] => Some []
  | Some r :: t => match all_filled t with Some l => Some (r :: l) | None => None end
  | None :: _ => None
  end.

(* one call of _process_batches on k futures: results in slot order, None = an assertion / index failure *)
Definition place_round (bs last k : nat) (completed : list (nat * A)) : option (list A) :=
  match place_all bs last (repeat None k) completed with
  | Some slots => all_filled slots
  | None => None
  end.

(* ================= 2. rounds of `workers` futures ================= *)
(* batch_iterator: consecutive items tagged beg, beg + bs, beg + 2 bs, ... *)
Fixpoint with_begs {X : Type} (bs beg : nat) (l : list X) : list (nat * X) :=
  match l with [] => [] | x :: t => (beg, x) :: with_begs bs (beg + bs) t end.

(* futures collected `w` at a time, the last round possibly shorter *)
Fixpoint chunks {X : Type} (w fuel : nat) (l : list X) : list (list X) :=
  match fuel with
  | O => []
  | S f => match l with [] => [] | _ => firstn w l :: chunks w f (skipn w l) end
  end.

(* a completion order of a round = the indices of its futures in the order they complete;
   None when an index names no future *)
Fixpoint pick {X : Type} (order : list nat) (l : list X) : option (list X) :=
  match order with
  | [] => Some []
  | i :: rest => match nth_error l i, pick rest l with Some x, Some r => Some (x :: r) | _, _ => None end
  end.

(* the loop of build_index_from_tokenizer over the rounds, one caller-chosen completion order per round *)
Fixpoint rounds_loop (bs last : nat) (rounds : list (list (nat * A))) (orders : list (list nat)) : option (list A) :=
  match rounds with
  | [] => Some []
  | r :: rt =>
      match orders with
      | [] => None
      | o :: ot =>
          match pick o r with
          | None => None
          | Some completed =>
              match place_round bs last (length r) completed with
              | None => None
              | Some placed =>
                  match rounds_loop bs (last + length r * bs) rt ot with
                  | Some more => Some (placed ++ more)
                  | None => None
                  end
              end
          end
      end
  end.

(* futures = the (beg, result) pairs in submission order; `len(futures) >= workers` collects after every
   future when workers = 0, hence max 1 *)
Definition process_rounds (bs workers : nat) (futures : list (nat * A)) (orders : list (list nat)) : option (list A) :=
  rounds_loop bs 0 (chunks (Nat.max 1 workers) (length futures) futures) orders.

End Slots.

(* orders that are legal for a run: one permutation of 0..len-1 per round *)
Definition rounds_of {X : Type} (workers : nat) (l : list X) : list (list X) :=
  chunks (Nat.max 1 workers) (length l) l.

(* ================= 3. the shared term dictionary ================= *)
Notation tok := N (only parsing).          (* token strings, abstractly *)
Definition dict := list (tok * N).         (* term_to_ids, in insertion order *)
Definition lookup_tok (d : dict) (t : tok) : option N := lookup t d.

(* TermDict.add_term: the id of a known token, else len(term_to_ids) *)
Definition add_term (d : dict) (t : tok) : dict * N :=
  match lookup_tok d t with
  | Some i => (d, i)
  | None => (d ++ [(t, N.of_nat (length d))], N.of_nat (length d))
  end.

(* the tokens arrive one at a time: final dictionary, and the id each arriving token was given at the time.
   ASSUMPTION: each add_term call is atomic.  term_dict.py 16-22 is a pure-Python check-then-act
   (`in` test, len(), two stores) with no lock; CPython may switch threads between these bytecodes, and two
   threads that both read len() before either stores would give two tokens the SAME id.  That interleaving
   is outside this model: everything proved about dict_of holds for atomic add_term only.  (Not observed on
   CPython 3.12.1: 30 runs of 4 threads x 20000 fresh tokens at switch interval 1e-6 gave no duplicate id.) *)
Fixpoint run_adds (d : dict) (arrivals : list tok) : dict * list N :=
  match arrivals with
  | [] => (d, [])
  | t :: rest =>
      let '(d', i) := add_term d t in
      let '(d'', ids) := run_adds d' rest in (d'', i :: ids)
  end.
Definition dict_of (arrivals : list tok) : dict := fst (run_adds [] arrivals).
Definition ids_seen (arrivals : list tok) : list N := snd (run_adds [] arrivals).

(* query-time translation.  An unknown token raises TermMissingError in get_term_id; the model's queries take
   that path for any id outside the dictionary (Index.known), so unknown tokens are sent past it, injectively *)
Definition id_of (d : dict) (t : tok) : N :=
  match lookup_tok d t with Some i => i | None => N.of_nat (length d) + t end.

(* a schedule: the index of the thread whose next token arrives (a step naming a finished or missing thread
   does nothing, as in Conc.run_sched).  Result: the arrival sequence and what is left of every stream. *)
Fixpoint set_nth {X : Type} (l : list X) (i : nat) (v : X) : list X :=
  match l, i with
  | [], _ => []
  | _ :: t, O => v :: t
  | x :: t, S i' => x :: set_nth t i' v
  end.
Fixpoint interleave (streams : list (list tok)) (sched : list nat) : list tok * list (list tok) :=
  match sched with
  | [] => ([], streams)
  | i :: rest =>
      match nth_error streams i with
      | Some (t :: more) => let '(arr, fin) := interleave (set_nth streams i more) rest in (t :: arr, fin)
      | _ => interleave streams rest
      end
  end.
Definition arrivals (streams : list (list tok)) (sched : list nat) : list tok := fst (interleave streams sched).
(* every thread ran to the end *)
Definition complete (streams : list (list tok)) (sched : list nat) : bool :=
  forallb (fun s => match s with [] => true | _ => false end) (snd (interleave streams sched)).
Definition serial_sched (streams : list (list tok)) : list nat :=
  concat (map (fun js => repeat (fst js) (length (snd js))) (combine (seq 0 (length streams)) streams)).

(* ================= 4. the threaded build ================= *)
(* thread j tokenizes batch j: its stream is the batch's tokens in document order *)
Definition streams_of (bs : nat) (tdocs : list (list tok)) : list (list tok) :=
  let bsz := Nat.max 1 bs in
  map (@concat tok) (batches_of bsz (length tdocs) tdocs).
Definition sched_dict (bs : nat) (tdocs : list (list tok)) (sched : list nat) : dict :=
  dict_of (arrivals (streams_of bs tdocs) sched).

(* _tokenize_batch returns the batch_beg it was given together with the batch's postings and lengths *)
Definition tokenize_future (trunc : bool) (bb : nat * list doc) : nat * api batch_index :=
  (fst bb, build_batch trunc (N.of_nat (fst bb)) (snd bb)).

(* the main thread: term_doc / bit_posns / doc_lens concatenated in slot order *)
Fixpoint fold_results (rs : list (api batch_index)) (posts : list (N * list N)) (lens : list N)
  : api (list (N * list N) * list N) :=
  match rs with
  | [] => AOk (posts, lens)
  | r :: rest => ado bi <- r; fold_results rest (concat_posts posts (b_posts bi)) (lens ++ b_lens bi)
  end.

(* ids: any translation of tokens (ids are stable once assigned, so the final dictionary's id of a token is
   the id its thread saw: Sched_Proofs.ids_seen_final).  Outer None = an assert of _process_batches fired. *)
Definition index_sched (bs workers : nat) (orders : list (list nat)) (f : tok -> N) (tdocs : list (list tok))
  : option (api sindex) :=
  let docs := map (map f) tdocs in
  let bsz := Nat.max 1 bs in
  let futures := map (tokenize_future false) (with_begs bsz 0 (batches_of bsz (length docs) docs)) in
  match process_rounds bsz workers futures orders with
  | None => None
  | Some rs =>
      Some (ado r <- fold_results rs [] [];
            AOk {| ix_terms := nodup_n [] (concat docs); ix_posts := fst r; ix_lens := snd r |})
  end.

(* the whole run: a token schedule fixes the dictionary, completion orders fix the slotting *)
Definition index_run (bs workers : nat) (orders : list (list nat)) (sched : list nat) (tdocs : list (list tok))
  : option (api sindex) :=
  index_sched bs workers orders (id_of (sched_dict bs tdocs sched)) tdocs.
