(* Model of indexing (searcharray/indexing.py 38-51, 64-145, 148-232; middle_out.py 171-206, 366-378;
   memmap_arrays.py 41-91) and of the single-term query paths of a freshly built array
   (postings.py 607-650, 682-687; middle_out.py 448-528).
   Input: the tokenizer's output per document, tokens already renamed to term ids (any injective
   renaming: answers never mention ids).  No proofs here. *)
From Coq Require Import Orders Mergesort.
From SA Require Import Base.Prelude Gen.SourceConsts Kernels.Intersect Kernels.Linear Codec.Codec.
Open Scope N_scope.

Definition doc := list N.
Definition MAX_POSN : N := max_payload.

(* Python-level outcome of a public call *)
Inductive exn := ValueError | KeyError | TypeError | IndexError | TermMissing.
Inductive api (A : Type) := AOk (a : A) | AExc (e : exn) | AFault (k : access) (buf idx : N) | AFuel.
Arguments AOk {A}. Arguments AExc {A}. Arguments AFault {A}. Arguments AFuel {A}.
Definition abind {A B} (r : api A) (f : A -> api B) : api B :=
  match r with AOk a => f a | AExc e => AExc e | AFault k b i => AFault k b i | AFuel => AFuel end.
Notation "'ado' x <- r ; k" := (abind r (fun x => k)) (at level 200, x name, r at level 100, k at level 200).
Definition lift {A} (r : result A) : api A :=
  match r with Done a => AOk a | Fault k b i => AFault k b i | OutOfFuel => AFuel end.

(* ---- _gather_tokens (64-99): (term, doc, posn) triples in document order ---- *)
Fixpoint enum_tokens (i : N) (d : doc) : list (N * N) :=
  match d with [] => [] | t :: rest => (t, i) :: enum_tokens (i + 1) rest end.
(* terms = [add_term(tok) for tok in tokenizer(doc)][:trunc_posn] *)
Definition truncate_doc (trunc : bool) (d : doc) : doc :=
  if trunc then firstn (N.to_nat MAX_POSN) d else d.
Fixpoint gather (trunc : bool) (doc_id : N) (batch : list doc) : list (N * N * N) :=
  match batch with
  | [] => []
  | d :: rest =>
      map (fun tp => (fst tp, doc_id, snd tp)) (enum_tokens 0 (truncate_doc trunc d))
      ++ gather trunc (doc_id + 1) rest
  end.
Definition t_term (x : N * N * N) := fst (fst x).
Definition t_doc (x : N * N * N) := snd (fst x).
Definition t_posn (x : N * N * N) := snd x.

(* ---- _compute_doc_lens (38-51) on the flat posn / (doc - batch_beg) columns ---- *)
(* non_empty_doc_lens = -np.diff(posns) + 1 ; entries > 0 are written at doc_ids[idx] *)
Fixpoint dl_scan (posns docs : list N) (dense : list N) : list N :=
  match posns, docs with
  | p :: ((q :: _) as pt), d :: dt =>
      let v := (- (Z.of_N q - Z.of_N p) + 1)%Z in
      dl_scan pt dt (if (0 <? v)%Z then list_set dense (N.to_nat d) (Z.to_N v) else dense)
  | _, _ => dense
  end.
Definition compute_doc_lens (posns docs : list N) (num_docs : nat) : list N :=
  let dense := dl_scan posns docs (repeat 0 num_docs) in
  match rev docs, rev posns with
  | dlast :: _, plast :: _ => list_set dense (N.to_nat dlast) (plast + 1)   (* the batch's last document *)
  | _, _ => dense
  end.

(* ---- _lex_sort: stable argsort on the term row ----
   The flat triples are already ordered by (doc, posn), so the stable sort by term is THE sort by the
   lexicographic key (term, doc, posn), whose result is unique; modelled with the standard library's
   merge sort so that 262k-token documents stay tractable. *)
Module TripleOrder <: Orders.TotalLeBool.
  Definition t := (N * N * N)%type.
  Definition leb (x y : t) : bool :=
    let '(tx, dx, px) := x in let '(ty, dy, py) := y in
    if tx <? ty then true else if ty <? tx then false
    else if dx <? dy then true else if dy <? dx then false
    else px <=? py.
  Theorem leb_total : forall a1 a2, leb a1 a2 = true \/ leb a2 a1 = true.
  Proof.
    intros [[tx dx] px] [[ty dy] py]. unfold leb.
    destruct (N.ltb_spec tx ty); [now left|]. destruct (N.ltb_spec ty tx); [now right|].
    destruct (N.ltb_spec dx dy); [now left|]. destruct (N.ltb_spec dy dx); [now right|].
    destruct (N.leb_spec px py); [now left|]. right. apply N.leb_le. lia.
  Qed.
End TripleOrder.
Module TripleSort := Mergesort.Sort TripleOrder.
Definition stable_sort_by_term (l : list (N * N * N)) : list (N * N * N) := TripleSort.sort l.

(* ---- PosnBitArrayFromFlatBuilder.build (186-206) ---- *)
(* np.argwhere(np.diff(terms) > 0) + 1, with a leading 0 *)
Fixpoint term_starts_from (i : N) (terms : list N) : list N :=
  match terms with
  | x :: ((y :: _) as t) => if x <? y then (i + 1) :: term_starts_from (i + 1) t else term_starts_from (i + 1) t
  | _ => []
  end.
Definition term_starts (terms : list N) : list N := 0 :: term_starts_from 0 terms.

(* ArrayDict.from_array_with_boundaries: slices of data between consecutive boundaries, keyed by ids *)
Fixpoint slices_by_bounds (data : list N) (ids bounds : list N) : list (N * list N) :=
  match ids, bounds with
  | id :: idt, b :: ((e :: _) as bt) =>
      (id, slice_nat data (N.to_nat b) (N.to_nat e)) :: slices_by_bounds data idt bt
  | _, _ => []
  end.

Record batch_index := { b_posts : list (N * list N); b_lens : list N }.

Definition build_batch (trunc : bool) (batch_beg : N) (batch : list doc) : api batch_index :=
  let flat := gather trunc batch_beg batch in
  let lens := compute_doc_lens (map t_posn flat) (map (fun x => t_doc x - batch_beg) flat) (length batch) in
  let sorted := stable_sort_by_term flat in
  let starts := term_starts (map t_term sorted) in
  ado eb <- lift (encode_b (map t_doc sorted) (map t_posn sorted) starts);
  let '(enc, nb) := eb in
  let posts := match enc with
               | [] => []
               | _ => slices_by_bounds enc (take_idx (map t_term sorted) starts) nb
               end in
  (* if np.any(doc_lens > MAX_POSN): raise ValueError *)
  if existsb (fun n => MAX_POSN <? n) lens then AExc ValueError
  else AOk {| b_posts := posts; b_lens := lens |}.

(* ---- ArrayDict.concat + PosnBitArray.concat (366-378): per-term concatenate and sort ---- *)
Module NOrder <: Orders.TotalLeBool.
  Definition t := N.
  Definition leb := N.leb.
  Theorem leb_total : forall a1 a2, leb a1 a2 = true \/ leb a2 a1 = true.
  Proof. intros a b. unfold leb. destruct (N.leb_spec a b); [now left|]. right. apply N.leb_le. lia. Qed.
End NOrder.
Module NSort := Mergesort.Sort NOrder.
Definition np_sort (l : list N) : list N := NSort.sort l.
Fixpoint lookup {A} (k : N) (l : list (N * A)) : option A :=
  match l with [] => None | (k', v) :: t => if k =? k' then Some v else lookup k t end.
Definition concat_posts (lhs rhs : list (N * list N)) : list (N * list N) :=
  match lhs with
  | [] => rhs                                   (* if self.encoded_term_posns == {}: take other's *)
  | _ =>
      map (fun kv => (fst kv, np_sort (snd kv ++ match lookup (fst kv) rhs with Some w => w | None => [] end))) lhs
      ++ map (fun kv => (fst kv, np_sort (snd kv)))
             (filter (fun kv => match lookup (fst kv) lhs with Some _ => false | None => true end) rhs)
  end.

(* ---- batch_iterator + build_index_no_workers / _process_batches (batches consumed in order) ---- *)
Fixpoint batches_of (bs : nat) (fuel : nat) (docs : list doc) : list (list doc) :=
  match fuel with
  | O => []
  | S f => match docs with [] => [] | _ => firstn bs docs :: batches_of bs f (skipn bs docs) end
  end.

Record sindex := {
  ix_terms : list N;               (* the term dictionary: every term id ever added *)
  ix_posts : list (N * list N);    (* term id -> encoded postings *)
  ix_lens : list N;                (* doc_lens *)
}.

Fixpoint index_batches (trunc : bool) (bs : N) (beg : N) (bl : list (list doc))
  (posts : list (N * list N)) (lens : list N) : api (list (N * list N) * list N) :=
  match bl with
  | [] => AOk (posts, lens)
  | b :: rest =>
      ado bi <- build_batch trunc beg b;
      index_batches trunc bs (beg + bs) rest (concat_posts posts (b_posts bi)) (lens ++ b_lens bi)
  end.

Fixpoint nodup_n (seen : list N) (l : list N) : list N :=
  match l with
  | [] => []
  | x :: t => if existsb (N.eqb x) seen then nodup_n seen t else x :: nodup_n (x :: seen) t
  end.

Definition index (trunc : bool) (bs : nat) (docs : list doc) : api sindex :=
  let bsz := Nat.max 1 bs in
  ado r <- index_batches trunc (N.of_nat bsz) 0 (batches_of bsz (length docs) docs) [] [];
  (* every token reaches term_dict.add_term, also those cut off by truncation (D11) *)
  AOk {| ix_terms := nodup_n [] (concat docs);
         ix_posts := fst r; ix_lens := snd r |}.

(* ================= single-term queries on a freshly built array ================= *)
Definition n_docs (ix : sindex) : N := N.of_nat (length (ix_lens ix)).
Definition known (ix : sindex) (t : N) : bool := existsb (N.eqb t) (ix_terms ix).
(* ArrayDict.__getitem__: KeyError when the term has no postings *)
Definition get_posts (ix : sindex) (t : N) : api (list N) :=
  match lookup t (ix_posts ix) with Some w => AOk w | None => AExc KeyError end.

Definition unpy {A} (r : pyres (result A)) : api A :=
  match r with PyOk x => lift x | PyValueError => AExc ValueError end.

(* SearchArray.termfreqs(str) (607-638), non-subset branch, no position range *)
Definition termfreqs (ix : sindex) (t : N) : api (list N) :=
  if negb (known ix t) then AOk (repeat 0 (length (ix_lens ix)))
  else
    ado w <- get_posts ix t;
    ado kc <- lift (num_values_per_key w);
    unpy (as_dense (map fst kc) (map snd kc) (n_docs ix)).

(* SearchArray.docfreq (640-647) / PosnBitArray.docfreq (521-528) *)
Definition docfreq (ix : sindex) (t : N) : api N :=
  if negb (known ix t) then AOk 0
  else ado w <- get_posts ix t; ado ks <- lift (keys_unique w); AOk (N.of_nat (length ks)).

Definition doclengths (ix : sindex) : list N := ix_lens ix.
Definition corpus_size (ix : sindex) : N := n_docs ix.
Definition total_len (ix : sindex) : N := fold_left N.add (ix_lens ix) 0.     (* avg = total / n, exact *)

(* SearchArray.positions(term) with key=None (682-687) -> PosnBitArray.positions (448-479), rows = 0..n-1 *)
Definition positions (ix : sindex) (t : N) : api (list (list N)) :=
  if negb (known ix t) then AExc TermMissing          (* get_term_id raises; positions() does not catch it *)
  else
    let rows := map N.of_nat (seq 0 (length (ix_lens ix))) in
    match lookup t (ix_posts ix) with
    | None => AOk (map (fun _ => []) rows)             (* except KeyError: one empty array per row *)
    | Some w =>
        ado s <- lift (slice_keys w rows);
        let decoded := decode s in
        match decoded with
        | [] => AOk [[]]                               (* if len(decoded) == 0: return [empty]  (sic) *)
        | _ =>
            if negb (Nat.eqb (length decoded) (length rows))
            then AOk (map (fun r => match lookup r decoded with Some p => p | None => [] end) rows)
            else AOk (map snd decoded)
        end
    end.
