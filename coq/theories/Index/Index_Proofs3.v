(* C01 / C02 / C05 for every batch size, and the core of C08: the index built in batches of any size
   satisfies index_ok, hence stores (term by term) the same postings, lengths and dictionary as the
   single-batch index. *)
From Coq Require Import Sorted Permutation Mergesort.
From SA Require Import Base.Prelude Kernels.Spec Kernels.Linear Kernels.Linear_Proofs
  Codec.Codec Codec.Codec_Spec Codec.Codec_Proofs Codec.Codec_Proofs2 Index.Index Index.Index_Spec
  Index.Index_Proofs Index.Index_Proofs2.
Open Scope N_scope.

(* ================= 1. encode_spec of a concatenation with separated keys ================= *)
Lemma enc_app M : forall l1 cur l2,
  Forall (fun a => fst a < M) l1 -> Forall (fun kp => M <= fst kp) l2 ->
  match cur with Some (k, _, _) => k < M | None => True end ->
  encode_aux cur (l1 ++ l2) = encode_aux cur l1 ++ encode_aux None l2.
Proof.
  induction l1 as [|[k p] rest IH]; intros cur l2 H1 H2 Hc.
  - cbn [app]. destruct cur as [[[k0 b0] s0]|]; [|reflexivity].
    rewrite (encode_aux_fresh (fun _ => true)); [reflexivity|]. eapply Forall_impl; [|exact H2]. cbn beta. intros kp Hk. lia.
  - inversion H1 as [|? ? Hk H1']; subst. cbn [fst] in Hk. cbn [app encode_aux].
    destruct cur as [[[k0 b0] s0]|].
    + destruct ((k =? k0) && (p / 18 =? b0)).
      * apply IH; assumption.
      * cbn [app]. f_equal. apply IH; assumption.
    + apply IH; assumption.
Qed.

Lemma encode_spec_app M l1 l2 : Forall (fun a => fst a < M) l1 -> Forall (fun kp => M <= fst kp) l2 ->
  encode_spec (l1 ++ l2) = encode_spec l1 ++ encode_spec l2.
Proof. intros H1 H2. unfold encode_spec. apply (enc_app M); [assumption|assumption|exact I]. Qed.

(* ================= 2. np.sort of an encoding is the encoding ================= *)
Lemma words_sorted ws : StronglySorted N.lt (map header_of ws) -> Forall (fun w => w < 2^64) ws ->
  StronglySorted N.le ws.
Proof.
  induction ws as [|a ws IH]; intros S F; [constructor|]. cbn [map] in S.
  inversion S as [|? ? S' Fa]; subst. inversion F as [|? ? Ha F']; subst.
  constructor; [apply IH; assumption|].
  rewrite Forall_map in Fa. rewrite Forall_forall in *. intros b Hb. specialize (Fa b Hb). specialize (F' b Hb).
  rewrite !header_as_arith in Fa by assumption. pows. lia.
Qed.

Lemma encode_spec_sorted ps : sorted2 ps -> bounded ps -> StronglySorted N.le (encode_spec ps).
Proof.
  intros Hs Hb. destruct (encode_canonical ps Hs Hb) as [S G]. apply words_sorted; [exact S|].
  eapply Forall_impl; [|exact G]. cbn beta. tauto.
Qed.

Lemma sorted_perm_eq_le : forall l1 l2,
  StronglySorted N.le l1 -> StronglySorted N.le l2 -> Permutation l1 l2 -> l1 = l2.
Proof.
  induction l1 as [|a t1 IH]; intros l2 S1 S2 P.
  - apply Permutation_nil in P. now subst.
  - destruct l2 as [|b t2]; [apply Permutation_sym, Permutation_nil in P; discriminate|].
    inversion S1 as [|? ? S1' F1]; inversion S2 as [|? ? S2' F2]; subst.
    assert (a = b).
    { assert (Ia : In a (b :: t2)) by (eapply Permutation_in; [exact P|left; reflexivity]).
      assert (Ib : In b (a :: t1)) by (eapply Permutation_in; [apply Permutation_sym; exact P|left; reflexivity]).
      destruct Ia as [->|Ia]; [reflexivity|]. destruct Ib as [->|Ib]; [reflexivity|].
      rewrite Forall_forall in F1, F2. specialize (F1 _ Ib). specialize (F2 _ Ia). lia. }
    subst b. f_equal. apply IH; try assumption. eapply Permutation_cons_inv; exact P.
Qed.

Lemma Sorted_weaken {A} (R R' : A -> A -> Prop) l : (forall x y, R x y -> R' x y) -> Sorted R l -> Sorted R' l.
Proof.
  intros HR. induction 1 as [|a l S IH Hd]; constructor; [exact IH|].
  destruct Hd; constructor. apply HR. assumption.
Qed.

Lemma np_sort_sorted l : StronglySorted N.le l -> np_sort l = l.
Proof.
  intro S. symmetry. apply sorted_perm_eq_le; [exact S| |apply NSort.Permuted_sort].
  apply Sorted_StronglySorted; [intros x y z; apply N.le_trans|].
  eapply Sorted_weaken; [|exact (NSort.Sorted_sort l)]. cbn beta. intros x y H. apply N.leb_le. exact H.
Qed.

(* ================= 3. lookup in concat_posts ================= *)
Lemma lookup_app {A} t : forall (l1 l2 : list (N * A)),
  lookup t (l1 ++ l2) = match lookup t l1 with Some v => Some v | None => lookup t l2 end.
Proof.
  induction l1 as [|[k v] l1 IH]; intros l2; [reflexivity|]. cbn [app lookup]. destruct (t =? k); [reflexivity|apply IH].
Qed.

Lemma lookup_map_kv {A B} (F : N -> A -> B) t : forall (l : list (N * A)),
  lookup t (map (fun kv => (fst kv, F (fst kv) (snd kv))) l) = option_map (F t) (lookup t l).
Proof.
  induction l as [|[k v] l IH]; [reflexivity|]. cbn [map lookup fst snd].
  destruct (N.eqb_spec t k) as [->|Hne]; [reflexivity|exact IH].
Qed.

Lemma lookup_filter_key {A} (g : N -> bool) t : forall (l : list (N * A)),
  lookup t (filter (fun kv => g (fst kv)) l) = if g t then lookup t l else None.
Proof.
  induction l as [|[k v] l IH]; [now destruct (g t)|]. cbn [filter fst].
  destruct (g k) eqn:Ek.
  - cbn [lookup]. destruct (N.eqb_spec t k) as [->|Hne]; [now rewrite Ek|exact IH].
  - rewrite IH. cbn [lookup]. destruct (N.eqb_spec t k) as [->|Hne]; [now rewrite Ek|reflexivity].
Qed.

Lemma lookup_concat_posts t lhs rhs : lhs <> [] ->
  lookup t (concat_posts lhs rhs) =
  match lookup t lhs with
  | Some a => Some (np_sort (a ++ match lookup t rhs with Some w => w | None => [] end))
  | None => option_map np_sort (lookup t rhs)
  end.
Proof.
  intro Hne. unfold concat_posts. destruct lhs as [|kv0 lhs0] eqn:E; [congruence|]. rewrite <- E. clear E Hne kv0 lhs0.
  rewrite lookup_app.
  rewrite (lookup_map_kv (fun k v => np_sort (v ++ match lookup k rhs with Some w => w | None => [] end)) t lhs).
  destruct (lookup t lhs) as [a|] eqn:El; [reflexivity|]. cbn [option_map].
  rewrite (lookup_map_kv (fun _ v => np_sort v) t).
  rewrite (lookup_filter_key (fun k => match lookup k lhs with Some _ => false | None => true end) t rhs).
  now rewrite El.
Qed.

(* ================= 4. the batching invariant ================= *)
Definition posts_ok (done : list (list N)) (posts : list (N * list N)) : Prop :=
  forall t, lookup t posts =
    if in_dec N.eq_dec t (concat done) then Some (encode_spec (tp_from 0 done t)) else None.

Lemma tp_from_app t : forall l1 l2 i,
  tp_from i (l1 ++ l2) t = tp_from i l1 t ++ tp_from (i + N.of_nat (length l1)) l2 t.
Proof.
  induction l1 as [|d r IH]; intros l2 i.
  - cbn [app tp_from length]. now rewrite N.add_0_r.
  - cbn [app tp_from length]. rewrite IH, <- app_assoc. do 2 f_equal. f_equal. lia.
Qed.

Lemma wf_app_l l1 l2 : wf_docs (l1 ++ l2) -> wf_docs l1.
Proof.
  intros [Hs Hn]. apply Forall_app in Hs. rewrite app_length in Hn. split; [tauto|]. lia.
Qed.

Lemma posts_ok_step done b posts ts : wf_docs (done ++ b) ->
  posts_ok done posts -> (forall x, In x ts <-> In x (concat b)) ->
  posts_ok (done ++ b) (concat_posts posts (batch_posts (N.of_nat (length done)) b ts)).
Proof.
  intros Hwf Hok Hk t.
  pose proof (lookup_batch_posts (N.of_nat (length done)) b ts t Hk) as Lr.
  specialize (Hok t).
  assert (Etp : tp_from 0 (done ++ b) t = tp_from 0 done t ++ tp_from (N.of_nat (length done)) b t).
  { rewrite tp_from_app. now rewrite N.add_0_l. }
  destruct (tp_wf (done ++ b) Hwf t) as [Hs Hb].
  assert (Eenc : encode_spec (tp_from 0 (done ++ b) t) =
                 encode_spec (tp_from 0 done t) ++ encode_spec (tp_from (N.of_nat (length done)) b t)).
  { rewrite Etp. apply (encode_spec_app (N.of_nat (length done))).
    - eapply Forall_impl; [|apply tp_keys]. cbn beta. intros kp H. lia.
    - eapply Forall_impl; [|apply tp_keys]. cbn beta. intros kp H. lia. }
  assert (Hsort : np_sort (encode_spec (tp_from 0 (done ++ b) t)) = encode_spec (tp_from 0 (done ++ b) t)).
  { apply np_sort_sorted, encode_spec_sorted; assumption. }
  rewrite concat_app.
  destruct posts as [|kv0 posts0] eqn:Ep.
  - (* nothing stored so far: the dictionary is replaced by the batch's *)
    cbn [concat_posts]. rewrite Lr. cbn [lookup] in Hok.
    destruct (in_dec N.eq_dec t (concat done)) as [Hd|Hd]; [discriminate|].
    assert (E1 : tp_from 0 done t = []) by (apply tp_nil_iff; exact Hd).
    rewrite E1 in Etp. cbn [app] in Etp.
    destruct (in_dec N.eq_dec t (concat b)) as [Hb'|Hb'];
      destruct (in_dec N.eq_dec t (concat done ++ concat b)) as [Hi|Hi];
      try rewrite in_app_iff in Hi; try tauto. now rewrite Etp.
  - rewrite <- Ep in *. rewrite lookup_concat_posts by (rewrite Ep; discriminate). rewrite Hok, Lr.
    destruct (in_dec N.eq_dec t (concat done)) as [Hd|Hd];
      destruct (in_dec N.eq_dec t (concat b)) as [Hb'|Hb'];
      destruct (in_dec N.eq_dec t (concat done ++ concat b)) as [Hi|Hi];
      try rewrite in_app_iff in Hi; try tauto; cbn [option_map].
    + now rewrite <- Eenc, Hsort.
    + assert (E2 : tp_from (N.of_nat (length done)) b t = []) by (apply tp_nil_iff; exact Hb').
      rewrite E2 in Eenc. change (encode_spec []) with (@nil N) in Eenc. now rewrite <- Eenc, Hsort.
    + assert (E1 : tp_from 0 done t = []) by (apply tp_nil_iff; exact Hd).
      rewrite E1 in Eenc. change (encode_spec []) with (@nil N) in Eenc. cbn [app] in Eenc.
      now rewrite <- Eenc, Hsort.
Qed.

Lemma lens_spec_app l1 l2 : lens_spec (l1 ++ l2) = lens_spec l1 ++ lens_spec l2.
Proof. apply map_app. Qed.

Lemma index_batches_ok bs : (1 <= bs)%nat -> forall fuel rest done posts beg,
  wf_docs (done ++ rest) -> (length rest <= fuel)%nat -> posts_ok done posts ->
  (rest <> [] -> beg = N.of_nat (length done)) ->
  exists posts',
    index_batches false (N.of_nat bs) beg (batches_of bs fuel rest) posts (lens_spec done)
      = AOk (posts', lens_spec (done ++ rest)) /\
    posts_ok (done ++ rest) posts'.
Proof.
  intros Hbs. induction fuel as [|f IH]; intros rest done posts beg Hwf Hlen Hok Hbeg.
  - destruct rest; [|cbn [length] in Hlen; lia]. rewrite app_nil_r. cbn [batches_of index_batches].
    exists posts. split; [reflexivity|exact Hok].
  - destruct rest as [|x r] eqn:Er.
    + rewrite app_nil_r. cbn [batches_of index_batches]. exists posts. split; [reflexivity|exact Hok].
    + rewrite <- Er in *. assert (Hne : rest <> []) by (rewrite Er; discriminate).
      assert (Eb : batches_of bs (S f) rest = firstn bs rest :: batches_of bs f (skipn bs rest)).
      { rewrite Er. reflexivity. }
      clear Er x r. rewrite Eb. cbn [index_batches].
      set (b := firstn bs rest) in *. set (rest' := skipn bs rest) in *.
      assert (Esplit : rest = b ++ rest') by (symmetry; apply firstn_skipn).
      rewrite (Hbeg Hne).
      assert (Hwfb : wf_docs (done ++ b)).
      { apply (wf_app_l _ rest'). rewrite <- app_assoc, <- Esplit. exact Hwf. }
      destruct Hwfb as [Hsb Hnb]. pose proof Hsb as Hsb'. apply Forall_app in Hsb'. destruct Hsb' as [_ Hshort].
      rewrite app_length in Hnb.
      destruct (build_batch_correct (N.of_nat (length done)) b Hshort) as (ts & K & Hk & EB); [lia|].
      rewrite EB. cbn [abind b_posts b_lens]. rewrite <- lens_spec_app.
      assert (Hok' : posts_ok (done ++ b) (concat_posts posts (batch_posts (N.of_nat (length done)) b ts))).
      { apply posts_ok_step; [|exact Hok|exact Hk]. split; [exact Hsb|]. rewrite app_length. exact Hnb. }
      destruct (IH rest' (done ++ b) (concat_posts posts (batch_posts (N.of_nat (length done)) b ts))
                  (N.of_nat (length done) + N.of_nat bs)) as (posts' & E' & Hok'').
      * rewrite <- app_assoc, <- Esplit. exact Hwf.
      * unfold rest'. rewrite skipn_length. lia.
      * exact Hok'.
      * intro Hr. rewrite app_length. unfold b. rewrite firstn_length_le; [lia|].
        destruct (Nat.le_gt_cases bs (length rest)) as [Hle|Hgt]; [exact Hle|].
        exfalso. apply Hr. unfold rest'. apply skipn_all2. lia.
      * rewrite <- app_assoc, <- Esplit in E', Hok''. exists posts'. split; assumption.
Qed.

(* ================= 5. any batch size ================= *)
Theorem index_any_ok docs bs : wf_docs docs -> exists ix, index false bs docs = AOk ix /\ index_ok docs ix.
Proof.
  intros Hwf. unfold index. unfold doc. set (bsz := Nat.max 1 bs).
  destruct (index_batches_ok bsz ltac:(lia) (length docs) docs [] [] 0) as (posts' & E & Hok).
  - exact Hwf.
  - apply Nat.le_refl.
  - intro t. cbn [lookup concat]. destruct (in_dec N.eq_dec t []) as [[]|]; reflexivity.
  - reflexivity.
  - cbn [app lens_spec map] in E, Hok. rewrite E. cbn [abind fst snd]. eexists. split; [reflexivity|].
    unfold index_ok. cbn [ix_posts ix_terms ix_lens]. repeat split.
    + intros t Ht. rewrite (Hok t), term_pairs_tp. destruct (in_dec N.eq_dec t (concat docs)); [reflexivity|contradiction].
    + intros t Ht. rewrite (Hok t). destruct (in_dec N.eq_dec t (concat docs)); [contradiction|reflexivity].
Qed.

(* C08 core: the batch size does not change what is stored *)
Theorem batch_size_irrelevant docs bs bs' ix ix' : wf_docs docs ->
  index false bs docs = AOk ix -> index false bs' docs = AOk ix' ->
  (forall t, lookup t (ix_posts ix') = lookup t (ix_posts ix)) /\
  ix_lens ix' = ix_lens ix /\ ix_terms ix' = ix_terms ix.
Proof.
  intros Hwf E E'.
  destruct (index_any_ok docs bs Hwf) as (i1 & E1 & H1 & A1 & T1 & L1). rewrite E in E1. inversion E1; subst i1.
  destruct (index_any_ok docs bs' Hwf) as (i2 & E2 & H2 & A2 & T2 & L2). rewrite E' in E2. inversion E2; subst i2.
  split; [|split; congruence].
  intro t. destruct (in_dec N.eq_dec t (concat docs)) as [Hi|Hn].
  - now rewrite H1, H2.
  - now rewrite A1, A2.
Qed.

Theorem C01_termfreqs_any docs bs : wf_docs docs ->
  exists ix, index false bs docs = AOk ix /\ forall t, termfreqs ix t = AOk (tf_spec docs t).
Proof.
  intro Hwf. destruct (index_any_ok docs bs Hwf) as (ix & E & Hok). exists ix. split; [exact E|].
  intro t. apply termfreqs_ok; assumption.
Qed.
Theorem C02_docfreq_any docs bs : wf_docs docs ->
  exists ix, index false bs docs = AOk ix /\ forall t, docfreq ix t = AOk (df_spec docs t).
Proof.
  intro Hwf. destruct (index_any_ok docs bs Hwf) as (ix & E & Hok). exists ix. split; [exact E|].
  intro t. apply docfreq_ok; assumption.
Qed.
Theorem C02_doclens_any docs bs : wf_docs docs ->
  exists ix, index false bs docs = AOk ix /\
    doclengths ix = lens_spec docs /\ corpus_size ix = N.of_nat (length docs) /\ total_len ix = total_spec docs.
Proof.
  intro Hwf. destruct (index_any_ok docs bs Hwf) as (ix & E & Hok). exists ix. split; [exact E|].
  apply doclens_ok; assumption.
Qed.
Theorem C05_positions_any docs bs : wf_docs docs ->
  exists ix, index false bs docs = AOk ix /\
    (forall t, In t (concat docs) -> positions ix t = AOk (positions_spec docs t)) /\
    (forall t, ~ In t (concat docs) -> positions ix t = AExc TermMissing).
Proof.
  intro Hwf. destruct (index_any_ok docs bs Hwf) as (ix & E & Hok). exists ix. split; [exact E|]. split.
  - intro t. apply positions_ok; assumption.
  - intros t Hn. apply (positions_absent docs); assumption.
Qed.

(* the requested shapes *)
Theorem C01_termfreqs docs bs : wf_docs docs -> (1 <= bs)%nat ->
  exists ix, index false bs docs = AOk ix /\ forall t, termfreqs ix t = AOk (tf_spec docs t).
Proof. intros Hwf _. apply C01_termfreqs_any. exact Hwf. Qed.
Theorem C02_docfreq docs bs : wf_docs docs -> (1 <= bs)%nat ->
  exists ix, index false bs docs = AOk ix /\ forall t, docfreq ix t = AOk (df_spec docs t).
Proof. intros Hwf _. apply C02_docfreq_any. exact Hwf. Qed.
Theorem C02_doclens docs bs : wf_docs docs -> (1 <= bs)%nat ->
  exists ix, index false bs docs = AOk ix /\
    doclengths ix = lens_spec docs /\ corpus_size ix = N.of_nat (length docs) /\ total_len ix = total_spec docs.
Proof. intros Hwf _. apply C02_doclens_any. exact Hwf. Qed.
Theorem C05_positions docs bs : wf_docs docs -> (1 <= bs)%nat ->
  exists ix, index false bs docs = AOk ix /\
    forall t, In t (concat docs) -> positions ix t = AOk (positions_spec docs t).
Proof.
  intros Hwf _. destruct (C05_positions_any docs bs Hwf) as (ix & E & H & _). exists ix. split; assumption.
Qed.

(* the hypotheses are satisfiable and the conclusions are the computed values *)
Example wf_example : wf_docs [[1;2;1;3];[];[2];[1;1;2];[]].
Proof. split; [repeat constructor; cbn; lia|rewrite pow28; cbn; lia]. Qed.

Print Assumptions index_any_ok.
Print Assumptions batch_size_irrelevant.
Print Assumptions C01_termfreqs.
Print Assumptions C02_docfreq.
Print Assumptions C02_doclens.
Print Assumptions C05_positions.
Print Assumptions C05_positions_any.
