(* The linear-time variants of Index/Fast.v are equal to the quadratic reference definitions. *)
From SA Require Import Base.Prelude Gen.SourceConsts Kernels.Intersect Kernels.Linear Codec.Codec Index.Index Index.Fast.
Open Scope N_scope.

(* sanity checks *)
Goal ra_fast [1;2;4;8;16;32] 0 [0;2;3] None = reduceat_or [1;2;4;8;16;32] [0;2;3].
Proof. vm_compute. reflexivity. Qed.
Goal ra_fast [1;2;4;8;16;32] 0 [1;4] None = reduceat_or [1;2;4;8;16;32] [1;4].
Proof. vm_compute. reflexivity. Qed.
Goal ra_fast [1;2;4;8;16;32] 0 [5] None = reduceat_or [1;2;4;8;16;32] [5].
Proof. vm_compute. reflexivity. Qed.

(* ---- list algebra ---- *)
Lemma fold_or_snoc : forall l x, fold_or (l ++ [x]) = N.lor (fold_or l) x.
Proof. intros l x. unfold fold_or. rewrite fold_left_app. reflexivity. Qed.

Lemma firstn_S_skipn : forall (k : nat) (ys : list N) x t,
  skipn k ys = x :: t -> firstn (S k) ys = firstn k ys ++ [x].
Proof.
  induction k as [|k IH]; intros ys x t H.
  - cbn [skipn] in H. subst ys. reflexivity.
  - destruct ys as [|y ys]; [discriminate H|].
    cbn [skipn] in H. rewrite (firstn_cons (S k)). rewrite (IH ys x t H). reflexivity.
Qed.

Lemma skipn_cons_next : forall (n : nat) (xs : list N) x t,
  skipn n xs = x :: t -> skipn (S n) xs = t /\ (n < length xs)%nat.
Proof.
  induction n as [|n IH]; intros xs x t H.
  - cbn [skipn] in H. subst xs. split; [reflexivity|cbn [length]; lia].
  - destruct xs as [|y ys]; [discriminate H|].
    cbn [skipn] in H. destruct (IH ys x t H) as [H1 H2]. split.
    + exact H1.
    + cbn [length]. lia.
Qed.

Lemma skipn_nil_len : forall (n : nat) (xs : list N), skipn n xs = [] -> (length xs <= n)%nat.
Proof.
  induction n as [|n IH]; intros xs H.
  - cbn [skipn] in H. subst xs. cbn [length]. lia.
  - destruct xs as [|y ys]; [cbn [length]; lia|].
    cbn [skipn] in H. apply IH in H. cbn [length]. lia.
Qed.

Lemma skipn_skipn' : forall (y x : nat) (l : list N), skipn x (skipn y l) = skipn (x + y) l.
Proof.
  induction y as [|y IH]; intros x l.
  - cbn [skipn]. f_equal. lia.
  - replace (x + S y)%nat with (S (x + y)) by lia.
    destruct l as [|a l]; [cbn [skipn]; apply skipn_nil|].
    cbn [skipn]. apply IH.
Qed.

Lemma slice_nat_snoc : forall (xs : list N) (s n : nat) x t, (s <= n)%nat ->
  skipn n xs = x :: t -> slice_nat xs s (S n) = slice_nat xs s n ++ [x].
Proof.
  intros xs s n x t Hs H. unfold slice_nat.
  replace (S n - s)%nat with (S (n - s)) by lia.
  apply firstn_S_skipn with (t := t).
  rewrite skipn_skipn'. replace (n - s + s)%nat with n by lia. exact H.
Qed.

Lemma slice_nat_single : forall (xs : list N) (n : nat) x t,
  skipn n xs = x :: t -> fold_or (slice_nat xs n (S n)) = x.
Proof.
  intros xs n x t H. unfold slice_nat. replace (S n - n)%nat with 1%nat by lia.
  rewrite H. reflexivity.
Qed.

Lemma slice_nat_to_end : forall (xs : list N) (s n : nat), (length xs <= n)%nat ->
  slice_nat xs s n = skipn s xs.
Proof.
  intros xs s n H. unfold slice_nat. apply firstn_all2. rewrite skipn_length. lia.
Qed.

(* ---- the index list: strictly increasing, within [lo, bound) ---- *)
Fixpoint incr_from (lo bound : N) (idx : list N) : Prop :=
  match idx with
  | [] => True
  | i :: t => lo <= i /\ i < bound /\ incr_from (i + 1) bound t
  end.

Lemma incr_from_weaken : forall lo lo' bound idx, lo' <= lo -> incr_from lo bound idx -> incr_from lo' bound idx.
Proof.
  intros lo lo' bound idx H Hi. destruct idx as [|i t]; [exact I|].
  cbn [incr_from] in *. destruct Hi as (H1 & H2 & H3). split; [|split]; [lia|exact H2|exact H3].
Qed.

Lemma sib_incr_from : forall bound idx, strictly_incr_below bound idx = true ->
  forall lo, match idx with [] => True | a :: _ => lo <= a end -> incr_from lo bound idx.
Proof.
  intros bound. induction idx as [|a t IH]; intros H lo Hlo; [exact I|].
  cbn [incr_from]. destruct t as [|b t'].
  - cbn [strictly_incr_below] in H. apply N.ltb_lt in H. split; [|split]; [exact Hlo|exact H|exact I].
  - cbn [strictly_incr_below] in H. apply andb_true_iff in H. destruct H as [Hab Ht].
    apply N.ltb_lt in Hab.
    assert (Hr : incr_from (a + 1) bound (b :: t')) by (apply IH; [exact Ht|lia]).
    split; [|split]; [exact Hlo| |exact Hr].
    cbn [incr_from] in Hr. lia.
Qed.

(* ---- the single pass, with an open group started at s ---- *)
Lemma ra_fast_some : forall xs suf (n : nat) idx s,
  skipn n xs = suf -> (N.to_nat s < n)%nat ->
  incr_from (N.of_nat n) (N.of_nat (length xs)) idx ->
  ra_fast suf (N.of_nat n) idx (Some (fold_or (slice_nat xs (N.to_nat s) n)))
  = reduceat_or xs (s :: idx).
Proof.
  intros xs. induction suf as [|x t IH]; intros n idx s Hsk Hs Hidx.
  - apply skipn_nil_len in Hsk. cbn [ra_fast].
    destruct idx as [|i rest].
    + cbn [reduceat_or]. rewrite slice_nat_to_end by exact Hsk. reflexivity.
    + cbn [incr_from] in Hidx. lia.
  - destruct (skipn_cons_next n xs x t Hsk) as [Hnext Hlen].
    cbn [ra_fast]. destruct idx as [|i rest].
    + cbn [option_map]. rewrite <- fold_or_snoc.
      rewrite <- (slice_nat_snoc xs (N.to_nat s) n x t) by (try lia; exact Hsk).
      replace (N.of_nat n + 1) with (N.of_nat (S n)) by lia.
      apply IH; [exact Hnext|lia|exact I].
    + cbn [incr_from] in Hidx. destruct Hidx as (H1 & H2 & H3).
      destruct (N.of_nat n =? i) eqn:E.
      * apply N.eqb_eq in E. subst i.
        assert (H3' : incr_from (N.of_nat (S n)) (N.of_nat (length xs)) rest)
          by (replace (N.of_nat (S n)) with (N.of_nat n + 1) by lia; exact H3).
        assert (Hs' : (N.to_nat (N.of_nat n) < S n)%nat) by lia.
        pose proof (IH (S n) rest (N.of_nat n) Hnext Hs' H3') as HI.
        rewrite Nat2N.id in HI. rewrite (slice_nat_single xs n x t Hsk) in HI.
        replace (N.of_nat n + 1) with (N.of_nat (S n)) by lia.
        rewrite HI.
        change (reduceat_or xs (s :: N.of_nat n :: rest))
          with ((if s <? N.of_nat n then fold_or (slice_nat xs (N.to_nat s) (N.to_nat (N.of_nat n)))
                 else nth (N.to_nat s) xs 0) :: reduceat_or xs (N.of_nat n :: rest)).
        destruct (s <? N.of_nat n) eqn:Es; [|apply N.ltb_ge in Es; lia].
        rewrite Nat2N.id. reflexivity.
      * apply N.eqb_neq in E.
        cbn [option_map]. rewrite <- fold_or_snoc.
        rewrite <- (slice_nat_snoc xs (N.to_nat s) n x t) by (try lia; exact Hsk).
        replace (N.of_nat n + 1) with (N.of_nat (S n)) by lia.
        apply IH; [exact Hnext|lia|].
        cbn [incr_from]. split; [|split]; [lia|exact H2|exact H3].
Qed.

(* ---- before the first index: elements are ignored ---- *)
Lemma ra_fast_none : forall xs suf (n : nat) idx,
  skipn n xs = suf -> idx <> [] ->
  incr_from (N.of_nat n) (N.of_nat (length xs)) idx ->
  ra_fast suf (N.of_nat n) idx None = reduceat_or xs idx.
Proof.
  intros xs. induction suf as [|x t IH]; intros n idx Hsk Hne Hidx.
  - apply skipn_nil_len in Hsk. destruct idx as [|i rest]; [congruence|].
    cbn [incr_from] in Hidx. lia.
  - destruct (skipn_cons_next n xs x t Hsk) as [Hnext Hlen].
    destruct idx as [|i rest]; [congruence|].
    cbn [ra_fast]. cbn [incr_from] in Hidx. destruct Hidx as (H1 & H2 & H3).
    destruct (N.of_nat n =? i) eqn:E.
    + apply N.eqb_eq in E. subst i.
      assert (H3' : incr_from (N.of_nat (S n)) (N.of_nat (length xs)) rest)
        by (replace (N.of_nat (S n)) with (N.of_nat n + 1) by lia; exact H3).
      assert (Hs' : (N.to_nat (N.of_nat n) < S n)%nat) by lia.
      pose proof (ra_fast_some xs t (S n) rest (N.of_nat n) Hnext Hs' H3') as HI.
      rewrite Nat2N.id in HI. rewrite (slice_nat_single xs n x t Hsk) in HI.
      replace (N.of_nat n + 1) with (N.of_nat (S n)) by lia.
      exact HI.
    + apply N.eqb_neq in E. cbn [option_map].
      replace (N.of_nat n + 1) with (N.of_nat (S n)) by lia.
      apply IH; [exact Hnext|exact Hne|].
      cbn [incr_from]. split; [|split]; [lia|exact H2|exact H3].
Qed.

Lemma ra_fast_correct : forall xs idx, idx <> [] -> strictly_incr_below (N.of_nat (length xs)) idx = true ->
  ra_fast xs 0 idx None = reduceat_or xs idx.
Proof.
  intros xs idx Hne H.
  change 0 with (N.of_nat 0).
  apply ra_fast_none; [reflexivity|exact Hne|].
  apply sib_incr_from; [exact H|]. destruct idx; [exact I|lia].
Qed.

Theorem reduceat_g_eq : forall xs idx, reduceat_g xs idx = reduceat_or xs idx.
Proof.
  intros xs idx. unfold reduceat_g. destruct idx as [|a t]; [reflexivity|].
  destruct (strictly_incr_below (N.of_nat (length xs)) (a :: t)) eqn:E; [|reflexivity].
  apply ra_fast_correct; [discriminate|exact E].
Qed.

Theorem encode_b_g_eq : forall k p b, encode_b_g k p b = encode_b k p b.
Proof.
  intros k p b. unfold encode_b_g, encode_b. cbv zeta.
  destruct (merge_drop (change_indices (map2 enc_col k p)) b) as [change| |]; cbn [bind]; try reflexivity.
  destruct (intersect_drop b change wmask) as [ix| |]; cbn [bind]; try reflexivity.
  destruct p as [|p0 pt]; [reflexivity|].
  rewrite reduceat_g_eq. reflexivity.
Qed.

Theorem build_batch_g_eq : forall tr beg batch, build_batch_g tr beg batch = build_batch tr beg batch.
Proof.
  intros tr beg batch. unfold build_batch_g, build_batch. cbv zeta.
  rewrite encode_b_g_eq. reflexivity.
Qed.

Theorem index_batches_g_eq : forall tr bs bl beg posts lens,
  index_batches_g tr bs beg bl posts lens = index_batches tr bs beg bl posts lens.
Proof.
  intros tr bs. induction bl as [|b rest IH]; intros beg posts lens.
  - reflexivity.
  - cbn [index_batches_g index_batches]. rewrite build_batch_g_eq.
    destruct (build_batch tr beg b) as [bi| | |]; unfold abind; try reflexivity.
    apply IH.
Qed.

Theorem index_g_eq : forall tr bs docs, index_g tr bs docs = index tr bs docs.
Proof.
  intros tr bs docs. unfold index_g, index. cbv zeta.
  rewrite index_batches_g_eq. reflexivity.
Qed.

Print Assumptions index_g_eq.
