(* Common imports, the result monad of checked memory accesses, and trie-backed arrays.
   No proofs about the models live here except the one lemma that ties trie reads to lists. *)
From Coq Require Export NArith ZArith List Bool Lia ZifyBool ZifyNat ZifyN FMapPositive.
Export ListNotations.
Ltac Zify.zify_post_hook ::= Z.div_mod_to_equations.

Open Scope N_scope.

(* ---- result of a kernel run: a value, an out-of-bounds access, or fuel exhaustion ---- *)
Inductive access := Rd | Wr.
Inductive result (A : Type) :=
| Done (a : A)
| Fault (k : access) (buf : N) (idx : N)
| OutOfFuel.
Arguments Done {A}. Arguments Fault {A}. Arguments OutOfFuel {A}.

Definition bind {A B} (r : result A) (f : A -> result B) : result B :=
  match r with Done a => f a | Fault k b i => Fault k b i | OutOfFuel => OutOfFuel end.
Notation "'do' x <- r ; k" := (bind r (fun x => k))
  (at level 200, x name, r at level 100, k at level 200).
Notation "'do' ' p <- r ; k" := (bind r (fun x => let p := x in k))
  (at level 200, p pattern, r at level 100, k at level 200).

Definition is_fault {A} (r : result A) : Prop :=
  match r with Fault _ _ _ => True | _ => False end.
Definition is_done {A} (r : result A) : Prop :=
  match r with Done _ => True | _ => False end.

(* ---- arrays: a list at every interface, a positive-keyed trie for O(log n) reads ---- *)
Record mem := { mlen : N; mget : PositiveMap.t N }.

Fixpoint fill (l : list N) (i : N) (m : PositiveMap.t N) : PositiveMap.t N :=
  match l with
  | [] => m
  | x :: t => fill t (N.succ i) (PositiveMap.add (N.succ_pos i) x m)
  end.

Definition mem_of_list (l : list N) : mem :=
  {| mlen := N.of_nat (length l); mget := fill l 0 (PositiveMap.empty N) |}.

(* checked read of element i of buffer number buf *)
Definition rd (buf : N) (a : mem) (i : N) : result N :=
  if i <? mlen a then
    match PositiveMap.find (N.succ_pos i) (mget a) with
    | Some v => Done v
    | None => Fault Rd buf i
    end
  else Fault Rd buf i.

(* checked write: the model accumulates outputs in a list; the bound is the capacity the wrapper allocated *)
Definition wr_ok (buf : N) (cap : N) (i : N) : result unit :=
  if i <? cap then Done tt else Fault Wr buf i.

(* list-level read used by the proofs *)
Definition lrd (buf : N) (l : list N) (i : N) : result N :=
  match nth_error l (N.to_nat i) with Some v => Done v | None => Fault Rd buf i end.

Lemma fill_find_lt : forall l i m j, j < i ->
  PositiveMap.find (N.succ_pos j) (fill l i m) = PositiveMap.find (N.succ_pos j) m.
Proof.
  induction l as [|x t IH]; intros i m j Hj; cbn [fill]; [reflexivity|].
  rewrite IH by lia. rewrite PositiveMapAdditionalFacts.gsspec.
  destruct (PositiveMap.E.eq_dec (N.succ_pos j) (N.succ_pos i)) as [e|ne]; [|reflexivity].
  apply (f_equal Npos) in e. rewrite !N.succ_pos_spec in e. lia.
Qed.

Lemma fill_find : forall l i m k,
  PositiveMap.find (N.succ_pos (i + N.of_nat k)) (fill l i m) =
  match nth_error l k with Some v => Some v | None => PositiveMap.find (N.succ_pos (i + N.of_nat k)) m end.
Proof.
  induction l as [|x t IH]; intros i m k; cbn [fill].
  - destruct k; reflexivity.
  - destruct k as [|k].
    + cbn [nth_error]. replace (i + N.of_nat 0) with i by lia.
      rewrite fill_find_lt by lia. apply PositiveMap.gss.
    + cbn [nth_error]. replace (i + N.of_nat (S k)) with (N.succ i + N.of_nat k) by lia.
      rewrite IH. destruct (nth_error t k); [reflexivity|].
      rewrite PositiveMap.gso; [reflexivity|].
      intro e. apply (f_equal Npos) in e. rewrite !N.succ_pos_spec in e. lia.
Qed.

(* THE lemma that connects the executable trie reads to list reads *)
Lemma rd_mem_of_list buf l i : rd buf (mem_of_list l) i = lrd buf l i.
Proof.
  unfold rd, lrd, mem_of_list; cbn [mlen mget].
  destruct (N.ltb_spec i (N.of_nat (length l))) as [H|H].
  - replace i with (0 + N.of_nat (N.to_nat i)) at 1 by lia.
    rewrite fill_find. destruct (nth_error l (N.to_nat i)) eqn:E; [reflexivity|].
    apply nth_error_None in E. lia.
  - destruct (nth_error l (N.to_nat i)) eqn:E; [|reflexivity].
    assert (N.to_nat i < length l)%nat by (apply nth_error_Some; congruence). lia.
Qed.

Lemma mlen_mem_of_list l : mlen (mem_of_list l) = N.of_nat (length l).
Proof. reflexivity. Qed.

Lemma lrd_ok buf l i : i < N.of_nat (length l) -> lrd buf l i = Done (nth (N.to_nat i) l 0).
Proof.
  intro H. unfold lrd. destruct (nth_error l (N.to_nat i)) eqn:E.
  - f_equal. symmetry. apply nth_error_nth. exact E.
  - apply nth_error_None in E. lia.
Qed.

Lemma lrd_oob buf l i : N.of_nat (length l) <= i -> lrd buf l i = Fault Rd buf i.
Proof.
  intro H. unfold lrd. destruct (nth_error l (N.to_nat i)) eqn:E; [|reflexivity].
  assert (N.to_nat i < length l)%nat by (apply nth_error_Some; congruence). lia.
Qed.

(* ---- 64-bit words as N with explicit wrap ---- *)
Definition W64 : N := 18446744073709551616.     (* 2^64 *)
Definition wmask : N := 18446744073709551615.   (* 2^64 - 1 *)
Definition wadd (x y : N) : N := (x + y) mod W64.
Definition wsub (x y : N) : N := (x + W64 - y mod W64) mod W64.
Definition wneg (x : N) : N := (W64 - x mod W64) mod W64.
Definition wnot (x : N) : N := N.lxor (x mod W64) wmask.
Definition wshl (x k : N) : N := (N.shiftl x k) mod W64.

Fixpoint pop_pos (p : positive) : N :=
  match p with xH => 1 | xO q => pop_pos q | xI q => N.succ (pop_pos q) end.
Definition popcount (n : N) : N := match n with 0 => 0 | Npos p => pop_pos p end.

(* count trailing zeros of a non-zero word *)
Fixpoint ctz_pos (p : positive) : N :=
  match p with xO q => N.succ (ctz_pos q) | _ => 0 end.
Definition ctz (n : N) : N := match n with 0 => 64 | Npos p => ctz_pos p end.
