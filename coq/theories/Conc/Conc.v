(* Interleaving semantics of concurrent read-only queries (C20).
   Each query is a small program of ATOMIC ACTIONS on the shared query-time state of View/Purity.v, with purely
   local computation in between.  The atomic actions are exactly the points where the implementation touches
   shared mutable state (middle_out.py): reading a term's postings through the current handle and filling
   FilteredPosns.sliced (291-317), the doc-freq cache (517-528), the term-freq cache (501-509), and the handle
   reset done by slicing a view (344-355).  A schedule picks which thread performs its next action.
   Assumed (not modelled): each action is atomic under the GIL (a dict get / set, or a helper without a
   preemption point that matters: both orders of a check-then-store write the same value).  No proofs here. *)
From Coq Require Import ZArith.
From SA Require Import Base.Prelude Kernels.Spec Kernels.Linear Codec.Codec Index.Index Query.Phrase Query.Range
  Score.BM25 View.View View.Purity.
Open Scope N_scope.

(* values a thread holds locally *)
Inductive lval :=
| LEnc (v : api (list N))          (* postings of one term as read through the handle *)
| LDf (v : api N)
| LTf (v : api (list (N * N)))     (* sparse (doc, count) from the term-freq cache path *)
| LUnit.

Inductive action :=
| AReadEnc (pid : nat) (t : N)     (* self.encoded_term_posns[t]  (may fill FilteredPosns.sliced) *)
| ADocfreq (ai : nat) (t : N)      (* SearchArray.docfreq -> root cache *)
| ATfCached (pid : nat) (t : N)    (* _termfreqs_with_cache *)
| ASelect (ai : nat) (pos : list N).  (* arr[key]: resets the parent's handle, appends a view *)

Definition do_action (p : pool) (a : action) : lval * pool :=
  match a with
  | AReadEnc pid t => let '(r, s') := read_enc (get_ps p pid) t in (LEnc r, put_ps p pid s')
  | ADocfreq ai t =>
      match nth_error (arrays p) ai with
      | Some arr => let '(r, p') := m_docfreq p arr t in (LDf r, p')
      | None => (LDf (AExc IndexError), p)
      end
  | ATfCached pid t => let '(r, s') := tf_with_cache (get_ps p pid) t in (LTf r, put_ps p pid s')
  | ASelect ai pos => let '(_, p') := m_select p ai pos in (LUnit, p')
  end.

(* a query = the actions it performs, then a pure function of what they returned *)
Record program := { pg_actions : list action; pg_finish : list lval -> out }.

Definition enc_of (l : lval) : api (list N) := match l with LEnc v => v | _ => AExc TypeError end.
Fixpoint all_ok {A} (l : list (api A)) : api (list A) :=
  match l with
  | [] => AOk []
  | x :: t => ado a <- x; ado r <- all_ok t; AOk (a :: r)
  end.

(* ---- the queries of Purity.v, decomposed ---- *)
Definition prog_tf (p0 : pool) (a : parray) (t : N) (min_p max_p : option N) : program :=
  let arr := pa_arr a in
  if negb (known_a arr t) then {| pg_actions := []; pg_finish := fun _ => RVec (AOk (repeat 0 (nrows arr))) |}
  else if a_subset arr then
    {| pg_actions := [AReadEnc (pa_pid a) t];
       pg_finish := fun vs =>
         RVec (ado w <- enc_of (nth 0 vs LUnit);
               ado sl <- lift (slice_keys w (np_unique (a_rows arr)));
               ado s2 <- api_of_range (slice_range_w sl min_p max_p);
               ado kc <- lift (num_values_per_key s2);
               ado dense <- unpy (as_dense (map fst kc) (map snd kc) (p_max_doc_id (a_posns arr) + 1));
               AOk (gather 0 dense (a_rows arr))) |}
  else
    match min_p, max_p with
    | None, None =>
        {| pg_actions := [ATfCached (pa_pid a) t];
           pg_finish := fun vs =>
             RVec (ado kc <- (match nth 0 vs LUnit with LTf v => v | _ => AExc TypeError end);
                   unpy (as_dense (map fst kc) (map snd kc) (N.of_nat (nrows arr)))) |}
    | _, _ =>
        {| pg_actions := [AReadEnc (pa_pid a) t];
           pg_finish := fun vs =>
             RVec (ado w <- enc_of (nth 0 vs LUnit);
                   ado s2 <- api_of_range (slice_range_w w min_p max_p);
                   ado kc <- lift (num_values_per_key s2);
                   unpy (as_dense (map fst kc) (map snd kc) (N.of_nat (nrows arr)))) |}
    end.

Definition prog_phrase (p0 : pool) (a : parray) (ts : list N) : program :=
  let arr := pa_arr a in
  if negb (forallb (known_a arr) ts) then {| pg_actions := []; pg_finish := fun _ => RVec (AOk (repeat 0 (nrows arr))) |}
  else if Nat.ltb (length ts) 2 then {| pg_actions := []; pg_finish := fun _ => RVec (AExc ValueError) |}
  else
    {| pg_actions := map (AReadEnc (pa_pid a)) ts;           (* one read of the handle per term *)
       pg_finish := fun vs =>
         RVec (ado enc <- all_ok (map enc_of vs);
               ado pf <- compute_phrase_freqs enc;
               ado dense <- lift (store_many (repeat 0 (N.to_nat (p_max_doc_id (a_posns arr) + 1))) pf);
               if a_subset arr then AOk (gather 0 dense (a_rows arr)) else AOk dense) |}.

Definition prog_df (ai : nat) (a : parray) (t : N) : program :=
  {| pg_actions := [ADocfreq ai t];
     pg_finish := fun vs => RNum (match nth 0 vs LUnit with LDf v => v | _ => AExc TypeError end) |}.

(* score([t]): docfreq first, then the tf program, then the kernel on a private vector *)
Definition prog_score (p0 : pool) (ai : nat) (a : parray) (t : N) (idf k1 b : Z) : program :=
  let tfp := prog_tf p0 a t None None in
  {| pg_actions := ADocfreq ai t :: pg_actions tfp;
     pg_finish := fun vs =>
       match vs with
       | LDf d :: rest =>
           match pg_finish tfp rest with
           | RVec tfv =>
               RBits (ado _ <- d; ado tf <- tfv;
                      AOk (score_bits (map Z.of_N tf) (map Z.of_N (a_lens (pa_arr a))) (Z.of_N (a_total (pa_arr a)))
                                      (Z.of_N (a_n (pa_arr a))) idf k1 b))
           | other => other
           end
       | _ => RBits (AExc TypeError)
       end |}.

Definition prog_select (ai : nat) (pos : list N) : program :=
  {| pg_actions := [ASelect ai pos]; pg_finish := fun _ => RUnit (AOk tt) |}.

(* ---- threads and schedules ---- *)
Record thread := { th_todo : list action; th_got : list lval; th_fin : list lval -> out }.
Definition spawn (pg : program) : thread := {| th_todo := pg_actions pg; th_got := []; th_fin := pg_finish pg |}.
Definition th_result (t : thread) : option out :=
  match th_todo t with [] => Some (th_fin t (rev (th_got t))) | _ => None end.

(* one scheduling decision: thread i performs its next action (no-op if it has finished or does not exist) *)
Definition sched_step (p : pool) (ths : list thread) (i : nat) : pool * list thread :=
  match nth_error ths i with
  | Some t =>
      match th_todo t with
      | [] => (p, ths)
      | a :: rest =>
          let '(v, p') := do_action p a in
          (p', set_nth ths i {| th_todo := rest; th_got := v :: th_got t; th_fin := th_fin t |})
      end
  | None => (p, ths)
  end.
Fixpoint run_sched (p : pool) (ths : list thread) (sched : list nat) : pool * list thread :=
  match sched with
  | [] => (p, ths)
  | i :: rest => let '(p', ths') := sched_step p ths i in run_sched p' ths' rest
  end.

(* the serial schedule: thread 0 to completion, then thread 1, ... *)
Definition serial_schedule (ths : list thread) : list nat :=
  concat (map (fun it => repeat (fst it) (length (th_todo (snd it)))) (combine (seq 0 (length ths)) ths)).
Definition results (ths : list thread) : list (option out) := map th_result ths.
