(* C20 — concurrent read-only queries are serially equivalent (interleaving model of Conc/Conc.v).
   1. every atomic action keeps the invariant [Inv] of View/Purity_Proofs.v          ([do_action_inv]);
   2. every value an action returns is "good": it is one of the (at most two) history-free values
      determined by the IMMUTABLE part of the initial pool, whenever it is read       ([do_action_good]);
   3. finishing a query from good values gives the pure answer                        ([prog_of_finish]);
   4. hence, in every interleaving, every finished thread holds [pure_answer] on the initial pool
      ([sched_results_pure]) and any two schedules that let every thread finish give the same results
      ([C20_serial_equivalence]), in particular the serial one ([C20_any_schedule_eq_serial]).
   Premises on the immutable postings (explicit in every theorem that needs them):
     [slice_idem_hyp good_posts]   (View/Purity_Proofs.v)
     [phrase_mixed_local_hyp good_posts]   (below; a per-term "mixed" strengthening of [phrase_local_hyp]). *)
From Coq Require Import ZArith.
From SA Require Import Base.Prelude Kernels.Spec Kernels.Linear Codec.Codec Index.Index Query.Phrase Query.Range
  Score.BM25 View.View View.Purity View.Purity_Proofs Conc.Conc.
Open Scope N_scope.

(* ================= list algebra ================= *)
Lemma nth_error_set_nth {A} (l : list A) : forall i j x, (i < length l)%nat ->
  nth_error (set_nth l i x) j = if Nat.eqb i j then Some x else nth_error l j.
Proof.
  induction l as [|a l IH]; intros i j x H; cbn [length] in H; [lia|].
  destruct i as [|i].
  - destruct j; reflexivity.
  - rewrite set_nth_cons_S. destruct j as [|j]; [reflexivity|]. cbn [nth_error Nat.eqb]. apply IH. lia.
Qed.

Lemma set_nth_0 {A} (a : A) l x : set_nth (a :: l) 0 x = x :: l.
Proof. reflexivity. Qed.

Lemma Forall2_nth_r {A B} (R : A -> B -> Prop) l1 l2 : Forall2 R l1 l2 ->
  forall i y, nth_error l2 i = Some y -> exists x, nth_error l1 i = Some x /\ R x y.
Proof.
  induction 1 as [|x y l l' Hxy Hrest IH]; intros i y0 Hn.
  - destruct i; discriminate Hn.
  - destruct i as [|i]; cbn [nth_error] in *.
    + inversion Hn; subst. exists x. split; [reflexivity|exact Hxy].
    + apply IH. exact Hn.
Qed.

Lemma Forall2_nth_l {A B} (R : A -> B -> Prop) l1 l2 : Forall2 R l1 l2 ->
  forall i x, nth_error l1 i = Some x -> exists y, nth_error l2 i = Some y /\ R x y.
Proof.
  induction 1 as [|x y l l' Hxy Hrest IH]; intros i x0 Hn.
  - destruct i; discriminate Hn.
  - destruct i as [|i]; cbn [nth_error] in *.
    + inversion Hn; subst. exists y. split; [reflexivity|exact Hxy].
    + apply IH. exact Hn.
Qed.

Lemma Forall2_set_nth {A B} (R : A -> B -> Prop) l1 l2 : Forall2 R l1 l2 ->
  forall i x y', nth_error l1 i = Some x -> R x y' -> Forall2 R l1 (set_nth l2 i y').
Proof.
  induction 1 as [|x y l l' Hxy Hrest IH]; intros i x0 y' Hn HR.
  - destruct i; discriminate Hn.
  - destruct i as [|i]; cbn [nth_error] in Hn.
    + inversion Hn; subst. rewrite set_nth_0. constructor; assumption.
    + rewrite set_nth_cons_S. constructor; [exact Hxy|]. eapply IH; eassumption.
Qed.

Lemma Forall2_mono {A B} (R R' : A -> B -> Prop) l1 l2 : (forall x y, R x y -> R' x y) ->
  Forall2 R l1 l2 -> Forall2 R' l1 l2.
Proof. intros HR. induction 1; constructor; [apply HR; assumption|assumption]. Qed.

Lemma Forall2_eq_map {A B} (f : A -> B) l es : Forall2 (fun t e => e = f t) l es -> es = map f l.
Proof. induction 1 as [|x y l l' Hxy Hrest IH]; [reflexivity|]. cbn [map]. rewrite Hxy, IH. reflexivity. Qed.

(* ================= queries as programs ================= *)
Inductive query :=
| QTf (ai : nat) (t : N) (lo hi : option N)
| QPhrase (ai : nat) (ts : list N)
| QDf (ai : nat) (t : N)
| QScore (ai : nat) (t : N) (idf k1 b : Z)
| QSelect (ai : nat) (pos : list N).

Definition op_of (q : query) : op :=
  match q with
  | QTf ai t lo hi => OTf ai t lo hi
  | QPhrase ai ts => OPhrase ai ts None None
  | QDf ai t => ODf ai t
  | QScore ai t idf k1 b => OScore ai [t] idf k1 b
  | QSelect ai pos => OSelect ai pos
  end.

(* the program of a query, built against the arrays of the initial pool (None: array index out of range) *)
Definition prog_of (p0 : pool) (q : query) : option program :=
  match q with
  | QTf ai t lo hi => option_map (fun a => prog_tf p0 a t lo hi) (nth_error (arrays p0) ai)
  | QPhrase ai ts => option_map (fun a => prog_phrase p0 a ts) (nth_error (arrays p0) ai)
  | QDf ai t => option_map (fun a => prog_df ai a t) (nth_error (arrays p0) ai)
  | QScore ai t idf k1 b => option_map (fun a => prog_score p0 ai a t idf k1 b) (nth_error (arrays p0) ai)
  | QSelect ai pos => option_map (fun _ => prog_select ai pos) (nth_error (arrays p0) ai)
  end.

Fixpoint progs_of (p0 : pool) (qs : list query) : option (list program) :=
  match qs with
  | [] => Some []
  | q :: rest =>
      match prog_of p0 q, progs_of p0 rest with
      | Some pg, Some pgs => Some (pg :: pgs)
      | _, _ => None
      end
  end.

Definition is_select (q : query) : bool := match q with QSelect _ _ => true | _ => false end.

(* the reference result: the history-free answer on the INITIAL pool; a selection returns unit *)
Definition answer_of (p0 : pool) (q : query) : option out :=
  match q with
  | QSelect _ _ => Some (RUnit (AOk tt))
  | _ => pure_answer p0 (op_of q)
  end.

Lemma progs_of_Forall2 p0 : forall qs pgs, progs_of p0 qs = Some pgs ->
  Forall2 (fun q pg => prog_of p0 q = Some pg) qs pgs.
Proof.
  induction qs as [|q rest IH]; intros pgs H; cbn [progs_of] in H.
  - inversion H; subst. constructor.
  - destruct (prog_of p0 q) as [pg|] eqn:E1; [|discriminate H].
    destruct (progs_of p0 rest) as [pgs'|] eqn:E2; [|discriminate H].
    inversion H; subst. constructor; [exact E1|]. apply IH. reflexivity.
Qed.

(* ================= well-formed actions, good values ================= *)
(* an action that names a heap object must name an existing one; the term-freq cache path is only taken on
   objects that were never filtered (prog_tf takes it for non-subset arrays only).  Both facts are stable. *)
Definition action_wf (p : pool) (a : action) : Prop :=
  match a with
  | AReadEnc pid _ => (pid < length (heap p))%nat
  | ATfCached pid _ => (pid < length (heap p))%nat /\ ps_ids (get_ps p pid) = None
  | ADocfreq _ _ => True
  | ASelect _ _ => True
  end.

(* what an action may return, in terms of the immutable data of the initial pool only *)
Definition good_val (p0 : pool) (a : action) (v : lval) : Prop :=
  match a with
  | AReadEnc pid t =>
      v = LEnc (lookup_posts t (ps_base (get_ps p0 pid))) \/        (* the handle was un-filtered when read *)
      v = LEnc (get_enc (handle_of (get_ps p0 pid)) t)              (* the handle was the object's own *)
  | ADocfreq ai t =>
      match nth_error (arrays p0) ai with
      | Some a => v = LDf (v_docfreq (pa_arr a) t)
      | None => True
      end
  | ATfCached pid t => v = LTf (tf_answer (ps_base (get_ps p0 pid)) t)
  | ASelect _ _ => v = LUnit
  end.

Lemma action_wf_le p p' a : heap_le p p' -> action_wf p a -> action_wf p' a.
Proof.
  intros (Hl & Hs) H. destruct a as [pid t|ai t|pid t|ai pos]; cbn [action_wf] in *; try exact I.
  - lia.
  - destruct H as (Hpid & Hids). split; [lia|]. destruct (Hs _ Hpid) as (_ & -> & _). exact Hids.
Qed.

(* ================= schedules: the serial schedule lets every thread finish ================= *)
Definition all_done (ths : list thread) : Prop := Forall (fun th => th_todo th = []) ths.

Definition all_doneb (ths : list thread) : bool :=
  forallb (fun th => match th_todo th with [] => true | _ => false end) ths.
Lemma all_done_dec ths : all_doneb ths = true -> all_done ths.
Proof.
  unfold all_doneb, all_done. rewrite forallb_forall, Forall_forall. intros H th Hin. specialize (H th Hin).
  destruct (th_todo th); [reflexivity|discriminate H].
Qed.

Lemma run_sched_app s1 : forall p ths s2,
  run_sched p ths (s1 ++ s2) = let '(p1, ths1) := run_sched p ths s1 in run_sched p1 ths1 s2.
Proof.
  induction s1 as [|i s1 IH]; intros p ths s2; cbn [app run_sched]; [reflexivity|].
  destruct (sched_step p ths i) as [p1 ths1]. apply IH.
Qed.

Lemma run_repeat i : forall k p ths t, nth_error ths i = Some t -> length (th_todo t) = k ->
  exists p' ths' t', run_sched p ths (repeat i k) = (p', ths') /\ length ths' = length ths /\
    (forall j, j <> i -> nth_error ths' j = nth_error ths j) /\ nth_error ths' i = Some t' /\ th_todo t' = [].
Proof.
  induction k as [|k IH]; intros p ths t Hn Hl; cbn [repeat run_sched].
  - exists p, ths, t. split; [reflexivity|]. split; [reflexivity|]. split; [intros; reflexivity|].
    split; [exact Hn|]. destruct (th_todo t); [reflexivity|discriminate Hl].
  - unfold sched_step. rewrite Hn. destruct (th_todo t) as [|a rest] eqn:Et; [discriminate Hl|].
    destruct (do_action p a) as [v p1].
    set (t1 := {| th_todo := rest; th_got := v :: th_got t; th_fin := th_fin t |}).
    assert (Hi : (i < length ths)%nat) by (apply nth_error_Some; congruence).
    destruct (IH p1 (set_nth ths i t1) t1) as (p' & ths' & t' & Hrun & Hlen & Hoth & Hi' & Hd).
    + rewrite nth_error_set_nth by exact Hi. rewrite Nat.eqb_refl. reflexivity.
    + cbn [th_todo t1]. cbn [length] in Hl. lia.
    + exists p', ths', t'. split; [exact Hrun|]. split; [rewrite Hlen; apply set_nth_length; exact Hi|].
      split; [|split; assumption].
      intros j Hj. rewrite (Hoth j Hj). rewrite nth_error_set_nth by exact Hi.
      destruct (Nat.eqb_spec i j); [congruence|reflexivity].
Qed.

Definition sched_from (k : nat) (rest : list thread) : list nat :=
  concat (map (fun it => repeat (fst it) (length (th_todo (snd it)))) (combine (seq k (length rest)) rest)).

Lemma serial_from : forall rest k p ths,
  (forall j, (j < length rest)%nat -> nth_error ths (k + j) = nth_error rest j) ->
  length ths = (k + length rest)%nat ->
  exists p' ths', run_sched p ths (sched_from k rest) = (p', ths') /\ length ths' = length ths /\
    (forall j, (j < k)%nat -> nth_error ths' j = nth_error ths j) /\
    (forall j, (k <= j < length ths)%nat -> exists t', nth_error ths' j = Some t' /\ th_todo t' = []).
Proof.
  induction rest as [|t rest IH]; intros k p ths Hn Hl.
  - exists p, ths. split; [reflexivity|]. split; [reflexivity|]. split; [intros; reflexivity|].
    intros j Hj. cbn [length] in Hl. lia.
  - unfold sched_from. cbn [length seq combine map concat fst snd]. rewrite run_sched_app.
    assert (Hk : nth_error ths k = Some t).
    { specialize (Hn 0%nat). rewrite Nat.add_0_r in Hn. cbn [nth_error length] in Hn. apply Hn. lia. }
    destruct (run_repeat k _ p ths t Hk eq_refl) as (p1 & ths1 & t1 & Hrun & Hlen1 & Hoth & Hk1 & Hd1).
    rewrite Hrun. cbn [length] in Hl.
    destruct (IH (S k) p1 ths1) as (p' & ths' & Hrun' & Hlen' & Hlow & Hhigh).
    + intros j Hj. rewrite Hoth by lia. replace (S k + j)%nat with (k + S j)%nat by lia.
      rewrite Hn by (cbn [length]; lia). reflexivity.
    + rewrite Hlen1, Hl. lia.
    + exists p', ths'. unfold sched_from in Hrun'. split; [exact Hrun'|]. split; [congruence|]. split.
      * intros j Hj. rewrite Hlow by lia. apply Hoth. lia.
      * intros j Hj. destruct (Nat.eq_dec j k) as [->|Hne].
        -- exists t1. rewrite Hlow by lia. split; assumption.
        -- apply Hhigh. lia.
Qed.

Theorem serial_all_done p ths : all_done (snd (run_sched p ths (serial_schedule ths))).
Proof.
  destruct (serial_from ths 0 p ths) as (p' & ths' & Hrun & Hlen & _ & Hhigh); [reflexivity|reflexivity|].
  change (serial_schedule ths) with (sched_from 0 ths). rewrite Hrun. cbn [snd].
  apply Forall_forall. intros th Hin. apply In_nth_error in Hin. destruct Hin as (j & Hj).
  destruct (Hhigh j) as (t' & Ht' & Hd).
  { split; [lia|]. rewrite <- Hlen. apply nth_error_Some. congruence. }
  rewrite Hj in Ht'. inversion Ht'; subst. exact Hd.
Qed.

Section WithGood.
Variable good_posts : posts -> N -> Prop.
Local Notation INV := (Inv good_posts).

(* ---- 1. every atomic action keeps the invariant ---- *)
Lemma do_action_inv p a v p' : INV p -> action_wf p a -> do_action p a = (v, p') ->
  INV p' /\ (exists extra, arrays p' = arrays p ++ extra) /\ heap_le p p'.
Proof.
  intros HI Hwf H. pose proof HI as (Hst & Har).
  destruct a as [pid t|ai t|pid t|ai pos]; cbn [do_action action_wf] in *.
  - destruct (read_enc (get_ps p pid) t) as [r s'] eqn:E. inv_pair H.
    destruct (Hst _ Hwf) as (_ & Hc & _).
    destruct (read_enc_spec _ _ _ _ Hc E) as (Him & _ & Hc' & _).
    apply upd_out. apply upd_put; assumption.
  - destruct (nth_error (arrays p) ai) as [arr|] eqn:En.
    + destruct (m_docfreq p arr t) as [r p1] eqn:E. inv_pair H.
      destruct (m_docfreq_pure _ _ _ _ _ _ HI (nth_error_In _ _ En) E) as (U & _). apply upd_out. exact U.
    + inv_pair H. apply upd_out, upd_refl. exact HI.
  - destruct Hwf as (Hpid & Hids).
    destruct (tf_with_cache (get_ps p pid) t) as [r s'] eqn:E. inv_pair H.
    destruct (Hst _ Hpid) as (_ & Hc & _).
    destruct (tf_with_cache_spec _ _ _ _ Hc Hids E) as (Him & _ & Hc' & _).
    apply upd_out. apply upd_put; assumption.
  - destruct (m_select p ai pos) as [u p1] eqn:E. inv_pair H. eapply m_select_pure; eassumption.
Qed.

(* ---- 2. every value read is good, whenever it is read ---- *)
Lemma do_action_good p0 p a v p' : INV p -> heap_le p0 p -> (exists extra, arrays p = arrays p0 ++ extra) ->
  action_wf p0 a -> do_action p a = (v, p') -> good_val p0 a v.
Proof.
  intros HI Hle (extra & Hext) Hwf H. pose proof HI as (Hst & Har). destruct Hle as (Hlen & Hsame).
  destruct a as [pid t|ai t|pid t|ai pos]; cbn [do_action action_wf good_val] in *.
  - destruct (read_enc (get_ps p pid) t) as [r s'] eqn:E. inv_pair H.
    assert (Hpid : (pid < length (heap p))%nat) by lia.
    destruct (Hst _ Hpid) as (_ & Hc & _).
    destruct (read_enc_spec _ _ _ _ Hc E) as (_ & _ & _ & ->).
    destruct (Hsame _ Hwf) as (Hb & Hi & _).
    assert (Hh : handle_of (get_ps p pid) = handle_of (get_ps p0 pid)).
    { unfold handle_of. rewrite Hb, Hi. reflexivity. }
    rewrite <- Hb, <- Hh. unfold cur_handle.
    destruct (ps_filtered_now (get_ps p pid)); [right|left]; reflexivity.
  - destruct (nth_error (arrays p0) ai) as [a|] eqn:En0; [|exact I].
    assert (En : nth_error (arrays p) ai = Some a).
    { rewrite Hext, nth_error_app1 by (apply nth_error_Some; congruence). exact En0. }
    rewrite En in H. destruct (m_docfreq p a t) as [r p1] eqn:E. inv_pair H.
    destruct (m_docfreq_pure _ _ _ _ _ _ HI (nth_error_In _ _ En) E) as (_ & ->). reflexivity.
  - destruct Hwf as (Hpid0 & Hids0).
    assert (Hpid : (pid < length (heap p))%nat) by lia.
    destruct (Hsame _ Hpid0) as (Hb & Hi & _).
    destruct (tf_with_cache (get_ps p pid) t) as [r s'] eqn:E. inv_pair H.
    destruct (Hst _ Hpid) as (_ & Hc & _).
    assert (Hids : ps_ids (get_ps p pid) = None) by (rewrite Hi; exact Hids0).
    destruct (tf_with_cache_spec _ _ _ _ Hc Hids E) as (_ & _ & _ & ->). rewrite Hb. reflexivity.
  - destruct (m_select p ai pos) as [u p1] eqn:E. inv_pair H. reflexivity.
Qed.

(* ================= threads under an arbitrary schedule ================= *)
(* a thread of program pg: it has performed a prefix of pg's actions and holds a good value for each *)
Definition thread_ok (p0 : pool) (pg : program) (th : thread) : Prop :=
  th_fin th = pg_finish pg /\ Forall (action_wf p0) (pg_actions pg) /\
  exists done, pg_actions pg = done ++ th_todo th /\ Forall2 (good_val p0) done (rev (th_got th)).

Definition sys_ok (p0 : pool) (pgs : list program) (p : pool) (ths : list thread) : Prop :=
  INV p /\ (exists extra, arrays p = arrays p0 ++ extra) /\ heap_le p0 p /\ Forall2 (thread_ok p0) pgs ths.

Lemma spawn_ok p0 pg : Forall (action_wf p0) (pg_actions pg) -> thread_ok p0 pg (spawn pg).
Proof.
  intro H. split; [reflexivity|]. split; [exact H|]. exists []. split; [reflexivity|]. constructor.
Qed.

Lemma sched_step_ok p0 pgs p ths i p' ths' : sys_ok p0 pgs p ths -> sched_step p ths i = (p', ths') ->
  sys_ok p0 pgs p' ths'.
Proof.
  intros (HI & Hext & Hle & Hth) H. unfold sched_step in H.
  destruct (nth_error ths i) as [t|] eqn:En.
  2:{ inv_pair H. split; [exact HI|]. split; [exact Hext|]. split; [exact Hle|exact Hth]. }
  destruct (th_todo t) as [|a rest] eqn:Et.
  { inv_pair H. split; [exact HI|]. split; [exact Hext|]. split; [exact Hle|exact Hth]. }
  destruct (do_action p a) as [v p1] eqn:Ea. inv_pair H.
  destruct (Forall2_nth_r _ _ _ Hth _ _ En) as (pg & Epg & Hfin & Hwf & done & Hd & Hg).
  rewrite Et in Hd.
  assert (Hwa : action_wf p0 a).
  { rewrite Forall_forall in Hwf. apply Hwf. rewrite Hd. apply in_or_app. right. left. reflexivity. }
  destruct (do_action_inv _ _ _ _ HI (action_wf_le _ _ _ Hle Hwa) Ea) as (I1 & (e1 & A1) & L1).
  pose proof (do_action_good _ _ _ _ _ HI Hle Hext Hwa Ea) as Hgv.
  split; [exact I1|]. split.
  { destruct Hext as (e0 & A0). exists (e0 ++ e1). rewrite A1, A0, app_assoc. reflexivity. }
  split; [eapply heap_le_trans; eassumption|].
  eapply Forall2_set_nth; [exact Hth|exact Epg|].
  split; [exact Hfin|]. split; [exact Hwf|]. exists (done ++ [a]). cbn [th_todo th_got rev].
  split; [rewrite Hd, <- app_assoc; reflexivity|].
  apply Forall2_app; [exact Hg|]. constructor; [exact Hgv|constructor].
Qed.

Lemma run_sched_ok p0 pgs sched : forall p ths p' ths', sys_ok p0 pgs p ths ->
  run_sched p ths sched = (p', ths') -> sys_ok p0 pgs p' ths'.
Proof.
  induction sched as [|i rest IH]; intros p ths p' ths' Hok H; cbn [run_sched] in H.
  - inv_pair H. exact Hok.
  - destruct (sched_step p ths i) as [p1 ths1] eqn:E.
    eapply IH; [|exact H]. eapply sched_step_ok; eassumption.
Qed.

Lemma thread_ok_result p0 pg th r : thread_ok p0 pg th -> th_result th = Some r ->
  exists vs, Forall2 (good_val p0) (pg_actions pg) vs /\ r = pg_finish pg vs.
Proof.
  intros (Hfin & _ & done & Hd & Hg) H. unfold th_result in H.
  destruct (th_todo th) eqn:Et; [|discriminate H]. inv_pair H. rewrite app_nil_r in Hd.
  exists (rev (th_got th)). rewrite Hd, Hfin. split; [exact Hg|reflexivity].
Qed.

(* ================= 3. finishing from good values ================= *)
(* the mixed locality premise: each term of the phrase may independently have been read through the filtered
   handle or through the un-filtered base (another thread may select from the view between two reads) *)
Definition phrase_mixed_local_hyp : Prop :=
  forall base maxd ts rows encs, good_posts base maxd -> (2 <= length ts)%nat ->
    Forall2 (fun t e => e = lookup_posts t base \/ e = get_enc (HFiltered base (np_unique rows)) t) ts encs ->
    (ado enc <- all_ok encs;
     ado pf <- compute_phrase_freqs enc;
     ado dense <- lift (store_many (repeat 0 (N.to_nat (maxd + 1))) pf);
     AOk (gather 0 dense rows))
    = (ado enc <- get_all_enc (HFiltered base (np_unique rows)) ts None None;
       ado pf <- compute_phrase_freqs enc;
       ado dense <- lift (store_many (repeat 0 (N.to_nat (maxd + 1))) pf);
       AOk (gather 0 dense rows)).

Lemma all_ok_get_all h : forall ts, all_ok (map (get_enc h) ts) = get_all_enc h ts None None.
Proof.
  induction ts as [|t rest IH]; cbn [map all_ok get_all_enc]; [reflexivity|].
  rewrite IH. destruct (get_enc h t); reflexivity.
Qed.

(* the mixed premise contains the un-ranged instance of phrase_local_hyp (all terms un-filtered) *)
Lemma phrase_mixed_implies_local_norange : phrase_mixed_local_hyp ->
  forall base maxd ts rows, good_posts base maxd -> (2 <= length ts)%nat ->
    (ado enc <- get_all_enc (HBase base) ts None None;
     ado pf <- compute_phrase_freqs enc;
     ado dense <- lift (store_many (repeat 0 (N.to_nat (maxd + 1))) pf);
     AOk (gather 0 dense rows))
    = (ado enc <- get_all_enc (HFiltered base (np_unique rows)) ts None None;
       ado pf <- compute_phrase_freqs enc;
       ado dense <- lift (store_many (repeat 0 (N.to_nat (maxd + 1))) pf);
       AOk (gather 0 dense rows)).
Proof.
  intros Hm base maxd ts rows Hg Hl. rewrite <- all_ok_get_all. apply Hm; [exact Hg|exact Hl|].
  clear Hl. induction ts as [|t rest IH]; cbn [map]; constructor; [left; reflexivity|exact IH].
Qed.

Lemma good_reads p0 pid : forall ts vs, Forall2 (good_val p0) (map (AReadEnc pid) ts) vs ->
  Forall2 (fun t e => e = lookup_posts t (ps_base (get_ps p0 pid)) \/ e = get_enc (handle_of (get_ps p0 pid)) t)
          ts (map enc_of vs).
Proof.
  induction ts as [|t rest IH]; intros vs H; cbn [map] in H; inversion H as [|x y l l' Hv Hrest]; subst; cbn [map].
  - constructor.
  - constructor; [|apply IH; exact Hrest].
    cbn [good_val] in Hv. destruct Hv as [-> | ->]; [left|right]; reflexivity.
Qed.

Lemma Forall2_one {A B} (R : A -> B -> Prop) x vs : Forall2 R [x] vs -> exists v, vs = [v] /\ R x v.
Proof.
  intro H. inversion H as [|x0 y l l' Hv Hrest]; subst. inversion Hrest; subst. exists y. split; [reflexivity|exact Hv].
Qed.

(* facts about an array of the initial pool *)
Lemma array_facts p0 a : INV p0 -> In a (arrays p0) ->
  array_ok p0 a /\ good_posts (ps_base (get_ps p0 (pa_pid a))) (ps_max_doc_id (get_ps p0 (pa_pid a))).
Proof.
  intros (Hst & Har) Ha. pose proof (Har a Ha) as Hok. split; [exact Hok|].
  destruct Hok as (Hpid & _). destruct (Hst _ Hpid) as (Hg & _). exact Hg.
Qed.

Lemma prog_tf_wf p0 a t lo hi : array_ok p0 a -> Forall (action_wf p0) (pg_actions (prog_tf p0 a t lo hi)).
Proof.
  intros (Hpid & _ & _ & Hsub & _). unfold prog_tf.
  destruct (negb (known_a (pa_arr a) t)); [constructor|].
  destruct (a_subset (pa_arr a)) eqn:Es.
  - cbn [pg_actions]. apply Forall_cons; [exact Hpid|apply Forall_nil].
  - assert (Hnone : ps_ids (get_ps p0 (pa_pid a)) = None).
    { destruct (ps_ids (get_ps p0 (pa_pid a))); [discriminate Hsub|reflexivity]. }
    destruct lo as [lo|]; [|destruct hi as [hi|]]; cbn [pg_actions];
      (apply Forall_cons; [|apply Forall_nil]); cbn [action_wf]; try exact Hpid.
    split; [exact Hpid|exact Hnone].
Qed.

Lemma prog_tf_finish p0 a t lo hi vs : slice_idem_hyp good_posts -> INV p0 -> In a (arrays p0) ->
  Forall2 (good_val p0) (pg_actions (prog_tf p0 a t lo hi)) vs ->
  pg_finish (prog_tf p0 a t lo hi) vs = RVec (v_termfreqs (pa_arr a) t lo hi).
Proof.
  intros Hidem HI Ha H.
  destruct (array_facts _ _ HI Ha) as ((Hpid & Hh & Hm & Hsub & Hids & Hr & Hdf) & Hgood).
  unfold prog_tf, v_termfreqs in *.
  destruct (negb (known_a (pa_arr a) t)); [reflexivity|].
  destruct (a_subset (pa_arr a)) eqn:Es.
  - cbn [pg_actions pg_finish] in *. destruct (Forall2_one _ _ _ H) as (v & -> & Hv).
    cbn [nth good_val] in *. rewrite Hh.
    destruct (ps_ids (get_ps p0 (pa_pid a))) as [ids|] eqn:Hi; [|discriminate Hsub].
    destruct Hv as [-> | ->]; cbn [enc_of]; [|reflexivity].
    unfold handle_of. rewrite Hi. rewrite (Hids ids eq_refl). cbn [get_enc].
    destruct (lookup_posts t (ps_base (get_ps p0 (pa_pid a)))) as [w| | |] eqn:El; cbn [abind]; try reflexivity.
    destruct (slice_keys w (np_unique (a_rows (pa_arr a)))) as [sl| |] eqn:Esl; cbn [lift abind]; try reflexivity.
    rewrite (Hidem _ _ _ _ _ _ Hgood El Esl). reflexivity.
  - assert (Hnone : ps_ids (get_ps p0 (pa_pid a)) = None).
    { destruct (ps_ids (get_ps p0 (pa_pid a))); [discriminate Hsub|reflexivity]. }
    assert (Hbase : handle_of (get_ps p0 (pa_pid a)) = HBase (ps_base (get_ps p0 (pa_pid a)))).
    { unfold handle_of. rewrite Hnone. reflexivity. }
    rewrite Hh, Hbase.
    destruct lo as [lo|]; [|destruct hi as [hi|]]; cbn [pg_actions pg_finish] in *;
      destruct (Forall2_one _ _ _ H) as (v & -> & Hv); cbn [nth good_val] in *.
    + rewrite Hbase in Hv. cbn [get_enc] in Hv. destruct Hv as [-> | ->]; reflexivity.
    + rewrite Hbase in Hv. cbn [get_enc] in Hv. destruct Hv as [-> | ->]; reflexivity.
    + subst v. unfold tf_answer. cbn [get_enc].
      destruct (lookup_posts t (ps_base (get_ps p0 (pa_pid a)))); reflexivity.
Qed.

Lemma prog_phrase_wf p0 a ts : array_ok p0 a -> Forall (action_wf p0) (pg_actions (prog_phrase p0 a ts)).
Proof.
  intros (Hpid & _). unfold prog_phrase.
  destruct (negb (forallb (known_a (pa_arr a)) ts)); [constructor|].
  destruct (Nat.ltb (length ts) 2); [constructor|]. cbn [pg_actions].
  apply Forall_forall. intros x Hx. apply in_map_iff in Hx. destruct Hx as (t & <- & _). exact Hpid.
Qed.

Lemma prog_phrase_finish p0 a ts vs : phrase_mixed_local_hyp -> INV p0 -> In a (arrays p0) ->
  Forall2 (good_val p0) (pg_actions (prog_phrase p0 a ts)) vs ->
  pg_finish (prog_phrase p0 a ts) vs = RVec (v_phrase_freqs (pa_arr a) ts None None).
Proof.
  intros Hmix HI Ha H.
  destruct (array_facts _ _ HI Ha) as ((Hpid & Hh & Hm & Hsub & Hids & Hr & Hdf) & Hgood).
  unfold prog_phrase, v_phrase_freqs in *.
  destruct (negb (forallb (known_a (pa_arr a)) ts)); [reflexivity|].
  destruct (Nat.ltb (length ts) 2) eqn:Elen; [reflexivity|].
  cbn [pg_actions pg_finish] in *. apply good_reads in H. rewrite Hh. f_equal.
  destruct (ps_ids (get_ps p0 (pa_pid a))) as [ids|] eqn:Hi.
  - rewrite Hsub. rewrite Hm.
    assert (Hhf : handle_of (get_ps p0 (pa_pid a)) =
                  HFiltered (ps_base (get_ps p0 (pa_pid a))) (np_unique (a_rows (pa_arr a)))).
    { unfold handle_of. rewrite Hi, (Hids ids eq_refl). reflexivity. }
    rewrite Hhf in *. apply Hmix; [exact Hgood| |exact H]. apply Nat.ltb_ge in Elen. exact Elen.
  - rewrite Hsub.
    assert (Hbase : handle_of (get_ps p0 (pa_pid a)) = HBase (ps_base (get_ps p0 (pa_pid a)))).
    { unfold handle_of. rewrite Hi. reflexivity. }
    rewrite Hbase in *. cbn [get_enc] in H.
    assert (E : map enc_of vs = map (get_enc (HBase (ps_base (get_ps p0 (pa_pid a))))) ts).
    { apply Forall2_eq_map. eapply Forall2_mono; [|exact H]. cbv beta. intros t e [-> | ->]; reflexivity. }
    rewrite E, all_ok_get_all. reflexivity.
Qed.

Lemma prog_score_finish p0 ai a t idf k1 b vs : slice_idem_hyp good_posts -> INV p0 -> nth_error (arrays p0) ai = Some a ->
  Forall2 (good_val p0) (pg_actions (prog_score p0 ai a t idf k1 b)) vs ->
  pg_finish (prog_score p0 ai a t idf k1 b) vs = RBits (v_score_bm25 (pa_arr a) [t] idf k1 b).
Proof.
  intros Hidem HI En H. unfold prog_score in *. cbn [pg_actions pg_finish] in *.
  inversion H as [|x v l rest Hv Hrest]; subst. cbn [good_val] in Hv. rewrite En in Hv. subst v.
  rewrite (prog_tf_finish _ _ _ _ _ _ Hidem HI (nth_error_In _ _ En) Hrest).
  unfold v_score_bm25, v_score_args, v_tf_vector, v_doclengths. cbn [v_all_dfs].
  destruct (v_docfreq (pa_arr a) t); cbn [abind]; try reflexivity.
  destruct (v_termfreqs (pa_arr a) t None None); reflexivity.
Qed.

Lemma prog_of_wf p0 q pg : INV p0 -> prog_of p0 q = Some pg -> Forall (action_wf p0) (pg_actions pg).
Proof.
  intros HI H. destruct q as [ai t lo hi|ai ts|ai t|ai t idf k1 b|ai pos]; cbn [prog_of] in H;
    (destruct (nth_error (arrays p0) ai) as [a|] eqn:En; [|discriminate H]); cbn [option_map] in H; inv_pair H;
    pose proof (proj1 (array_facts _ _ HI (nth_error_In _ _ En))) as Hok.
  - apply prog_tf_wf. exact Hok.
  - apply prog_phrase_wf. exact Hok.
  - cbn [prog_df pg_actions]. apply Forall_cons; [exact I|apply Forall_nil].
  - unfold prog_score. cbn [pg_actions]. apply Forall_cons; [exact I|]. apply prog_tf_wf. exact Hok.
  - cbn [prog_select pg_actions]. apply Forall_cons; [exact I|apply Forall_nil].
Qed.

Lemma prog_of_finish p0 q pg vs : slice_idem_hyp good_posts -> phrase_mixed_local_hyp ->
  INV p0 -> prog_of p0 q = Some pg -> Forall2 (good_val p0) (pg_actions pg) vs ->
  Some (pg_finish pg vs) = answer_of p0 q.
Proof.
  intros Hidem Hmix HI H Hg. destruct q as [ai t lo hi|ai ts|ai t|ai t idf k1 b|ai pos]; cbn [prog_of] in H;
    (destruct (nth_error (arrays p0) ai) as [a|] eqn:En; [|discriminate H]); cbn [option_map] in H; inv_pair H;
    unfold answer_of, op_of, pure_answer; try rewrite En; cbn [option_map].
  - rewrite (prog_tf_finish _ _ _ _ _ _ Hidem HI (nth_error_In _ _ En) Hg). reflexivity.
  - rewrite (prog_phrase_finish _ _ _ _ Hmix HI (nth_error_In _ _ En) Hg). reflexivity.
  - cbn [prog_df pg_actions pg_finish] in *. destruct (Forall2_one _ _ _ Hg) as (v & -> & Hv).
    cbn [good_val] in Hv. rewrite En in Hv. subst v. reflexivity.
  - rewrite (prog_score_finish _ _ _ _ _ _ _ _ Hidem HI En Hg). reflexivity.
  - reflexivity.
Qed.

(* ================= 4. main theorems ================= *)
Lemma initial_sys_ok p0 qs pgs : INV p0 -> progs_of p0 qs = Some pgs -> sys_ok p0 pgs p0 (map spawn pgs).
Proof.
  intros HI H. split; [exact HI|]. split; [exists []; rewrite app_nil_r; reflexivity|].
  split; [apply heap_le_refl|].
  apply progs_of_Forall2 in H. induction H as [|q pg qs' pgs' Hq Hrest IH]; cbn [map]; constructor; [|exact IH].
  apply spawn_ok. eapply prog_of_wf; eassumption.
Qed.

Section Answers.
Hypothesis slice_idem : slice_idem_hyp good_posts.
Hypothesis phrase_mixed : phrase_mixed_local_hyp.

(* in EVERY interleaving, a finished thread holds the history-free answer on the initial pool *)
Theorem sched_results_answer : forall p0 queries pgs sched p' ths',
  INV p0 -> progs_of p0 queries = Some pgs ->
  run_sched p0 (map spawn pgs) sched = (p', ths') ->
  forall i q th r, nth_error queries i = Some q -> nth_error ths' i = Some th -> th_result th = Some r ->
    Some r = answer_of p0 q.
Proof.
  intros p0 queries pgs sched p' ths' HI Hpg Hrun i q th r Hq Hth Hr.
  pose proof (run_sched_ok _ _ _ _ _ _ _ (initial_sys_ok _ _ _ HI Hpg) Hrun) as (_ & _ & _ & Hths).
  destruct (Forall2_nth_r _ _ _ Hths _ _ Hth) as (pg & Epg & Hok).
  destruct (Forall2_nth_l _ _ _ (progs_of_Forall2 _ _ _ Hpg) _ _ Hq) as (pg' & Epg' & Hprog).
  rewrite Epg in Epg'. inv_pair Epg'.
  destruct (thread_ok_result _ _ _ _ Hok Hr) as (vs & Hvs & ->).
  eapply prog_of_finish; eassumption.
Qed.

Theorem sched_results_pure : forall p0 queries pgs sched p' ths',
  INV p0 -> progs_of p0 queries = Some pgs ->
  run_sched p0 (map spawn pgs) sched = (p', ths') ->
  forall i q th r, nth_error queries i = Some q -> nth_error ths' i = Some th -> th_result th = Some r ->
    is_select q = false -> Some r = pure_answer p0 (op_of q).
Proof.
  intros p0 queries pgs sched p' ths' HI Hpg Hrun i q th r Hq Hth Hr Hsel.
  rewrite (sched_results_answer _ _ _ _ _ _ HI Hpg Hrun _ _ _ _ Hq Hth Hr).
  destruct q; try reflexivity. discriminate Hsel.
Qed.

(* when every thread has finished, the list of results is the list of reference answers *)
Lemma results_all_done p0 : forall qs pgs, Forall2 (fun q pg => prog_of p0 q = Some pg) qs pgs ->
  INV p0 -> forall ths, Forall2 (thread_ok p0) pgs ths -> all_done ths -> results ths = map (answer_of p0) qs.
Proof.
  induction 1 as [|q pg qs pgs Hq Hrest IH]; intros HI ths Hths Hdone;
    inversion Hths as [|x th l ths0 Hok Hoks]; subst; [reflexivity|].
  inversion Hdone as [|y l Hd Hds]; subst. unfold results in *. cbn [map]. f_equal; [|apply IH; assumption].
  assert (Hres : th_result th = Some (th_fin th (rev (th_got th)))) by (unfold th_result; rewrite Hd; reflexivity).
  destruct (thread_ok_result _ _ _ _ Hok Hres) as (vs & Hvs & E). rewrite Hres, E.
  eapply prog_of_finish; eassumption.
Qed.

Theorem all_done_results p0 queries pgs sched : INV p0 -> progs_of p0 queries = Some pgs ->
  all_done (snd (run_sched p0 (map spawn pgs) sched)) ->
  results (snd (run_sched p0 (map spawn pgs) sched)) = map (answer_of p0) queries.
Proof.
  intros HI Hpg Hdone. destruct (run_sched p0 (map spawn pgs) sched) as [p' ths'] eqn:Hrun. cbn [snd] in *.
  pose proof (run_sched_ok _ _ _ _ _ _ _ (initial_sys_ok _ _ _ HI Hpg) Hrun) as (_ & _ & _ & Hths).
  eapply results_all_done; try eassumption. apply progs_of_Forall2. exact Hpg.
Qed.

(* C20: any two schedules under which every thread finishes give the same results *)
Theorem C20_serial_equivalence p0 queries pgs s1 s2 : INV p0 -> progs_of p0 queries = Some pgs ->
  all_done (snd (run_sched p0 (map spawn pgs) s1)) -> all_done (snd (run_sched p0 (map spawn pgs) s2)) ->
  results (snd (run_sched p0 (map spawn pgs) s1)) = results (snd (run_sched p0 (map spawn pgs) s2)).
Proof.
  intros HI Hpg H1 H2.
  rewrite (all_done_results _ _ _ _ HI Hpg H1), (all_done_results _ _ _ _ HI Hpg H2). reflexivity.
Qed.

(* ... in particular the serial schedule (which always lets every thread finish: [serial_all_done]) *)
Corollary C20_any_schedule_eq_serial p0 queries pgs s : INV p0 -> progs_of p0 queries = Some pgs ->
  all_done (snd (run_sched p0 (map spawn pgs) s)) ->
  results (snd (run_sched p0 (map spawn pgs) s))
  = results (snd (run_sched p0 (map spawn pgs) (serial_schedule (map spawn pgs)))).
Proof.
  intros HI Hpg H. apply (C20_serial_equivalence _ queries); try assumption. apply serial_all_done.
Qed.
End Answers.
End WithGood.

(* ================= non-vacuity ================= *)
(* p0: the example index of Purity_Proofs with a view (array 1, object 1, rows [4;2;0;0]).
   Thread 0 is a phrase query on the view, thread 1 selects from the same view.  In [cx_sched] the selection
   (which resets the view's handle to the un-filtered base) runs BETWEEN the two term reads of the phrase. *)
Definition cx_queries : list query :=
  [QPhrase 1 [1;2]; QSelect 1 [1;0]; QTf 1 1 None None; QDf 1 1; QScore 1 1 0 0 0; QTf 0 2 None None].
Definition cx_sched : list nat := [0;1;0;4;2;5;3;4]%nat.

Example conc_nonvacuous :
  match index false 100 ex_docs with
  | AOk ix =>
      let p0 := snd (step (init_pool ix 0) (OSelect 0 [4;2;0;0])) in
      match progs_of p0 cx_queries with
      | Some pgs =>
          let ths := map spawn pgs in
          let inter := run_sched p0 ths cx_sched in
          let serial := run_sched p0 ths (serial_schedule ths) in
          Inv (fun _ _ => True) p0 /\
          all_done (snd inter) /\
          results (snd inter) = results (snd serial) /\
          results (snd inter) = map (answer_of p0) cx_queries /\
          Forall (fun r => r <> None) (map (answer_of p0) cx_queries) /\
          (* the interleaving is a different execution: the phrase thread's second read saw the un-filtered
             postings, the serial one the filtered postings; the view's handle ends up reset *)
          option_map th_got (nth_error (snd inter) 0) <> option_map th_got (nth_error (snd serial) 0) /\
          ps_filtered_now (get_ps p0 1) = true /\ ps_filtered_now (get_ps (fst inter) 1) = false
      | None => False
      end
  | _ => False
  end.
Proof.
  set (r := index false 100 ex_docs). vm_compute in r. subst r. cbv beta iota zeta.
  match goal with |- context [init_pool ?ix 0] => set (ix0 := ix) end.
  split.
  { assert (I0 : Inv (fun _ _ => True) (init_pool ix0 0)) by (apply init_inv; exact I).
    destruct (step (init_pool ix0 0) (OSelect 0 [4;2;0;0])) as [o p1] eqn:E. cbn [snd].
    exact (proj1 (step_inv _ _ _ _ _ I0 E)). }
  (* never normalise a thread (its [th_fin] is a closure over the kernels): reduce each conjunct to data first *)
  split; [apply all_done_dec; vm_compute; reflexivity|].
  split; [vm_compute; reflexivity|]. split; [vm_compute; reflexivity|].
  split; [vm_compute; repeat (apply Forall_cons; [discriminate|]); apply Forall_nil|].
  split; [vm_compute; discriminate|]. split; vm_compute; reflexivity.
Qed.

(* the mixed premise evaluated on the example's postings: every per-term choice, several phrases and row vectors *)
Example mixed_hyp_holds_on_example :
  match index false 100 ex_docs with
  | AOk ix =>
      let base := ix_posts ix in
      let maxd := N.of_nat (length (ix_lens ix)) - 1 in
      Forall (fun rows : list N =>
        Forall (fun ts : list N =>
          Forall (fun choice : list bool =>
            let encs := map (fun ct : bool * N => if fst ct then get_enc (HFiltered base (np_unique rows)) (snd ct)
                                       else lookup_posts (snd ct) base) (combine choice ts) in
            (ado enc <- all_ok encs;
             ado pf <- compute_phrase_freqs enc;
             ado dense <- lift (store_many (repeat 0 (N.to_nat (maxd + 1))) pf);
             AOk (gather 0 dense rows))
            = (ado enc <- get_all_enc (HFiltered base (np_unique rows)) ts None None;
               ado pf <- compute_phrase_freqs enc;
               ado dense <- lift (store_many (repeat 0 (N.to_nat (maxd + 1))) pf);
               AOk (gather 0 dense rows)))
          [[true;true;true];[true;false;true];[false;true;false];[false;false;true];[true;true;false];[false;false;false]])
          [[1;2];[2;1];[1;1;2];[3;1];[1;7];[1;2;1]])
        [[4;2;0;0];[2;4];[];[0;1;2;3;4];[3];[0;3;3;0]]
  | _ => False
  end.
Proof.
  set (r := index false 100 ex_docs). vm_compute in r. subst r. cbv beta iota zeta.
  repeat first [apply Forall_nil | apply Forall_cons]; vm_compute; reflexivity.
Qed.

(* Assumption audit: the statements mention [pure_answer] / [out], hence [score_bits] (Flocq binary32 over the
   standard library's classical reals).  No proof in this file adds an assumption. *)
Print Assumptions do_action_inv.
Print Assumptions do_action_good.
Print Assumptions serial_all_done.
Print Assumptions sched_results_answer.
Print Assumptions sched_results_pure.
Print Assumptions all_done_results.
Print Assumptions C20_serial_equivalence.
Print Assumptions C20_any_schedule_eq_serial.
Print Assumptions conc_nonvacuous.
Print Assumptions mixed_hyp_holds_on_example.
