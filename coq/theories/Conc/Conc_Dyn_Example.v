(* Non-vacuity of Conc/Conc_Dyn*.v: three threads on the pool reached by [OSelect 0 [4;2;0;3]] from the example index
     thread 0: edismax, qf = pf = [f], f = array 1 (the VIEW), query terms [1;2]
     thread 1: slices array 1 (which resets the view's handle), asks a phrase on its own new view and on array 1
     thread 2: edismax on the root array with pf2
   under a round-robin schedule: thread 1's selection runs between the postings reads of thread 0, and the views the
   two edismax threads create land at pool positions that differ from the serial run.  Everything is computed. *)
From Coq Require Import ZArith QArith List Bool.
From SA Require Import Base.Prelude Index.Index Score.BM25 View.View View.Purity View.Purity_Proofs Solr.MM Solr.Edismax
  Conc.Conc Conc.Conc_Dyn Conc.Conc_Dyn_Proofs Conc.Conc_Edismax Conc.Conc_Dyn_Indexed.
Import ListNotations.

Definition I0 : Z := 4604418534313441775%Z.
Definition x_idf : idf_table := [(0%nat, [1%N], I0); (0%nat, [2%N], I0); (0%nat, [1%N; 2%N], I0)].

Definition x_field (ai : nat) (arr : sarray) : qfield :=
  {| qf_ai := ai; qf_ef := {| ef_arr := arr; ef_boost := None; ef_terms := [1%N; 2%N] |} |}.
Definition x_e0 (arr1 : sarray) : ethread :=
  {| et_idf := x_idf; et_n := 4; et_fields := [x_field 1 arr1]; et_mm := Simple (SInt 1); et_tie := 0;
     et_pf := [{| ph_field := 0; ph_boost := None |}]; et_pf2 := []; et_pf3 := [] |}.
Definition x_e2 (arr0 : sarray) : ethread :=
  {| et_idf := x_idf; et_n := 5; et_fields := [x_field 0 arr0]; et_mm := Simple (SInt 1); et_tie := 0;
     et_pf := []; et_pf2 := [{| ph_field := 0; ph_boost := None |}]; et_pf3 := [] |}.
Definition nq (v : qval) : list Q := match v with QOut (RVec (AOk l)) => map (fun x => inject_Z (Z.of_N x)) l | _ => [] end.
Definition x_t1 : qprog (api (list Q)) :=
  QDo (VQSelect (AGlob 1) [0%N; 1%N]) (fun _ =>
  QDo (VQPhrase (AView 0) [1%N; 2%N]) (fun a =>
  QDo (VQPhrase (AGlob 1) [1%N; 2%N]) (fun b => QRet (AOk (nq a ++ nq b))))).

Definition x_sched : list nat := concat (repeat [0; 1; 2]%nat 12).

Example dyn_nonvacuous :
  match index false 100 [[1;2;1;3];[];[2];[1;1;2];[3;1]]%N with
  | AOk ix =>
      let p0 := snd (run (init_pool ix 0) [OSelect 0 [4;2;0;3]%N]) in
      let arr i := match nth_error (arrays p0) i with Some a => pa_arr a | None => of_index ix true end in
      let e0 := x_e0 (arr 1%nat) in let e2 := x_e2 (arr 0%nat) in
      let ths := map (qspawn p0) [et_prog e0; x_t1; et_prog e2] in
      let inter := drun_sched p0 ths x_sched in
      let serial := drun_sched p0 ths (dserial_schedule p0 ths) in
      fields_at p0 (et_fields e0) /\ fields_at p0 (et_fields e2) /\
      dresults (snd inter) = dresults (snd serial) /\
      dresults (snd inter) = [Some (et_answer e0); Some (qprog_hf p0 x_t1); Some (et_answer e2)] /\
      (* not trivial: edismax on the view finds 2 matching rows and adds a phrase boost; no result is an exception *)
      (match et_answer e0 with AOk l => existsb qpos l = true | _ => False end) /\
      et_answer e0 <> et_answer e2 /\
      (* a different execution: the threads' views are at other pool positions, the view's handle ends up reset *)
      map (@dt_env _) (snd inter) <> map (@dt_env _) (snd serial) /\
      ps_filtered_now (get_ps p0 1) = true /\ ps_filtered_now (get_ps (fst inter) 1) = false
  | _ => False
  end.
Proof.
  set (r := index false 100 _). vm_compute in r. subst r. cbv beta iota zeta.
  split; [repeat constructor|]. split; [repeat constructor|].
  split; [vm_compute; reflexivity|]. split; [vm_compute; reflexivity|].
  split; [vm_compute; reflexivity|]. split; [vm_compute; discriminate|].
  split; [vm_compute; discriminate|]. split; vm_compute; reflexivity.
Qed.
Print Assumptions dyn_nonvacuous.
