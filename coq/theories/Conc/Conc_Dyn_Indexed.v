(* C07 / C20 for DYNAMIC query programs (edismax included) on indexed corpora: PREMISE-FREE.
   Conc_Dyn_Proofs.v is instantiated as Conc_Indexed2.v instantiates Conc_Gen.v:
     good_posts := good_posts_of docs,  R := rows_in docs (closed under selection when docs <> []),
     slice_idem_on: Purity_Indexed.slice_idem_on_indexed;  mixed-handle phrase locality: Conc_Indexed2.
   The pool the programs start on is ANY pool reached by ANY operation history from the freshly indexed array.
   C20: [indexed_qprog_every_interleaving], [indexed_qprog_schedule_eq_serial], [indexed_edismax_threads];
   C07: [indexed_qprog_single_thread] (one thread alone: history-free result, and every LATER operation of the
        Purity machine is still answered history-free), [indexed_edismax_single_thread]. *)
From Coq Require Import Sorted Permutation QArith.
From SA Require Import Base.Prelude Kernels.Spec Kernels.Linear Codec.Codec Index.Index Index.Index_Spec
  Query.Phrase Query.Range Score.BM25 View.View View.View_Spec View.View_Proofs View.View_Phrase
  View.Purity View.Purity_Proofs View.View_Phrase2 View.Purity_Gen View.Purity_Indexed View.View_Phrase3
  View.Purity_Indexed2 Solr.MM Solr.Edismax Conc.Conc Conc.Conc_Proofs Conc.Conc_Gen Conc.Conc_Indexed Conc.Conc_Indexed2
  Conc.Conc_Dyn Conc.Conc_Dyn_Proofs Conc.Conc_Edismax.
Open Scope N_scope.

(* ================= every array of a reachable pool was created with avoid_copies = True ================= *)
Definition all_avoid (p : pool) : Prop := forall a, In a (arrays p) -> a_avoid_copies (pa_arr a) = true.

Lemma all_avoid_same p p' : arrays p' = arrays p -> all_avoid p -> all_avoid p'.
Proof. intros E H a Ha. rewrite E in Ha. apply H. exact Ha. Qed.

Lemma step_avoid good_posts p o r p' : Inv good_posts p -> step p o = (r, p') -> all_avoid p -> all_avoid p'.
Proof.
  intros HI H Hav.
  destruct o as [ai t lo hi|ai ts lo hi|ai t|ai t|ai|ai ts idf k1 b|ai pos|ai|ai]; unfold step, with_array in H.
  - destruct (nth_error (arrays p) ai) as [a|] eqn:En; [|inv_pair H; exact Hav].
    destruct (m_termfreqs p a t lo hi) as [v p1] eqn:E. inv_pair H.
    destruct (m_termfreqs_pure good_posts _ _ _ _ _ _ _ HI (nth_error_In _ _ En) E) as ((_ & A & _) & _).
    eapply all_avoid_same; eassumption.
  - destruct (nth_error (arrays p) ai) as [a|] eqn:En; [|inv_pair H; exact Hav].
    destruct (m_phrase p a ts lo hi) as [v p1] eqn:E. inv_pair H.
    destruct (m_phrase_pure good_posts _ _ _ _ _ _ _ HI (nth_error_In _ _ En) E) as ((_ & A & _) & _).
    eapply all_avoid_same; eassumption.
  - destruct (nth_error (arrays p) ai) as [a|] eqn:En; [|inv_pair H; exact Hav].
    destruct (m_positions p a t) as [v p1] eqn:E. inv_pair H.
    destruct (m_positions_pure good_posts _ _ _ _ _ HI (nth_error_In _ _ En) E) as ((_ & A & _) & _).
    eapply all_avoid_same; eassumption.
  - destruct (nth_error (arrays p) ai) as [a|] eqn:En; [|inv_pair H; exact Hav].
    destruct (m_docfreq p a t) as [v p1] eqn:E. inv_pair H.
    destruct (m_docfreq_pure good_posts _ _ _ _ _ HI (nth_error_In _ _ En) E) as ((_ & A & _) & _).
    eapply all_avoid_same; eassumption.
  - destruct (nth_error (arrays p) ai) as [a|] eqn:En; inv_pair H; exact Hav.
  - destruct (nth_error (arrays p) ai) as [a|] eqn:En; [|inv_pair H; exact Hav].
    destruct (m_score p a ts idf k1 b) as [v p1] eqn:E. inv_pair H.
    destruct (m_score_pure good_posts _ _ _ _ _ _ _ _ HI (nth_error_In _ _ En) E) as ((_ & A & _) & _).
    eapply all_avoid_same; eassumption.
  - destruct (m_select p ai pos) as [v p1] eqn:E. inv_pair H. rewrite m_select_eq in E.
    destruct (nth_error (arrays p) ai) as [a|] eqn:En; [|inv_pair E; exact Hav].
    cbv zeta in E. inv_pair E. intros x Hx. cbn [arrays put_ps] in Hx.
    apply in_app_or in Hx. destruct Hx as [Hx|[<-|[]]]; [apply Hav; exact Hx|reflexivity].
  - destruct (m_copy p ai) as [v p1] eqn:E. inv_pair H. unfold m_copy in E.
    destruct (nth_error (arrays p) ai) as [a|] eqn:En; inv_pair E; [|exact Hav].
    intros x Hx. cbn [arrays] in Hx. apply in_app_or in Hx. destruct Hx as [Hx|[<-|[]]]; [apply Hav; exact Hx|].
    apply Hav. eapply nth_error_In; exact En.
  - destruct (m_warm p ai) as [v p1] eqn:E. inv_pair H.
    destruct (m_warm_pure good_posts _ _ _ _ HI E) as (_ & A & _). eapply all_avoid_same; eassumption.
Qed.

Lemma run_avoid good_posts ops : forall p outs p', Inv good_posts p -> run p ops = (outs, p') -> all_avoid p -> all_avoid p'.
Proof.
  induction ops as [|o rest IH]; intros p outs p' HI H Hav.
  - inv_pair H. exact Hav.
  - rewrite run_cons in H. inv_pair H. destruct (step p o) as [r1 p1] eqn:Es. cbn [fst snd].
    destruct (step_inv good_posts _ _ _ _ HI Es) as (I1 & _).
    destruct (run p1 rest) as [outs1 p2] eqn:Er. cbn [snd]. eapply IH; [exact I1|exact Er|].
    exact (step_avoid good_posts p o r1 p1 HI Es Hav).
Qed.

Lemma init_avoid ix cg : all_avoid (init_pool ix cg).
Proof. intros a [<-|[]]. reflexivity. Qed.

Section DynIndexed.
Variable docs : list (list N).
Local Notation GP := (good_posts_of docs).
Local Notation RW := (rows_in docs).

Lemma rows_gather : docs <> [] -> forall rows pos, RW rows -> RW (gather 0 rows pos).
Proof. intros Hne rows pos H. apply gather_rows_in_nonempty; assumption. Qed.

Lemma any_mixed_all : forall ts rows, any_mixed ts rows.
Proof. intros; exact I. Qed.

(* what reachability gives *)
Lemma dyn_setup bs ix cg ops outs p0 : wf_docs docs -> docs <> [] -> index false bs docs = AOk ix ->
  run (init_pool ix cg) ops = (outs, p0) -> InvR GP RW p0 /\ all_avoid p0.
Proof.
  intros Hwf Hne E Hrun.
  destruct (indexed_reach2 docs bs ix cg ops outs p0 Hwf E (all_ops_in_domain_nonempty docs ops Hne) Hrun) as (HI & _).
  split; [exact HI|].
  eapply run_avoid; [exact (proj1 (indexed_init_inv docs bs ix cg Hwf E))|exact Hrun|apply init_avoid].
Qed.

Section Programs.
Context {T : Type}.

(* ================= C20 ================= *)
(* in EVERY interleaving (any schedule, finished or not) of ANY dynamic query programs, a finished thread holds the
   history-free evaluation of its program on the pool the threads were started on *)
Theorem indexed_qprog_every_interleaving bs ix cg ops outs p0 (qps : list (qprog T)) sched p' ths' :
  wf_docs docs -> docs <> [] -> index false bs docs = AOk ix ->
  run (init_pool ix cg) ops = (outs, p0) ->
  drun_sched p0 (map (qspawn p0) qps) sched = (p', ths') ->
  forall i qp th r, nth_error qps i = Some qp -> nth_error ths' i = Some th -> dresult th = Some r ->
    r = qprog_hf p0 qp.
Proof.
  intros Hwf Hne E Hrun Hs.
  destruct (dyn_setup bs ix cg ops outs p0 Hwf Hne E Hrun) as (HI & _).
  exact (proj2 (qprog_sched_results GP RW any_mixed (rows_gather Hne) any_mixed_all (slice_idem_on_indexed docs)
                  (phrase_mixed_local_on_indexed2 docs) p0 qps sched p' ths' HI Hs)).
Qed.

(* a schedule that lets every thread finish gives exactly the results of the serial schedule, which are the
   history-free evaluations; the serial schedule always lets every thread finish (dserial_all_done) *)
Theorem indexed_qprog_schedule_eq_serial bs ix cg ops outs p0 (qps : list (qprog T)) s :
  wf_docs docs -> docs <> [] -> index false bs docs = AOk ix ->
  run (init_pool ix cg) ops = (outs, p0) ->
  dall_done (snd (drun_sched p0 (map (qspawn p0) qps) s)) ->
  dresults (snd (drun_sched p0 (map (qspawn p0) qps) s))
  = dresults (snd (drun_sched p0 (map (qspawn p0) qps) (dserial_schedule p0 (map (qspawn p0) qps)))) /\
  dresults (snd (drun_sched p0 (map (qspawn p0) qps) s)) = map (fun qp => Some (qprog_hf p0 qp)) qps.
Proof.
  intros Hwf Hne E Hrun Hd.
  destruct (dyn_setup bs ix cg ops outs p0 Hwf Hne E Hrun) as (HI & _). split.
  - exact (qprog_schedule_eq_serial GP RW any_mixed (rows_gather Hne) any_mixed_all (slice_idem_on_indexed docs)
             (phrase_mixed_local_on_indexed2 docs) p0 qps s HI Hd).
  - exact (qprog_all_done_results GP RW any_mixed (rows_gather Hne) any_mixed_all (slice_idem_on_indexed docs)
             (phrase_mixed_local_on_indexed2 docs) p0 qps s HI Hd).
Qed.

(* both, as one statement *)
Theorem indexed_C20_dynamic bs ix cg ops outs p0 (qps : list (qprog T)) :
  wf_docs docs -> docs <> [] -> index false bs docs = AOk ix ->
  run (init_pool ix cg) ops = (outs, p0) ->
  (forall sched p' ths', drun_sched p0 (map (qspawn p0) qps) sched = (p', ths') ->
     forall i qp th r, nth_error qps i = Some qp -> nth_error ths' i = Some th -> dresult th = Some r ->
       r = qprog_hf p0 qp) /\
  (forall s, dall_done (snd (drun_sched p0 (map (qspawn p0) qps) s)) ->
     dresults (snd (drun_sched p0 (map (qspawn p0) qps) s))
     = dresults (snd (drun_sched p0 (map (qspawn p0) qps) (dserial_schedule p0 (map (qspawn p0) qps)))) /\
     dresults (snd (drun_sched p0 (map (qspawn p0) qps) s)) = map (fun qp => Some (qprog_hf p0 qp)) qps).
Proof.
  intros Hwf Hne E Hrun. split.
  - intros sched p' ths' Hs. exact (indexed_qprog_every_interleaving bs ix cg ops outs p0 qps sched p' ths' Hwf Hne E Hrun Hs).
  - intros s Hd. exact (indexed_qprog_schedule_eq_serial bs ix cg ops outs p0 qps s Hwf Hne E Hrun Hd).
Qed.

(* ================= C07 ================= *)
(* after a pool p1 that still satisfies the invariant and only extends p0: every later operation history *)
Lemma later_ops_history_free p0 p1 : docs <> [] -> InvR GP RW p0 -> InvR GP RW p1 ->
  (exists extra, arrays p1 = arrays p0 ++ extra) ->
  forall ops2 outs2 p2, run p1 ops2 = (outs2, p2) ->
    (forall k q r, nth_error ops2 k = Some q -> nth_error outs2 k = Some r ->
       forall r0, pure_answer (snd (run p1 (firstn k ops2))) q = Some r0 -> r = r0) /\
    (forall q, pure_answer p0 q <> None -> fst (step p2 q) = fst (step p0 q)).
Proof.
  intros Hne H0 H1 X01 ops2 outs2 p2 Hrun.
  assert (Hd : ops_dom RW any_phrase (shape_of p1) ops2).
  { apply sels_okb_dom. apply sels_okb_nonempty; [exact Hne|exact (proj2 H1)]. }
  destruct (run_pure_gen GP RW any_phrase (slice_idem_on_indexed docs) (phrase_local_on_indexed2 docs)
              ops2 p1 outs2 p2 H1 Hd Hrun) as (H2 & A).
  split; [exact A|].
  intros q Hq. destruct (pure_answer p0 q) as [r0|] eqn:Eq; [|contradiction].
  destruct (run_inv_gen GP RW any_phrase ops2 p1 outs2 p2 H1 Hd Hrun) as (_ & X12 & _).
  assert (Hdq : forall p, shape_ok RW (shape_of p) -> op_dom RW any_phrase (shape_of p) q).
  { intros p Hs. apply sel_okb_dom. apply sel_okb_nonempty; assumption. }
  destruct (step p0 q) as [ra pa] eqn:Ea. destruct (step p2 q) as [rb pb] eqn:Eb. cbn [fst].
  destruct (step_pure_gen GP RW any_phrase (slice_idem_on_indexed docs) (phrase_local_on_indexed2 docs)
              _ _ _ _ H0 (Hdq p0 (proj2 H0)) Ea) as (_ & Aa & _).
  destruct (step_pure_gen GP RW any_phrase (slice_idem_on_indexed docs) (phrase_local_on_indexed2 docs)
              _ _ _ _ H2 (Hdq p2 (proj2 H2)) Eb) as (_ & Ab & _).
  rewrite (Aa r0 Eq). apply Ab. eapply pure_answer_mono; [exact X12|]. eapply pure_answer_mono; [exact X01|exact Eq].
Qed.

(* ONE thread running a dynamic query program, alone, on any reachable pool: it returns the history-free evaluation,
   and after it every operation history is still answered history-free; in particular every query that had an
   answer before the program ran returns exactly that answer afterwards *)
Theorem indexed_qprog_single_thread bs ix cg ops outs p0 (qp : qprog T) o p1 env n :
  wf_docs docs -> docs <> [] -> index false bs docs = AOk ix ->
  run (init_pool ix cg) ops = (outs, p0) ->
  drun_thread p0 [] (compile p0 [] qp) = (o, p1, env, n) ->
  o = qprog_hf p0 qp /\
  forall ops2 outs2 p2, run p1 ops2 = (outs2, p2) ->
    (forall k q r, nth_error ops2 k = Some q -> nth_error outs2 k = Some r ->
       forall r0, pure_answer (snd (run p1 (firstn k ops2))) q = Some r0 -> r = r0) /\
    (forall q, pure_answer p0 q <> None -> fst (step p2 q) = fst (step p0 q)).
Proof.
  intros Hwf Hne E Hrun Ht.
  destruct (dyn_setup bs ix cg ops outs p0 Hwf Hne E Hrun) as (HI & _).
  destruct (qprog_single_thread GP RW any_mixed (rows_gather Hne) any_mixed_all (slice_idem_on_indexed docs)
              (phrase_mixed_local_on_indexed2 docs) p0 qp o p1 env n HI Ht) as (Ho & H1 & X & _).
  split; [exact Ho|]. apply later_ops_history_free; assumption.
Qed.
End Programs.

(* ================= edismax ================= *)
Record ethread := {
  et_idf : idf_table; et_n : nat; et_fields : list qfield; et_mm : mmspec; et_tie : Q;
  et_pf : list phase_spec; et_pf2 : list phase_spec; et_pf3 : list phase_spec }.
Definition et_prog (e : ethread) : qprog (api (list Q)) :=
  q_edismax (et_idf e) (et_n e) (et_fields e) 0 (et_mm e) (et_tie e) (et_pf e) (et_pf2 e) (et_pf3 e).
(* the history-free reference: Solr/Edismax.v's edismax on the descriptors of the field arrays *)
Definition et_answer (e : ethread) : api (list Q) :=
  edismax (et_idf e) (et_n e) (equery_of (et_fields e) (et_mm e) (et_tie e) (et_pf e) (et_pf2 e) (et_pf3 e)).

Lemma fields_avoid p0 fields : all_avoid p0 -> fields_at p0 fields ->
  Forall (fun f => a_avoid_copies (ef_arr (qf_ef f)) = true) fields.
Proof.
  intros Hav Hf. eapply Forall_impl; [|exact Hf]. cbv beta. intros f H.
  destruct (nth_error (arrays p0) (qf_ai f)) as [a|] eqn:En; [|discriminate H]. cbn [option_map] in H. inv_pair H.
  apply Hav. eapply nth_error_In; exact En.
Qed.

Lemma et_prog_hf p0 e : all_avoid p0 -> fields_at p0 (et_fields e) -> qprog_hf p0 (et_prog e) = et_answer e.
Proof. intros Hav Hf. apply q_edismax_hf; [exact Hf|eapply fields_avoid; eassumption]. Qed.

Lemma et_progs_hf p0 : all_avoid p0 -> forall es, Forall (fun e => fields_at p0 (et_fields e)) es ->
  map (fun qp => Some (qprog_hf p0 qp)) (map et_prog es) = map (fun e => Some (et_answer e)) es.
Proof.
  intros Hav es H. rewrite map_map. apply map_ext_in. intros e He. rewrite Forall_forall in H.
  rewrite (et_prog_hf p0 e Hav (H e He)). reflexivity.
Qed.

(* any number of threads running edismax (any fields, boosts, mm, tie, pf / pf2 / pf3), any schedule *)
Theorem indexed_edismax_threads bs ix cg ops outs p0 (es : list ethread) :
  wf_docs docs -> docs <> [] -> index false bs docs = AOk ix ->
  run (init_pool ix cg) ops = (outs, p0) ->
  Forall (fun e => fields_at p0 (et_fields e)) es ->
  (forall sched p' ths', drun_sched p0 (map (qspawn p0) (map et_prog es)) sched = (p', ths') ->
     forall i e th r, nth_error es i = Some e -> nth_error ths' i = Some th -> dresult th = Some r ->
       r = et_answer e) /\
  (forall s, dall_done (snd (drun_sched p0 (map (qspawn p0) (map et_prog es)) s)) ->
     dresults (snd (drun_sched p0 (map (qspawn p0) (map et_prog es)) s))
     = dresults (snd (drun_sched p0 (map (qspawn p0) (map et_prog es))
                        (dserial_schedule p0 (map (qspawn p0) (map et_prog es))))) /\
     dresults (snd (drun_sched p0 (map (qspawn p0) (map et_prog es)) s)) = map (fun e => Some (et_answer e)) es).
Proof.
  intros Hwf Hne E Hrun Hf.
  destruct (dyn_setup bs ix cg ops outs p0 Hwf Hne E Hrun) as (_ & Hav). split.
  - intros sched p' ths' Hs i e th r He Hth Hr.
    rewrite (indexed_qprog_every_interleaving bs ix cg ops outs p0 (map et_prog es) sched p' ths' Hwf Hne E Hrun Hs
               i (et_prog e) th r); try assumption.
    + apply et_prog_hf; [exact Hav|]. rewrite Forall_forall in Hf. apply Hf. eapply nth_error_In; exact He.
    + rewrite nth_error_map, He. reflexivity.
  - intros s Hd.
    destruct (indexed_qprog_schedule_eq_serial bs ix cg ops outs p0 (map et_prog es) s Hwf Hne E Hrun Hd) as (A & B).
    split; [exact A|]. rewrite B. apply et_progs_hf; assumption.
Qed.

(* C07: one thread running edismax alone returns Solr.Edismax.edismax on the immutable descriptors, whatever the
   history of the pool; and running edismax changes no later answer *)
Theorem indexed_edismax_single_thread bs ix cg ops outs p0 (e : ethread) o p1 env n :
  wf_docs docs -> docs <> [] -> index false bs docs = AOk ix ->
  run (init_pool ix cg) ops = (outs, p0) -> fields_at p0 (et_fields e) ->
  drun_thread p0 [] (compile p0 [] (et_prog e)) = (o, p1, env, n) ->
  o = et_answer e /\
  forall ops2 outs2 p2, run p1 ops2 = (outs2, p2) ->
    (forall k q r, nth_error ops2 k = Some q -> nth_error outs2 k = Some r ->
       forall r0, pure_answer (snd (run p1 (firstn k ops2))) q = Some r0 -> r = r0) /\
    (forall q, pure_answer p0 q <> None -> fst (step p2 q) = fst (step p0 q)).
Proof.
  intros Hwf Hne E Hrun Hf Ht.
  destruct (dyn_setup bs ix cg ops outs p0 Hwf Hne E Hrun) as (_ & Hav).
  destruct (indexed_qprog_single_thread bs ix cg ops outs p0 (et_prog e) o p1 env n Hwf Hne E Hrun Ht) as (Ho & L).
  split; [|exact L]. rewrite Ho. apply et_prog_hf; assumption.
Qed.
End DynIndexed.

Print Assumptions indexed_qprog_every_interleaving.
Print Assumptions indexed_qprog_schedule_eq_serial.
Print Assumptions indexed_C20_dynamic.
Print Assumptions indexed_qprog_single_thread.
Print Assumptions indexed_edismax_threads.
Print Assumptions indexed_edismax_single_thread.
