(* C20, generalised: the schedule-independence theorems of Conc/Conc_Proofs.v with the two premises on the
   immutable postings RESTRICTED TO A DOMAIN (as View/Purity_Gen.v does for C07).
     R  : list N -> Prop              admissible row vectors
     Qm : list N -> list N -> Prop    admissible (phrase, rows of the view queried)
     slice_idem_on good_posts R       (View/Purity_Gen.v)
     phrase_mixed_local_on            = phrase_mixed_local_hyp for rows in R and (ts, rows) in Qm only
   Queries are built against the arrays of the initial pool p0 only ([prog_of p0]), so what is needed is
     - the row vector of every array of p0 is in R        ([shape_ok R (shape_of p0)], part of [InvR]);
     - a phrase query with >= 2 terms on a VIEW of p0 is in Qm   ([q_dom]);
   selections by concurrent threads are unrestricted (the views they create are not queried by [prog_of p0]).
   Steps 1, 2 and the schedule lemmas of Conc_Proofs.v do not use the premises and are reused as they are. *)
From Coq Require Import ZArith.
From SA Require Import Base.Prelude Kernels.Spec Kernels.Linear Codec.Codec Index.Index Query.Phrase Query.Range
  Score.BM25 View.View View.Purity View.Purity_Proofs View.Purity_Gen Conc.Conc Conc.Conc_Proofs.
Open Scope N_scope.

Section Gen.
Variable good_posts : posts -> N -> Prop.
Variable R : list N -> Prop.
Variable Qm : list N -> list N -> Prop.
Local Notation INV := (Inv good_posts).

Definition phrase_mixed_local_on : Prop :=
  forall base maxd ts rows encs, good_posts base maxd -> (2 <= length ts)%nat -> R rows -> Qm ts rows ->
    Forall2 (fun t e => e = lookup_posts t base \/ e = get_enc (HFiltered base (np_unique rows)) t) ts encs ->
    (ado enc <- all_ok encs;
     ado pf <- compute_phrase_freqs enc;
     ado dense <- lift (store_many (repeat 0 (N.to_nat (maxd + 1))) pf);
     AOk (gather 0 dense rows))
    = (ado enc <- get_all_enc (HFiltered base (np_unique rows)) ts None None;
       ado pf <- compute_phrase_freqs enc;
       ado dense <- lift (store_many (repeat 0 (N.to_nat (maxd + 1))) pf);
       AOk (gather 0 dense rows)).

(* the queries that instantiate the premises inside the domain only *)
Definition q_dom (sh : shape) (q : query) : Prop :=
  match q with
  | QPhrase ai ts => forall rows, nth_error sh ai = Some (true, rows) -> (2 <= length ts)%nat -> Qm ts rows
  | _ => True
  end.

(* ================= 3. finishing from good values ================= *)
Lemma prog_tf_finish_gen p0 a t lo hi vs : slice_idem_on good_posts R -> INV p0 -> In a (arrays p0) ->
  R (a_rows (pa_arr a)) ->
  Forall2 (good_val p0) (pg_actions (prog_tf p0 a t lo hi)) vs ->
  pg_finish (prog_tf p0 a t lo hi) vs = RVec (v_termfreqs (pa_arr a) t lo hi).
Proof.
  intros Hidem HI Ha HR H.
  destruct (array_facts _ _ _ HI Ha) as ((Hpid & Hh & Hm & Hsub & Hids & Hr & Hdf) & Hgood).
  unfold prog_tf, v_termfreqs in *.
  destruct (negb (known_a (pa_arr a) t)); [reflexivity|].
  destruct (a_subset (pa_arr a)) eqn:Es.
  - cbn [pg_actions pg_finish] in *. destruct (Forall2_one _ _ _ H) as (v & -> & Hv).
    cbn [nth good_val] in *. rewrite Hh.
    destruct (ps_ids (get_ps p0 (pa_pid a))) as [ids|] eqn:Hi; [|discriminate Hsub].
    destruct Hv as [-> | ->]; cbn [enc_of]; [|reflexivity].
    unfold handle_of. rewrite Hi. rewrite (Hids ids eq_refl). cbn [get_enc].
    destruct (lookup_posts t (ps_base (get_ps p0 (pa_pid a)))) as [w| | |] eqn:El; cbn [abind]; try reflexivity.
    destruct (slice_keys w (np_unique (a_rows (pa_arr a)))) as [sl| |] eqn:Esl; cbn [lift abind]; try reflexivity.
    rewrite (Hidem _ _ _ _ _ _ Hgood HR El Esl). reflexivity.
  - assert (Hnone : ps_ids (get_ps p0 (pa_pid a)) = None).
    { destruct (ps_ids (get_ps p0 (pa_pid a))); [discriminate Hsub|reflexivity]. }
    assert (Hbase : handle_of (get_ps p0 (pa_pid a)) = HBase (ps_base (get_ps p0 (pa_pid a)))).
    { unfold handle_of. rewrite Hnone. reflexivity. }
    rewrite Hh, Hbase.
    destruct lo as [lo|]; [|destruct hi as [hi|]]; cbn [pg_actions pg_finish] in *;
      destruct (Forall2_one _ _ _ H) as (v & -> & Hv); cbn [nth good_val] in *.
    + rewrite Hbase in Hv. cbn [get_enc] in Hv. destruct Hv as [-> | ->]; reflexivity.
    + rewrite Hbase in Hv. cbn [get_enc] in Hv. destruct Hv as [-> | ->]; reflexivity.
    + subst v. unfold tf_answer. cbn [get_enc].
      destruct (lookup_posts t (ps_base (get_ps p0 (pa_pid a)))); reflexivity.
Qed.

Lemma prog_phrase_finish_gen p0 a ts vs : phrase_mixed_local_on -> INV p0 -> In a (arrays p0) ->
  R (a_rows (pa_arr a)) ->
  (a_subset (pa_arr a) = true -> (2 <= length ts)%nat -> Qm ts (a_rows (pa_arr a))) ->
  Forall2 (good_val p0) (pg_actions (prog_phrase p0 a ts)) vs ->
  pg_finish (prog_phrase p0 a ts) vs = RVec (v_phrase_freqs (pa_arr a) ts None None).
Proof.
  intros Hmix HI Ha HR HQ H.
  destruct (array_facts _ _ _ HI Ha) as ((Hpid & Hh & Hm & Hsub & Hids & Hr & Hdf) & Hgood).
  unfold prog_phrase, v_phrase_freqs in *.
  destruct (negb (forallb (known_a (pa_arr a)) ts)); [reflexivity|].
  destruct (Nat.ltb (length ts) 2) eqn:Elen; [reflexivity|].
  cbn [pg_actions pg_finish] in *. apply good_reads in H. rewrite Hh. f_equal.
  destruct (ps_ids (get_ps p0 (pa_pid a))) as [ids|] eqn:Hi.
  - apply Nat.ltb_ge in Elen. specialize (HQ Hsub Elen). rewrite Hsub. rewrite Hm.
    assert (Hhf : handle_of (get_ps p0 (pa_pid a)) =
                  HFiltered (ps_base (get_ps p0 (pa_pid a))) (np_unique (a_rows (pa_arr a)))).
    { unfold handle_of. rewrite Hi, (Hids ids eq_refl). reflexivity. }
    rewrite Hhf in *. apply Hmix; assumption.
  - rewrite Hsub.
    assert (Hbase : handle_of (get_ps p0 (pa_pid a)) = HBase (ps_base (get_ps p0 (pa_pid a)))).
    { unfold handle_of. rewrite Hi. reflexivity. }
    rewrite Hbase in *. cbn [get_enc] in H.
    assert (E : map enc_of vs = map (get_enc (HBase (ps_base (get_ps p0 (pa_pid a))))) ts).
    { apply Forall2_eq_map. eapply Forall2_mono; [|exact H]. cbv beta. intros t e [-> | ->]; reflexivity. }
    rewrite E, all_ok_get_all. reflexivity.
Qed.

Lemma prog_score_finish_gen p0 ai a t idf k1 b vs : slice_idem_on good_posts R -> INV p0 ->
  nth_error (arrays p0) ai = Some a -> R (a_rows (pa_arr a)) ->
  Forall2 (good_val p0) (pg_actions (prog_score p0 ai a t idf k1 b)) vs ->
  pg_finish (prog_score p0 ai a t idf k1 b) vs = RBits (v_score_bm25 (pa_arr a) [t] idf k1 b).
Proof.
  intros Hidem HI En HR H. unfold prog_score in *. cbn [pg_actions pg_finish] in *.
  inversion H as [|x v l rest Hv Hrest]; subst. cbn [good_val] in Hv. rewrite En in Hv. subst v.
  rewrite (prog_tf_finish_gen _ _ _ _ _ _ Hidem HI (nth_error_In _ _ En) HR Hrest).
  unfold v_score_bm25, v_score_args, v_tf_vector, v_doclengths. cbn [v_all_dfs].
  destruct (v_docfreq (pa_arr a) t); cbn [abind]; try reflexivity.
  destruct (v_termfreqs (pa_arr a) t None None); reflexivity.
Qed.

Lemma prog_of_finish_gen p0 q pg vs : slice_idem_on good_posts R -> phrase_mixed_local_on ->
  InvR good_posts R p0 -> q_dom (shape_of p0) q ->
  prog_of p0 q = Some pg -> Forall2 (good_val p0) (pg_actions pg) vs ->
  Some (pg_finish pg vs) = answer_of p0 q.
Proof.
  intros Hidem Hmix (HI & Hsh) Hd H Hg. destruct q as [ai t lo hi|ai ts|ai t|ai t idf k1 b|ai pos]; cbn [prog_of] in H;
    (destruct (nth_error (arrays p0) ai) as [a|] eqn:En; [|discriminate H]); cbn [option_map] in H; inv_pair H;
    unfold answer_of, op_of, pure_answer; try rewrite En; cbn [option_map];
    pose proof (nth_error_In _ _ En) as Ha; pose proof (shape_ok_in R _ _ Hsh Ha) as HR.
  - rewrite (prog_tf_finish_gen _ _ _ _ _ _ Hidem HI Ha HR Hg). reflexivity.
  - rewrite (prog_phrase_finish_gen _ _ _ _ Hmix HI Ha HR); [reflexivity| |exact Hg].
    intros Es Hl. cbn [q_dom] in Hd. apply Hd; [|exact Hl]. rewrite (shape_of_nth _ _ _ En), Es. reflexivity.
  - cbn [prog_df pg_actions pg_finish] in *. destruct (Forall2_one _ _ _ Hg) as (v & -> & Hv).
    cbn [good_val] in Hv. rewrite En in Hv. subst v. reflexivity.
  - rewrite (prog_score_finish_gen _ _ _ _ _ _ _ _ Hidem HI En HR Hg). reflexivity.
  - reflexivity.
Qed.

(* ================= 4. main theorems ================= *)
Section Answers.
Hypothesis slice_idem : slice_idem_on good_posts R.
Hypothesis phrase_mixed : phrase_mixed_local_on.

(* in EVERY interleaving, a finished thread holds the history-free answer on the initial pool *)
Theorem sched_results_answer_gen : forall p0 queries pgs sched p' ths',
  InvR good_posts R p0 -> Forall (q_dom (shape_of p0)) queries -> progs_of p0 queries = Some pgs ->
  run_sched p0 (map spawn pgs) sched = (p', ths') ->
  forall i q th r, nth_error queries i = Some q -> nth_error ths' i = Some th -> th_result th = Some r ->
    Some r = answer_of p0 q.
Proof.
  intros p0 queries pgs sched p' ths' HI Hdom Hpg Hrun i q th r Hq Hth Hr.
  pose proof (run_sched_ok _ _ _ _ _ _ _ _ (initial_sys_ok _ _ _ _ (proj1 HI) Hpg) Hrun) as (_ & _ & _ & Hths).
  destruct (Forall2_nth_r _ _ _ Hths _ _ Hth) as (pg & Epg & Hok).
  destruct (Forall2_nth_l _ _ _ (progs_of_Forall2 _ _ _ Hpg) _ _ Hq) as (pg' & Epg' & Hprog).
  rewrite Epg in Epg'. inv_pair Epg'.
  destruct (thread_ok_result _ _ _ _ Hok Hr) as (vs & Hvs & ->).
  rewrite Forall_forall in Hdom. eapply prog_of_finish_gen; try eassumption.
  apply Hdom. eapply nth_error_In; exact Hq.
Qed.

Theorem sched_results_pure_gen : forall p0 queries pgs sched p' ths',
  InvR good_posts R p0 -> Forall (q_dom (shape_of p0)) queries -> progs_of p0 queries = Some pgs ->
  run_sched p0 (map spawn pgs) sched = (p', ths') ->
  forall i q th r, nth_error queries i = Some q -> nth_error ths' i = Some th -> th_result th = Some r ->
    is_select q = false -> Some r = pure_answer p0 (op_of q).
Proof.
  intros p0 queries pgs sched p' ths' HI Hdom Hpg Hrun i q th r Hq Hth Hr Hsel.
  rewrite (sched_results_answer_gen _ _ _ _ _ _ HI Hdom Hpg Hrun _ _ _ _ Hq Hth Hr).
  destruct q; try reflexivity. discriminate Hsel.
Qed.

(* when every thread has finished, the list of results is the list of reference answers *)
Lemma results_all_done_gen p0 : forall qs pgs, Forall2 (fun q pg => prog_of p0 q = Some pg) qs pgs ->
  InvR good_posts R p0 -> Forall (q_dom (shape_of p0)) qs ->
  forall ths, Forall2 (thread_ok p0) pgs ths -> all_done ths -> results ths = map (answer_of p0) qs.
Proof.
  induction 1 as [|q pg qs pgs Hq Hrest IH]; intros HI Hdom ths Hths Hdone;
    inversion Hths as [|x th l ths0 Hok Hoks]; subst; [reflexivity|].
  inversion Hdone as [|y l Hd Hds]; subst. inversion Hdom as [|z l Hdq Hdqs]; subst.
  unfold results in *. cbn [map]. f_equal; [|apply IH; assumption].
  assert (Hres : th_result th = Some (th_fin th (rev (th_got th)))) by (unfold th_result; rewrite Hd; reflexivity).
  destruct (thread_ok_result _ _ _ _ Hok Hres) as (vs & Hvs & E). rewrite Hres, E.
  eapply prog_of_finish_gen; eassumption.
Qed.

Theorem all_done_results_gen p0 queries pgs sched : InvR good_posts R p0 ->
  Forall (q_dom (shape_of p0)) queries -> progs_of p0 queries = Some pgs ->
  all_done (snd (run_sched p0 (map spawn pgs) sched)) ->
  results (snd (run_sched p0 (map spawn pgs) sched)) = map (answer_of p0) queries.
Proof.
  intros HI Hdom Hpg Hdone. destruct (run_sched p0 (map spawn pgs) sched) as [p' ths'] eqn:Hrun. cbn [snd] in *.
  pose proof (run_sched_ok _ _ _ _ _ _ _ _ (initial_sys_ok _ _ _ _ (proj1 HI) Hpg) Hrun) as (_ & _ & _ & Hths).
  eapply results_all_done_gen; try eassumption. apply progs_of_Forall2. exact Hpg.
Qed.

(* C20: any two schedules under which every thread finishes give the same results *)
Theorem C20_serial_equivalence_gen p0 queries pgs s1 s2 : InvR good_posts R p0 ->
  Forall (q_dom (shape_of p0)) queries -> progs_of p0 queries = Some pgs ->
  all_done (snd (run_sched p0 (map spawn pgs) s1)) -> all_done (snd (run_sched p0 (map spawn pgs) s2)) ->
  results (snd (run_sched p0 (map spawn pgs) s1)) = results (snd (run_sched p0 (map spawn pgs) s2)).
Proof.
  intros HI Hdom Hpg H1 H2.
  rewrite (all_done_results_gen _ _ _ _ HI Hdom Hpg H1), (all_done_results_gen _ _ _ _ HI Hdom Hpg H2). reflexivity.
Qed.

(* ... in particular the serial schedule (which always lets every thread finish: [serial_all_done]) *)
Corollary C20_any_schedule_eq_serial_gen p0 queries pgs s : InvR good_posts R p0 ->
  Forall (q_dom (shape_of p0)) queries -> progs_of p0 queries = Some pgs ->
  all_done (snd (run_sched p0 (map spawn pgs) s)) ->
  results (snd (run_sched p0 (map spawn pgs) s))
  = results (snd (run_sched p0 (map spawn pgs) (serial_schedule (map spawn pgs)))).
Proof.
  intros HI Hdom Hpg H. apply (C20_serial_equivalence_gen _ queries); try assumption. apply serial_all_done.
Qed.
End Answers.
End Gen.

(* ================= sanity: with the full domain the old statements come back ================= *)
Section Full.
Variable good_posts : posts -> N -> Prop.
Let RT : list N -> Prop := fun _ => True.
Let QT : list N -> list N -> Prop := fun _ _ => True.

Lemma phrase_mixed_on_full : phrase_mixed_local_hyp good_posts -> phrase_mixed_local_on good_posts RT QT.
Proof. intros H base maxd ts rows encs Hg Hl _ _. exact (H base maxd ts rows encs Hg Hl). Qed.

Corollary C20_any_schedule_eq_serial_from_gen :
  slice_idem_hyp good_posts -> phrase_mixed_local_hyp good_posts ->
  forall p0 queries pgs s, Inv good_posts p0 -> progs_of p0 queries = Some pgs ->
  all_done (snd (run_sched p0 (map spawn pgs) s)) ->
  results (snd (run_sched p0 (map spawn pgs) s))
  = results (snd (run_sched p0 (map spawn pgs) (serial_schedule (map spawn pgs)))).
Proof.
  intros H1 H2 p0 queries pgs s HI Hpg Hd.
  apply (C20_any_schedule_eq_serial_gen good_posts RT QT (slice_idem_on_full _ H1) (phrase_mixed_on_full H2)
           p0 queries pgs s (InvR_full _ _ HI)); try assumption.
  apply Forall_forall. intros q _. destruct q; cbn [q_dom]; try exact I. intros; exact I.
Qed.
End Full.

Print Assumptions sched_results_answer_gen.
Print Assumptions sched_results_pure_gen.
Print Assumptions C20_serial_equivalence_gen.
Print Assumptions C20_any_schedule_eq_serial_gen.
Print Assumptions C20_any_schedule_eq_serial_from_gen.
