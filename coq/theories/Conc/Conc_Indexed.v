(* C20 for indexed corpora, PREMISE-FREE on a restricted query domain.
   Conc/Conc_Gen.v is instantiated with  good_posts := good_posts_of docs,  R := rows_in docs,
   Qm := "no immediately repeated term".  [slice_idem_on] is View/Purity_Indexed.slice_idem_on_indexed; the
   mixed-handle locality premise is proved here ([phrase_mixed_local_on_indexed]): when every term of a phrase
   is read either through the un-filtered base or through the view's filter, the bigram chain still reports,
   for every ROW OF THE VIEW, the number of occurrences of the phrase in that document
   ([phrase_pipeline_mixed], the per-term-filter version of View_Phrase.phrase_pipeline).

   Domain ([qry_okb], boolean, static): the initial pool p0 of the concurrent phase is any pool reached from the
   freshly indexed array by an in-domain history (View/Purity_Indexed.ops_in_domain); among the concurrent
   queries only  QPhrase on a VIEW with >= 2 terms  is restricted: no immediately repeated term.
   QTf (any range), QDf, QScore, QPhrase on the root array, and concurrent QSelect are unrestricted. *)
From Coq Require Import Sorted Permutation QArith.
From SA Require Import Base.Prelude Kernels.Spec Kernels.Linear Kernels.Linear_Proofs Codec.Codec Codec.Codec_Spec
  Codec.Codec_Proofs Codec.Codec_Proofs2 Index.Index Index.Index_Spec Index.Index_Proofs Index.Index_Proofs2
  Index.Index_Proofs3 Query.Phrase Query.Phrase_Spec Query.Phrase_Proofs Query.Phrase_Proofs2 Query.Phrase_Proofs3
  Query.Phrase_Final Query.Range Score.BM25 View.View View.View_Spec View.View_Proofs View.View_Phrase
  View.Purity View.Purity_Proofs View.View_Phrase2 View.Purity_Gen View.Purity_Indexed
  Conc.Conc Conc.Conc_Proofs Conc.Conc_Gen.
Open Scope N_scope.

(* ================= 1. the phrase pipeline with one filter PER TERM ================= *)
Lemma Forall2_in_r {A B} (R : A -> B -> Prop) l1 l2 : Forall2 R l1 l2 ->
  forall y, In y l2 -> exists x, In x l1 /\ R x y.
Proof.
  intros HF y Hy. apply In_nth_error in Hy. destruct Hy as (i & Hi).
  destruct (Forall2_nth_r _ _ _ HF _ _ Hi) as (x & Hx & HR). exists x. split; [eapply nth_error_In; exact Hx|exact HR].
Qed.

Lemma Forall2_len {A B} (R : A -> B -> Prop) l1 l2 : Forall2 R l1 l2 -> length l1 = length l2.
Proof. induction 1 as [|x y l l' _ _ IH]; [reflexivity|]. cbn [length]. rewrite IH. reflexivity. Qed.

Section Mixed.
Variable docs : list (list N).
Hypothesis Hwf : wf_docs docs.

Lemma adj_distinct_mixed : forall ph pss,
  Forall2 (fun t ps => exists Q, ps = fpairs docs Q t) ph pss -> no_adjacent_repeat ph = true -> adj_distinct pss.
Proof.
  induction ph as [|x t IH]; intros pss HF Hrep; inversion HF as [|? ps ? pss1 Hps HF1]; subst; [exact I|].
  destruct t as [|y t']; inversion HF1 as [|? qs ? pss2 Hqs HF2]; subst; [exact I|].
  change (no_adjacent_repeat (x :: y :: t')) with (negb (x =? y) && no_adjacent_repeat (y :: t')) in Hrep.
  apply andb_true_iff in Hrep. destruct Hrep as [Hxy Hrep].
  change ((forall kp, In kp ps -> In kp qs -> False) /\ adj_distinct (qs :: pss2)).
  split; [|apply IH; assumption].
  destruct Hps as (Q1 & ->). destruct Hqs as (Q2 & ->).
  intros kp H1 H2. apply fpairs_in in H1. apply fpairs_in in H2.
  pose proof (tp_distinct _ _ _ _ _ (proj1 H1) (proj1 H2)) as E. subst y.
  rewrite N.eqb_refl in Hxy. discriminate.
Qed.

(* chain + scatter when term i is restricted by its own filter Q_i, every Q_i containing the rows:
   the entry of every row r <= maxd is the number of occurrences of the phrase in document r *)
Lemma phrase_pipeline_mixed maxd ph pss (rows : list N) :
  (2 <= length ph)%nat -> no_adjacent_repeat ph = true ->
  (forall k, k < N.of_nat (length docs) -> k <= maxd) ->
  Forall2 (fun t ps => exists Q, ps = fpairs docs Q t /\ forall r, In r rows -> Q r = true) ph pss ->
  exists pf dense,
    compute_phrase_freqs (map encode_spec pss) = AOk pf /\
    store_many (repeat 0 (N.to_nat (maxd + 1))) pf = Done dense /\
    forall r, In r rows -> r <= maxd -> nth (N.to_nat r) dense 0 = occ ph (nth (N.to_nat r) docs []).
Proof.
  intros Hlen Hrep Hmax HF.
  assert (HF' : Forall2 (fun t ps => exists Q, ps = fpairs docs Q t) ph pss).
  { eapply Forall2_mono; [|exact HF]. cbv beta. intros t ps (Q & E & _). exists Q. exact E. }
  assert (Hg : Forall good_term pss).
  { clear - HF' Hwf. induction HF' as [|t ps ph pss Hps _ IH]; constructor; [|exact IH].
    destruct Hps as (Q & ->). apply fpairs_good. exact Hwf. }
  assert (Hlen' : (2 <= length pss)%nat) by (rewrite <- (Forall2_len _ _ _ HF); exact Hlen).
  pose proof (adj_distinct_mixed ph pss HF' Hrep) as Hadj.
  destruct (phrase_on_encoded pss Hlen' Hg Hadj) as (res & E & Hs & Hocc).
  assert (Hkeys : Forall (fun iv => fst iv < N.of_nat (N.to_nat (maxd + 1))) res).
  { apply Forall_forall. intros iv Hiv.
    destruct (compute_phrase_freqs_keys (map encode_spec pss) res) with (k := fst iv) as (P & w & HP & Hw & Ek).
    - rewrite map_length. exact Hlen'.
    - apply Forall_map. eapply Forall_impl; [|exact Hg]. intros ps (S1 & B1 & M1 & L1).
      apply encode_spec_canonical; assumption.
    - apply adj_distinct_disj; assumption.
    - exact E.
    - apply in_map. exact Hiv.
    - apply in_map_iff in HP. destruct HP as (ps & <- & Hps).
      destruct (Forall2_in_r _ _ _ HF' ps Hps) as (t & _ & Q & ->).
      destruct (fpairs_wf docs Hwf Q t) as [S B].
      destruct (encode_word_pair _ w S B Hw) as (p & Hin).
      apply fpairs_in in Hin. destruct Hin as [Hin _].
      pose proof (tp_keys t docs 0) as TK. rewrite Forall_forall in TK. specialize (TK _ Hin).
      cbn [fst] in TK. rewrite Ek in *.
      assert (fst iv <= maxd) by (apply Hmax; lia). lia. }
  destruct (store_zeros res (N.to_nat (maxd + 1)) (ss_lt_nodup' _ Hs) Hkeys) as (d' & Es & Ld & Hn).
  exists res, d'. split; [exact E|]. split; [exact Es|].
  intros r Hr Hle. rewrite Hn by lia. rewrite N2Nat.id. apply Hocc.
  clear - HF Hr. induction HF as [|t ps ph pss Hps _ IH]; constructor; [|exact IH].
  destruct Hps as (Q & -> & HQ). apply fpairs_doc. apply HQ. exact Hr.
Qed.

(* reading each term through one of two sources: all reads succeed when every term has postings ... *)
Lemma mixed_all_ok (f1 f2 : N -> api (list N)) Q1 Q2 (P : (N -> bool) -> Prop) :
  (forall t, In t (concat docs) -> f1 t = AOk (encode_spec (fpairs docs Q1 t))) ->
  (forall t, In t (concat docs) -> f2 t = AOk (encode_spec (fpairs docs Q2 t))) ->
  P Q1 -> P Q2 ->
  forall ts encs, (forall t, In t ts -> In t (concat docs)) ->
  Forall2 (fun t e => e = f1 t \/ e = f2 t) ts encs ->
  exists pss, all_ok encs = AOk (map encode_spec pss) /\
              Forall2 (fun t ps => exists Q, ps = fpairs docs Q t /\ P Q) ts pss.
Proof.
  intros H1 H2 P1 P2 ts encs Hall HF. induction HF as [|t e ts encs He _ IH].
  - exists []. split; [reflexivity|constructor].
  - destruct IH as (pss & Eok & HFp); [intros t' Ht'; apply Hall; right; exact Ht'|].
    assert (Ht : In t (concat docs)) by (apply Hall; left; reflexivity).
    destruct He as [-> | ->].
    + exists (fpairs docs Q1 t :: pss). cbn [all_ok map]. rewrite (H1 t Ht). cbn [abind]. rewrite Eok. cbn [abind].
      split; [reflexivity|]. constructor; [|exact HFp]. exists Q1. split; [reflexivity|exact P1].
    + exists (fpairs docs Q2 t :: pss). cbn [all_ok map]. rewrite (H2 t Ht). cbn [abind]. rewrite Eok. cbn [abind].
      split; [reflexivity|]. constructor; [|exact HFp]. exists Q2. split; [reflexivity|exact P2].
Qed.

(* ... and the first term without postings raises KeyError through either source *)
Lemma mixed_all_ok_absent (f1 f2 : N -> api (list N)) :
  (forall t, In t (concat docs) -> exists w, f1 t = AOk w) ->
  (forall t, In t (concat docs) -> exists w, f2 t = AOk w) ->
  (forall t, ~ In t (concat docs) -> f1 t = AExc KeyError) ->
  (forall t, ~ In t (concat docs) -> f2 t = AExc KeyError) ->
  forall ts encs, Forall2 (fun t e => e = f1 t \/ e = f2 t) ts encs ->
  (exists t, In t ts /\ ~ In t (concat docs)) -> all_ok encs = AExc KeyError.
Proof.
  intros Hin1 Hin2 Hout1 Hout2 ts encs HF. induction HF as [|t e ts encs He _ IH]; intros (t0 & H0 & Hn0); [destruct H0|].
  cbn [all_ok]. destruct (in_dec N.eq_dec t (concat docs)) as [Hi|Hn].
  - assert (Ew : exists w, e = AOk w).
    { destruct He as [-> | ->]; [apply Hin1|apply Hin2]; exact Hi. }
    destruct Ew as (w & ->). cbn [abind]. rewrite IH; [reflexivity|].
    exists t0. split; [|exact Hn0]. destruct H0 as [<-|H0]; [contradiction|exact H0].
  - assert (Ee : e = AExc KeyError).
    { destruct He as [-> | ->]; [apply Hout1|apply Hout2]; exact Hn. }
    rewrite Ee. reflexivity.
Qed.
End Mixed.

(* ================= 2. the mixed-handle premise for the postings of an indexed corpus ================= *)
Definition nar_dom (ts rows : list N) : Prop := no_adjacent_repeat ts = true.

Theorem phrase_mixed_local_on_indexed : forall docs,
  phrase_mixed_local_on (good_posts_of docs) (rows_in docs) nar_dom.
Proof.
  intros docs base maxd0 ts rows encs (bs & ix & Hwf & E & -> & ->) Hlen Hrows Hrep HF.
  unfold rows_in in Hrows. unfold nar_dom in Hrep.
  pose proof (index_ok_of docs bs ix Hwf E) as Hok. pose proof Hok as (Hp & Ha & Hterms & _).
  set (maxd := N.of_nat (length docs) - 1).
  set (ids := np_unique rows) in *.
  assert (Hids : Sorted N.lt ids) by apply np_unique_sorted.
  assert (Hidb : Forall (fun r => r < N.of_nat (length docs)) ids) by (apply np_unique_forall; exact Hrows).
  set (Q1 := fun _ : N => true). set (Q2 := fun k => mem_n k ids && Q1 k).
  set (f1 := fun t : N => lookup_posts t (ix_posts ix)).
  set (f2 := fun t : N => get_enc (HFiltered (ix_posts ix) ids) t).
  assert (Henc1 : forall t, In t (concat docs) -> f1 t = AOk (encode_spec (fpairs docs Q1 t))).
  { intros t Ht. unfold f1, lookup_posts. rewrite (root_sel docs ix Hok t Ht). reflexivity. }
  assert (Henc2 : forall t, In t (concat docs) -> f2 t = AOk (encode_spec (fpairs docs Q2 t))).
  { intros t Ht. unfold f2, Q2, Q1. cbn [get_enc]. unfold lookup_posts. rewrite (root_sel docs ix Hok t Ht). cbn [abind].
    rewrite (slice_fpairs docs Hwf (fun _ => true) t ids Hids Hidb). reflexivity. }
  assert (Habs1 : forall t, ~ In t (concat docs) -> f1 t = AExc KeyError).
  { intros t Ht. unfold f1, lookup_posts. rewrite (Ha t Ht). reflexivity. }
  assert (Habs2 : forall t, ~ In t (concat docs) -> f2 t = AExc KeyError).
  { intros t Ht. unfold f2. cbn [get_enc]. unfold lookup_posts. rewrite (Ha t Ht). reflexivity. }
  assert (HF' : Forall2 (fun t e => e = f1 t \/ e = f2 t) ts encs) by exact HF.
  destruct (forallb (known ix) ts) eqn:K.
  - (* every term has postings: both sides are the occurrence counts of the rows *)
    assert (Hall : forall t, In t ts -> In t (concat docs)).
    { intros t Hin. rewrite forallb_forall in K. apply (known_iff docs ix t Hterms). apply K. exact Hin. }
    assert (Hmax : forall k, k < N.of_nat (length docs) -> k <= maxd) by (intros k Hk; unfold maxd; lia).
    set (P := fun Q : N -> bool => forall r, In r rows -> Q r = true).
    assert (P1 : P Q1) by (intros r _; reflexivity).
    assert (P2 : P Q2).
    { intros r Hr. unfold Q2, Q1, ids. rewrite np_unique_mem, (proj2 (mem_n_in r rows) Hr). reflexivity. }
    destruct (mixed_all_ok docs f1 f2 Q1 Q2 P Henc1 Henc2 P1 P2 ts encs Hall HF') as (pss & Eok & HFp).
    rewrite Eok. cbn [abind].
    assert (Henc2' : forall t, In t (concat docs) ->
              get_enc (HFiltered (ix_posts ix) ids) t = AOk (encode_spec (fpairs docs Q2 t))) by exact Henc2.
    rewrite (get_all_enc_sel docs _ Q2 Henc2' ts Hall). cbn [abind].
    destruct (phrase_pipeline_mixed docs Hwf maxd ts pss rows Hlen Hrep Hmax HFp) as (pf1 & d1 & E1 & S1 & G1).
    destruct (phrase_pipeline docs Hwf Q2 maxd ts Hlen Hrep (fun k Hk _ => Hmax k Hk)) as (pf2 & d2 & E2 & S2 & _ & G2).
    rewrite E1, E2. cbn [abind]. rewrite S1, S2. cbn [lift abind]. f_equal.
    unfold gather. apply map_ext_in. intros r Hr.
    rewrite Forall_forall in Hrows. pose proof (Hrows r Hr) as Hlt.
    assert (Hle : r <= maxd) by (apply Hmax; exact Hlt).
    rewrite (G1 r Hr Hle), (G2 r (P2 r Hr) Hle). reflexivity.
  - (* some term has no postings: KeyError on both sides *)
    destruct (forallb_false _ _ K) as (t & Hin & Hk).
    assert (Hnot : ~ In t (concat docs)).
    { intro Hc. rewrite (known_true docs ix t Hterms Hc) in Hk. discriminate. }
    rewrite (mixed_all_ok_absent docs f1 f2) with (ts := ts).
    + rewrite (get_all_enc_absent docs (HFiltered (ix_posts ix) ids)).
      * reflexivity.
      * intros t' Ht'. eexists. exact (Henc2 t' Ht').
      * exact Habs2.
      * exists t. split; assumption.
    + intros t' Ht'. eexists. exact (Henc1 t' Ht').
    + intros t' Ht'. eexists. exact (Henc2 t' Ht').
    + exact Habs1.
    + exact Habs2.
    + exact HF'.
    + exists t. split; assumption.
Qed.

(* ================= 3. the query domain ================= *)
Definition qry_okb (sh : shape) (q : query) : bool :=
  match q with
  | QPhrase ai ts => if view_at sh ai && (2 <=? length ts)%nat then no_adjacent_repeat ts else true
  | _ => true
  end.

(* the concurrent queries are issued on the pool reached by the history ops *)
Definition queries_in_domain_after (docs : list (list N)) (ops : list op) (qs : list query) : Prop :=
  forallb (qry_okb (shape_run (shape0 (length docs)) ops)) qs = true.

Lemma qry_okb_dom sh q : qry_okb sh q = true -> q_dom nar_dom sh q.
Proof.
  intro H. destruct q as [ai t lo hi|ai ts|ai t|ai t idf k1 b|ai pos]; cbn [qry_okb q_dom] in *; try exact I.
  intros rows Hn Hl. unfold view_at in H. rewrite Hn in H.
  destruct (Nat.leb_spec 2 (length ts)) as [_|Hlt]; [|lia]. cbn [andb] in H. exact H.
Qed.

Lemma queries_okb_dom sh qs : forallb (qry_okb sh) qs = true -> Forall (q_dom nar_dom sh) qs.
Proof.
  rewrite forallb_forall, Forall_forall. intros H q Hq. apply qry_okb_dom. apply H. exact Hq.
Qed.

(* on the freshly indexed pool every query is in the domain (the only array is a root array) *)
Lemma qry_okb_shape0 n q : qry_okb (shape0 n) q = true.
Proof.
  destruct q as [ai t lo hi|ai ts|ai t|ai t idf k1 b|ai pos]; cbn [qry_okb]; try reflexivity.
  unfold view_at, shape0. destruct ai as [|[|ai]]; reflexivity.
Qed.

(* ================= 4. premise-free theorems ================= *)
Section Indexed.
Variable docs : list (list N).

Lemma conc_setup bs ix cg ops outs p0 queries :
  wf_docs docs -> index false bs docs = AOk ix ->
  ops_in_domain docs ops -> run (init_pool ix cg) ops = (outs, p0) ->
  queries_in_domain_after docs ops queries ->
  InvR (good_posts_of docs) (rows_in docs) p0 /\ Forall (q_dom nar_dom (shape_of p0)) queries.
Proof.
  intros Hwf E Hd Hrun Hq.
  destruct (indexed_reach docs bs ix cg ops outs p0 Hwf E Hd Hrun) as (HI & Hs & _).
  split; [exact HI|]. rewrite Hs. apply queries_okb_dom. exact Hq.
Qed.

(* in EVERY interleaving, a finished thread holds the history-free answer on the pool the queries were issued on *)
Theorem indexed_sched_results_answer bs ix cg ops outs p0 queries pgs sched p' ths' :
  wf_docs docs -> index false bs docs = AOk ix ->
  ops_in_domain docs ops -> run (init_pool ix cg) ops = (outs, p0) ->
  queries_in_domain_after docs ops queries -> progs_of p0 queries = Some pgs ->
  run_sched p0 (map spawn pgs) sched = (p', ths') ->
  forall i q th r, nth_error queries i = Some q -> nth_error ths' i = Some th -> th_result th = Some r ->
    Some r = answer_of p0 q.
Proof.
  intros Hwf E Hd Hrun Hq Hpg Hs.
  destruct (conc_setup bs ix cg ops outs p0 queries Hwf E Hd Hrun Hq) as (HI & Hdom).
  exact (sched_results_answer_gen _ _ _ (slice_idem_on_indexed docs) (phrase_mixed_local_on_indexed docs)
           p0 queries pgs sched p' ths' HI Hdom Hpg Hs).
Qed.

Theorem indexed_sched_results_pure bs ix cg ops outs p0 queries pgs sched p' ths' :
  wf_docs docs -> index false bs docs = AOk ix ->
  ops_in_domain docs ops -> run (init_pool ix cg) ops = (outs, p0) ->
  queries_in_domain_after docs ops queries -> progs_of p0 queries = Some pgs ->
  run_sched p0 (map spawn pgs) sched = (p', ths') ->
  forall i q th r, nth_error queries i = Some q -> nth_error ths' i = Some th -> th_result th = Some r ->
    is_select q = false -> Some r = pure_answer p0 (op_of q).
Proof.
  intros Hwf E Hd Hrun Hq Hpg Hs.
  destruct (conc_setup bs ix cg ops outs p0 queries Hwf E Hd Hrun Hq) as (HI & Hdom).
  exact (sched_results_pure_gen _ _ _ (slice_idem_on_indexed docs) (phrase_mixed_local_on_indexed docs)
           p0 queries pgs sched p' ths' HI Hdom Hpg Hs).
Qed.

(* C20: any two schedules under which every thread finishes give the same results *)
Theorem indexed_C20_serial_equivalence bs ix cg ops outs p0 queries pgs s1 s2 :
  wf_docs docs -> index false bs docs = AOk ix ->
  ops_in_domain docs ops -> run (init_pool ix cg) ops = (outs, p0) ->
  queries_in_domain_after docs ops queries -> progs_of p0 queries = Some pgs ->
  all_done (snd (run_sched p0 (map spawn pgs) s1)) -> all_done (snd (run_sched p0 (map spawn pgs) s2)) ->
  results (snd (run_sched p0 (map spawn pgs) s1)) = results (snd (run_sched p0 (map spawn pgs) s2)).
Proof.
  intros Hwf E Hd Hrun Hq Hpg.
  destruct (conc_setup bs ix cg ops outs p0 queries Hwf E Hd Hrun Hq) as (HI & Hdom).
  exact (C20_serial_equivalence_gen _ _ _ (slice_idem_on_indexed docs) (phrase_mixed_local_on_indexed docs)
           p0 queries pgs s1 s2 HI Hdom Hpg).
Qed.

(* ... in particular the serial schedule *)
Theorem indexed_C20_any_schedule_eq_serial bs ix cg ops outs p0 queries pgs s :
  wf_docs docs -> index false bs docs = AOk ix ->
  ops_in_domain docs ops -> run (init_pool ix cg) ops = (outs, p0) ->
  queries_in_domain_after docs ops queries -> progs_of p0 queries = Some pgs ->
  all_done (snd (run_sched p0 (map spawn pgs) s)) ->
  results (snd (run_sched p0 (map spawn pgs) s))
  = results (snd (run_sched p0 (map spawn pgs) (serial_schedule (map spawn pgs)))).
Proof.
  intros Hwf E Hd Hrun Hq Hpg.
  destruct (conc_setup bs ix cg ops outs p0 queries Hwf E Hd Hrun Hq) as (HI & Hdom).
  exact (C20_any_schedule_eq_serial_gen _ _ _ (slice_idem_on_indexed docs) (phrase_mixed_local_on_indexed docs)
           p0 queries pgs s HI Hdom Hpg).
Qed.

(* ... and all finished results are the reference answers *)
Theorem indexed_all_done_results bs ix cg ops outs p0 queries pgs s :
  wf_docs docs -> index false bs docs = AOk ix ->
  ops_in_domain docs ops -> run (init_pool ix cg) ops = (outs, p0) ->
  queries_in_domain_after docs ops queries -> progs_of p0 queries = Some pgs ->
  all_done (snd (run_sched p0 (map spawn pgs) s)) ->
  results (snd (run_sched p0 (map spawn pgs) s)) = map (answer_of p0) queries.
Proof.
  intros Hwf E Hd Hrun Hq Hpg.
  destruct (conc_setup bs ix cg ops outs p0 queries Hwf E Hd Hrun Hq) as (HI & Hdom).
  exact (all_done_results_gen _ _ _ (slice_idem_on_indexed docs) (phrase_mixed_local_on_indexed docs)
           p0 queries pgs s HI Hdom Hpg).
Qed.

(* concurrent queries on a freshly indexed array: no domain condition at all *)
Corollary indexed_C20_fresh bs ix cg queries pgs s :
  wf_docs docs -> index false bs docs = AOk ix ->
  progs_of (init_pool ix cg) queries = Some pgs ->
  all_done (snd (run_sched (init_pool ix cg) (map spawn pgs) s)) ->
  results (snd (run_sched (init_pool ix cg) (map spawn pgs) s))
  = results (snd (run_sched (init_pool ix cg) (map spawn pgs) (serial_schedule (map spawn pgs)))) /\
  results (snd (run_sched (init_pool ix cg) (map spawn pgs) s)) = map (answer_of (init_pool ix cg)) queries.
Proof.
  intros Hwf E Hpg Hdone.
  assert (Hq : queries_in_domain_after docs [] queries).
  { unfold queries_in_domain_after. cbn [shape_run]. apply forallb_forall. intros q _. apply qry_okb_shape0. }
  split.
  - apply (indexed_C20_any_schedule_eq_serial bs ix cg [] [] (init_pool ix cg) queries pgs s Hwf E); try assumption;
      reflexivity.
  - apply (indexed_all_done_results bs ix cg [] [] (init_pool ix cg) queries pgs s Hwf E); try assumption; reflexivity.
Qed.
End Indexed.

(* ================= non-vacuity ================= *)
(* the example of Conc_Proofs.v (a phrase query on a view while another thread selects from that view between
   its two term reads, plus tf / df / score / root queries) is in the domain: every hypothesis except the
   run itself is discharged, for every schedule under which the threads finish ([cx_sched] is one:
   Conc_Proofs.conc_nonvacuous) *)
Example cx_in_domain :
  ops_in_domain ex_docs [OSelect 0 [4;2;0;0]] /\ queries_in_domain_after ex_docs [OSelect 0 [4;2;0;0]] cx_queries /\
  (* the check rejects a repeated-term phrase on the view, and accepts it on the root *)
  forallb (qry_okb (shape_run (shape0 5) [OSelect 0 [4;2;0;0]])) [QPhrase 1 [1;1;2]] = false /\
  forallb (qry_okb (shape_run (shape0 5) [OSelect 0 [4;2;0;0]])) [QPhrase 0 [1;1;2]; QPhrase 1 [1;2;1]] = true.
Proof. repeat split; vm_compute; reflexivity. Qed.

Example cx_serially_equivalent : forall ix cg outs p0 pgs s,
  index false 100 ex_docs = AOk ix -> run (init_pool ix cg) [OSelect 0 [4;2;0;0]] = (outs, p0) ->
  progs_of p0 cx_queries = Some pgs -> all_done (snd (run_sched p0 (map spawn pgs) s)) ->
  results (snd (run_sched p0 (map spawn pgs) s))
  = results (snd (run_sched p0 (map spawn pgs) (serial_schedule (map spawn pgs)))) /\
  results (snd (run_sched p0 (map spawn pgs) s)) = map (answer_of p0) cx_queries.
Proof.
  intros ix cg outs p0 pgs s E Hrun Hpg Hdone. destruct cx_in_domain as (D1 & D2 & _). split.
  - exact (indexed_C20_any_schedule_eq_serial ex_docs 100 ix cg _ outs p0 cx_queries pgs s ex_wf E D1 Hrun D2 Hpg Hdone).
  - exact (indexed_all_done_results ex_docs 100 ix cg _ outs p0 cx_queries pgs s ex_wf E D1 Hrun D2 Hpg Hdone).
Qed.

Print Assumptions phrase_pipeline_mixed.
Print Assumptions phrase_mixed_local_on_indexed.
Print Assumptions indexed_sched_results_answer.
Print Assumptions indexed_sched_results_pure.
Print Assumptions indexed_C20_serial_equivalence.
Print Assumptions indexed_C20_any_schedule_eq_serial.
Print Assumptions indexed_C20_fresh.
Print Assumptions cx_serially_equivalent.
