(* Interleaving semantics of DYNAMIC concurrent read-only programs (C07, C20): what a thread does next may depend
   on what its earlier actions returned, and a thread may query the views it created itself.  Needed for edismax
   (solr.py 262-366), which scores every query term, SELECTS the rows with a positive score
   (`frame[field].array[qf_scores > 0]`, 339-341) and then scores phrases on the views it has just created.

   Two levels, both over the shared state of View/Purity.v and the atomic actions of Conc/Conc.v:
   1. [dprog]: a tree of atomic actions; the continuation of an action receives the value the action returned.
      Arrays are named BY REFERENCE ([aref]): an array of the initial pool ([AGlob ai]) or the k-th view THIS thread
      created ([AView k]).  In Python a thread simply holds a reference to the SearchArray object that
      `arr[mask]` returned (postings.py 343-358); it never looks it up by a pool position.  The model keeps,
      per thread, the pool positions of the views it created ([dt_env]); a program cannot observe them (positions
      of views created by different threads interleave), it can only say "my k-th view".  A selection returns
      the new view's immutable descriptor ([VView]: rows, lengths, postings handle), which IS history-free.
      Static programs of Conc.v embed ([dprog_of_program]); Conc_Dyn_Proofs.v shows the two semantics coincide.
   2. [qprog]: a client program over whole QUERIES (term frequencies, phrase, docfreq, score, selection) with
      arbitrary pure computation in between; [compile] turns each query into the atomic actions of Conc.v's
      programs (prog_tf, prog_phrase, ...; a score of a phrase: one docfreq per term, then the phrase reads),
      issued on a reference.  [qprog_hf] is its HISTORY-FREE evaluation: every query is answered by the pure
      functions of View/View.v on the immutable descriptors; a selection by [view_of].
   [dmay]: the results a [dprog] may return when every action returns one of its (at most two) history-free
   values ([good_dval]: a read of postings may see the object's own handle or, if another thread sliced the view
   in between, the un-filtered base).  Assumed (as in Conc.v): each action is atomic.  No proofs here. *)
From Coq Require Import ZArith.
From SA Require Import Base.Prelude Kernels.Spec Kernels.Linear Codec.Codec Index.Index Query.Phrase Query.Range
  Score.BM25 View.View View.Purity View.Purity_Proofs Conc.Conc Conc.Conc_Proofs.
Open Scope N_scope.

(* ================= 1. dynamic programs of atomic actions ================= *)
Inductive aref :=
| AGlob (ai : nat)      (* an array of the pool the program was started on *)
| AView (k : nat).      (* the k-th view this thread created *)

Inductive dval :=
| VOld (v : lval)
| VView (v : api sarray).       (* what a selection returns: the descriptor of the new view *)

Inductive daction :=
| DOld (a : action)                     (* an action of Conc.v, on objects named by heap / pool position *)
| DReadEnc (r : aref) (t : N)           (* r.posns.encoded_term_posns[t] *)
| DDocfreq (r : aref) (t : N)           (* r.docfreq(t) -> root cache *)
| DTfCached (r : aref) (t : N)          (* _termfreqs_with_cache on r's object *)
| DSelect (r : aref) (pos : list N).    (* r[key]: resets r's handle, appends a view, the thread keeps the reference *)

Definition lval_of (v : dval) : lval := match v with VOld l => l | VView _ => LUnit end.

(* a reference, resolved in the current pool: (pool position, array) *)
Definition deref (p : pool) (env : list nat) (r : aref) : option (nat * parray) :=
  match (match r with AGlob ai => Some ai | AView k => nth_error env k end) with
  | Some ai => match nth_error (arrays p) ai with Some a => Some (ai, a) | None => None end
  | None => None
  end.

Definition do_daction (p : pool) (env : list nat) (a : daction) : dval * pool * list nat :=
  match a with
  | DOld a0 => let '(v, p') := do_action p a0 in (VOld v, p', env)
  | DReadEnc r t =>
      match deref p env r with
      | Some (_, a) => let '(v, p') := do_action p (AReadEnc (pa_pid a) t) in (VOld v, p', env)
      | None => (VOld (LEnc (AExc IndexError)), p, env)
      end
  | DDocfreq r t =>
      match deref p env r with
      | Some (ai, _) => let '(v, p') := do_action p (ADocfreq ai t) in (VOld v, p', env)
      | None => (VOld (LDf (AExc IndexError)), p, env)
      end
  | DTfCached r t =>
      match deref p env r with
      | Some (_, a) => let '(v, p') := do_action p (ATfCached (pa_pid a) t) in (VOld v, p', env)
      | None => (VOld (LTf (AExc IndexError)), p, env)
      end
  | DSelect r pos =>
      match deref p env r with
      | Some (ai, _) =>
          let '(_, p') := m_select p ai pos in
          (VView (match nth_error (arrays p') (length (arrays p)) with
                  | Some a' => AOk (pa_arr a')
                  | None => AExc IndexError
                  end),
           p', env ++ [length (arrays p)])
      | None => (VView (AExc IndexError), p, env)
      end
  end.

Inductive dprog (R : Type) :=
| DRet (o : R)
| DAct (a : daction) (k : dval -> dprog R).
Arguments DRet {R}. Arguments DAct {R}.

Fixpoint dbind {A B} (m : dprog A) (k : A -> dprog B) : dprog B :=
  match m with DRet a => k a | DAct a c => DAct a (fun v => dbind (c v) k) end.

(* ---- threads and schedules ---- *)
Record dthread (R : Type) := { dt_prog : dprog R; dt_env : list nat }.
Arguments dt_prog {R}. Arguments dt_env {R}.
Definition dspawn {R} (pg : dprog R) : dthread R := {| dt_prog := pg; dt_env := [] |}.
Definition dresult {R} (t : dthread R) : option R := match dt_prog t with DRet o => Some o | DAct _ _ => None end.

Definition dsched_step {R} (p : pool) (ths : list (dthread R)) (i : nat) : pool * list (dthread R) :=
  match nth_error ths i with
  | Some t =>
      match dt_prog t with
      | DRet _ => (p, ths)
      | DAct a k =>
          let '(v, p', env') := do_daction p (dt_env t) a in
          (p', set_nth ths i {| dt_prog := k v; dt_env := env' |})
      end
  | None => (p, ths)
  end.
Fixpoint drun_sched {R} (p : pool) (ths : list (dthread R)) (sched : list nat) : pool * list (dthread R) :=
  match sched with
  | [] => (p, ths)
  | i :: rest => let '(p', ths') := dsched_step p ths i in drun_sched p' ths' rest
  end.

(* one thread alone, to completion: result, final pool, its views, number of actions performed *)
Fixpoint drun_thread {R} (p : pool) (env : list nat) (pg : dprog R) : R * pool * list nat * nat :=
  match pg with
  | DRet o => (o, p, env, O)
  | DAct a k =>
      let '(v, p', env') := do_daction p env a in
      let '(o, p'', env'', n) := drun_thread p' env' (k v) in
      (o, p'', env'', S n)
  end.

(* the serial schedule: thread 0 to completion, then thread 1, ... (how long a thread runs depends on the data) *)
Fixpoint dserial_from {R} (p : pool) (i : nat) (ths : list (dthread R)) : list nat :=
  match ths with
  | [] => []
  | t :: rest =>
      let '(_, p', _, n) := drun_thread p (dt_env t) (dt_prog t) in
      repeat i n ++ dserial_from p' (S i) rest
  end.
Definition dserial_schedule {R} (p : pool) (ths : list (dthread R)) : list nat := dserial_from p 0 ths.
Definition dresults {R} (ths : list (dthread R)) : list (option R) := map dresult ths.
Definition dall_done {R} (ths : list (dthread R)) : Prop := Forall (fun t => dresult t <> None) ths.

(* ---- static programs of Conc.v are dynamic programs ---- *)
Fixpoint dprog_steps (fin : list lval -> out) (todo : list action) (got : list lval) : dprog out :=
  match todo with
  | [] => DRet (fin (rev got))
  | a :: rest => DAct (DOld a) (fun v => dprog_steps fin rest (lval_of v :: got))
  end.
Definition dprog_of_program (pg : program) : dprog out := dprog_steps (pg_finish pg) (pg_actions pg) [].
Definition dthread_of_thread (t : thread) : dthread out :=
  {| dt_prog := dprog_steps (th_fin t) (th_todo t) (th_got t); dt_env := [] |}.

(* ================= 2. history-free values of actions ================= *)
(* the immutable descriptor of the view `arr[pos]` (m_select's arr'; = View.select for avoid_copies arrays) *)
Definition handle_base (h : handle) : posts := match h with HBase p => p | HFiltered b _ => b end.
Definition view_of (arr : sarray) (pos : list N) : sarray :=
  {| a_terms := a_terms arr;
     a_posns := {| p_handle := HFiltered (handle_base (p_handle (a_posns arr))) (np_unique (gather 0 (a_rows arr) pos));
                   p_max_doc_id := p_max_doc_id (a_posns arr); p_df_root := p_df_root (a_posns arr) |};
     a_rows := gather 0 (a_rows arr) pos; a_subset := true; a_lens := gather 0 (a_lens arr) pos;
     a_total := a_total arr; a_n := a_n arr; a_avoid_copies := true |}.

(* the descriptor a reference denotes: from the initial pool, or from the descriptors of the thread's own views *)
Definition arr_of (p0 : pool) (lenv : list sarray) (r : aref) : option sarray :=
  match r with
  | AGlob ai => option_map pa_arr (nth_error (arrays p0) ai)
  | AView k => nth_error lenv k
  end.

(* values of the actions on an array with descriptor arr, in terms of arr only *)
Definition good_enc (arr : sarray) (t : N) (v : lval) : Prop :=
  v = LEnc (lookup_posts t (handle_base (p_handle (a_posns arr)))) \/     (* handle un-filtered when read *)
  v = LEnc (get_enc (p_handle (a_posns arr)) t).                         (* the object's own handle *)

Definition good_dval (p0 : pool) (lenv : list sarray) (a : daction) (v : dval) (lenv' : list sarray) : Prop :=
  match a with
  | DOld a0 => lenv' = lenv /\ exists v0, v = VOld v0 /\ good_val p0 a0 v0
  | DReadEnc r t =>
      lenv' = lenv /\ match arr_of p0 lenv r with Some arr => exists v0, v = VOld v0 /\ good_enc arr t v0 | None => True end
  | DDocfreq r t =>
      lenv' = lenv /\ match arr_of p0 lenv r with Some arr => v = VOld (LDf (v_docfreq arr t)) | None => True end
  | DTfCached r t =>
      lenv' = lenv /\
      match arr_of p0 lenv r with
      | Some arr => v = VOld (LTf (tf_answer (handle_base (p_handle (a_posns arr))) t))
      | None => True
      end
  | DSelect r pos =>
      match arr_of p0 lenv r with
      | Some arr => v = VView (AOk (view_of arr pos)) /\ lenv' = lenv ++ [view_of arr pos]
      | None => True
      end
  end.

(* well-formed actions: an old action as in Conc_Proofs.v; a reference must denote an array the thread can hold
   (an array of the INITIAL pool or one of its own views); the term-freq cache path only on a non-view *)
Definition daction_wf (p0 : pool) (lenv : list sarray) (a : daction) : Prop :=
  match a with
  | DOld a0 => action_wf p0 a0
  | DReadEnc r _ | DDocfreq r _ | DSelect r _ => arr_of p0 lenv r <> None
  | DTfCached r _ => exists arr, arr_of p0 lenv r = Some arr /\ a_subset arr = false
  end.

(* every action the program can reach (when actions return history-free values) is well-formed *)
Fixpoint dwf {R} (p0 : pool) (lenv : list sarray) (pg : dprog R) : Prop :=
  match pg with
  | DRet _ => True
  | DAct a k => daction_wf p0 lenv a /\ forall v lenv', good_dval p0 lenv a v lenv' -> dwf p0 lenv' (k v)
  end.

(* the results a program may return when every action returns a history-free value *)
Inductive dmay {R} (p0 : pool) : list sarray -> dprog R -> R -> list sarray -> Prop :=
| may_ret lenv o : dmay p0 lenv (DRet o) o lenv
| may_act lenv a k v lenv1 r lenv2 :
    good_dval p0 lenv a v lenv1 -> dmay p0 lenv1 (k v) r lenv2 -> dmay p0 lenv (DAct a k) r lenv2.

(* pg is well-formed and can only return r0: r0 is a function of the immutable data of p0 *)
Definition has_answer {R} (p0 : pool) (pg : dprog R) (r0 : R) : Prop :=
  dwf p0 [] pg /\ forall r lenv, dmay p0 [] pg r lenv -> r = r0.

(* ================= 3. programs over whole queries ================= *)
Inductive vquery :=
| VQTf (r : aref) (t : N) (lo hi : option N)          (* r.termfreqs(t, lo, hi) *)
| VQPhrase (r : aref) (ts : list N)                   (* r.termfreqs(ts) *)
| VQDf (r : aref) (t : N)                             (* r.docfreq(t) *)
| VQScore (r : aref) (ts : list N) (idf k1 b : Z)     (* r.score(ts): one term or a phrase *)
| VQSelect (r : aref) (pos : list N).                 (* r[key] *)

Inductive qval :=
| QOut (o : out)
| QView (v : api sarray).

Inductive qprog (R : Type) :=
| QRet (o : R)
| QDo (q : vquery) (k : qval -> qprog R).
Arguments QRet {R}. Arguments QDo {R}.

Fixpoint qbind {A B} (m : qprog A) (k : A -> qprog B) : qprog B :=
  match m with QRet a => k a | QDo q c => QDo q (fun v => qbind (c v) k) end.
Definition qmap {A B} (f : A -> B) (m : qprog A) : qprog B := qbind m (fun a => QRet (f a)).

(* ---- history-free evaluation ---- *)
Definition no_array : out := RUnit (AExc IndexError).
Definition query_hf (p0 : pool) (lenv : list sarray) (q : vquery) : qval * list sarray :=
  match q with
  | VQTf r t lo hi =>
      (QOut (match arr_of p0 lenv r with Some a => RVec (v_termfreqs a t lo hi) | None => no_array end), lenv)
  | VQPhrase r ts =>
      (QOut (match arr_of p0 lenv r with Some a => RVec (v_phrase_freqs a ts None None) | None => no_array end), lenv)
  | VQDf r t =>
      (QOut (match arr_of p0 lenv r with Some a => RNum (v_docfreq a t) | None => no_array end), lenv)
  | VQScore r ts idf k1 b =>
      (QOut (match arr_of p0 lenv r with Some a => RBits (v_score_bm25 a ts idf k1 b) | None => no_array end), lenv)
  | VQSelect r pos =>
      match arr_of p0 lenv r with
      | Some a => (QView (AOk (view_of a pos)), lenv ++ [view_of a pos])
      | None => (QView (AExc IndexError), lenv)
      end
  end.
Fixpoint qrun_hf {R} (p0 : pool) (lenv : list sarray) (qp : qprog R) : R * list sarray :=
  match qp with
  | QRet o => (o, lenv)
  | QDo q k => let '(v, lenv') := query_hf p0 lenv q in qrun_hf p0 lenv' (k v)
  end.
Definition qprog_hf {R} (p0 : pool) (qp : qprog R) : R := fst (qrun_hf p0 [] qp).

(* ---- compilation to atomic actions ---- *)
(* score(ts) for any ts: docfreq of every term (fills the df cache), then the tf / phrase program (m_score) *)
Definition df_of (l : lval) : api N := match l with LDf v => v | _ => AExc TypeError end.
Definition prog_score_ts (p0 : pool) (ai : nat) (a : parray) (ts : list N) (idf k1 b : Z) : program :=
  let tfp := match ts with [t] => prog_tf p0 a t None None | _ => prog_phrase p0 a ts end in
  {| pg_actions := map (ADocfreq ai) ts ++ pg_actions tfp;
     pg_finish := fun vs =>
       match pg_finish tfp (skipn (length ts) vs) with
       | RVec tfv =>
           RBits (ado _ <- all_ok (map df_of (firstn (length ts) vs)); ado tf <- tfv;
                  AOk (score_bits (map Z.of_N tf) (map Z.of_N (a_lens (pa_arr a))) (Z.of_N (a_total (pa_arr a)))
                                  (Z.of_N (a_n (pa_arr a))) idf k1 b))
       | other => other
       end |}.

(* the programs of Conc.v decide what to do from the array's descriptor only; here the object is named by reference *)
Definition on_desc (arr : sarray) : parray := {| pa_arr := arr; pa_pid := 0 |}.
Definition reref (r : aref) (a : action) : daction :=
  match a with
  | AReadEnc _ t => DReadEnc r t
  | ADocfreq _ t => DDocfreq r t
  | ATfCached _ t => DTfCached r t
  | ASelect _ pos => DSelect r pos
  end.
Fixpoint dseq (acts : list daction) (got : list lval) : dprog (list lval) :=
  match acts with
  | [] => DRet (rev got)
  | a :: rest => DAct a (fun v => dseq rest (lval_of v :: got))
  end.
Definition block (r : aref) (pg : program) : dprog out :=
  dbind (dseq (map (reref r) (pg_actions pg)) []) (fun vs => DRet (pg_finish pg vs)).

Definition query_prog (p0 : pool) (arr : sarray) (q : vquery) : program :=
  match q with
  | VQTf _ t lo hi => prog_tf p0 (on_desc arr) t lo hi
  | VQPhrase _ ts => prog_phrase p0 (on_desc arr) ts
  | VQDf _ t => prog_df 0 (on_desc arr) t
  | VQScore _ ts idf k1 b => prog_score_ts p0 0 (on_desc arr) ts idf k1 b
  | VQSelect _ pos => prog_select 0 pos
  end.
Definition query_ref (q : vquery) : aref :=
  match q with VQTf r _ _ _ | VQPhrase r _ | VQDf r _ | VQScore r _ _ _ _ | VQSelect r _ => r end.

Definition compile_query (p0 : pool) (cenv : list sarray) (q : vquery) : dprog (qval * list sarray) :=
  match arr_of p0 cenv (query_ref q) with
  | None => DRet (match q with VQSelect _ _ => QView (AExc IndexError) | _ => QOut no_array end, cenv)
  | Some arr =>
      match q with
      | VQSelect r pos =>
          DAct (DSelect r pos) (fun v =>
            DRet (match v with
                  | VView (AOk d) => (QView (AOk d), cenv ++ [d])
                  | VView e => (QView e, cenv)
                  | VOld _ => (QView (AExc TypeError), cenv)
                  end))
      | _ => dbind (block (query_ref q) (query_prog p0 arr q)) (fun o => DRet (QOut o, cenv))
      end
  end.
Fixpoint compile {R} (p0 : pool) (cenv : list sarray) (qp : qprog R) : dprog R :=
  match qp with
  | QRet o => DRet o
  | QDo q k => dbind (compile_query p0 cenv q) (fun x => compile p0 (snd x) (k (fst x)))
  end.
