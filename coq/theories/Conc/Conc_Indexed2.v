(* C20 for indexed corpora, PREMISE-FREE, with NO restriction on the concurrent queries.
   Conc/Conc_Gen.v is instantiated with  good_posts := good_posts_of docs,  R := rows_in docs,
   Qm := any_mixed (True: every phrase, immediate repetitions included).
   [slice_idem_on] is Purity_Indexed.slice_idem_on_indexed; the mixed-handle locality premise is proved here
   ([phrase_mixed_local_on_indexed2]) from View_Phrase3:
     - a phrase with two different terms: whichever handle each term is read through, every row of the view gets
       EXACTLY its number of occurrences                          (View_Phrase3.phrase_pipeline_nonconst);
     - one term repeated ('a a', 'a a a', ...): every row gets the value of the un-mixed chain A, A, ..., A
       (View_Phrase3.phrase_pipeline_const: [cval]), whichever direction the mixed list lengths select.
   The history that builds the initial pool of the concurrent phase only needs its SELECTIONS to stay within the
   corpus (Purity_Indexed2.ops_in_domain2); on a non-empty corpus there is no condition at all ([..._any]). *)
From Coq Require Import Sorted Permutation QArith.
From SA Require Import Base.Prelude Kernels.Spec Kernels.Linear Kernels.Linear_Proofs Codec.Codec Codec.Codec_Spec
  Codec.Codec_Proofs Codec.Codec_Proofs2 Index.Index Index.Index_Spec Index.Index_Proofs Index.Index_Proofs2
  Index.Index_Proofs3 Query.Phrase Query.Phrase_Spec Query.Phrase_Proofs Query.Phrase_Proofs2 Query.Phrase_Proofs3
  Query.Phrase_Final Query.Phrase_Repeats Query.Range Score.BM25 View.View View.View_Spec View.View_Proofs View.View_Phrase
  View.Purity View.Purity_Proofs View.View_Phrase2 View.Purity_Gen View.Purity_Indexed View.View_Phrase3
  View.Purity_Indexed2 Conc.Conc Conc.Conc_Proofs Conc.Conc_Gen Conc.Conc_Indexed.
Open Scope N_scope.

(* ================= 1. the mixed-handle premise, every phrase ================= *)
Definition any_mixed (ts rows : list N) : Prop := True.

Lemma Forall2_repeat_l {X Y} (R : X -> Y -> Prop) a : forall k l, Forall2 R (repeat a k) l -> Forall (R a) l /\ length l = k.
Proof.
  induction k as [|k IH]; intros l H; cbn [repeat] in H.
  - inversion H; subst. split; [constructor|reflexivity].
  - inversion H as [|? y ? l' Hy Hl']; subst. destruct (IH _ Hl') as [G1 G2].
    split; [constructor; assumption|cbn [length]; lia].
Qed.

Theorem phrase_mixed_local_on_indexed2 : forall docs,
  phrase_mixed_local_on (good_posts_of docs) (rows_in docs) any_mixed.
Proof.
  intros docs base maxd0 ts rows encs (bs & ix & Hwf & E & -> & ->) Hlen Hrows _ HF.
  unfold rows_in in Hrows.
  pose proof (index_ok_of docs bs ix Hwf E) as Hok. pose proof Hok as (Hp & Ha & Hterms & _).
  set (maxd := N.of_nat (length docs) - 1).
  set (ids := np_unique rows) in *.
  assert (Hids : Sorted N.lt ids) by apply np_unique_sorted.
  assert (Hidb : Forall (fun r => r < N.of_nat (length docs)) ids) by (apply np_unique_forall; exact Hrows).
  set (Q1 := fun _ : N => true). set (Q2 := fun k => mem_n k ids && Q1 k).
  set (f1 := fun t : N => lookup_posts t (ix_posts ix)).
  set (f2 := fun t : N => get_enc (HFiltered (ix_posts ix) ids) t).
  assert (Henc1 : forall t, In t (concat docs) -> f1 t = AOk (encode_spec (fpairs docs Q1 t))).
  { intros t Ht. unfold f1, lookup_posts. rewrite (root_sel docs ix Hok t Ht). reflexivity. }
  assert (Henc2 : forall t, In t (concat docs) -> f2 t = AOk (encode_spec (fpairs docs Q2 t))).
  { intros t Ht. unfold f2, Q2, Q1. cbn [get_enc]. unfold lookup_posts. rewrite (root_sel docs ix Hok t Ht). cbn [abind].
    rewrite (slice_fpairs docs Hwf (fun _ => true) t ids Hids Hidb). reflexivity. }
  assert (Habs1 : forall t, ~ In t (concat docs) -> f1 t = AExc KeyError).
  { intros t Ht. unfold f1, lookup_posts. rewrite (Ha t Ht). reflexivity. }
  assert (Habs2 : forall t, ~ In t (concat docs) -> f2 t = AExc KeyError).
  { intros t Ht. unfold f2. cbn [get_enc]. unfold lookup_posts. rewrite (Ha t Ht). reflexivity. }
  assert (HF' : Forall2 (fun t e => e = f1 t \/ e = f2 t) ts encs) by exact HF.
  destruct (forallb (known ix) ts) eqn:K.
  - assert (Hall : forall t, In t ts -> In t (concat docs)).
    { intros t Hin. rewrite forallb_forall in K. apply (known_iff docs ix t Hterms). apply K. exact Hin. }
    assert (Hmax : forall k, k < N.of_nat (length docs) -> k <= maxd) by (intros k Hk; unfold maxd; lia).
    set (P := fun Q : N -> bool => forall r, In r rows -> Q r = true).
    assert (P1 : P Q1) by (intros r _; reflexivity).
    assert (P2 : P Q2).
    { intros r Hr. unfold Q2, Q1, ids. rewrite np_unique_mem, (proj2 (mem_n_in r rows) Hr). reflexivity. }
    destruct (mixed_all_ok docs f1 f2 Q1 Q2 P Henc1 Henc2 P1 P2 ts encs Hall HF') as (pss & Eok & HFp).
    rewrite Eok. cbn [abind].
    assert (Henc2' : forall t, In t (concat docs) ->
              get_enc (HFiltered (ix_posts ix) ids) t = AOk (encode_spec (fpairs docs Q2 t))) by exact Henc2.
    rewrite (get_all_enc_sel docs _ Q2 Henc2' ts Hall). cbn [abind].
    set (pss2 := map (fpairs docs Q2) ts).
    assert (HFp2 : Forall2 (fun t ps => exists Q, ps = fpairs docs Q t /\ P Q) ts pss2).
    { unfold pss2. clear - P2. induction ts as [|t r IH]; cbn [map]; constructor; [|exact IH].
      exists Q2. split; [reflexivity|exact P2]. }
    assert (Hgoal : exists pf1 d1 pf2 d2,
              compute_phrase_freqs (map encode_spec pss) = AOk pf1 /\
              store_many (repeat 0 (N.to_nat (maxd + 1))) pf1 = Done d1 /\
              compute_phrase_freqs (map encode_spec pss2) = AOk pf2 /\
              store_many (repeat 0 (N.to_nat (maxd + 1))) pf2 = Done d2 /\
              forall r, In r rows -> r <= maxd -> nth (N.to_nat r) d1 0 = nth (N.to_nat r) d2 0).
    { destruct (is_const ts) eqn:C.
      - (* one term repeated *)
        pose proof (is_const_repeat ts C) as Ets. set (a := hd 0 ts) in *.
        rewrite Ets in HFp, HFp2.
        destruct (Forall2_repeat_l _ a _ _ HFp) as [G1 L1]. destruct (Forall2_repeat_l _ a _ _ HFp2) as [G2 L2].
        destruct (phrase_pipeline_const docs Hwf maxd a pss rows) as (pf1 & d1 & E1 & S1 & _ & V1);
          [lia|exact Hmax|exact G1|].
        destruct (phrase_pipeline_const docs Hwf maxd a pss2 rows) as (pf2 & d2 & E2 & S2 & _ & V2);
          [lia|exact Hmax|exact G2|].
        exists pf1, d1, pf2, d2. repeat split; try assumption.
        intros r Hr Hle. rewrite (V1 r Hr Hle), (V2 r Hr Hle), L1, L2. reflexivity.
      - (* two different terms: exact occurrence counts on both sides *)
        destruct (phrase_pipeline_nonconst docs Hwf maxd ts pss rows Hlen C Hmax HFp) as (pf1 & d1 & E1 & S1 & _ & V1).
        destruct (phrase_pipeline_nonconst docs Hwf maxd ts pss2 rows Hlen C Hmax HFp2) as (pf2 & d2 & E2 & S2 & _ & V2).
        exists pf1, d1, pf2, d2. repeat split; try assumption.
        intros r Hr Hle. rewrite (V1 r Hr Hle), (V2 r Hr Hle). reflexivity. }
    destruct Hgoal as (pf1 & d1 & pf2 & d2 & E1 & S1 & E2 & S2 & V).
    fold pss2. rewrite E1, E2. cbn [abind]. rewrite S1, S2. cbn [lift abind]. f_equal.
    unfold gather. apply map_ext_in. intros r Hr.
    rewrite Forall_forall in Hrows. pose proof (Hrows r Hr) as Hlt. apply V; [exact Hr|apply Hmax; exact Hlt].
  - destruct (forallb_false _ _ K) as (t & Hin & Hk).
    assert (Hnot : ~ In t (concat docs)).
    { intro Hc. rewrite (known_true docs ix t Hterms Hc) in Hk. discriminate. }
    rewrite (mixed_all_ok_absent docs f1 f2) with (ts := ts).
    + rewrite (get_all_enc_absent docs (HFiltered (ix_posts ix) ids)).
      * reflexivity.
      * intros t' Ht'. eexists. exact (Henc2 t' Ht').
      * exact Habs2.
      * exists t. split; assumption.
    + intros t' Ht'. eexists. exact (Henc1 t' Ht').
    + intros t' Ht'. eexists. exact (Henc2 t' Ht').
    + exact Habs1.
    + exact Habs2.
    + exact HF'.
    + exists t. split; assumption.
Qed.

Lemma q_dom_any sh q : q_dom any_mixed sh q.
Proof. destruct q; cbn [q_dom]; try exact I. intros rows _ _. exact I. Qed.

(* ================= 2. premise-free theorems ================= *)
Section Indexed2.
Variable docs : list (list N).

Lemma conc_setup2 bs ix cg ops outs p0 queries :
  wf_docs docs -> index false bs docs = AOk ix ->
  ops_in_domain2 docs ops -> run (init_pool ix cg) ops = (outs, p0) ->
  InvR (good_posts_of docs) (rows_in docs) p0 /\ Forall (q_dom any_mixed (shape_of p0)) queries.
Proof.
  intros Hwf E Hd Hrun.
  destruct (indexed_reach2 docs bs ix cg ops outs p0 Hwf E Hd Hrun) as (HI & _).
  split; [exact HI|]. apply Forall_forall. intros q _. apply q_dom_any.
Qed.

(* in EVERY interleaving, a finished thread holds the history-free answer on the pool the queries were issued on *)
Theorem indexed_sched_results_answer2 bs ix cg ops outs p0 queries pgs sched p' ths' :
  wf_docs docs -> index false bs docs = AOk ix ->
  ops_in_domain2 docs ops -> run (init_pool ix cg) ops = (outs, p0) ->
  progs_of p0 queries = Some pgs -> run_sched p0 (map spawn pgs) sched = (p', ths') ->
  forall i q th r, nth_error queries i = Some q -> nth_error ths' i = Some th -> th_result th = Some r ->
    Some r = answer_of p0 q.
Proof.
  intros Hwf E Hd Hrun Hpg Hs.
  destruct (conc_setup2 bs ix cg ops outs p0 queries Hwf E Hd Hrun) as (HI & Hdom).
  exact (sched_results_answer_gen _ _ _ (slice_idem_on_indexed docs) (phrase_mixed_local_on_indexed2 docs)
           p0 queries pgs sched p' ths' HI Hdom Hpg Hs).
Qed.

Theorem indexed_sched_results_pure2 bs ix cg ops outs p0 queries pgs sched p' ths' :
  wf_docs docs -> index false bs docs = AOk ix ->
  ops_in_domain2 docs ops -> run (init_pool ix cg) ops = (outs, p0) ->
  progs_of p0 queries = Some pgs -> run_sched p0 (map spawn pgs) sched = (p', ths') ->
  forall i q th r, nth_error queries i = Some q -> nth_error ths' i = Some th -> th_result th = Some r ->
    is_select q = false -> Some r = pure_answer p0 (op_of q).
Proof.
  intros Hwf E Hd Hrun Hpg Hs.
  destruct (conc_setup2 bs ix cg ops outs p0 queries Hwf E Hd Hrun) as (HI & Hdom).
  exact (sched_results_pure_gen _ _ _ (slice_idem_on_indexed docs) (phrase_mixed_local_on_indexed2 docs)
           p0 queries pgs sched p' ths' HI Hdom Hpg Hs).
Qed.

(* C20: any two schedules under which every thread finishes give the same results *)
Theorem indexed_C20_serial_equivalence2 bs ix cg ops outs p0 queries pgs s1 s2 :
  wf_docs docs -> index false bs docs = AOk ix ->
  ops_in_domain2 docs ops -> run (init_pool ix cg) ops = (outs, p0) -> progs_of p0 queries = Some pgs ->
  all_done (snd (run_sched p0 (map spawn pgs) s1)) -> all_done (snd (run_sched p0 (map spawn pgs) s2)) ->
  results (snd (run_sched p0 (map spawn pgs) s1)) = results (snd (run_sched p0 (map spawn pgs) s2)).
Proof.
  intros Hwf E Hd Hrun Hpg.
  destruct (conc_setup2 bs ix cg ops outs p0 queries Hwf E Hd Hrun) as (HI & Hdom).
  exact (C20_serial_equivalence_gen _ _ _ (slice_idem_on_indexed docs) (phrase_mixed_local_on_indexed2 docs)
           p0 queries pgs s1 s2 HI Hdom Hpg).
Qed.

Theorem indexed_C20_any_schedule_eq_serial2 bs ix cg ops outs p0 queries pgs s :
  wf_docs docs -> index false bs docs = AOk ix ->
  ops_in_domain2 docs ops -> run (init_pool ix cg) ops = (outs, p0) -> progs_of p0 queries = Some pgs ->
  all_done (snd (run_sched p0 (map spawn pgs) s)) ->
  results (snd (run_sched p0 (map spawn pgs) s))
  = results (snd (run_sched p0 (map spawn pgs) (serial_schedule (map spawn pgs)))).
Proof.
  intros Hwf E Hd Hrun Hpg.
  destruct (conc_setup2 bs ix cg ops outs p0 queries Hwf E Hd Hrun) as (HI & Hdom).
  exact (C20_any_schedule_eq_serial_gen _ _ _ (slice_idem_on_indexed docs) (phrase_mixed_local_on_indexed2 docs)
           p0 queries pgs s HI Hdom Hpg).
Qed.

Theorem indexed_all_done_results2 bs ix cg ops outs p0 queries pgs s :
  wf_docs docs -> index false bs docs = AOk ix ->
  ops_in_domain2 docs ops -> run (init_pool ix cg) ops = (outs, p0) -> progs_of p0 queries = Some pgs ->
  all_done (snd (run_sched p0 (map spawn pgs) s)) ->
  results (snd (run_sched p0 (map spawn pgs) s)) = map (answer_of p0) queries.
Proof.
  intros Hwf E Hd Hrun Hpg.
  destruct (conc_setup2 bs ix cg ops outs p0 queries Hwf E Hd Hrun) as (HI & Hdom).
  exact (all_done_results_gen _ _ _ (slice_idem_on_indexed docs) (phrase_mixed_local_on_indexed2 docs)
           p0 queries pgs s HI Hdom Hpg).
Qed.

(* ---- non-empty corpus: any history, any queries, any schedule ---- *)
Theorem indexed_C20_any bs ix cg ops outs p0 queries pgs s :
  wf_docs docs -> docs <> [] -> index false bs docs = AOk ix ->
  run (init_pool ix cg) ops = (outs, p0) -> progs_of p0 queries = Some pgs ->
  all_done (snd (run_sched p0 (map spawn pgs) s)) ->
  results (snd (run_sched p0 (map spawn pgs) s))
  = results (snd (run_sched p0 (map spawn pgs) (serial_schedule (map spawn pgs)))) /\
  results (snd (run_sched p0 (map spawn pgs) s)) = map (answer_of p0) queries.
Proof.
  intros Hwf Hne E Hrun Hpg Hdone. pose proof (all_ops_in_domain_nonempty docs ops Hne) as Hd. split.
  - exact (indexed_C20_any_schedule_eq_serial2 bs ix cg ops outs p0 queries pgs s Hwf E Hd Hrun Hpg Hdone).
  - exact (indexed_all_done_results2 bs ix cg ops outs p0 queries pgs s Hwf E Hd Hrun Hpg Hdone).
Qed.

Theorem indexed_sched_results_answer_any bs ix cg ops outs p0 queries pgs sched p' ths' :
  wf_docs docs -> docs <> [] -> index false bs docs = AOk ix ->
  run (init_pool ix cg) ops = (outs, p0) ->
  progs_of p0 queries = Some pgs -> run_sched p0 (map spawn pgs) sched = (p', ths') ->
  forall i q th r, nth_error queries i = Some q -> nth_error ths' i = Some th -> th_result th = Some r ->
    Some r = answer_of p0 q.
Proof.
  intros Hwf Hne E Hrun Hpg Hs.
  exact (indexed_sched_results_answer2 bs ix cg ops outs p0 queries pgs sched p' ths' Hwf E
           (all_ops_in_domain_nonempty docs ops Hne) Hrun Hpg Hs).
Qed.
End Indexed2.

(* ================= non-vacuity ================= *)
(* the query that Conc_Indexed.cx_in_domain rejects (a repeated-term phrase on the view, concurrent with a
   selection from that view) is now covered: every hypothesis except the run itself is discharged *)
Example cx2_serially_equivalent : forall ix cg outs p0 pgs s,
  index false 100 ex_docs = AOk ix -> run (init_pool ix cg) [OSelect 0 [4;2;0;0]] = (outs, p0) ->
  progs_of p0 (QPhrase 1 [1;1;2] :: QPhrase 1 [1;1] :: cx_queries) = Some pgs ->
  all_done (snd (run_sched p0 (map spawn pgs) s)) ->
  results (snd (run_sched p0 (map spawn pgs) s))
  = results (snd (run_sched p0 (map spawn pgs) (serial_schedule (map spawn pgs)))) /\
  results (snd (run_sched p0 (map spawn pgs) s)) = map (answer_of p0) (QPhrase 1 [1;1;2] :: QPhrase 1 [1;1] :: cx_queries).
Proof.
  intros ix cg outs p0 pgs s E Hrun Hpg Hdone.
  eapply (indexed_C20_any ex_docs 100 ix cg); [exact ex_wf|discriminate|exact E|exact Hrun|exact Hpg|exact Hdone].
Qed.

Print Assumptions phrase_mixed_local_on_indexed2.
Print Assumptions indexed_sched_results_answer2.
Print Assumptions indexed_C20_serial_equivalence2.
Print Assumptions indexed_C20_any_schedule_eq_serial2.
Print Assumptions indexed_all_done_results2.
Print Assumptions indexed_C20_any.
