(* C07 / C20 for DYNAMIC programs (Conc/Conc_Dyn.v).
   A. static programs: the dynamic semantics of [dprog_of_program] coincides with Conc.v's ([drun_sched_embed],
      [dresult_embed], [dserial_schedule_embed]) — the theorems of Conc_Proofs.v are statements about it;
   B. the serial schedule lets every thread finish ([dserial_all_done]);
   C. every atomic action keeps the invariant and returns a history-free value ([do_daction_ok]);
   D. in EVERY interleaving a finished thread holds a result its program MAY return when every action returns a
      history-free value ([dsched_may]) — for arbitrary dynamic programs; hence the answer of every program
      that has one ([dyn_sched_answers], [dyn_all_done_results], [dyn_schedule_eq_serial]);
   E. a compiled query program has exactly one such result: its history-free evaluation [qprog_hf]
      ([compile_has_answer]), under the two premises on the immutable postings used by Conc_Gen.v;
   F. the theorems for query programs ([qprog_sched_results], [qprog_all_done_results], [qprog_schedule_eq_serial],
      [qprog_single_thread]).  Premise-free versions: Conc/Conc_Dyn_Indexed.v. *)
From Coq Require Import ZArith.
From SA Require Import Base.Prelude Kernels.Spec Kernels.Linear Codec.Codec Index.Index Query.Phrase Query.Range
  Score.BM25 View.View View.Purity View.Purity_Proofs View.Purity_Gen Conc.Conc Conc.Conc_Proofs Conc.Conc_Gen Conc.Conc_Dyn.
Open Scope N_scope.

(* ================= list algebra ================= *)
Lemma map_set_nth {A B} (f : A -> B) l i x : map f (set_nth l i x) = set_nth (map f l) i (f x).
Proof. unfold set_nth. rewrite map_app, firstn_map. cbn [map]. rewrite skipn_map. reflexivity. Qed.

Lemma nth_error_app_last {A} (l : list A) x : nth_error (l ++ [x]) (length l) = Some x.
Proof. rewrite nth_error_app2 by lia. rewrite Nat.sub_diag. reflexivity. Qed.

Lemma Forall2_app_one {A B} (P : A -> B -> Prop) l l' x y : Forall2 P l l' -> P x y -> Forall2 P (l ++ [x]) (l' ++ [y]).
Proof. intros H Hxy. apply Forall2_app; [exact H|]. constructor; [exact Hxy|constructor]. Qed.

(* ================= A. static programs ================= *)
Lemma dthread_of_spawn pg : dthread_of_thread (spawn pg) = dspawn (dprog_of_program pg).
Proof. reflexivity. Qed.

Lemma dresult_embed t : dresult (dthread_of_thread t) = th_result t.
Proof. unfold dresult, th_result, dthread_of_thread. cbn [dt_prog]. destruct (th_todo t); reflexivity. Qed.

Lemma dsched_step_embed p ths i :
  dsched_step p (map dthread_of_thread ths) i
  = let '(p', ths') := sched_step p ths i in (p', map dthread_of_thread ths').
Proof.
  unfold dsched_step, sched_step. rewrite nth_error_map.
  destruct (nth_error ths i) as [t|]; cbn [option_map]; [|reflexivity].
  unfold dthread_of_thread at 1. cbn [dt_prog dt_env].
  destruct (th_todo t) as [|a rest] eqn:Et; cbn [dprog_steps]; [reflexivity|].
  cbn [do_daction]. destruct (do_action p a) as [v p1]. rewrite map_set_nth. reflexivity.
Qed.

Theorem drun_sched_embed sched : forall p ths,
  drun_sched p (map dthread_of_thread ths) sched
  = let '(p', ths') := run_sched p ths sched in (p', map dthread_of_thread ths').
Proof.
  induction sched as [|i rest IH]; intros p ths; cbn [drun_sched run_sched]; [reflexivity|].
  rewrite dsched_step_embed. destruct (sched_step p ths i) as [p1 ths1]. apply IH.
Qed.

Corollary dresults_embed ths : dresults (map dthread_of_thread ths) = results ths.
Proof. unfold dresults, results. rewrite map_map. apply map_ext. intro t. apply dresult_embed. Qed.

(* a static program performs exactly its actions, whatever they return *)
Lemma drun_thread_steps fin : forall todo got p env,
  snd (drun_thread p env (dprog_steps fin todo got)) = length todo.
Proof.
  induction todo as [|a rest IH]; intros got p env; cbn [dprog_steps drun_thread]; [reflexivity|].
  cbn [do_daction]. destruct (do_action p a) as [v p1].
  specialize (IH (lval_of (VOld v) :: got) p1 env).
  destruct (drun_thread p1 env (dprog_steps fin rest (lval_of (VOld v) :: got))) as [[[o p2] e2] n].
  cbn [snd] in *. cbn [length]. rewrite IH. reflexivity.
Qed.

Lemma dserial_from_embed : forall ths p i,
  dserial_from p i (map dthread_of_thread ths)
  = concat (map (fun it => repeat (fst it) (length (th_todo (snd it)))) (combine (seq i (length ths)) ths)).
Proof.
  induction ths as [|t rest IH]; intros p i; cbn [map dserial_from length seq combine concat]; [reflexivity|].
  change (dt_env (dthread_of_thread t)) with (@nil nat).
  change (dt_prog (dthread_of_thread t)) with (dprog_steps (th_fin t) (th_todo t) (th_got t)).
  pose proof (drun_thread_steps (th_fin t) (th_todo t) (th_got t) p []) as Hn.
  destruct (drun_thread p [] (dprog_steps (th_fin t) (th_todo t) (th_got t))) as [[[o p1] e1] n].
  cbn [snd fst] in *. subst n. rewrite IH. reflexivity.
Qed.

Theorem dserial_schedule_embed p ths : dserial_schedule p (map dthread_of_thread ths) = serial_schedule ths.
Proof. unfold dserial_schedule, serial_schedule. apply dserial_from_embed. Qed.

(* ================= B. the serial schedule lets every thread finish ================= *)
Section Serial.
Context {R : Type}.

Lemma drun_sched_app s1 : forall p (ths : list (dthread R)) s2,
  drun_sched p ths (s1 ++ s2) = let '(p1, ths1) := drun_sched p ths s1 in drun_sched p1 ths1 s2.
Proof.
  induction s1 as [|i s1 IH]; intros p ths s2; cbn [app drun_sched]; [reflexivity|].
  destruct (dsched_step p ths i) as [p1 ths1]. apply IH.
Qed.

Lemma drun_repeat i : forall (pg : dprog R) p env ths o p' env' n,
  nth_error ths i = Some {| dt_prog := pg; dt_env := env |} ->
  drun_thread p env pg = (o, p', env', n) ->
  exists ths', drun_sched p ths (repeat i n) = (p', ths') /\ length ths' = length ths /\
    (forall j, j <> i -> nth_error ths' j = nth_error ths j) /\
    nth_error ths' i = Some {| dt_prog := DRet o; dt_env := env' |}.
Proof.
  induction pg as [o0|a k IH]; intros p env ths o p' env' n Hn Hr; cbn [drun_thread] in Hr.
  - inv_pair Hr. exists ths. cbn [repeat drun_sched]. split; [reflexivity|]. split; [reflexivity|].
    split; [intros; reflexivity|exact Hn].
  - destruct (do_daction p env a) as [[v p1] env1] eqn:Ea.
    destruct (drun_thread p1 env1 (k v)) as [[[o1 p2] env2] n1] eqn:Er. inv_pair Hr.
    cbn [repeat drun_sched]. unfold dsched_step. rewrite Hn. cbn [dt_prog dt_env]. rewrite Ea.
    assert (Hi : (i < length ths)%nat) by (apply nth_error_Some; congruence).
    set (t1 := {| dt_prog := k v; dt_env := env1 |}).
    destruct (IH v p1 env1 (set_nth ths i t1) o p' env' n1) as (ths' & Hrun & Hlen & Hoth & Hi').
    + rewrite nth_error_set_nth by exact Hi. rewrite Nat.eqb_refl. reflexivity.
    + exact Er.
    + exists ths'. split; [exact Hrun|]. split; [rewrite Hlen; apply set_nth_length; exact Hi|].
      split; [|exact Hi'].
      intros j Hj. rewrite (Hoth j Hj). rewrite nth_error_set_nth by exact Hi.
      destruct (Nat.eqb_spec i j); [congruence|reflexivity].
Qed.

Lemma dserial_from_done : forall (rest : list (dthread R)) k p ths,
  (forall j, (j < length rest)%nat -> nth_error ths (k + j) = nth_error rest j) ->
  length ths = (k + length rest)%nat ->
  exists p' ths', drun_sched p ths (dserial_from p k rest) = (p', ths') /\ length ths' = length ths /\
    (forall j, (j < k)%nat -> nth_error ths' j = nth_error ths j) /\
    (forall j, (k <= j < length ths)%nat -> exists t', nth_error ths' j = Some t' /\ dresult t' <> None).
Proof.
  induction rest as [|t rest IH]; intros k p ths Hn Hl.
  - exists p, ths. split; [reflexivity|]. split; [reflexivity|]. split; [intros; reflexivity|].
    intros j Hj. cbn [length] in Hl. lia.
  - cbn [dserial_from].
    assert (Hk : nth_error ths k = Some t).
    { specialize (Hn 0%nat). rewrite Nat.add_0_r in Hn. cbn [nth_error length] in Hn. apply Hn. lia. }
    destruct t as [pg env].
    destruct (drun_thread p env pg) as [[[o p1] env1] n] eqn:Er. cbn [dt_prog dt_env]. rewrite Er.
    rewrite drun_sched_app.
    destruct (drun_repeat k pg p env ths o p1 env1 n Hk Er) as (ths1 & Hrun & Hlen1 & Hoth & Hk1).
    rewrite Hrun. cbn [length] in Hl.
    destruct (IH (S k) p1 ths1) as (p' & ths' & Hrun' & Hlen' & Hlow & Hhigh).
    + intros j Hj. rewrite Hoth by lia. replace (S k + j)%nat with (k + S j)%nat by lia.
      rewrite Hn by (cbn [length]; lia). reflexivity.
    + rewrite Hlen1, Hl. lia.
    + exists p', ths'. split; [exact Hrun'|]. split; [congruence|]. split.
      * intros j Hj. rewrite Hlow by lia. apply Hoth. lia.
      * intros j Hj. destruct (Nat.eq_dec j k) as [->|Hne].
        -- eexists. rewrite Hlow by lia. split; [exact Hk1|]. cbn. discriminate.
        -- apply Hhigh. lia.
Qed.

Theorem dserial_all_done p (ths : list (dthread R)) : dall_done (snd (drun_sched p ths (dserial_schedule p ths))).
Proof.
  destruct (dserial_from_done ths 0 p ths) as (p' & ths' & Hrun & Hlen & _ & Hhigh); [reflexivity|reflexivity|].
  unfold dserial_schedule. rewrite Hrun. cbn [snd].
  apply Forall_forall. intros th Hin. apply In_nth_error in Hin. destruct Hin as (j & Hj).
  destruct (Hhigh j) as (t' & Ht' & Hd).
  { split; [lia|]. rewrite <- Hlen. apply nth_error_Some. congruence. }
  rewrite Hj in Ht'. inv_pair Ht'. exact Hd.
Qed.
End Serial.

(* ================= C. every atomic action: invariant kept, value history-free ================= *)
Section WithGood.
Variable good_posts : posts -> N -> Prop.
Variable R : list N -> Prop.
Local Notation INV := (Inv good_posts).
Local Notation SHOK := (shape_ok R).
(* the admissible row vectors are closed under selection (rows_in docs for a non-empty corpus) *)
Hypothesis R_gather : forall rows pos, R rows -> R (gather 0 rows pos).

(* the pool positions a thread holds point at arrays with the descriptors the program was given *)
Definition env_ok (p : pool) (env : list nat) (lenv : list sarray) : Prop :=
  Forall2 (fun ai arr => exists a, nth_error (arrays p) ai = Some a /\ pa_arr a = arr) env lenv.

Lemma env_ok_mono p p' env lenv : (exists extra, arrays p' = arrays p ++ extra) -> env_ok p env lenv -> env_ok p' env lenv.
Proof.
  intros (extra & E) H. eapply Forall2_mono; [|exact H]. cbv beta. intros ai arr (a & Hn & Ha).
  exists a. split; [|exact Ha]. rewrite E, nth_error_app1 by (apply nth_error_Some; congruence). exact Hn.
Qed.

Lemma deref_ok p0 p env lenv r arr : (exists extra, arrays p = arrays p0 ++ extra) -> env_ok p env lenv ->
  arr_of p0 lenv r = Some arr ->
  exists ai a, deref p env r = Some (ai, a) /\ nth_error (arrays p) ai = Some a /\ pa_arr a = arr.
Proof.
  intros (extra & E) He Ha. unfold deref. destruct r as [ai|k]; cbn [arr_of] in Ha.
  - destruct (nth_error (arrays p0) ai) as [a|] eqn:En; [|discriminate Ha]. cbn [option_map] in Ha. inv_pair Ha.
    assert (En' : nth_error (arrays p) ai = Some a).
    { rewrite E, nth_error_app1 by (apply nth_error_Some; congruence). exact En. }
    exists ai, a. rewrite En'. repeat split.
  - destruct (Forall2_nth_r _ _ _ He _ _ Ha) as (ai & Hai & a & Hn & Hpa).
    exists ai, a. rewrite Hai, Hn. repeat split; assumption.
Qed.

(* which arrays an action of Conc.v adds *)
Lemma do_action_arrays p a v p' : do_action p a = (v, p') ->
  arrays p' = arrays p \/
  exists ai pos x pid', a = ASelect ai pos /\ nth_error (arrays p) ai = Some x /\
    arrays p' = arrays p ++ [{| pa_arr := sel_arr p x pos; pa_pid := pid' |}].
Proof.
  intro H. destruct a as [pid t|ai t|pid t|ai pos]; cbn [do_action] in H.
  - destruct (read_enc (get_ps p pid) t) as [r s']. inv_pair H. left. reflexivity.
  - destruct (nth_error (arrays p) ai) as [arr|]; [|inv_pair H; left; reflexivity].
    destruct (m_docfreq p arr t) as [r p1] eqn:E. inv_pair H. left. unfold m_docfreq in E.
    destruct (negb (known_a (pa_arr arr) t)); [inv_pair E; reflexivity|].
    destruct (df_on_root (get_ps p (root_of p (pa_pid arr))) t) as [o s']. inv_pair E. reflexivity.
  - destruct (tf_with_cache (get_ps p pid) t) as [r s']. inv_pair H. left. reflexivity.
  - destruct (m_select p ai pos) as [u p1] eqn:E. inv_pair H. rewrite m_select_eq in E.
    destruct (nth_error (arrays p) ai) as [x|] eqn:En; [|inv_pair E; left; reflexivity].
    cbv zeta in E. inv_pair E. right. eexists ai, pos, x, _. split; [reflexivity|]. split; [first [reflexivity|exact En]|].
    reflexivity.
Qed.

Lemma m_select_arrays p ai pos a u p1 : nth_error (arrays p) ai = Some a -> m_select p ai pos = (u, p1) ->
  exists pid', arrays p1 = arrays p ++ [{| pa_arr := sel_arr p a pos; pa_pid := pid' |}].
Proof. intros Hn E. rewrite m_select_eq, Hn in E. cbv zeta in E. inv_pair E. eexists. reflexivity. Qed.

(* an action of Conc.v keeps the invariant and the admissible shapes *)
Lemma do_action_step p a v p' : INV p -> SHOK (shape_of p) -> action_wf p a -> do_action p a = (v, p') ->
  INV p' /\ SHOK (shape_of p') /\ (exists extra, arrays p' = arrays p ++ extra) /\ heap_le p p'.
Proof.
  intros HI Hs Hwf H. destruct (do_action_inv good_posts _ _ _ _ HI Hwf H) as (I1 & X & L).
  split; [exact I1|]. split; [|split; assumption].
  destruct (do_action_arrays _ _ _ _ H) as [E|(ai & pos & x & pid' & _ & En & E)].
  - rewrite (shape_of_arrays_eq _ _ E). exact Hs.
  - unfold shape_ok, shape_of. rewrite E, map_app. apply Forall_app. split; [exact Hs|].
    constructor; [|constructor]. cbn [map snd pa_arr sel_arr a_rows]. apply R_gather.
    eapply shape_ok_in; [exact Hs|]. eapply nth_error_In; exact En.
Qed.

Lemma handle_base_of s : handle_base (handle_of s) = ps_base s.
Proof. unfold handle_of. destruct (ps_ids s); reflexivity. Qed.

Lemma sel_arr_view_of p a pos : array_ok p a -> sel_arr p a pos = view_of (pa_arr a) pos.
Proof. intros (_ & Hh & Hm & _). unfold sel_arr, view_of. rewrite Hh, Hm, handle_base_of. reflexivity. Qed.

Lemma ext_refl (p : pool) : exists extra, arrays p = arrays p ++ extra.
Proof. exists []. rewrite app_nil_r. reflexivity. Qed.

Lemma do_daction_ok p0 p lenv env a v p' env' :
  INV p -> SHOK (shape_of p) -> (exists extra, arrays p = arrays p0 ++ extra) -> heap_le p0 p ->
  env_ok p env lenv -> daction_wf p0 lenv a -> do_daction p env a = (v, p', env') ->
  INV p' /\ SHOK (shape_of p') /\ (exists extra, arrays p' = arrays p ++ extra) /\ heap_le p p' /\
  exists lenv', good_dval p0 lenv a v lenv' /\ env_ok p' env' lenv'.
Proof.
  intros HI Hs Hext Hle He Hwf H. pose proof HI as (Hst & Har).
  destruct a as [a0|r t|r t|r t|r pos]; cbn [do_daction daction_wf good_dval] in *.
  - (* an action of Conc.v *)
    destruct (do_action p a0) as [v0 p1] eqn:Ea. inv_pair H.
    destruct (do_action_step _ _ _ _ HI Hs (action_wf_le _ _ _ Hle Hwf) Ea) as (I1 & S1 & X1 & L1).
    split; [exact I1|]. split; [exact S1|]. split; [exact X1|]. split; [exact L1|].
    exists lenv. split; [|eapply env_ok_mono; eassumption].
    split; [reflexivity|]. exists v0. split; [reflexivity|]. exact (do_action_good good_posts _ _ _ _ _ HI Hle Hext Hwf Ea).
  - (* read postings through a reference *)
    destruct (arr_of p0 lenv r) as [arr|] eqn:Earr; [|exfalso; apply Hwf; reflexivity].
    destruct (deref_ok _ _ _ _ _ _ Hext He Earr) as (ai & a & Hd & Hn & Hpa). rewrite Hd in H. subst arr.
    destruct (do_action p (AReadEnc (pa_pid a) t)) as [v0 p1] eqn:Ea. inv_pair H.
    pose proof (Har a (nth_error_In _ _ Hn)) as (Hpid & Hh & _).
    assert (Hwa : action_wf p (AReadEnc (pa_pid a) t)) by exact Hpid.
    destruct (do_action_step _ _ _ _ HI Hs Hwa Ea) as (I1 & S1 & X1 & L1).
    pose proof (do_action_good good_posts p p _ _ _ HI (heap_le_refl _) (ext_refl p) Hwa Ea) as Hg.
    split; [exact I1|]. split; [exact S1|]. split; [exact X1|]. split; [exact L1|].
    exists lenv. split; [|eapply env_ok_mono; eassumption].
    split; [reflexivity|]. exists v0. split; [reflexivity|].
    cbn [good_val] in Hg. unfold good_enc. rewrite Hh, handle_base_of. exact Hg.
  - (* docfreq through a reference *)
    destruct (arr_of p0 lenv r) as [arr|] eqn:Earr; [|exfalso; apply Hwf; reflexivity].
    destruct (deref_ok _ _ _ _ _ _ Hext He Earr) as (ai & a & Hd & Hn & Hpa). rewrite Hd in H. subst arr.
    destruct (do_action p (ADocfreq ai t)) as [v0 p1] eqn:Ea. inv_pair H.
    assert (Hwa : action_wf p (ADocfreq ai t)) by exact I.
    destruct (do_action_step _ _ _ _ HI Hs Hwa Ea) as (I1 & S1 & X1 & L1).
    pose proof (do_action_good good_posts p p _ _ _ HI (heap_le_refl _) (ext_refl p) Hwa Ea) as Hg.
    split; [exact I1|]. split; [exact S1|]. split; [exact X1|]. split; [exact L1|].
    exists lenv. split; [|eapply env_ok_mono; eassumption].
    split; [reflexivity|]. cbn [good_val] in Hg. rewrite Hn in Hg. subst v0. reflexivity.
  - (* the term-freq cache path through a reference (never on a view) *)
    destruct Hwf as (arr & Earr & Hsub0).
    destruct (deref_ok _ _ _ _ _ _ Hext He Earr) as (ai & a & Hd & Hn & Hpa). rewrite Hd in H. rewrite Earr. subst arr.
    destruct (do_action p (ATfCached (pa_pid a) t)) as [v0 p1] eqn:Ea. inv_pair H.
    pose proof (Har a (nth_error_In _ _ Hn)) as (Hpid & Hh & _ & Hsub & _).
    assert (Hwa : action_wf p (ATfCached (pa_pid a) t)).
    { split; [exact Hpid|]. rewrite Hsub0 in Hsub. destruct (ps_ids (get_ps p (pa_pid a))); [discriminate Hsub|reflexivity]. }
    destruct (do_action_step _ _ _ _ HI Hs Hwa Ea) as (I1 & S1 & X1 & L1).
    pose proof (do_action_good good_posts p p _ _ _ HI (heap_le_refl _) (ext_refl p) Hwa Ea) as Hg.
    split; [exact I1|]. split; [exact S1|]. split; [exact X1|]. split; [exact L1|].
    exists lenv. split; [|eapply env_ok_mono; eassumption].
    split; [reflexivity|]. cbn [good_val] in Hg. subst v0. rewrite Hh, handle_base_of. reflexivity.
  - (* selection: the thread keeps a reference to the new view *)
    destruct (arr_of p0 lenv r) as [arr|] eqn:Earr; [|exfalso; apply Hwf; reflexivity].
    destruct (deref_ok _ _ _ _ _ _ Hext He Earr) as (ai & a & Hd & Hn & Hpa). rewrite Hd in H. subst arr.
    destruct (m_select p ai pos) as [u p1] eqn:Es.
    assert (Ea : do_action p (ASelect ai pos) = (LUnit, p1)) by (cbn [do_action]; rewrite Es; reflexivity).
    destruct (do_action_step p (ASelect ai pos) _ _ HI Hs I Ea) as (I1 & S1 & X1 & L1).
    destruct (m_select_arrays _ _ _ _ _ _ Hn Es) as (pid' & E1).
    rewrite E1, nth_error_app_last in H. cbn [pa_arr] in H. inv_pair H.
    pose proof (Har a (nth_error_In _ _ Hn)) as Hok.
    split; [exact I1|]. split; [exact S1|]. split; [exact X1|]. split; [exact L1|].
    exists (lenv ++ [view_of (pa_arr a) pos]). rewrite (sel_arr_view_of _ _ pos Hok). split; [split; reflexivity|].
    apply Forall2_app_one; [eapply env_ok_mono; eassumption|].
    eexists. split; [rewrite E1; apply nth_error_app_last|]. cbn [pa_arr]. apply sel_arr_view_of. exact Hok.
Qed.

(* ================= D. threads under an arbitrary schedule ================= *)
Section Threads.
Context {T : Type}.

(* a running thread: whatever it may still return, the program it was spawned from may return *)
Definition dthread_ok (p0 p : pool) (pg0 : dprog T) (th : dthread T) : Prop :=
  exists lenv, env_ok p (dt_env th) lenv /\ dwf p0 lenv (dt_prog th) /\
    forall r l2, dmay p0 lenv (dt_prog th) r l2 -> exists l0, dmay p0 [] pg0 r l0.

Definition dsys_ok (p0 : pool) (pgs : list (dprog T)) (p : pool) (ths : list (dthread T)) : Prop :=
  INV p /\ SHOK (shape_of p) /\ (exists extra, arrays p = arrays p0 ++ extra) /\ heap_le p0 p /\
  Forall2 (dthread_ok p0 p) pgs ths.

Lemma dspawn_ok p0 p pg : dwf p0 [] pg -> dthread_ok p0 p pg (dspawn pg).
Proof.
  intro H. exists []. split; [constructor|]. split; [exact H|]. intros r l2 Hm. exists l2. exact Hm.
Qed.

Lemma dthread_ok_mono p0 p p' pg th : (exists extra, arrays p' = arrays p ++ extra) ->
  dthread_ok p0 p pg th -> dthread_ok p0 p' pg th.
Proof.
  intros X (lenv & He & Hw & Hm). exists lenv. split; [eapply env_ok_mono; eassumption|]. split; assumption.
Qed.

Lemma dsched_step_ok p0 pgs p ths i p' ths' : dsys_ok p0 pgs p ths -> dsched_step p ths i = (p', ths') ->
  dsys_ok p0 pgs p' ths'.
Proof.
  intros (HI & Hs & Hext & Hle & Hth) H. unfold dsched_step in H.
  destruct (nth_error ths i) as [t|] eqn:En.
  2:{ inv_pair H. split; [exact HI|]. split; [exact Hs|]. split; [exact Hext|]. split; [exact Hle|exact Hth]. }
  destruct (dt_prog t) as [o|a k] eqn:Et.
  { inv_pair H. split; [exact HI|]. split; [exact Hs|]. split; [exact Hext|]. split; [exact Hle|exact Hth]. }
  destruct (do_daction p (dt_env t) a) as [[v p1] env1] eqn:Ea. inv_pair H.
  destruct (Forall2_nth_r _ _ _ Hth _ _ En) as (pg & Epg & lenv & He & Hwf & Hmay).
  rewrite Et in Hwf, Hmay. cbn [dwf] in Hwf. destruct Hwf as (Hwa & Hk).
  destruct (do_daction_ok _ _ _ _ _ _ _ _ HI Hs Hext Hle He Hwa Ea) as (I1 & S1 & X1 & L1 & lenv' & Hg & He').
  split; [exact I1|]. split; [exact S1|]. split.
  { destruct Hext as (e0 & A0). destruct X1 as (e1 & A1). exists (e0 ++ e1). rewrite A1, A0, app_assoc. reflexivity. }
  split; [eapply heap_le_trans; eassumption|].
  eapply Forall2_set_nth; [|exact Epg|].
  - eapply Forall2_mono; [|exact Hth]. intros x y Hxy. eapply dthread_ok_mono; eassumption.
  - exists lenv'. cbn [dt_prog dt_env]. split; [exact He'|]. split; [apply Hk; exact Hg|].
    intros r l2 Hm. apply (Hmay r l2). econstructor; eassumption.
Qed.

Lemma drun_sched_ok p0 pgs sched : forall p ths p' ths', dsys_ok p0 pgs p ths ->
  drun_sched p ths sched = (p', ths') -> dsys_ok p0 pgs p' ths'.
Proof.
  induction sched as [|i rest IH]; intros p ths p' ths' Hok H; cbn [drun_sched] in H.
  - inv_pair H. exact Hok.
  - destruct (dsched_step p ths i) as [p1 ths1] eqn:E.
    eapply IH; [|exact H]. eapply dsched_step_ok; eassumption.
Qed.

Lemma initial_dsys_ok p0 pgs : INV p0 -> SHOK (shape_of p0) -> Forall (dwf p0 []) pgs ->
  dsys_ok p0 pgs p0 (map dspawn pgs).
Proof.
  intros HI Hs Hw. split; [exact HI|]. split; [exact Hs|]. split; [apply ext_refl|]. split; [apply heap_le_refl|].
  induction Hw as [|pg pgs Hpg Hrest IH]; cbn [map]; constructor; [|exact IH]. apply dspawn_ok. exact Hpg.
Qed.

Lemma dthread_ok_result p0 p pg th r : dthread_ok p0 p pg th -> dresult th = Some r -> exists l0, dmay p0 [] pg r l0.
Proof.
  intros (lenv & _ & _ & Hm) H. unfold dresult in H. destruct (dt_prog th) as [o|a k] eqn:Et; [|discriminate H].
  inv_pair H. apply (Hm r lenv). constructor.
Qed.

(* in EVERY interleaving, a finished thread holds a result its program may return from history-free values; the
   pool still satisfies the invariant of View/Purity_Gen.v (so every later operation is answered history-free) *)
Theorem dsched_may p0 (pgs : list (dprog T)) sched p' ths' : INV p0 -> SHOK (shape_of p0) -> Forall (dwf p0 []) pgs ->
  drun_sched p0 (map dspawn pgs) sched = (p', ths') ->
  InvR good_posts R p' /\ (exists extra, arrays p' = arrays p0 ++ extra) /\ heap_le p0 p' /\
  forall i pg th r, nth_error pgs i = Some pg -> nth_error ths' i = Some th -> dresult th = Some r ->
    exists l0, dmay p0 [] pg r l0.
Proof.
  intros HI Hs Hw Hrun.
  pose proof (drun_sched_ok _ _ _ _ _ _ _ (initial_dsys_ok _ _ HI Hs Hw) Hrun) as (I1 & S1 & X1 & L1 & Hths).
  split; [split; assumption|]. split; [exact X1|]. split; [exact L1|].
  intros i pg th r Hpg Hth Hr.
  destruct (Forall2_nth_r _ _ _ Hths _ _ Hth) as (pg' & Epg & Hok). rewrite Hpg in Epg. inv_pair Epg.
  eapply dthread_ok_result; eassumption.
Qed.

(* ---- programs that have an answer ---- *)
Lemma has_answer_wf p0 : forall pgs (answers : list T), Forall2 (has_answer p0) pgs answers -> Forall (dwf p0 []) pgs.
Proof. induction 1 as [|pg r0 pgs ans (Hw & _) Hrest IH]; constructor; assumption. Qed.

Theorem dyn_sched_answers p0 (pgs : list (dprog T)) answers sched p' ths' : INV p0 -> SHOK (shape_of p0) ->
  Forall2 (has_answer p0) pgs answers ->
  drun_sched p0 (map dspawn pgs) sched = (p', ths') ->
  forall i r0 th r, nth_error answers i = Some r0 -> nth_error ths' i = Some th -> dresult th = Some r -> r = r0.
Proof.
  intros HI Hs Ha Hrun i r0 th r Hr0 Hth Hr.
  destruct (dsched_may _ _ _ _ _ HI Hs (has_answer_wf _ _ _ Ha) Hrun) as (_ & _ & _ & Hm).
  destruct (Forall2_nth_r _ _ _ Ha _ _ Hr0) as (pg & Epg & _ & Hans).
  destruct (Hm i pg th r Epg Hth Hr) as (l0 & Hmay). exact (Hans r l0 Hmay).
Qed.

Lemma dresults_all_done p0 p : forall pgs answers, Forall2 (has_answer p0) pgs answers ->
  forall ths, Forall2 (dthread_ok p0 p) pgs ths -> dall_done ths -> dresults ths = map Some answers.
Proof.
  induction 1 as [|pg r0 pgs ans (_ & Hans) Hrest IH]; intros ths Hths Hdone;
    inversion Hths as [|x th l ths0 Hok Hoks]; subst; [reflexivity|].
  inversion Hdone as [|y l Hd Hds]; subst. unfold dresults in *. cbn [map]. f_equal; [|apply IH; assumption].
  destruct (dresult th) as [r|] eqn:Er; [|contradiction].
  destruct (dthread_ok_result _ _ _ _ _ Hok Er) as (l0 & Hm). rewrite (Hans r l0 Hm). reflexivity.
Qed.

Theorem dyn_all_done_results p0 (pgs : list (dprog T)) answers sched : INV p0 -> SHOK (shape_of p0) ->
  Forall2 (has_answer p0) pgs answers ->
  dall_done (snd (drun_sched p0 (map dspawn pgs) sched)) ->
  dresults (snd (drun_sched p0 (map dspawn pgs) sched)) = map Some answers.
Proof.
  intros HI Hs Ha Hdone. destruct (drun_sched p0 (map dspawn pgs) sched) as [p' ths'] eqn:Hrun. cbn [snd] in *.
  pose proof (drun_sched_ok _ _ _ _ _ _ _ (initial_dsys_ok _ _ HI Hs (has_answer_wf _ _ _ Ha)) Hrun)
    as (_ & _ & _ & _ & Hths).
  eapply dresults_all_done; eassumption.
Qed.

(* any schedule under which every thread finishes gives the results of the serial schedule *)
Theorem dyn_schedule_eq_serial p0 (pgs : list (dprog T)) answers s : INV p0 -> SHOK (shape_of p0) ->
  Forall2 (has_answer p0) pgs answers ->
  dall_done (snd (drun_sched p0 (map dspawn pgs) s)) ->
  dresults (snd (drun_sched p0 (map dspawn pgs) s))
  = dresults (snd (drun_sched p0 (map dspawn pgs) (dserial_schedule p0 (map dspawn pgs)))).
Proof.
  intros HI Hs Ha Hd.
  rewrite (dyn_all_done_results _ _ _ _ HI Hs Ha Hd).
  rewrite (dyn_all_done_results _ _ _ _ HI Hs Ha (dserial_all_done _ _)). reflexivity.
Qed.
End Threads.
End WithGood.

(* ================= E. compiled query programs ================= *)
Section MayAlgebra.
Context {A B : Type}.
Variable p0 : pool.

Lemma dmay_dbind (m : dprog A) (k : A -> dprog B) : forall l r l2, dmay p0 l (dbind m k) r l2 ->
  exists x l1, dmay p0 l m x l1 /\ dmay p0 l1 (k x) r l2.
Proof.
  induction m as [a|a c IH]; intros l r l2 H; cbn [dbind] in H.
  - exists a, l. split; [constructor|exact H].
  - inversion H as [|l' a' k' v l1 r' l2' Hg Hm]; subst.
    destruct (IH v _ _ _ Hm) as (x & l1' & H1 & H2). exists x, l1'. split; [econstructor; eassumption|exact H2].
Qed.

Lemma dwf_dbind (m : dprog A) (k : A -> dprog B) : forall l, dwf p0 l m ->
  (forall x l1, dmay p0 l m x l1 -> dwf p0 l1 (k x)) -> dwf p0 l (dbind m k).
Proof.
  induction m as [a|a c IH]; intros l Hw Hk; cbn [dbind].
  - apply Hk. constructor.
  - cbn [dwf] in *. destruct Hw as (Hwa & Hc). split; [exact Hwa|]. intros v l' Hg.
    apply IH; [apply Hc; exact Hg|]. intros x l1 Hm. apply Hk. econstructor; eassumption.
Qed.
End MayAlgebra.

Lemma Forall2_len {A B} (P : A -> B -> Prop) l l' : Forall2 P l l' -> length l = length l'.
Proof. induction 1; cbn [length]; congruence. Qed.

Section Compile.
Variable good_posts : posts -> N -> Prop.
Variable R : list N -> Prop.
Variable Qm : list N -> list N -> Prop.
Local Notation INV := (Inv good_posts).
Local Notation SHOK := (shape_ok R).
Hypothesis R_gather : forall rows pos, R rows -> R (gather 0 rows pos).
Hypothesis Qm_all : forall ts rows, Qm ts rows.
Hypothesis slice_idem : slice_idem_on good_posts R.
Hypothesis phrase_mixed : phrase_mixed_local_on good_posts R Qm.

(* what the invariant says about an array, in terms of its immutable descriptor only *)
Definition desc_ok (arr : sarray) : Prop :=
  good_posts (handle_base (p_handle (a_posns arr))) (p_max_doc_id (a_posns arr)) /\ R (a_rows arr) /\
  match p_handle (a_posns arr) with
  | HBase _ => a_subset arr = false
  | HFiltered _ ids => a_subset arr = true /\ ids = np_unique (a_rows arr)
  end.

Lemma desc_ok_pool p0 a : INV p0 -> SHOK (shape_of p0) -> In a (arrays p0) -> desc_ok (pa_arr a).
Proof.
  intros HI Hs Ha. destruct (array_facts good_posts _ _ HI Ha) as ((Hpid & Hh & Hm & Hsub & Hids & _) & Hgood).
  unfold desc_ok. rewrite Hh, Hm, handle_base_of. split; [exact Hgood|]. split; [eapply shape_ok_in; eassumption|].
  unfold handle_of. destruct (ps_ids (get_ps p0 (pa_pid a))) as [ids|] eqn:Ei; [|exact Hsub].
  split; [exact Hsub|apply Hids; reflexivity].
Qed.

Lemma desc_ok_view arr pos : desc_ok arr -> desc_ok (view_of arr pos).
Proof.
  intros (Hg & HR & _). unfold desc_ok, view_of. cbn [a_posns p_handle p_max_doc_id handle_base a_rows a_subset].
  split; [exact Hg|]. split; [apply R_gather; exact HR|]. split; reflexivity.
Qed.

(* values of the actions of a query program on an array with descriptor arr *)
Definition nosel (a : action) : Prop := match a with ASelect _ _ => False | _ => True end.
Definition good_lv (arr : sarray) (a : action) (v : lval) : Prop :=
  match a with
  | AReadEnc _ t => good_enc arr t v
  | ADocfreq _ t => v = LDf (v_docfreq arr t)
  | ATfCached _ t => v = LTf (tf_answer (handle_base (p_handle (a_posns arr))) t)
  | ASelect _ _ => False
  end.

(* ---- finishing from history-free values (Conc_Gen.v's lemmas, on descriptors) ---- *)
Lemma tf_finish_desc p0 arr t lo hi vs : desc_ok arr ->
  Forall2 (good_lv arr) (pg_actions (prog_tf p0 (on_desc arr) t lo hi)) vs ->
  pg_finish (prog_tf p0 (on_desc arr) t lo hi) vs = RVec (v_termfreqs arr t lo hi).
Proof.
  intros (Hgood & HR & Hh) H. unfold prog_tf, v_termfreqs in *. cbn [on_desc pa_arr pa_pid] in *.
  destruct (negb (known_a arr t)); [reflexivity|].
  destruct (a_subset arr) eqn:Es.
  - cbn [pg_actions pg_finish] in *. destruct (Forall2_one _ _ _ H) as (v & -> & Hv).
    cbn [nth good_lv] in *. unfold good_enc in Hv.
    destruct (p_handle (a_posns arr)) as [b|b ids] eqn:Eh; [discriminate Hh|]. destruct Hh as (_ & ->).
    cbn [handle_base] in *.
    destruct Hv as [-> | ->]; cbn [enc_of]; [|reflexivity].
    cbn [get_enc].
    destruct (lookup_posts t b) as [w| | |] eqn:El; cbn [abind]; try reflexivity.
    destruct (slice_keys w (np_unique (a_rows arr))) as [sl| |] eqn:Esl; cbn [lift abind]; try reflexivity.
    rewrite (slice_idem _ _ _ _ _ _ Hgood HR El Esl). reflexivity.
  - destruct (p_handle (a_posns arr)) as [b|b ids] eqn:Eh; [|destruct Hh as (Hh & _); discriminate Hh].
    cbn [handle_base] in *.
    destruct lo as [lo|]; [|destruct hi as [hi|]]; cbn [pg_actions pg_finish] in *;
      destruct (Forall2_one _ _ _ H) as (v & -> & Hv); cbn [nth good_lv] in *.
    + unfold good_enc in Hv. rewrite Eh in Hv. cbn [get_enc handle_base] in Hv. destruct Hv as [-> | ->]; reflexivity.
    + unfold good_enc in Hv. rewrite Eh in Hv. cbn [get_enc handle_base] in Hv. destruct Hv as [-> | ->]; reflexivity.
    + subst v. unfold tf_answer. rewrite Eh. cbn [get_enc handle_base]. destruct (lookup_posts t b); reflexivity.
Qed.

Lemma good_reads_desc arr pid : forall ts vs, Forall2 (good_lv arr) (map (AReadEnc pid) ts) vs ->
  Forall2 (fun t e => e = lookup_posts t (handle_base (p_handle (a_posns arr))) \/ e = get_enc (p_handle (a_posns arr)) t)
          ts (map enc_of vs).
Proof.
  induction ts as [|t rest IH]; intros vs H; cbn [map] in H; inversion H as [|x y l l' Hv Hrest]; subst; cbn [map].
  - constructor.
  - constructor; [|apply IH; exact Hrest].
    cbn [good_lv] in Hv. destruct Hv as [-> | ->]; [left|right]; reflexivity.
Qed.

Lemma phrase_finish_desc p0 arr ts vs : desc_ok arr ->
  Forall2 (good_lv arr) (pg_actions (prog_phrase p0 (on_desc arr) ts)) vs ->
  pg_finish (prog_phrase p0 (on_desc arr) ts) vs = RVec (v_phrase_freqs arr ts None None).
Proof.
  intros (Hgood & HR & Hh) H. unfold prog_phrase, v_phrase_freqs in *. cbn [on_desc pa_arr pa_pid] in *.
  destruct (negb (forallb (known_a arr) ts)); [reflexivity|].
  destruct (Nat.ltb (length ts) 2) eqn:Elen; [reflexivity|].
  cbn [pg_actions pg_finish] in *. apply good_reads_desc in H. f_equal.
  destruct (p_handle (a_posns arr)) as [b|b ids] eqn:Eh; cbn [handle_base] in *.
  - rewrite Hh. cbn [get_enc] in H.
    assert (E : map enc_of vs = map (get_enc (HBase b)) ts).
    { apply Forall2_eq_map. eapply Forall2_mono; [|exact H]. cbv beta. intros t e [-> | ->]; reflexivity. }
    rewrite E, all_ok_get_all. reflexivity.
  - destruct Hh as (Hsub & ->). rewrite Hsub. apply Nat.ltb_ge in Elen.
    apply (phrase_mixed _ _ _ _ _ Hgood Elen HR (Qm_all _ _) H).
Qed.

Lemma all_ok_dfs arr : forall ts vs, Forall2 (good_lv arr) (map (ADocfreq 0) ts) vs ->
  all_ok (map df_of vs) = v_all_dfs arr ts.
Proof.
  induction ts as [|t rest IH]; intros vs H; cbn [map] in H; inversion H as [|x y l l' Hv Hrest]; subst;
    cbn [map all_ok v_all_dfs]; [reflexivity|].
  cbn [good_lv] in Hv. subst y. cbn [df_of]. rewrite (IH _ Hrest). reflexivity.
Qed.

Lemma score_finish_desc p0 arr ts idf k1 b vs : desc_ok arr ->
  Forall2 (good_lv arr) (pg_actions (prog_score_ts p0 0 (on_desc arr) ts idf k1 b)) vs ->
  pg_finish (prog_score_ts p0 0 (on_desc arr) ts idf k1 b) vs = RBits (v_score_bm25 arr ts idf k1 b).
Proof.
  intros Hd H. unfold prog_score_ts in *. cbn [pg_actions pg_finish] in *.
  apply Forall2_app_inv_l in H. destruct H as (vs1 & vs2 & H1 & H2 & ->).
  assert (Hlen : length vs1 = length ts).
  { rewrite <- (Forall2_len _ _ _ H1), map_length. reflexivity. }
  rewrite <- Hlen, skipn_app, skipn_all, Nat.sub_diag, firstn_app, firstn_all, Nat.sub_diag. cbn [skipn firstn app].
  rewrite app_nil_r. rewrite (all_ok_dfs _ _ _ H1).
  assert (E : pg_finish (match ts with [t] => prog_tf p0 (on_desc arr) t None None | _ => prog_phrase p0 (on_desc arr) ts end) vs2
              = RVec (v_tf_vector arr ts None None)).
  { unfold v_tf_vector. destruct ts as [|t [|t2 rest]].
    - apply phrase_finish_desc; assumption.
    - apply tf_finish_desc; assumption.
    - apply phrase_finish_desc; assumption. }
  rewrite E. cbn [on_desc pa_arr]. unfold v_score_bm25, v_score_args, v_doclengths.
  destruct (v_all_dfs arr ts); cbn [abind]; try reflexivity.
  destruct (v_tf_vector arr ts None None); reflexivity.
Qed.

(* ---- the result of a query on descriptor arr ---- *)
Definition is_sel (q : vquery) : Prop := match q with VQSelect _ _ => True | _ => False end.
Definition query_out (arr : sarray) (q : vquery) : out :=
  match q with
  | VQTf _ t lo hi => RVec (v_termfreqs arr t lo hi)
  | VQPhrase _ ts => RVec (v_phrase_freqs arr ts None None)
  | VQDf _ t => RNum (v_docfreq arr t)
  | VQScore _ ts idf k1 b => RBits (v_score_bm25 arr ts idf k1 b)
  | VQSelect _ _ => RUnit (AOk tt)
  end.

Lemma query_hf_out p0 l q arr : ~ is_sel q -> arr_of p0 l (query_ref q) = Some arr ->
  query_hf p0 l q = (QOut (query_out arr q), l).
Proof. intros Hn Ha. destruct q; cbn [query_ref query_hf query_out is_sel] in *; try rewrite Ha; try reflexivity. contradiction. Qed.

Lemma query_finish p0 arr q vs : desc_ok arr -> ~ is_sel q ->
  Forall2 (good_lv arr) (pg_actions (query_prog p0 arr q)) vs ->
  pg_finish (query_prog p0 arr q) vs = query_out arr q.
Proof.
  intros Hd Hn H. destruct q as [r t lo hi|r ts|r t|r ts idf k1 b|r pos]; cbn [query_prog query_out is_sel] in *.
  - apply tf_finish_desc; assumption.
  - apply phrase_finish_desc; assumption.
  - cbn [prog_df pg_actions pg_finish] in *. destruct (Forall2_one _ _ _ H) as (v & -> & Hv).
    cbn [good_lv] in Hv. subst v. reflexivity.
  - apply score_finish_desc; assumption.
  - contradiction.
Qed.

Definition act_ok (arr : sarray) (a : action) : Prop :=
  nosel a /\ match a with ATfCached _ _ => a_subset arr = false | _ => True end.

Lemma prog_tf_acts p0 arr t lo hi : Forall (act_ok arr) (pg_actions (prog_tf p0 (on_desc arr) t lo hi)).
Proof.
  unfold prog_tf. cbn [on_desc pa_arr pa_pid]. destruct (negb (known_a arr t)); [constructor|].
  destruct (a_subset arr) eqn:Es; [repeat constructor|].
  destruct lo as [lo|]; [|destruct hi as [hi|]]; cbn [pg_actions]; repeat constructor. exact Es.
Qed.
Lemma prog_phrase_acts p0 arr ts : Forall (act_ok arr) (pg_actions (prog_phrase p0 (on_desc arr) ts)).
Proof.
  unfold prog_phrase. cbn [on_desc pa_arr pa_pid]. destruct (negb (forallb (known_a arr) ts)); [constructor|].
  destruct (Nat.ltb (length ts) 2); [constructor|]. cbn [pg_actions].
  apply Forall_forall. intros x Hx. apply in_map_iff in Hx. destruct Hx as (t & <- & _). repeat constructor.
Qed.
Lemma query_prog_acts p0 arr q : ~ is_sel q -> Forall (act_ok arr) (pg_actions (query_prog p0 arr q)).
Proof.
  intro Hn. destruct q as [r t lo hi|r ts|r t|r ts idf k1 b|r pos]; cbn [query_prog is_sel] in *.
  - apply prog_tf_acts.
  - apply prog_phrase_acts.
  - repeat constructor.
  - unfold prog_score_ts. cbn [pg_actions]. apply Forall_app. split.
    + apply Forall_forall. intros x Hx. apply in_map_iff in Hx. destruct Hx as (t & <- & _). repeat constructor.
    + destruct ts as [|t [|t2 rest]]; [apply prog_phrase_acts|apply prog_tf_acts|apply prog_phrase_acts].
  - contradiction.
Qed.

(* ---- a block of actions on one reference ---- *)
Lemma good_reref p0 l r arr a v l1 : arr_of p0 l r = Some arr -> nosel a ->
  good_dval p0 l (reref r a) v l1 -> l1 = l /\ good_lv arr a (lval_of v).
Proof.
  intros Ha Hn H. destruct a as [pid t|ai t|pid t|ai pos]; cbn [reref good_dval good_lv nosel] in *;
    try contradiction; rewrite Ha in H.
  - destruct H as (-> & v0 & -> & Hg). split; [reflexivity|exact Hg].
  - destruct H as (-> & ->). split; reflexivity.
  - destruct H as (-> & ->). split; reflexivity.
Qed.

Lemma dmay_dseq_block p0 r arr : forall acts got l x l2, arr_of p0 l r = Some arr -> Forall nosel acts ->
  dmay p0 l (dseq (map (reref r) acts) got) x l2 ->
  l2 = l /\ exists vs, Forall2 (good_lv arr) acts vs /\ x = rev got ++ vs.
Proof.
  induction acts as [|a rest IH]; intros got l x l2 Ha Hn H; cbn [map dseq] in H.
  - inversion H; subst. split; [reflexivity|]. exists []. split; [constructor|]. rewrite app_nil_r. reflexivity.
  - inversion H as [|l' a' k' v l1 r' l2' Hg Hm]; subst. inversion Hn as [|y ys Hna Hnr]; subst.
    destruct (good_reref _ _ _ _ _ _ _ Ha Hna Hg) as (-> & Hv).
    destruct (IH _ _ _ _ Ha Hnr Hm) as (-> & vs & Hvs & ->).
    split; [reflexivity|]. exists (lval_of v :: vs). split; [constructor; assumption|].
    cbn [rev]. rewrite <- app_assoc. reflexivity.
Qed.

Lemma dwf_dseq_block p0 r arr : forall acts got l, arr_of p0 l r = Some arr -> Forall (act_ok arr) acts ->
  dwf p0 l (dseq (map (reref r) acts) got).
Proof.
  induction acts as [|a rest IH]; intros got l Ha Hn; cbn [map dseq dwf]; [exact I|].
  inversion Hn as [|y ys (Hna & Htf) Hnr]; subst. split.
  - destruct a as [pid t|ai t|pid t|ai pos]; cbn [reref daction_wf nosel] in *; try (rewrite Ha; discriminate).
    exists arr. split; assumption.
  - intros v l' Hg. destruct (good_reref _ _ _ _ _ _ _ Ha Hna Hg) as (-> & _). apply IH; assumption.
Qed.

Lemma act_ok_nosel arr acts : Forall (act_ok arr) acts -> Forall nosel acts.
Proof. apply Forall_impl. intros a (H & _). exact H. Qed.

Lemma dmay_block p0 r arr pg l o l2 : arr_of p0 l r = Some arr -> Forall nosel (pg_actions pg) ->
  dmay p0 l (block r pg) o l2 -> l2 = l /\ exists vs, Forall2 (good_lv arr) (pg_actions pg) vs /\ o = pg_finish pg vs.
Proof.
  intros Ha Hn H. unfold block in H. apply dmay_dbind in H. destruct H as (x & l1 & H1 & H2).
  destruct (dmay_dseq_block _ _ _ _ _ _ _ _ Ha Hn H1) as (-> & vs & Hvs & ->). cbn [rev app] in H2.
  inversion H2; subst. split; [reflexivity|]. exists vs. split; [exact Hvs|reflexivity].
Qed.

Lemma dwf_block p0 r arr pg l : arr_of p0 l r = Some arr -> Forall (act_ok arr) (pg_actions pg) -> dwf p0 l (block r pg).
Proof.
  intros Ha Hn. unfold block. apply dwf_dbind; [eapply dwf_dseq_block; eassumption|]. intros x l1 _. exact I.
Qed.

(* ---- one query ---- *)
Definition lenv_ok (p0 : pool) (l : list sarray) : Prop :=
  (forall a, In a (arrays p0) -> desc_ok (pa_arr a)) /\ Forall desc_ok l.

Lemma arr_of_ok p0 l r arr : lenv_ok p0 l -> arr_of p0 l r = Some arr -> desc_ok arr.
Proof.
  intros (Hp & Hl) H. destruct r as [ai|k]; cbn [arr_of] in H.
  - destruct (nth_error (arrays p0) ai) as [a|] eqn:En; [|discriminate H]. cbn [option_map] in H. inv_pair H.
    apply Hp. eapply nth_error_In; exact En.
  - rewrite Forall_forall in Hl. apply Hl. eapply nth_error_In; exact H.
Qed.

Lemma query_hf_lenv_ok p0 l q : lenv_ok p0 l -> lenv_ok p0 (snd (query_hf p0 l q)).
Proof.
  intro H. destruct q as [r t lo hi|r ts|r t|r ts idf k1 b|r pos]; cbn [query_hf snd]; try exact H.
  destruct (arr_of p0 l r) as [arr|] eqn:Ea; cbn [snd]; [|exact H].
  destruct H as (Hp & Hl). split; [exact Hp|]. apply Forall_app. split; [exact Hl|].
  constructor; [|constructor]. apply desc_ok_view. eapply arr_of_ok; [split; eassumption|exact Ea].
Qed.

Lemma compile_query_may p0 l q x l2 : lenv_ok p0 l -> dmay p0 l (compile_query p0 l q) x l2 ->
  x = query_hf p0 l q /\ l2 = snd x.
Proof.
  intros Hok H. unfold compile_query in H.
  destruct (arr_of p0 l (query_ref q)) as [arr|] eqn:Ea.
  - pose proof (arr_of_ok _ _ _ _ Hok Ea) as Hd.
    assert (Hns : ~ is_sel q -> x = query_hf p0 l q /\ l2 = snd x).
    { intro Hn.
      assert (H' : dmay p0 l (dbind (block (query_ref q) (query_prog p0 arr q)) (fun o => DRet (QOut o, l))) x l2).
      { destruct q; try exact H. exfalso. apply Hn. exact I. }
      apply dmay_dbind in H'. destruct H' as (o & l1 & H1 & H2).
      destruct (dmay_block _ _ _ _ _ _ _ Ea (act_ok_nosel _ _ (query_prog_acts p0 arr q Hn)) H1) as (-> & vs & Hvs & ->).
      inversion H2; subst. rewrite (query_finish _ _ _ _ Hd Hn Hvs), (query_hf_out _ _ _ _ Hn Ea). split; reflexivity. }
    destruct q as [r t lo hi|r ts|r t|r ts idf k1 b|r pos]; try solve [apply Hns; intros []].
    cbn [query_ref] in Ea. cbn [query_hf]. rewrite Ea.
    inversion H as [|l' a' k' v l1 r' l2' Hg Hm]; subst. cbn [good_dval] in Hg. rewrite Ea in Hg.
    destruct Hg as (-> & ->). inversion Hm; subst. split; reflexivity.
  - inversion H; subst.
    destruct q as [r t lo hi|r ts|r t|r ts idf k1 b|r pos]; cbn [query_ref query_hf] in *; rewrite Ea; split; reflexivity.
Qed.

Lemma compile_query_wf p0 l q : dwf p0 l (compile_query p0 l q).
Proof.
  unfold compile_query. destruct (arr_of p0 l (query_ref q)) as [arr|] eqn:Ea; [|exact I].
  assert (Hns : ~ is_sel q -> dwf p0 l (dbind (block (query_ref q) (query_prog p0 arr q)) (fun o => DRet (QOut o, l)))).
  { intro Hn. apply dwf_dbind; [|intros; exact I]. eapply dwf_block; [exact Ea|]. apply query_prog_acts. exact Hn. }
  destruct q as [r t lo hi|r ts|r t|r ts idf k1 b|r pos]; try solve [apply Hns; intros []].
  cbn [query_ref] in Ea. cbn [dwf daction_wf]. split; [rewrite Ea; discriminate|]. intros; exact I.
Qed.

(* ---- whole programs ---- *)
Section Prog.
Context {T : Type}.

Theorem compile_may p0 : forall (qp : qprog T) l r l2, lenv_ok p0 l ->
  dmay p0 l (compile p0 l qp) r l2 -> r = fst (qrun_hf p0 l qp).
Proof.
  induction qp as [o|q k IH]; intros l r l2 Hok H; cbn [compile qrun_hf] in *.
  - inversion H; subst. reflexivity.
  - apply dmay_dbind in H. destruct H as (x & l1 & H1 & H2).
    destruct (compile_query_may _ _ _ _ _ Hok H1) as (-> & ->).
    pose proof (query_hf_lenv_ok p0 l q Hok) as Hok'.
    destruct (query_hf p0 l q) as [v l']. cbn [fst snd] in *. eapply IH; eassumption.
Qed.

Theorem compile_wf p0 : forall (qp : qprog T) l, lenv_ok p0 l -> dwf p0 l (compile p0 l qp).
Proof.
  induction qp as [o|q k IH]; intros l Hok; cbn [compile]; [exact I|].
  apply dwf_dbind; [apply compile_query_wf|]. intros x l1 H1.
  destruct (compile_query_may _ _ _ _ _ Hok H1) as (-> & ->). apply IH. apply query_hf_lenv_ok. exact Hok.
Qed.

Lemma lenv_ok_init p0 : INV p0 -> SHOK (shape_of p0) -> lenv_ok p0 [].
Proof. intros HI Hs. split; [intros a Ha; eapply desc_ok_pool; eassumption|constructor]. Qed.

(* a compiled query program can only return its history-free evaluation *)
Theorem compile_has_answer p0 (qp : qprog T) : INV p0 -> SHOK (shape_of p0) ->
  has_answer p0 (compile p0 [] qp) (qprog_hf p0 qp).
Proof.
  intros HI Hs. pose proof (lenv_ok_init _ HI Hs) as Hok. split; [apply compile_wf; exact Hok|].
  intros r l Hm. unfold qprog_hf. eapply compile_may; eassumption.
Qed.

(* ================= F. query programs under an arbitrary schedule ================= *)
Definition qspawn (p0 : pool) (qp : qprog T) : dthread T := dspawn (compile p0 [] qp).

Lemma compile_all_have_answers p0 (qps : list (qprog T)) : INV p0 -> SHOK (shape_of p0) ->
  Forall2 (has_answer p0) (map (compile p0 []) qps) (map (qprog_hf p0) qps).
Proof. intros HI Hs. induction qps as [|qp rest IH]; cbn [map]; constructor; [apply compile_has_answer; assumption|exact IH]. Qed.

Lemma qspawn_map p0 (qps : list (qprog T)) : map (qspawn p0) qps = map dspawn (map (compile p0 []) qps).
Proof. rewrite map_map. reflexivity. Qed.

(* in EVERY interleaving (any schedule, finished or not) a finished thread holds the history-free evaluation of its
   program on the initial pool; the pool reached satisfies the invariant of Purity_Gen.v *)
Theorem qprog_sched_results p0 (qps : list (qprog T)) sched p' ths' : InvR good_posts R p0 ->
  drun_sched p0 (map (qspawn p0) qps) sched = (p', ths') ->
  (InvR good_posts R p' /\ (exists extra, arrays p' = arrays p0 ++ extra) /\ heap_le p0 p') /\
  forall i qp th r, nth_error qps i = Some qp -> nth_error ths' i = Some th -> dresult th = Some r ->
    r = qprog_hf p0 qp.
Proof.
  intros (HI & Hs) Hrun. rewrite qspawn_map in Hrun.
  pose proof (compile_all_have_answers p0 qps HI Hs) as Ha.
  destruct (dsched_may good_posts R R_gather _ _ _ _ _ HI Hs (has_answer_wf _ _ _ Ha) Hrun) as (I1 & X1 & L1 & _).
  split; [split; [exact I1|split; assumption]|].
  intros i qp th r Hqp Hth Hr.
  apply (dyn_sched_answers good_posts R R_gather _ _ _ _ _ _ HI Hs Ha Hrun i (qprog_hf p0 qp) th r); try assumption.
  rewrite nth_error_map, Hqp. reflexivity.
Qed.

Theorem qprog_all_done_results p0 (qps : list (qprog T)) sched : InvR good_posts R p0 ->
  dall_done (snd (drun_sched p0 (map (qspawn p0) qps) sched)) ->
  dresults (snd (drun_sched p0 (map (qspawn p0) qps) sched)) = map (fun qp => Some (qprog_hf p0 qp)) qps.
Proof.
  intros (HI & Hs) Hd. rewrite qspawn_map in *.
  rewrite (dyn_all_done_results good_posts R R_gather _ _ _ _ HI Hs (compile_all_have_answers p0 qps HI Hs) Hd).
  rewrite map_map. reflexivity.
Qed.

Theorem qprog_schedule_eq_serial p0 (qps : list (qprog T)) s : InvR good_posts R p0 ->
  dall_done (snd (drun_sched p0 (map (qspawn p0) qps) s)) ->
  dresults (snd (drun_sched p0 (map (qspawn p0) qps) s))
  = dresults (snd (drun_sched p0 (map (qspawn p0) qps) (dserial_schedule p0 (map (qspawn p0) qps)))).
Proof.
  intros (HI & Hs) Hd. rewrite qspawn_map in *.
  exact (dyn_schedule_eq_serial good_posts R R_gather _ _ _ _ HI Hs (compile_all_have_answers p0 qps HI Hs) Hd).
Qed.

(* C07: one thread alone.  It returns the history-free evaluation, and leaves a pool that satisfies the invariant
   under which every later operation of the Purity machine is answered history-free *)
Theorem qprog_single_thread p0 (qp : qprog T) o p1 env n : InvR good_posts R p0 ->
  drun_thread p0 [] (compile p0 [] qp) = (o, p1, env, n) ->
  o = qprog_hf p0 qp /\ InvR good_posts R p1 /\ (exists extra, arrays p1 = arrays p0 ++ extra) /\ heap_le p0 p1.
Proof.
  intros HI Hr.
  destruct (drun_repeat 0 (compile p0 [] qp) p0 [] [qspawn p0 qp] o p1 env n eq_refl Hr) as (ths' & Hrun & _ & _ & H0).
  destruct (qprog_sched_results p0 [qp] (repeat 0%nat n) p1 ths' HI Hrun) as ((I1 & X1 & L1) & Hres).
  split; [|split; [exact I1|split; assumption]].
  apply (Hres 0%nat qp _ o eq_refl H0). reflexivity.
Qed.
End Prog.

(* ---- the static query programs of Conc_Proofs.v are instances: [prog_of p0 q], embedded, has the answer [answer_of p0 q];
        so the theorems above (dyn_sched_answers, ...) hold for thread lists that MIX them with compiled dynamic programs ---- *)
Lemma dmay_steps p0 fin : forall todo got l r l2, dmay p0 l (dprog_steps fin todo got) r l2 ->
  exists vs, Forall2 (good_val p0) todo vs /\ r = fin (rev got ++ vs).
Proof.
  induction todo as [|a rest IH]; intros got l r l2 H; cbn [dprog_steps] in H.
  - inversion H; subst. exists []. split; [constructor|]. rewrite app_nil_r. reflexivity.
  - inversion H as [|l' a' k' v l1 r' l2' Hg Hm]; subst. cbn [good_dval] in Hg. destruct Hg as (-> & v0 & -> & Hv).
    destruct (IH _ _ _ _ Hm) as (vs & Hvs & ->). exists (v0 :: vs). split; [constructor; assumption|].
    cbn [lval_of rev]. rewrite <- app_assoc. reflexivity.
Qed.

Lemma dwf_steps p0 fin : forall todo got l, Forall (action_wf p0) todo -> dwf p0 l (dprog_steps fin todo got).
Proof.
  induction todo as [|a rest IH]; intros got l H; cbn [dprog_steps dwf]; [exact I|].
  inversion H as [|y ys Ha Hr]; subst. split; [exact Ha|]. intros v l' (-> & _). apply IH. exact Hr.
Qed.

Theorem static_has_answer p0 q pg r0 : InvR good_posts R p0 -> q_dom Qm (shape_of p0) q ->
  prog_of p0 q = Some pg -> answer_of p0 q = Some r0 -> has_answer p0 (dprog_of_program pg) r0.
Proof.
  intros HI Hd Hpg Hans. split.
  - apply dwf_steps. eapply prog_of_wf; [exact (proj1 HI)|exact Hpg].
  - intros r l Hm. destruct (dmay_steps _ _ _ _ _ _ _ Hm) as (vs & Hvs & ->). cbn [rev app].
    pose proof (prog_of_finish_gen good_posts R Qm p0 q pg vs slice_idem phrase_mixed HI Hd Hpg Hvs) as E.
    rewrite Hans in E. inv_pair E. reflexivity.
Qed.

Lemma has_answer_map {A B} p0 (f : A -> B) (pg : dprog A) r0 : has_answer p0 pg r0 ->
  has_answer p0 (dbind pg (fun x => DRet (f x))) (f r0).
Proof.
  intros (Hw & Ha). split.
  - apply dwf_dbind; [exact Hw|]. intros; exact I.
  - intros r l Hm. apply dmay_dbind in Hm. destruct Hm as (x & l1 & H1 & H2).
    rewrite (Ha x l1 H1) in H2. inversion H2; subst. reflexivity.
Qed.
End Compile.

Print Assumptions drun_sched_embed.
Print Assumptions dserial_schedule_embed.
Print Assumptions dserial_all_done.
Print Assumptions do_daction_ok.
Print Assumptions dsched_may.
Print Assumptions dyn_schedule_eq_serial.
Print Assumptions compile_has_answer.
Print Assumptions static_has_answer.
Print Assumptions qprog_sched_results.
Print Assumptions qprog_all_done_results.
Print Assumptions qprog_schedule_eq_serial.
Print Assumptions qprog_single_thread.
