(* edismax as a DYNAMIC query program (Conc/Conc_Dyn.v), for the general multi-field query of Solr/Edismax.v.
   The program issues its queries in the order of searcharray/solr.py:
     _edismax_term_centric (120-153): for each term position, for each query field: post_arr.score(term)   [q_tc_terms]
     _edismax_field_centric (156-187): for each query field, for each of its terms: post_arr.score(term)   [q_fc_fields]
     edismax (339-341): searchable = {field: frame[field].array[qf_scores > 0] for field in query_fields}  [q_select_all]
         -- one SELECTION per query field, positions computed from the scores obtained so far; the thread keeps the
            references to the views (AView (base + i) for field i)
     pf_phase / pf2_phase / pf3_phase (190-259): for each phrase field, for each shingle:
         searchable[field].score(shingle) ON THE VIEW                                                       [q_run_phase]
   with the pure arithmetic of Solr/Edismax.v in between (the same functions: vmax, vadd, mm gate, scatter_add).
   An exception raised by a query ends the program (no further query is issued), as in Python.
   Each field names an array of the pool by position ([qf_ai]: `frame[field].array`; when the frame was built by
   pd.DataFrame({"f": arr}) this is the copy pandas made, an OCopy of the history).
   [q_edismax_hf]: the history-free evaluation of the program is Solr.Edismax.edismax on the descriptors of the
   arrays of the initial pool, so every theorem about [edismax] (C09, C10) is about what every thread obtains in
   every interleaving (Conc_Dyn_Proofs.qprog_sched_results). *)
From Coq Require Import ZArith QArith List Bool.
From Flocq Require Import IEEE754.BinarySingleNaN IEEE754.Binary IEEE754.Bits.
From SA Require Import Base.Prelude Index.Index Score.BM25 View.View View.Purity Solr.MM Solr.Edismax Conc.Conc Conc.Conc_Dyn.
Import ListNotations.
Open Scope Q_scope.

(* ================= the program ================= *)
Record qfield := { qf_ai : nat; qf_ef : efield }.     (* pool position of frame[field].array; boost, terms, descriptor *)

Definition aerr {A B} (x : api A) : api B :=
  match x with AOk _ => AExc TypeError | AExc e => AExc e | AFault k b i => AFault k b i | AFuel => AFuel end.
(* exceptions propagate: the continuation (and its queries) only runs on success *)
Definition qado {A B} (m : qprog (api A)) (k : A -> qprog (api B)) : qprog (api B) :=
  qbind m (fun x => match x with AOk a => k a | e => QRet (aerr e) end).

Definition bits_of (v : qval) : api (list Z) :=
  match v with QOut (RBits b) => b | QOut (RUnit (AExc e)) => AExc e | _ => AExc TypeError end.
Definition boost_bits (boost : option Z) (bits : list Z) : list Q :=
  let fs := map b32_of_bits bits in
  let fs' := match boost with
             | None => fs
             | Some bb => map (fun x => fmul x (f32_of_f64 (b64_of_bits bb))) fs
             end in
  map Q_of_f32 fs'.

(* post_arr.score(terms) * (1 if boost is None else boost) *)
Definition q_boosted (idf : idf_table) (fi : nat) (r : aref) (boost : option Z) (ts : list N) : qprog (api (list Q)) :=
  QDo (VQScore r ts (idf_lookup idf fi ts) K1_BITS B_BITS)
      (fun v => QRet (ado bits <- bits_of v; AOk (boost_bits boost bits))).

(* ---- _edismax_term_centric ---- *)
Fixpoint q_tc_fields (idf : idf_table) (fi : nat) (fields : list qfield) (posn : nat) (mx sm : list Q)
  : qprog (api (list Q * list Q)) :=
  match fields with
  | [] => QRet (AOk (mx, sm))
  | f :: rest =>
      match nth_error (ef_terms (qf_ef f)) posn with
      | None => QRet (AExc IndexError)
      | Some t =>
          qado (q_boosted idf fi (AGlob (qf_ai f)) (ef_boost (qf_ef f)) [t])
               (fun sc => q_tc_fields idf (S fi) rest posn (vmax mx sc) (vadd sm sc))
      end
  end.
Fixpoint q_tc_terms (idf : idf_table) (fields : list qfield) (n : nat) (tie : Q) (posns : list nat)
  : qprog (api (list (list Q))) :=
  match posns with
  | [] => QRet (AOk [])
  | p :: rest =>
      qado (q_tc_fields idf 0 fields p (qzeros n) (qzeros n)) (fun ms =>
        let '(mx, sm) := ms in
        let term_score := vadd mx (vscale (vadd sm (vscale mx (-1))) tie) in
        qado (q_tc_terms idf fields n tie rest) (fun others => QRet (AOk (term_score :: others))))
  end.
Definition q_term_centric (idf : idf_table) (fields : list qfield) (n num_terms : nat) (mm : mmspec) (tie : Q)
  : qprog (api (list Q)) :=
  qado (q_tc_terms idf fields n tie (seq 0 num_terms)) (fun ts =>
    let msm := mm_f64 (Z.of_nat num_terms) mm in
    let cnt := count_pos ts n in
    QRet (AOk (map (fun p => if (msm <=? Z.of_nat (snd p))%Z then fst p else 0) (combine (vsum ts n) cnt)))).

(* ---- _edismax_field_centric ---- *)
Fixpoint q_fc_term_scores (idf : idf_table) (fi : nat) (r : aref) (ts : list N) : qprog (api (list (list Q))) :=
  match ts with
  | [] => QRet (AOk [])
  | t :: rest =>
      qado (q_boosted idf fi r None [t]) (fun sc =>
        qado (q_fc_term_scores idf fi r rest) (fun rs => QRet (AOk (sc :: rs))))
  end.
Fixpoint q_fc_fields (idf : idf_table) (fi : nat) (fields : list qfield) (n : nat) (mm : mmspec)
  : qprog (api (list (list Q))) :=
  match fields with
  | [] => QRet (AOk [])
  | f :: rest =>
      qado (q_fc_term_scores idf fi (AGlob (qf_ai f)) (ef_terms (qf_ef f))) (fun ts =>
        let nt := length (ef_terms (qf_ef f)) in
        let msm := Z.min (mm_f64 (Z.of_nat nt) mm) (Z.of_nat nt) in
        let cnt := count_pos ts n in
        let summed := map (fun p => if (msm <=? Z.of_nat (snd p))%Z then fst p else 0) (combine (vsum ts n) cnt) in
        let b := match ef_boost (qf_ef f) with None => 1 | Some bb => Q_of_f32 (f32_of_f64 (b64_of_bits bb)) end in
        qado (q_fc_fields idf (S fi) rest n mm) (fun r => QRet (AOk (vscale summed b :: r))))
  end.
Definition q_field_centric (idf : idf_table) (fields : list qfield) (n : nat) (mm : mmspec) (tie : Q)
  : qprog (api (list Q)) :=
  qado (q_fc_fields idf 0 fields n mm) (fun fs =>
    let summed := vsum fs n in
    let mx := vmax_all fs n in
    QRet (AOk (vadd mx (vscale (vadd summed (vscale mx (-1))) tie)))).

(* ---- searchable = {field: frame[field].array[qf_scores > 0]}: one view per query field ---- *)
Fixpoint q_select_all (fields : list qfield) (pos : list N) : qprog (api unit) :=
  match fields with
  | [] => QRet (AOk tt)
  | f :: rest =>
      QDo (VQSelect (AGlob (qf_ai f)) pos) (fun v =>
        match v with
        | QView (AOk _) => q_select_all rest pos
        | QView e => QRet (aerr e)
        | QOut _ => QRet (AExc TypeError)
        end)
  end.

(* ---- phrase phases, on the views ---- *)
Fixpoint q_phase_field (idf : idf_table) (fi : nat) (r : aref) (boost : option Z) (shs : list (list N)) (acc : list Q)
  : qprog (api (list Q)) :=
  match shs with
  | [] => QRet (AOk acc)
  | sh :: rest => qado (q_boosted idf fi r boost sh) (fun sc => q_phase_field idf fi r boost rest (vadd acc sc))
  end.
Definition phase_shingles (kind : nat) (ts : list N) : list (list N) :=
  match kind with
  | 1%nat => if Nat.ltb (length ts) 2 then [] else [ts]
  | 2%nat => shingles2 ts
  | _ => shingles3 ts
  end.
(* base: the number of views the thread already holds; field i's view is its (base + i)-th *)
Fixpoint q_run_phase (idf : idf_table) (fields : list qfield) (base kind : nat) (specs : list phase_spec) (m : nat)
  (acc : option (list Q)) : qprog (api (option (list Q))) :=
  match specs with
  | [] => QRet (AOk acc)
  | sp :: rest =>
      qado (match nth_error fields (ph_field sp) with
            | Some f =>
                match phase_shingles kind (ef_terms (qf_ef f)) with
                | [] => QRet (AOk acc)
                | shs =>
                    qado (q_phase_field idf (ph_field sp) (AView (base + ph_field sp)) (ph_boost sp) shs (qzeros m))
                         (fun sc => QRet (AOk (Some (match acc with None => sc | Some prev => vadd prev sc end))))
                end
            | None => QRet (AExc KeyError)
            end)
           (fun a' => q_run_phase idf fields base kind rest m a')
  end.

Definition equery_of (fields : list qfield) (mm : mmspec) (tie : Q) (pf pf2 pf3 : list phase_spec) : equery :=
  {| eq_fields := map qf_ef fields; eq_mm := mm; eq_tie := tie; eq_pf := pf; eq_pf2 := pf2; eq_pf3 := pf3 |}.

Definition q_edismax (idf : idf_table) (n : nat) (fields : list qfield) (base : nat) (mm : mmspec) (tie : Q)
  (pf pf2 pf3 : list phase_spec) : qprog (api (list Q)) :=
  let efs := map qf_ef fields in
  qado (if is_term_centric efs
        then q_term_centric idf fields n (num_search_terms efs) mm tie
        else q_field_centric idf fields n mm tie) (fun qf =>
    let pos := positions_where 0%N qf in
    qado (q_select_all fields pos) (fun _ =>
      let m := length pos in
      qado (q_run_phase idf fields base 1 pf m None) (fun p1 =>
      qado (q_run_phase idf fields base 2 pf2 m None) (fun p2 =>
      qado (q_run_phase idf fields base 3 pf3 m None) (fun p3 =>
        let add o qf := match o with None => qf | Some sc => scatter_add qf pos sc end in
        QRet (AOk (add p3 (add p2 (add p1 qf))))))))).

(* what the harness runs: edismax(pd.DataFrame({"f": arr}), q, qf=["f"], pf=["f"]) *)
Definition q_edismax_one (idf : idf_table) (n : nat) (ai : nat) (arr : sarray) (terms : list N) (with_pf : bool)
  : qprog (api (list Q)) :=
  q_edismax idf n [{| qf_ai := ai; qf_ef := {| ef_arr := arr; ef_boost := None; ef_terms := terms |} |}] 0
            (Simple (SInt 1)) 0 (if with_pf then [{| ph_field := 0; ph_boost := None |}] else []) [] [].

(* ================= its history-free evaluation ================= *)
Section HF.
Variable p0 : pool.

Lemma qrun_qbind {A B} (m : qprog A) (k : A -> qprog B) : forall l,
  qrun_hf p0 l (qbind m k) = let '(a, l1) := qrun_hf p0 l m in qrun_hf p0 l1 (k a).
Proof.
  induction m as [a|q c IH]; intro l; cbn [qbind qrun_hf]; [reflexivity|].
  destruct (query_hf p0 l q) as [v l']. apply IH.
Qed.

Lemma qrun_qado {A B} (m : qprog (api A)) (k : A -> qprog (api B)) l x l1 : qrun_hf p0 l m = (x, l1) ->
  qrun_hf p0 l (qado m k) = match x with AOk a => qrun_hf p0 l1 (k a) | e => (aerr e, l1) end.
Proof. intro H. unfold qado. rewrite qrun_qbind, H. destruct x; reflexivity. Qed.

Lemma abind_aerr {A B} (x : api A) (f : A -> api B) : abind x f = match x with AOk a => f a | e => aerr e end.
Proof. destruct x; reflexivity. Qed.

(* the fields name arrays of the initial pool, by position *)
Definition fields_at (fields : list qfield) : Prop :=
  Forall (fun f => option_map pa_arr (nth_error (arrays p0) (qf_ai f)) = Some (ef_arr (qf_ef f))) fields.

Lemma q_boosted_hf idf fi r boost ts l arr : arr_of p0 l r = Some arr ->
  qrun_hf p0 l (q_boosted idf fi r boost ts) = (boosted_scores idf fi arr boost ts, l).
Proof. intro H. unfold q_boosted. cbn [qrun_hf query_hf]. rewrite H. reflexivity. Qed.

Lemma arr_of_glob f l : option_map pa_arr (nth_error (arrays p0) (qf_ai f)) = Some (ef_arr (qf_ef f)) ->
  arr_of p0 l (AGlob (qf_ai f)) = Some (ef_arr (qf_ef f)).
Proof. intro H. exact H. Qed.

(* ---- term-centric ---- *)
Lemma q_tc_fields_hf idf posn l : forall fields fi mx sm, fields_at fields ->
  qrun_hf p0 l (q_tc_fields idf fi fields posn mx sm) = (tc_fields idf fi (map qf_ef fields) posn mx sm, l).
Proof.
  induction fields as [|f rest IH]; intros fi mx sm Hf; cbn [q_tc_fields map tc_fields]; [reflexivity|].
  inversion Hf as [|x xs Hx Hxs]; subst.
  destruct (nth_error (ef_terms (qf_ef f)) posn) as [t|]; [|reflexivity].
  rewrite (qrun_qado _ _ _ _ _ (q_boosted_hf idf fi _ _ _ l _ (arr_of_glob f l Hx))), abind_aerr.
  destruct (boosted_scores idf fi (ef_arr (qf_ef f)) (ef_boost (qf_ef f)) [t]); try reflexivity. apply IH. exact Hxs.
Qed.

Lemma q_tc_terms_hf idf fields n tie l : fields_at fields -> forall posns,
  qrun_hf p0 l (q_tc_terms idf fields n tie posns) = (tc_terms idf (map qf_ef fields) n tie posns, l).
Proof.
  intros Hf. induction posns as [|p rest IH]; cbn [q_tc_terms tc_terms]; [reflexivity|].
  rewrite (qrun_qado _ _ _ _ _ (q_tc_fields_hf idf p l fields 0%nat _ _ Hf)), abind_aerr.
  destruct (tc_fields idf 0 (map qf_ef fields) p (qzeros n) (qzeros n)) as [[mx sm]| | |]; try reflexivity.
  rewrite (qrun_qado _ _ _ _ _ IH), abind_aerr.
  destruct (tc_terms idf (map qf_ef fields) n tie rest); reflexivity.
Qed.

Lemma q_term_centric_hf idf fields n nt mm tie l : fields_at fields ->
  qrun_hf p0 l (q_term_centric idf fields n nt mm tie) = (term_centric idf (map qf_ef fields) n nt mm tie, l).
Proof.
  intro Hf. unfold q_term_centric, term_centric.
  rewrite (qrun_qado _ _ _ _ _ (q_tc_terms_hf idf fields n tie l Hf _)), abind_aerr.
  destruct (tc_terms idf (map qf_ef fields) n tie (seq 0 nt)); reflexivity.
Qed.

(* ---- field-centric ---- *)
Lemma q_fc_term_scores_hf idf fi r arr l : arr_of p0 l r = Some arr -> forall ts,
  qrun_hf p0 l (q_fc_term_scores idf fi r ts) = (fc_term_scores idf fi arr ts, l).
Proof.
  intro Ha. induction ts as [|t rest IH]; cbn [q_fc_term_scores fc_term_scores]; [reflexivity|].
  rewrite (qrun_qado _ _ _ _ _ (q_boosted_hf idf fi _ _ _ l _ Ha)), abind_aerr.
  destruct (boosted_scores idf fi arr None [t]); try reflexivity.
  rewrite (qrun_qado _ _ _ _ _ IH), abind_aerr. destruct (fc_term_scores idf fi arr rest); reflexivity.
Qed.

Lemma q_fc_fields_hf idf n mm l : forall fields fi, fields_at fields ->
  qrun_hf p0 l (q_fc_fields idf fi fields n mm) = (fc_fields idf fi (map qf_ef fields) n mm, l).
Proof.
  induction fields as [|f rest IH]; intros fi Hf; cbn [q_fc_fields map fc_fields]; [reflexivity|].
  inversion Hf as [|x xs Hx Hxs]; subst.
  rewrite (qrun_qado _ _ _ _ _ (q_fc_term_scores_hf idf fi _ _ l (arr_of_glob f l Hx) _)), abind_aerr.
  destruct (fc_term_scores idf fi (ef_arr (qf_ef f)) (ef_terms (qf_ef f))); try reflexivity.
  cbv zeta. rewrite (qrun_qado _ _ _ _ _ (IH (S fi) Hxs)), abind_aerr.
  destruct (fc_fields idf (S fi) (map qf_ef rest) n mm); reflexivity.
Qed.

Lemma q_field_centric_hf idf fields n mm tie l : fields_at fields ->
  qrun_hf p0 l (q_field_centric idf fields n mm tie) = (field_centric idf (map qf_ef fields) n mm tie, l).
Proof.
  intro Hf. unfold q_field_centric, field_centric.
  rewrite (qrun_qado _ _ _ _ _ (q_fc_fields_hf idf n mm l fields 0%nat Hf)), abind_aerr.
  destruct (fc_fields idf 0 (map qf_ef fields) n mm); reflexivity.
Qed.

(* ---- the selections ---- *)
Definition views_of (fields : list qfield) (pos : list N) : list sarray :=
  map (fun f => view_of (ef_arr (qf_ef f)) pos) fields.

Lemma q_select_all_hf pos : forall fields l, fields_at fields ->
  qrun_hf p0 l (q_select_all fields pos) = (AOk tt, l ++ views_of fields pos).
Proof.
  induction fields as [|f rest IH]; intros l Hf; cbn [q_select_all views_of map qrun_hf].
  - rewrite app_nil_r. reflexivity.
  - inversion Hf as [|x xs Hx Hxs]; subst. cbn [query_hf]. rewrite (arr_of_glob f l Hx).
    rewrite (IH _ Hxs). unfold views_of. rewrite <- app_assoc. reflexivity.
Qed.

Lemma select_view_of a pos : a_avoid_copies a = true -> select a pos = AOk (view_of a pos).
Proof. intro H. unfold select, view_of, handle_base. rewrite H. reflexivity. Qed.

Lemma select_all_views pos : forall fields, Forall (fun f => a_avoid_copies (ef_arr (qf_ef f)) = true) fields ->
  select_all (map qf_ef fields) pos = AOk (views_of fields pos).
Proof.
  induction fields as [|f rest IH]; intro H; cbn [map select_all views_of]; [reflexivity|].
  inversion H as [|x xs Hx Hxs]; subst. rewrite (select_view_of _ pos Hx). cbn [abind].
  rewrite (IH Hxs). reflexivity.
Qed.

(* ---- the phases ---- *)
Lemma q_phase_field_hf idf fi r boost arr l : arr_of p0 l r = Some arr -> forall shs acc,
  qrun_hf p0 l (q_phase_field idf fi r boost shs acc)
  = (fold_left (fun acc sh => ado a <- acc; ado sc <- boosted_scores idf fi arr boost sh; AOk (vadd a sc)) shs (AOk acc), l).
Proof.
  intro Ha. induction shs as [|sh rest IH]; intro acc; cbn [q_phase_field fold_left]; [reflexivity|].
  rewrite (qrun_qado _ _ _ _ _ (q_boosted_hf idf fi _ _ _ l _ Ha)). cbn [abind].
  destruct (boosted_scores idf fi arr boost sh) as [sc|e|k b i|]; cbn [abind].
  - apply IH.
  - f_equal. clear. induction rest as [|s rest IH]; cbn [fold_left aerr abind]; [reflexivity|exact IH].
  - f_equal. clear. induction rest as [|s rest IH]; cbn [fold_left aerr abind]; [reflexivity|exact IH].
  - f_equal. clear. induction rest as [|s rest IH]; cbn [fold_left aerr abind]; [reflexivity|exact IH].
Qed.

Section Phase.
Variables (idf : idf_table) (fields : list qfield) (pos : list N) (kind m : nat) (l0 : list sarray).
Let l := l0 ++ views_of fields pos.
Let G := (fun acc sp =>
               ado a <- acc;
               match nth_error (map qf_ef fields) (ph_field sp), nth_error (views_of fields pos) (ph_field sp) with
               | Some f, Some v =>
                   let ts := ef_terms f in
                   let shs := match kind with
                              | 1%nat => if Nat.ltb (length ts) 2 then [] else [ts]
                              | 2%nat => shingles2 ts
                              | _ => shingles3 ts
                              end in
                   match shs with
                   | [] => AOk a
                   | _ =>
                       ado sc <- phase_field idf (ph_field sp) v (ph_boost sp) shs m;
                       AOk (Some (match a with None => sc | Some prev => vadd prev sc end))
                   end
               | _, _ => AExc KeyError
               end).

Lemma G_err : forall specs (e : api (option (list Q))), (forall a, e <> AOk a) -> fold_left G specs e = e.
Proof.
  induction specs as [|sp rest IH]; intros e He; cbn [fold_left]; [reflexivity|].
  assert (E : G e sp = e) by (unfold G; destruct e as [a| | |]; [exfalso; exact (He a eq_refl)| | |]; reflexivity).
  rewrite E. apply IH. exact He.
Qed.

Lemma q_run_phase_hf : forall specs acc,
  qrun_hf p0 l (q_run_phase idf fields (length l0) kind specs m acc) = (fold_left G specs (AOk acc), l).
Proof.
  induction specs as [|sp rest IH]; intro acc; cbn [q_run_phase fold_left]; [reflexivity|].
  assert (Hstep : qrun_hf p0 l
            (match nth_error fields (ph_field sp) with
             | Some f =>
                 match phase_shingles kind (ef_terms (qf_ef f)) with
                 | [] => QRet (AOk acc)
                 | shs =>
                     qado (q_phase_field idf (ph_field sp) (AView (length l0 + ph_field sp)) (ph_boost sp) shs (qzeros m))
                          (fun sc => QRet (AOk (Some (match acc with None => sc | Some prev => vadd prev sc end))))
                 end
             | None => QRet (AExc KeyError)
             end) = (G (AOk acc) sp, l)).
  { unfold G. cbn [abind]. unfold views_of at 1. rewrite !nth_error_map.
    destruct (nth_error fields (ph_field sp)) as [f|] eqn:En; cbn [option_map]; [|reflexivity].
    cbv zeta. change (match kind with
                      | 1%nat => if Nat.ltb (length (ef_terms (qf_ef f))) 2 then [] else [ef_terms (qf_ef f)]
                      | 2%nat => shingles2 (ef_terms (qf_ef f))
                      | _ => shingles3 (ef_terms (qf_ef f))
                      end) with (phase_shingles kind (ef_terms (qf_ef f))).
    destruct (phase_shingles kind (ef_terms (qf_ef f))) as [|sh shs] eqn:Esh; [reflexivity|].
    assert (Ha : arr_of p0 l (AView (length l0 + ph_field sp)) = Some (view_of (ef_arr (qf_ef f)) pos)).
    { cbn [arr_of]. unfold l. rewrite nth_error_app2 by lia.
      replace (length l0 + ph_field sp - length l0)%nat with (ph_field sp) by lia.
      unfold views_of. rewrite nth_error_map, En. reflexivity. }
    rewrite (qrun_qado _ _ _ _ _ (q_phase_field_hf idf (ph_field sp) _ (ph_boost sp) _ l Ha (sh :: shs) (qzeros m))).
    unfold phase_field. rewrite abind_aerr.
    destruct (fold_left _ (sh :: shs) (AOk (qzeros m))); reflexivity. }
  rewrite (qrun_qado _ _ _ _ _ Hstep).
  destruct (G (AOk acc) sp) as [a'|e|k b i|] eqn:EG; [apply IH| | |];
    (rewrite G_err by (intros a Ha; discriminate Ha)); reflexivity.
Qed.
End Phase.

(* ---- edismax ---- *)
Theorem q_edismax_run_hf idf n fields mm tie pf pf2 pf3 l0 : fields_at fields ->
  Forall (fun f => a_avoid_copies (ef_arr (qf_ef f)) = true) fields ->
  fst (qrun_hf p0 l0 (q_edismax idf n fields (length l0) mm tie pf pf2 pf3))
  = edismax idf n (equery_of fields mm tie pf pf2 pf3).
Proof.
  intros Hf Hav. unfold q_edismax, edismax, equery_of.
  cbn [eq_fields eq_mm eq_tie eq_pf eq_pf2 eq_pf3]. cbv zeta.
  set (QF := if is_term_centric (map qf_ef fields)
             then term_centric idf (map qf_ef fields) n (num_search_terms (map qf_ef fields)) mm tie
             else field_centric idf (map qf_ef fields) n mm tie).
  assert (Hqf : qrun_hf p0 l0 (if is_term_centric (map qf_ef fields)
                               then q_term_centric idf fields n (num_search_terms (map qf_ef fields)) mm tie
                               else q_field_centric idf fields n mm tie) = (QF, l0)).
  { unfold QF. destruct (is_term_centric (map qf_ef fields)); [apply q_term_centric_hf|apply q_field_centric_hf]; exact Hf. }
  rewrite (qrun_qado _ _ _ _ _ Hqf), abind_aerr.
  destruct QF as [qf| | |]; try reflexivity.
  set (pos := positions_where 0%N qf).
  rewrite (qrun_qado _ _ _ _ _ (q_select_all_hf pos fields l0 Hf)).
  rewrite (select_all_views pos fields Hav). cbn [abind].
  unfold run_phase.
  rewrite (qrun_qado _ _ _ _ _ (q_run_phase_hf idf fields pos 1 (length pos) l0 pf None)), abind_aerr.
  destruct (fold_left _ pf (AOk None)) as [p1| | |]; try reflexivity.
  rewrite (qrun_qado _ _ _ _ _ (q_run_phase_hf idf fields pos 2 (length pos) l0 pf2 None)), abind_aerr.
  destruct (fold_left _ pf2 (AOk None)) as [p2| | |]; try reflexivity.
  rewrite (qrun_qado _ _ _ _ _ (q_run_phase_hf idf fields pos 3 (length pos) l0 pf3 None)), abind_aerr.
  destruct (fold_left _ pf3 (AOk None)) as [p3| | |]; reflexivity.
Qed.

(* the history-free evaluation of the edismax program IS Solr.Edismax.edismax on the arrays of the initial pool *)
Corollary q_edismax_hf idf n fields mm tie pf pf2 pf3 : fields_at fields ->
  Forall (fun f => a_avoid_copies (ef_arr (qf_ef f)) = true) fields ->
  qprog_hf p0 (q_edismax idf n fields 0 mm tie pf pf2 pf3) = edismax idf n (equery_of fields mm tie pf pf2 pf3).
Proof. intros Hf Hav. exact (q_edismax_run_hf idf n fields mm tie pf pf2 pf3 [] Hf Hav). Qed.
End HF.

Print Assumptions q_edismax_hf.
