(* C08, the remaining settings of SearchArray.index: cache_gt_than, autowarm, avoid_copies, data_dir.
   None of them changes any answer.  Everything here is a corollary of developments made for other properties:

   1. cache_gt_than / autowarm  (View/Purity.v: the cache-aware query-time machine; C07)
        [machine_is_cache_free]      the outputs of ANY operation history on the machine started with ANY threshold are
                                     those of [hf_run]: a reference evaluator with no heap, no cache and no threshold at
                                     all, which only carries the immutable descriptors of the arrays (View/View.v)
        [cache_threshold_and_warming_irrelevant]   hence two thresholds, with or without warm(), answer alike
   2. avoid_copies  (View/View.v select: FilteredPosns wrapper vs physical slice; C06)
        [chain_answers_agree]        any chain of selections, both flags, (and two batch sizes) : same answers
   3. data_dir  (Store/Store_View.v; C18)
        [data_dir_irrelevant]        what is read back from the directory is the in-memory postings table, and an array
                                     (or view) loaded from it is the array built without a directory
   4. [settings_irrelevant]          batch size x threshold x autowarm on histories; batch size x avoid_copies x data_dir
                                     on selection chains.  *)
From Coq Require Import ZArith.
From SA Require Import Base.Prelude Kernels.Spec Kernels.Linear Codec.Codec Index.Index Index.Index_Spec Index.Index_Proofs3
  Query.Phrase Query.Range Score.BM25 View.View View.View_Spec View.View_Proofs View.View_Phrase View.View_Phrase2
  View.View_Phrase3 View.View_Phrase4 View.Purity View.Purity_Proofs View.Purity_Gen View.Purity_Indexed View.Purity_Indexed2
  Conc.Conc_Dyn Conc.Conc_Dyn_Proofs Store.Store Store.Store_Proofs Store.Store_View Store.Store_View_Proofs Store.Settings.
Open Scope N_scope.

Ltac inv_pair H := inversion H; subst; clear H.

(* ================================================================================================================
   1. cache thresholds and warming
   ================================================================================================================ *)

Lemma descs_nth p ai : nth_error (descs p) ai = option_map pa_arr (nth_error (arrays p) ai).
Proof. unfold descs. apply nth_error_map. Qed.

(* ---- one step of the machine is one step of the reference evaluator on the descriptors, whenever the step is pure ---- *)
Lemma step_hf good p o r p' : Inv good p -> (forall r0, pure_answer p o = Some r0 -> r = r0) ->
  step p o = (r, p') -> (r, descs p') = hf_step (descs p) o.
Proof.
  intros HI Hpure H. pose proof HI as (Hst & Har).
  destruct o as [ai t lo hi|ai ts lo hi|ai t|ai t|ai|ai ts idf k1 b|ai pos|ai|ai];
    unfold step, with_array, hf_step in *; cbv beta iota zeta in *; rewrite descs_nth;
    unfold pure_answer in Hpure; cbv beta iota zeta in Hpure;
    destruct (nth_error (arrays p) ai) as [a|] eqn:En; cbn [option_map] in *;
    try (inv_pair H; reflexivity).
  - destruct (m_termfreqs p a t lo hi) as [v p1] eqn:E. inv_pair H.
    destruct (m_termfreqs_pure good _ _ _ _ _ _ _ HI (nth_error_In _ _ En) E) as ((_ & A & _) & _).
    rewrite (Hpure _ eq_refl). unfold descs. rewrite A. reflexivity.
  - destruct (m_phrase p a ts lo hi) as [v p1] eqn:E. inv_pair H.
    destruct (m_phrase_pure good _ _ _ _ _ _ _ HI (nth_error_In _ _ En) E) as ((_ & A & _) & _).
    rewrite (Hpure _ eq_refl). unfold descs. rewrite A. reflexivity.
  - destruct (m_positions p a t) as [v p1] eqn:E. inv_pair H.
    destruct (m_positions_pure good _ _ _ _ _ HI (nth_error_In _ _ En) E) as ((_ & A & _) & _).
    rewrite (Hpure _ eq_refl). unfold descs. rewrite A. reflexivity.
  - destruct (m_docfreq p a t) as [v p1] eqn:E. inv_pair H.
    destruct (m_docfreq_pure good _ _ _ _ _ HI (nth_error_In _ _ En) E) as ((_ & A & _) & _).
    rewrite (Hpure _ eq_refl). unfold descs. rewrite A. reflexivity.
  - destruct (m_score p a ts idf k1 b) as [v p1] eqn:E. inv_pair H.
    destruct (m_score_pure good _ _ _ _ _ _ _ _ HI (nth_error_In _ _ En) E) as ((_ & A & _) & _).
    rewrite (Hpure _ eq_refl). unfold descs. rewrite A. reflexivity.
  - (* selection: the new descriptor is view_of the parent's, whatever the heap holds *)
    rewrite m_select_eq, En in H. cbv zeta in H. inv_pair H.
    unfold descs. cbn [arrays]. try rewrite arrays_put_ps. rewrite map_app. cbn [map pa_arr].
    rewrite (sel_arr_view_of _ _ pos (Har a (nth_error_In _ _ En))). reflexivity.
  - rewrite m_select_eq, En in H. inv_pair H. reflexivity.
  - unfold m_copy in H. rewrite En in H. inv_pair H. unfold descs. cbn [arrays]. rewrite map_app. reflexivity.
  - unfold m_copy in H. rewrite En in H. inv_pair H. reflexivity.
  - unfold m_warm in H. rewrite En in H. destruct (a_subset (pa_arr a)); inv_pair H; reflexivity.
  - unfold m_warm in H. rewrite En in H. inv_pair H. reflexivity.
Qed.

Section Indexed.
Variable docs : list (list N).
Hypothesis Hne : docs <> [].
Local Notation INVR := (InvR (good_posts_of docs) (rows_in docs)).

Lemma any_op_dom p o : INVR p -> op_dom (rows_in docs) any_phrase (shape_of p) o.
Proof. intros (_ & Hsh). apply sel_okb_dom. apply sel_okb_nonempty; assumption. Qed.

(* every history, from every pool satisfying the invariant: the machine's outputs are the reference evaluator's *)
Lemma run_hf ops : forall p outs p', INVR p -> run p ops = (outs, p') -> outs = hf_run (descs p) ops.
Proof.
  induction ops as [|o rest IH]; intros p outs p' HI H.
  - inv_pair H. reflexivity.
  - rewrite run_cons in H. inv_pair H.
    destruct (step p o) as [r1 p1] eqn:Es. cbn [fst snd].
    destruct (step_pure_gen _ _ _ (slice_idem_on_indexed docs) (phrase_local_on_indexed2 docs) _ _ _ _ HI (any_op_dom p o HI) Es)
      as (I1 & A1 & _).
    pose proof (step_hf _ _ _ _ _ (proj1 HI) A1 Es) as Eh.
    destruct (run p1 rest) as [outs1 p2] eqn:Er. cbn [fst snd hf_run].
    rewrite <- Eh. cbn [fst snd]. f_equal. exact (IH _ _ _ I1 Er).
Qed.
End Indexed.

(* ---- the machine started on a fresh index, ANY threshold: its outputs are those of the cache-free evaluator ---- *)
Theorem machine_is_cache_free docs bs ix cg ops :
  wf_docs docs -> docs <> [] -> index false bs docs = AOk ix ->
  fst (run (init_pool ix cg) ops) = hf_run [of_index ix true] ops.
Proof.
  intros Hwf Hne E. destruct (run (init_pool ix cg) ops) as [outs p'] eqn:Er. cbn [fst].
  exact (run_hf docs Hne ops _ _ _ (indexed_init_inv docs bs ix cg Hwf E) Er).
Qed.

Lemma fresh_pool_ok docs bs ix cg w : wf_docs docs -> docs <> [] -> index false bs docs = AOk ix ->
  InvR (good_posts_of docs) (rows_in docs) (fresh_pool ix cg w) /\ descs (fresh_pool ix cg w) = [of_index ix true].
Proof.
  intros Hwf Hne E. pose proof (indexed_init_inv docs bs ix cg Hwf E) as HI. unfold fresh_pool.
  destruct w; [|split; [exact HI|reflexivity]].
  destruct (step (init_pool ix cg) (OWarm 0)) as [r p1] eqn:Es. cbn [snd].
  destruct (step_pure_gen _ _ _ (slice_idem_on_indexed docs) (phrase_local_on_indexed2 docs) _ _ _ _ HI
              (any_op_dom docs Hne _ (OWarm 0) HI) Es) as (I1 & A1 & _).
  split; [exact I1|]. pose proof (step_hf _ _ _ _ _ (proj1 HI) A1 Es) as Eh.
  inversion Eh as [[H0 H1]]. rewrite H1. reflexivity.
Qed.

Theorem fresh_pool_is_cache_free docs bs ix cg w ops :
  wf_docs docs -> docs <> [] -> index false bs docs = AOk ix ->
  fst (run (fresh_pool ix cg w) ops) = hf_run [of_index ix true] ops.
Proof.
  intros Hwf Hne E. destruct (fresh_pool_ok docs bs ix cg w Hwf Hne E) as (HI & Ed).
  destruct (run (fresh_pool ix cg w) ops) as [outs p'] eqn:Er. cbn [fst].
  rewrite <- Ed. exact (run_hf docs Hne ops _ _ _ HI Er).
Qed.

(* C08: two thresholds, with or without autowarm: every operation history is answered alike, output by output *)
Theorem cache_threshold_and_warming_irrelevant docs bs ix cg1 cg2 w1 w2 ops :
  wf_docs docs -> docs <> [] -> index false bs docs = AOk ix ->
  fst (run (fresh_pool ix cg1 w1) ops) = fst (run (fresh_pool ix cg2 w2) ops).
Proof.
  intros Hwf Hne E.
  rewrite (fresh_pool_is_cache_free docs bs ix cg1 w1 ops Hwf Hne E), (fresh_pool_is_cache_free docs bs ix cg2 w2 ops Hwf Hne E).
  reflexivity.
Qed.

(* the same with warm() written as the first operation of the history ([autowarm_ops]; [skipn] drops its own output) *)
Lemma run_autowarm ix cg w ops :
  skipn (length (autowarm_ops w)) (fst (run (init_pool ix cg) (autowarm_ops w ++ ops))) = fst (run (fresh_pool ix cg w) ops).
Proof.
  unfold autowarm_ops, fresh_pool. destruct w; [|reflexivity]. cbn [app length]. rewrite run_cons. reflexivity.
Qed.

Theorem cache_threshold_and_warming_irrelevant_ops docs bs ix cg1 cg2 w1 w2 ops :
  wf_docs docs -> docs <> [] -> index false bs docs = AOk ix ->
  skipn (length (autowarm_ops w1)) (fst (run (init_pool ix cg1) (autowarm_ops w1 ++ ops))) =
  skipn (length (autowarm_ops w2)) (fst (run (init_pool ix cg2) (autowarm_ops w2 ++ ops))).
Proof.
  intros Hwf Hne E. rewrite !run_autowarm. exact (cache_threshold_and_warming_irrelevant docs bs ix cg1 cg2 w1 w2 ops Hwf Hne E).
Qed.

(* ================================================================================================================
   the reference evaluator on two tables that agree term by term (two batch sizes)
   ================================================================================================================ *)
Lemma Forall2_nth_error_cases {A B} (P : A -> B -> Prop) l1 l2 : Forall2 P l1 l2 -> forall i,
  match nth_error l1 i, nth_error l2 i with Some a, Some b => P a b | None, None => True | _, _ => False end.
Proof.
  induction 1 as [|a b l1 l2 Hab _ IH]; intros [|i]; cbn [nth_error]; [exact I|exact I|exact Hab|apply IH].
Qed.

Lemma view_of_same_view a b pos : same_view a b -> same_view (view_of a pos) (view_of b pos).
Proof.
  intros (Ht & Hr & Hs & Hl & Htot & Hn & Hav & Hm & Hi & Hb & Hd).
  unfold same_view, view_of.
  cbn [a_terms a_rows a_subset a_lens a_total a_n a_avoid_copies a_posns p_max_doc_id p_handle p_df_root handle_ids Store_View.handle_base].
  rewrite Ht, Hr, Hl, Htot, Hn, Hm. repeat split; try reflexivity; [exact Hb|exact Hd].
Qed.

Lemma hf_step_same l1 l2 o : Forall2 same_view l1 l2 ->
  fst (hf_step l2 o) = fst (hf_step l1 o) /\ Forall2 same_view (snd (hf_step l1 o)) (snd (hf_step l2 o)).
Proof.
  intro HF.
  assert (Hq : forall ai, match nth_error l1 ai, nth_error l2 ai with
                          | Some a, Some b => same_view a b /\ same_view_answers a b | None, None => True | _, _ => False end).
  { intro ai. pose proof (Forall2_nth_error_cases _ _ _ HF ai) as H.
    destruct (nth_error l1 ai), (nth_error l2 ai); try exact H. split; [exact H|apply same_view_same_answers; exact H]. }
  destruct o as [ai t lo hi|ai ts lo hi|ai t|ai t|ai|ai ts idf k1 b|ai pos|ai|ai]; unfold hf_step; cbv beta iota zeta;
    specialize (Hq ai); destruct (nth_error l1 ai) as [a1|], (nth_error l2 ai) as [a2|]; try contradiction; cbn [fst snd];
    try (split; [reflexivity|exact HF]);
    destruct Hq as (Hsv & Htf & Hdf & Hpos & Hph & Hsa & Hsc & Hlen & _).
  - rewrite Htf. split; [reflexivity|exact HF].
  - rewrite Hph. split; [reflexivity|exact HF].
  - rewrite Hpos. split; [reflexivity|exact HF].
  - rewrite Hdf. split; [reflexivity|exact HF].
  - rewrite Hlen. split; [reflexivity|exact HF].
  - rewrite Hsc. split; [reflexivity|exact HF].
  - split; [reflexivity|]. apply Forall2_app; [exact HF|]. constructor; [apply view_of_same_view; exact Hsv|constructor].
  - split; [reflexivity|]. apply Forall2_app; [exact HF|]. constructor; [exact Hsv|constructor].
Qed.

Lemma hf_run_same ops : forall l1 l2, Forall2 same_view l1 l2 -> hf_run l2 ops = hf_run l1 ops.
Proof.
  induction ops as [|o rest IH]; intros l1 l2 HF; [reflexivity|]. cbn [hf_run].
  destruct (hf_step_same l1 l2 o HF) as (E1 & F1). rewrite E1. f_equal. apply IH. exact F1.
Qed.

(* two batch sizes: the two fresh arrays agree on every field but the postings tables, which agree term by term *)
Lemma of_index_same_view docs bs1 bs2 ix1 ix2 avoid : wf_docs docs ->
  index false bs1 docs = AOk ix1 -> index false bs2 docs = AOk ix2 -> same_view (of_index ix1 avoid) (of_index ix2 avoid).
Proof.
  intros Hwf E1 E2. destruct (batch_size_irrelevant docs bs1 bs2 ix1 ix2 Hwf E1 E2) as (Hp & Hl & Ht).
  unfold same_view, of_index, total_len, n_docs.
  cbn [a_terms a_rows a_subset a_lens a_total a_n a_avoid_copies a_posns p_max_doc_id p_handle p_df_root handle_ids Store_View.handle_base].
  rewrite Hl, Ht. repeat split; try reflexivity; intro t; apply Hp.
Qed.

(* the flag itself is read by no query *)
Lemma all_dfs_ext a b : (forall t, v_docfreq b t = v_docfreq a t) -> forall ts, v_all_dfs b ts = v_all_dfs a ts.
Proof. intros H ts. induction ts as [|t ts IH]; [reflexivity|]. cbn [v_all_dfs]. rewrite H, IH. reflexivity. Qed.

Lemma flag_answers ix av1 av2 : same_view_answers (of_index ix av1) (of_index ix av2).
Proof.
  assert (Hdf : forall t, v_docfreq (of_index ix av2) t = v_docfreq (of_index ix av1) t) by (intro t; destruct av1, av2; reflexivity).
  assert (Hsa : forall ts lo hi, v_score_args (of_index ix av2) ts lo hi = v_score_args (of_index ix av1) ts lo hi).
  { intros ts lo hi. unfold v_score_args. rewrite (all_dfs_ext _ _ Hdf ts). destruct av1, av2; reflexivity. }
  unfold same_view_answers.
  split; [intros; destruct av1, av2; reflexivity|]. split; [exact Hdf|].
  split; [intros; destruct av1, av2; reflexivity|]. split; [intros; destruct av1, av2; reflexivity|].
  split; [exact Hsa|].
  split; [intros ts idf k1 b; unfold v_score_bm25; rewrite Hsa; reflexivity|].
  repeat split; destruct av1, av2; reflexivity.
Qed.

Lemma sva_trans a b c : same_view_answers a b -> same_view_answers b c -> same_view_answers a c.
Proof.
  intros (A1 & A2 & A3 & A4 & A5 & A6 & A7 & A8 & A9 & A10 & A11 & A12) (B1 & B2 & B3 & B4 & B5 & B6 & B7 & B8 & B9 & B10 & B11 & B12).
  unfold same_view_answers.
  split; [intros; rewrite B1; apply A1|]. split; [intros; rewrite B2; apply A2|]. split; [intros; rewrite B3; apply A3|].
  split; [intros; rewrite B4; apply A4|]. split; [intros; rewrite B5; apply A5|]. split; [intros; rewrite B6; apply A6|].
  repeat split; congruence.
Qed.

Lemma root_answers_agree docs bs1 bs2 ix1 ix2 av1 av2 : wf_docs docs ->
  index false bs1 docs = AOk ix1 -> index false bs2 docs = AOk ix2 ->
  same_view_answers (of_index ix1 av1) (of_index ix2 av2).
Proof.
  intros Hwf E1 E2. apply (sva_trans _ (of_index ix2 av1)); [|apply flag_answers]. apply same_view_same_answers.
  exact (of_index_same_view docs bs1 bs2 ix1 ix2 av1 Hwf E1 E2).
Qed.

(* batch size x threshold x autowarm, on operation histories *)
Theorem history_settings_irrelevant docs bs1 bs2 ix1 ix2 cg1 cg2 w1 w2 ops :
  wf_docs docs -> docs <> [] -> index false bs1 docs = AOk ix1 -> index false bs2 docs = AOk ix2 ->
  fst (run (fresh_pool ix1 cg1 w1) ops) = fst (run (fresh_pool ix2 cg2 w2) ops).
Proof.
  intros Hwf Hne E1 E2.
  rewrite (fresh_pool_is_cache_free docs bs1 ix1 cg1 w1 ops Hwf Hne E1), (fresh_pool_is_cache_free docs bs2 ix2 cg2 w2 ops Hwf Hne E2).
  symmetry. apply hf_run_same. constructor; [|constructor].
  exact (of_index_same_view docs bs1 bs2 ix1 ix2 true Hwf E1 E2).
Qed.

(* ================================================================================================================
   2. avoid_copies
   ================================================================================================================ *)
Lemma select_terms_subset a pos a' : select a pos = AOk a' -> a_terms a' = a_terms a /\ a_subset a' = true.
Proof.
  intro H. unfold select in H.
  match type of H with abind ?X _ = _ => destruct X as [h| | |] end; cbn [abind] in H; try discriminate H.
  inv_pair H. split; reflexivity.
Qed.

Lemma chain_terms_subset : forall keys a v, select_chain a keys = AOk v ->
  a_terms v = a_terms a /\ a_subset v = match keys with [] => a_subset a | _ :: _ => true end.
Proof.
  induction keys as [|k rest IH]; intros a v H; cbn [select_chain] in H.
  - inv_pair H. split; reflexivity.
  - destruct (select a k) as [a'| | |] eqn:Es; cbn [abind] in H; try discriminate H.
    destruct (select_terms_subset _ _ _ Es) as (T1 & S1). destruct (IH _ _ H) as (T2 & S2).
    split; [congruence|]. rewrite S2. destruct rest; [exact S1|reflexivity].
Qed.

(* any chain of selections cut from two fresh indexes of the same corpus -- ANY two batch sizes, ANY two avoid_copies
   flags: term frequencies (any range), document frequencies, positions, phrase frequencies (any phrase, any range), the
   statistics handed to a similarity, BM25 scores, lengths, corpus statistics, row vector: all equal *)
Theorem chain_answers_agree docs bs1 bs2 ix1 ix2 av1 av2 keys v1 v2 :
  wf_docs docs -> index false bs1 docs = AOk ix1 -> index false bs2 docs = AOk ix2 -> valid_keys (length docs) keys ->
  select_chain (of_index ix1 av1) keys = AOk v1 -> select_chain (of_index ix2 av2) keys = AOk v2 ->
  same_view_answers v1 v2.
Proof.
  intros Hwf E1 E2 Hk S1 S2.
  destruct (root_answers_agree docs bs1 bs2 ix1 ix2 av1 av2 Hwf E1 E2) as (Rtf & _ & _ & Rph & _ & Rsc & _).
  destruct (C06_commute docs bs1 ix1 av1 keys v1 Hwf E1 Hk S1) as (Hr1 & _ & Hp1 & Hl1 & Hd1 & Ht1 & Hn1).
  destruct (C06_commute docs bs2 ix2 av2 keys v2 Hwf E2 Hk S2) as (Hr2 & _ & Hp2 & Hl2 & Hd2 & Ht2 & Hn2).
  destruct (chain_terms_subset _ _ _ S1) as (T1 & U1). destruct (chain_terms_subset _ _ _ S2) as (T2 & U2).
  assert (Htf : forall t lo hi, v_termfreqs v2 t lo hi = v_termfreqs v1 t lo hi).
  { intros t lo hi. rewrite (C06_ranged_tf_commutes docs bs1 ix1 av1 keys v1 t lo hi Hwf E1 Hk S1),
      (C06_ranged_tf_commutes docs bs2 ix2 av2 keys v2 t lo hi Hwf E2 Hk S2), Rtf. reflexivity. }
  assert (Hph : forall ph lo hi, v_phrase_freqs v2 ph lo hi = v_phrase_freqs v1 ph lo hi).
  { intros ph lo hi. rewrite (C06_phrase_commutes_any docs bs1 ix1 av1 keys v1 ph lo hi Hwf E1 Hk S1),
      (C06_phrase_commutes_any docs bs2 ix2 av2 keys v2 ph lo hi Hwf E2 Hk S2), Rph. reflexivity. }
  assert (Hdf : forall t, v_docfreq v2 t = v_docfreq v1 t) by (intro t; rewrite Hd1, Hd2; reflexivity).
  unfold same_view_answers.
  split; [exact Htf|]. split; [exact Hdf|].
  split.
  { intro t. destruct (in_dec N.eq_dec t (concat docs)) as [Hi|Hn].
    - rewrite (Hp1 t Hi), (Hp2 t Hi). reflexivity.
    - rewrite (C06_positions_absent docs bs1 ix1 av1 keys v1 t Hwf E1 Hk S1 Hn),
        (C06_positions_absent docs bs2 ix2 av2 keys v2 t Hwf E2 Hk S2 Hn). reflexivity. }
  split; [exact Hph|].
  split.
  { intros ts lo hi. unfold v_score_args. rewrite (all_dfs_ext v1 v2 Hdf ts).
    assert (Hv : v_tf_vector v2 ts lo hi = v_tf_vector v1 ts lo hi).
    { unfold v_tf_vector. destruct ts as [|t [|u r]]; [apply Hph|apply Htf|apply Hph]. }
    rewrite Hv, Hl1, Hl2, Ht1, Ht2, Hn1, Hn2. reflexivity. }
  split.
  { intros ts idf k1 b. rewrite (C06_score_commutes_any docs bs1 ix1 av1 keys v1 ts idf k1 b Hwf E1 Hk S1),
      (C06_score_commutes_any docs bs2 ix2 av2 keys v2 ts idf k1 b Hwf E2 Hk S2), Rsc. reflexivity. }
  split; [congruence|]. split; [congruence|]. split; [congruence|]. split; [congruence|].
  split; [rewrite U1, U2; destruct keys; reflexivity|].
  rewrite T1, T2. cbn [of_index a_terms]. exact (proj2 (proj2 (batch_size_irrelevant docs bs1 bs2 ix1 ix2 Hwf E1 E2))).
Qed.

(* C08: copy avoidance.  Same index, the two flags; neither chain fails *)
Theorem avoid_copies_irrelevant docs bs ix keys :
  wf_docs docs -> index false bs docs = AOk ix -> valid_keys (length docs) keys ->
  exists vt vf, select_chain (of_index ix true) keys = AOk vt /\ select_chain (of_index ix false) keys = AOk vf /\
                same_view_answers vt vf.
Proof.
  intros Hwf E Hk.
  destruct (C06_select_total docs bs ix true keys Hwf E Hk) as (vt & St).
  destruct (C06_select_total docs bs ix false keys Hwf E Hk) as (vf & Sf).
  exists vt, vf. split; [exact St|]. split; [exact Sf|].
  exact (chain_answers_agree docs bs bs ix ix true false keys vt vf Hwf E E Hk St Sf).
Qed.

(* ================================================================================================================
   3. data_dir
   ================================================================================================================
   SearchArray.index(..., data_dir=d): PosnBitArray.memmap (middle_out.py 352-354) wraps the finished ArrayDict in a
   MemoryMappedArrays, whose constructor WRITES the words to a new file of the directory (memmap_arrays.py 146-161) and
   keeps serving reads from the very ArrayDict it was given (__getitem__/items/keys/__contains__/__len__ delegate to
   self.arrays, 167-195; _load_arrays is not called on this path).  So in the indexing process the postings read are the
   in-memory ones: store_index leaves [ix] untouched and only returns the new directory state and where the root object
   lives.  The file is read by any process that LOADS the array (__setstate__ -> _load_arrays: np.memmap + the pickled
   metadata), and there:  (a) what the file + metadata give back is exactly ix_posts ix, in every later state of the
   directory;  (b) the loaded array -- or any view, either avoid_copies mode -- is literally the array built without a
   data directory;  (c) without a directory nothing is written and the same holds in any directory state. *)
Theorem data_dir_irrelevant docs bs ix avoid keys v d0 d1 res d d' :
  wf_docs docs -> index false bs docs = AOk ix -> select_chain (of_index ix avoid) keys = AOk v ->
  names_below_count d0 -> store_index d0 true ix = (d1, res) -> dir_later d1 d ->
  (forall m, res = OnDisk m -> mm_load d m = Some (ix_posts ix)) /\
  unpickle_arr d (pickle_arr res (shares_root avoid keys) v) = Some v /\
  store_index d0 false ix = (d0, InMemory) /\
  unpickle_arr d' (pickle_arr InMemory (shares_root avoid keys) v) = Some v.
Proof.
  intros Hwf E Hv Hinv Hs Hl.
  split.
  { intros m ->. pose proof (index_posts_nodup docs bs ix Hwf E) as Hnd. unfold store_index in Hs.
    destruct (ix_posts ix) as [|kv rest] eqn:Ep; [discriminate Hs|]. rewrite <- Ep in *.
    destruct (mm_create d0 (ix_posts ix)) as [d2 m2] eqn:Ec. inv_pair Hs.
    exact (mm_load_later d0 (ix_posts ix) d1 m d Hinv Hnd Ec Hl). }
  split; [exact (view_pickle_roundtrip docs bs ix avoid keys v d0 true d1 res d Hwf E Hv Hinv Hs Hl)|].
  split; [reflexivity|].
  exact (in_memory_pickle_roundtrip docs bs ix avoid keys v d' Hwf E Hv).
Qed.

(* ================================================================================================================
   4. all settings at once
   ================================================================================================================
   Two configurations (batch_size, cache_gt_than, autowarm, avoid_copies, data_dir) of SearchArray.index on one corpus.
   (i)  every operation history (queries, selections, copies, warm) on the machine: same outputs;
   (ii) every chain of selections, the second configuration written to a directory and loaded back from any later state
        of it: neither fails, the load gives back the view, and the two views answer every query alike. *)
Theorem settings_irrelevant docs bs1 bs2 ix1 ix2 cg1 cg2 w1 w2 av1 av2 ops keys d0 use_dir d1 res d :
  wf_docs docs -> docs <> [] -> index false bs1 docs = AOk ix1 -> index false bs2 docs = AOk ix2 ->
  valid_keys (length docs) keys -> names_below_count d0 -> store_index d0 use_dir ix2 = (d1, res) -> dir_later d1 d ->
  fst (run (fresh_pool ix1 cg1 w1) ops) = fst (run (fresh_pool ix2 cg2 w2) ops) /\
  exists v1 v2, select_chain (of_index ix1 av1) keys = AOk v1 /\ select_chain (of_index ix2 av2) keys = AOk v2 /\
                unpickle_arr d (pickle_arr res (shares_root av2 keys) v2) = Some v2 /\
                same_view_answers v1 v2.
Proof.
  intros Hwf Hne E1 E2 Hk Hinv Hs Hl.
  split; [exact (history_settings_irrelevant docs bs1 bs2 ix1 ix2 cg1 cg2 w1 w2 ops Hwf Hne E1 E2)|].
  destruct (C06_select_total docs bs1 ix1 av1 keys Hwf E1 Hk) as (v1 & S1).
  destruct (C06_select_total docs bs2 ix2 av2 keys Hwf E2 Hk) as (v2 & S2).
  exists v1, v2. split; [exact S1|]. split; [exact S2|].
  split; [exact (view_pickle_roundtrip docs bs2 ix2 av2 keys v2 d0 use_dir d1 res d Hwf E2 S2 Hinv Hs Hl)|].
  exact (chain_answers_agree docs bs1 bs2 ix1 ix2 av1 av2 keys v1 v2 Hwf E1 E2 Hk S1 S2).
Qed.

Print Assumptions machine_is_cache_free.
Print Assumptions cache_threshold_and_warming_irrelevant.
Print Assumptions cache_threshold_and_warming_irrelevant_ops.
Print Assumptions history_settings_irrelevant.
Print Assumptions chain_answers_agree.
Print Assumptions avoid_copies_irrelevant.
Print Assumptions data_dir_irrelevant.
Print Assumptions settings_irrelevant.
