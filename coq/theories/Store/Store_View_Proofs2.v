(* C18, the pickled caches (model: Store/Store_View.v part 2, on the query-time state machine of View/Purity.v).

   A pickled array carries its PosnBitArray's docfreq_cache / termfreq_cache, the FilteredPosns.sliced cache of the
   wrapper currently installed, and -- through df_source -- the ROOT PosnBitArray with ITS caches.  Could one of them be
   stale after loading?  No: every cache entry is a function of the postings object of the state that holds it
   (Purity_Proofs.cache_ok), and loading restores that object literally (Store_View_Proofs.mm_load_later /
   adict_roundtrip).  Hence the pool of the loading process -- one array, its PosnBitArray, the root PosnBitArray --
   satisfies the purity invariant, so EVERY later history on it (queries that hit or fill the carried-over caches,
   further selections, copies, warm) answers like the history-free model, i.e. like the original array. *)
From Coq Require Import ZArith.
From SA Require Import Base.Prelude Kernels.Spec Kernels.Linear Codec.Codec Index.Index Index.Index_Spec Query.Phrase Query.Range
  Score.BM25 View.View View.View_Spec View.View_Proofs View.Purity View.Purity_Proofs View.View_Phrase2 View.Purity_Gen
  View.Purity_Indexed View.View_Phrase3 View.Purity_Indexed2
  Store.Store Store.Store_Proofs Store.Store_View Store.Store_View_Proofs.
Open Scope N_scope.

(* ================= 1. a restored PosnBitArray ================= *)
Lemma up_ids P s ghost root : ghost = ps_ids s -> ps_ids (unpickle_pba P ghost root (pickle_pba s)) = ps_ids s.
Proof.
  intro Hg. unfold unpickle_pba, pickle_pba. cbn [ps_ids pb_wrapper].
  destruct (ps_filtered_now s), (ps_ids s) as [ids|]; cbn; congruence.
Qed.

Lemma up_cache_ok P s ghost root : cache_ok s -> ps_base s = P -> (ps_ids s = None -> ghost = None) ->
  cache_ok (unpickle_pba P ghost root (pickle_pba s)).
Proof.
  intros (Hsl & Hdf & Htf) Hb Hg. unfold cache_ok, sliced_ok, df_ok, tf_ok, unpickle_pba, pickle_pba.
  cbn [ps_sliced ps_ids ps_base ps_dfcache ps_tfcache pb_wrapper pb_dfcache pb_tfcache]. subst P.
  split; [|split].
  - intros t w Hl. destruct (ps_filtered_now s) eqn:Ef, (ps_ids s) as [ids|] eqn:Ei; cbn in Hl; try discriminate Hl.
    destruct (Hsl t w Hl) as (ids0 & bw & E1 & E2 & E3). rewrite Ei in E1. inversion E1; subst ids0.
    exists ids, bw. cbn. repeat split; assumption.
  - exact Hdf.
  - intros t kc Hl. destruct (Htf t kc Hl) as (Hn & Hw). split; [|exact Hw].
    rewrite Hn. destruct (ps_filtered_now s); cbn; apply Hg; exact Hn.
Qed.

Lemma up_base P s ghost root : ps_base (unpickle_pba P ghost root (pickle_pba s)) = P. Proof. reflexivity. Qed.
Lemma up_max P s ghost root : ps_max_doc_id (unpickle_pba P ghost root (pickle_pba s)) = ps_max_doc_id s. Proof. reflexivity. Qed.
Lemma up_root P s ghost root : ps_root (unpickle_pba P ghost root (pickle_pba s)) = root. Proof. reflexivity. Qed.

(* ================= 2. the pool of the loading process satisfies the purity invariant ================= *)
Section Restore.
Variable good : posts -> N -> Prop.
Variable P : posts.
Let uniform : posts -> N -> Prop := fun q _ => q = P.

Theorem unpickle_pool_inv p a d res :
  Inv good p -> Inv uniform p -> In a (arrays p) ->
  load_root d (pk_root_store (pickle_arr res true (pa_arr a))) = Some P ->
  exists p' pid, unpickle_pool_array d (pickle_pool_array res p a) = Some p' /\ Inv good p' /\
                 arrays p' = [{| pa_arr := pa_arr a; pa_pid := pid |}].
Proof.
  intros (Hst & Har) (Ust & _) Ha Hload.
  destruct (Har a Ha) as (Hpid & Hh & Hm & Hsub & Hids & Hroot & Hdf).
  assert (Ubase : forall i, (i < length (heap p))%nat -> ps_base (get_ps p i) = P).
  { intros i Hi. exact (proj1 (Ust i Hi)). }
  set (arr := pa_arr a) in *. set (s := get_ps p (pa_pid a)) in *.
  assert (Hdf' : p_df_root (a_posns arr) = P) by (rewrite Hdf; apply Ubase; exact Hroot).
  assert (Hb : handle_base (p_handle (a_posns arr)) = P).
  { rewrite Hh. unfold handle_of. fold s. destruct (ps_ids s); cbn [handle_base]; apply (Ubase _ Hpid). }
  assert (Harr : unpickle_arr d (pickle_arr res true arr) = Some arr).
  { apply unpickle_pickle_gen; [rewrite Hdf'; exact Hload|]. intros _. rewrite Hb, Hdf'. reflexivity. }
  assert (Hghost : (if a_subset arr then Some (np_unique (a_rows arr)) else None) = ps_ids s).
  { rewrite Hsub. fold s. destruct (ps_ids s) as [ids|] eqn:Ei; [|reflexivity]. rewrite <- (Hids ids eq_refl). reflexivity. }
  destruct (Hst _ Hpid) as (Gs & Cs & Rs). fold s in Gs, Cs, Rs.
  assert (Hbs : ps_base s = P) by (apply (Ubase _ Hpid)).
  unfold unpickle_pool_array, pickle_pool_array. cbn [pa_fields pa_self pa_dfsrc]. fold arr s. rewrite Harr, Hload.
  set (ghost := if a_subset arr then Some (np_unique (a_rows arr)) else None) in *.
  assert (Hids' : forall root, ps_ids (unpickle_pba P ghost root (pickle_pba s)) = ps_ids s) by (intro; apply up_ids; exact Hghost).
  assert (Cs' : forall root, cache_ok (unpickle_pba P ghost root (pickle_pba s))).
  { intro root. apply up_cache_ok; [exact Cs|exact Hbs|]. intro E. rewrite Hghost. exact E. }
  assert (Gs' : good P (ps_max_doc_id s)) by (rewrite <- Hbs; exact Gs).
  (* the conditions on the array, given that its object is [s'] with the ids / base / max_doc_id of [s] *)
  assert (Harr_ok : forall p' pid s', (pid < length (heap p'))%nat -> get_ps p' pid = s' ->
            ps_ids s' = ps_ids s -> ps_base s' = P -> ps_max_doc_id s' = ps_max_doc_id s ->
            (root_of p' pid < length (heap p'))%nat -> ps_base (get_ps p' (root_of p' pid)) = P ->
            array_ok p' {| pa_arr := arr; pa_pid := pid |}).
  { intros p' pid s' L1 Eg Ei Ebs Em L2 Er. unfold array_ok. cbn [pa_arr pa_pid]. rewrite Eg.
    split; [exact L1|]. split.
    - rewrite Hh. unfold handle_of. fold s. rewrite Ei, Ebs, Hbs. reflexivity.
    - split; [rewrite Hm, Em; reflexivity|]. split; [rewrite Hsub, Ei; reflexivity|].
      split; [intros ids E; rewrite Ei in E; exact (Hids ids E)|]. split; [exact L2|]. rewrite Er. exact Hdf'. }
  destruct (ps_root s) as [r|] eqn:Er.
  - (* a view: heap = [root'; self'] *)
    unfold root_ok in Rs. rewrite Er in Rs. destruct Rs as (Hr & Hrr).
    destruct (Hst _ Hr) as (Gr & Cr & _).
    eexists. exists 1%nat. split; [reflexivity|]. split; [|reflexivity]. split.
    + intros i Hi. cbn [heap length] in Hi. destruct i as [|[|i]]; [| |lia]; unfold get_ps; cbn [heap nth].
      * split; [rewrite up_base, up_max, <- (Ubase _ Hr); exact Gr|]. split.
        -- apply up_cache_ok; [exact Cr|apply (Ubase _ Hr)|]. intros _. reflexivity.
        -- unfold root_ok. rewrite up_root. exact I.
      * split; [rewrite up_base, up_max; exact Gs'|]. split; [apply Cs'|].
        unfold root_ok. rewrite up_root. split; [cbn [heap length]; lia|]. unfold get_ps. cbn [heap nth]. apply up_root.
    + intros x [<-|[]]. eapply Harr_ok.
      * cbn [heap length]. lia.
      * unfold get_ps. cbn [heap nth]. reflexivity.
      * apply Hids'.
      * apply up_base.
      * apply up_max.
      * unfold root_of, get_ps. cbn [heap nth]. rewrite up_root. cbn [length]. lia.
      * unfold root_of, get_ps. cbn [heap nth]. rewrite up_root. cbn [nth]. apply up_base.
  - (* a root array: heap = [self'] *)
    eexists. exists 0%nat. split; [reflexivity|]. split; [|reflexivity]. split.
    + intros i Hi. cbn [heap length] in Hi. destruct i as [|i]; [|lia]. unfold get_ps; cbn [heap nth].
      split; [rewrite up_base, up_max; exact Gs'|]. split; [apply Cs'|]. unfold root_ok. rewrite up_root. exact I.
    + intros x [<-|[]]. eapply Harr_ok.
      * cbn [heap length]. lia.
      * unfold get_ps. cbn [heap nth]. reflexivity.
      * apply Hids'.
      * apply up_base.
      * apply up_max.
      * unfold root_of, get_ps. cbn [heap nth]. rewrite up_root. cbn [length]. lia.
      * unfold root_of, get_ps. cbn [heap nth]. rewrite up_root. cbn [nth]. apply up_base.
Qed.
End Restore.

(* ================= 3. indexed corpora: the pickle of ANY array of ANY reachable pool ================= *)
Lemma reachable_uniform ix cg ops outs p : run (init_pool ix cg) ops = (outs, p) -> Inv (fun q _ => q = ix_posts ix) p.
Proof.
  intro Hrun. apply (run_inv (fun q _ => q = ix_posts ix) ops (init_pool ix cg) outs p); [|exact Hrun].
  apply init_inv. reflexivity.
Qed.

Lemma pure_answer_retarget p p' q a pid :
  nth_error (arrays p) (op_array q) = Some a -> arrays p' = [{| pa_arr := pa_arr a; pa_pid := pid |}] ->
  pure_answer p' (retarget q) = pure_answer p q.
Proof.
  intros Hn Ha. destruct q; cbn [op_array] in Hn; unfold pure_answer, retarget; cbv beta iota zeta;
    try reflexivity; rewrite Ha, Hn; reflexivity.
Qed.

Section Indexed.
Variable docs : list (list N).
Local Notation G := (good_posts_of docs).
Local Notation R := (rows_in docs).

Theorem pool_pickle_roundtrip bs ix cg ops outs p ai a d0 use_dir d1 res d :
  wf_docs docs -> docs <> [] -> index false bs docs = AOk ix ->
  run (init_pool ix cg) ops = (outs, p) -> nth_error (arrays p) ai = Some a ->
  names_below_count d0 -> store_index d0 use_dir ix = (d1, res) -> dir_later d1 d ->
  exists p' pid, unpickle_pool_array d (pickle_pool_array res p a) = Some p' /\
                 arrays p' = [{| pa_arr := pa_arr a; pa_pid := pid |}] /\ InvR G R p'.
Proof.
  intros Hwf Hne E Hrun Hn Hinv Hs Hl.
  destruct (indexed_reach2 docs bs ix cg ops outs p Hwf E (all_ops_in_domain_nonempty docs ops Hne) Hrun) as ((HI & Hsh) & _).
  pose proof (reachable_uniform ix cg ops outs p Hrun) as HU.
  pose proof (nth_error_In _ _ Hn) as Ha.
  assert (Hdf : p_df_root (a_posns (pa_arr a)) = ix_posts ix).
  { destruct HI as (_ & Har). destruct (Har a Ha) as (_ & _ & _ & _ & _ & Hroot & Hdf). rewrite Hdf.
    exact (proj1 (proj1 HU _ Hroot)). }
  assert (Hload : load_root d (pk_root_store (pickle_arr res true (pa_arr a))) = Some (ix_posts ix)).
  { apply (load_root_stored d0 use_dir ix d1 res d (pa_arr a)); try assumption. exact (index_posts_nodup docs bs ix Hwf E). }
  destruct (unpickle_pool_inv G (ix_posts ix) p a d res HI HU Ha Hload) as (p' & pid & E1 & I' & A').
  exists p', pid. split; [exact E1|]. split; [exact A'|]. split; [exact I'|].
  unfold shape_ok, shape_of. rewrite A'. cbn [map]. constructor; [|constructor]. cbn [snd pa_arr].
  exact (shape_ok_in R p a Hsh Ha).
Qed.

(* The loaded array, WITH the caches it was pickled with, after ANY further history [ops2] of the loading process (queries,
   selections from it, copies, warm), answers the query q (any query of the model, addressed to the pickled array) exactly
   like the original array does in the pickling process. *)
Theorem pickled_caches_do_not_matter bs ix cg ops outs p a d0 use_dir d1 res d q :
  wf_docs docs -> docs <> [] -> index false bs docs = AOk ix ->
  run (init_pool ix cg) ops = (outs, p) -> nth_error (arrays p) (op_array q) = Some a ->
  names_below_count d0 -> store_index d0 use_dir ix = (d1, res) -> dir_later d1 d ->
  pure_answer p q <> None ->
  exists p', unpickle_pool_array d (pickle_pool_array res p a) = Some p' /\
    forall ops2 outs2 p2, run p' ops2 = (outs2, p2) -> fst (step p2 (retarget q)) = fst (step p q).
Proof.
  intros Hwf Hne E Hrun Hn Hinv Hs Hl Hq.
  destruct (pool_pickle_roundtrip bs ix cg ops outs p _ a d0 use_dir d1 res d Hwf Hne E Hrun Hn Hinv Hs Hl)
    as (p' & pid & E1 & A' & I').
  exists p'. split; [exact E1|]. intros ops2 outs2 p2 Hrun2.
  destruct (indexed_reach2 docs bs ix cg ops outs p Hwf E (all_ops_in_domain_nonempty docs ops Hne) Hrun) as (HI & _).
  pose proof (pure_answer_retarget p p' q a pid Hn A') as Epa.
  assert (Hdom : forall sh o, shape_ok R sh -> op_dom R any_phrase sh o).
  { intros sh o Hsh. apply sel_okb_dom. apply sel_okb_nonempty; assumption. }
  assert (Hdoms : forall sh os, shape_ok R sh -> ops_dom R any_phrase sh os).
  { intros sh os Hsh. apply sels_okb_dom. apply sels_okb_nonempty; assumption. }
  (* the loading process: history-free *)
  rewrite (history_free_gen G R any_phrase (slice_idem_on_indexed docs) (phrase_local_on_indexed2 docs) p' (retarget q) ops2 outs2 p2 I');
    [|rewrite Epa; exact Hq|apply Hdom; exact (proj2 I')|apply Hdoms; exact (proj2 I')|exact Hrun2].
  (* both processes give the pure answer, and the pure answers coincide *)
  destruct (pure_answer p q) as [r0|] eqn:Er; [|contradiction].
  destruct (step p' (retarget q)) as [r1 p1'] eqn:S1. destruct (step p q) as [r2 p2'] eqn:S2. cbn [fst].
  destruct (step_pure_gen G R any_phrase (slice_idem_on_indexed docs) (phrase_local_on_indexed2 docs) _ _ _ _ I' (Hdom _ _ (proj2 I')) S1) as (_ & A1 & _).
  destruct (step_pure_gen G R any_phrase (slice_idem_on_indexed docs) (phrase_local_on_indexed2 docs) _ _ _ _ HI (Hdom _ _ (proj2 HI)) S2) as (_ & A2 & _).
  rewrite (A1 r0 Epa), (A2 r0 Er). reflexivity.
Qed.
End Indexed.

(* ================= 4. computed: caches filled before pickling, used after loading ================= *)
(* queries on the root and on a view fill docfreq_cache (cache_gt_than = 0) / termfreq_cache / FilteredPosns.sliced; the view
   (array 1) is pickled with them, loaded after another index was written to the directory, and queried *)
Definition ex_before : list op :=
  [OSelect 0 [4;2;0]; ODf 0 1; OTf 0 1 None None; OTf 1 1 None None; OPhrase 1 [1;2] None None; OScore 1 [1] 0 0 0].
Example ex_pickled_caches : forall use_dir,
  match index false 2 ex_docs5, index false 100 [[7;8];[8]] with
  | AOk ix, AOk ix2 =>
      let '(d1, res) := store_index ex_d0 use_dir ix in
      let '(d2, _) := store_index d1 true ix2 in
      let '(_, p) := run (init_pool ix 0) ex_before in
      match nth_error (arrays p) 1 with
      | Some a =>
          let k := pickle_pool_array res p a in
          (* the pickle holds the wrapper's sliced cache and the root's caches *)
          (match pb_wrapper (pa_self k) with Some (ids, sl) => ids = [0;2;4] /\ map fst sl <> [] | None => False end) /\
          (match pa_dfsrc k with Some kr => map fst (pb_dfcache kr) = [1] /\ map fst (pb_tfcache kr) = [1] | None => False end) /\
          match unpickle_pool_array d2 k with
          | Some p' =>
              length (heap p') = 2%nat /\
              fst (step p' (OTf 0 1 None None)) = fst (step p (OTf 1 1 None None)) /\
              fst (step p' (OTf 0 1 None None)) = RVec (AOk [1;0;2]) /\
              fst (step p' (ODf 0 1)) = RNum (AOk 3) /\
              fst (run p' [OSelect 0 [1;0]; OPhrase 1 [1;2] None None; OPhrase 0 [1;2] None None])
                = [RUnit (AOk tt); RVec (AOk [0;0]); RVec (AOk [0;0;1])]
          | None => False end
      | None => False end
  | _, _ => False end.
Proof. intros [|]; vm_compute; repeat split; discriminate. Qed.

Print Assumptions unpickle_pool_inv.
Print Assumptions pool_pickle_roundtrip.
Print Assumptions pickled_caches_do_not_matter.
