(* C08: the settings of SearchArray.index that are not about batching -- cache_gt_than, autowarm (definitions only; the
   other two, avoid_copies and data_dir, are [of_index ix avoid] of View/View.v and [store_index] of Store/Store_View.v).
     - [fresh_pool ix cg autowarm]: the query-time state SearchArray.index leaves (View/Purity.v machine):
       posns.cache_gt_than = cg (indexing.py 296), then posns.warm() iff autowarm (postings.py 290-291);
     - [hf_run]: a REFERENCE evaluator of operation histories that has no heap, no cache and no threshold.
   No proofs here (Store/Settings_Proofs.v). *)
From Coq Require Import ZArith.
From SA Require Import Base.Prelude Index.Index View.View View.Purity Conc.Conc_Dyn.
Open Scope N_scope.

(* ---- the reference evaluator: NO heap, NO caches, NO threshold.  A pool is the list of the immutable descriptors of
   its arrays; a selection appends the descriptor of the view (Conc_Dyn.view_of: m_select's arr'; = View.select on an avoid_copies array, Conc_Edismax.select_view_of), a copy appends the
   same descriptor, warm() does nothing; a query is the pure function of View/View.v ---- *)
Definition hf_step (l : list sarray) (o : op) : out * list sarray :=
  let on ai (f : sarray -> out) := match nth_error l ai with Some a => f a | None => RUnit (AExc IndexError) end in
  match o with
  | OTf ai t lo hi => (on ai (fun a => RVec (v_termfreqs a t lo hi)), l)
  | OPhrase ai ts lo hi => (on ai (fun a => RVec (v_phrase_freqs a ts lo hi)), l)
  | OPos ai t => (on ai (fun a => RPos (v_positions a t)), l)
  | ODf ai t => (on ai (fun a => RNum (v_docfreq a t)), l)
  | OLens ai => (on ai (fun a => RVec (AOk (v_doclengths a))), l)
  | OScore ai ts idf k1 b => (on ai (fun a => RBits (v_score_bm25 a ts idf k1 b)), l)
  | OSelect ai pos =>
      match nth_error l ai with
      | Some a => (RUnit (AOk tt), l ++ [view_of a pos])
      | None => (RUnit (AExc IndexError), l)
      end
  | OCopy ai =>
      match nth_error l ai with
      | Some a => (RUnit (AOk tt), l ++ [a])
      | None => (RUnit (AExc IndexError), l)
      end
  | OWarm ai => (on ai (fun _ => RUnit (AOk tt)), l)
  end.
Fixpoint hf_run (l : list sarray) (ops : list op) : list out :=
  match ops with
  | [] => []
  | o :: rest => fst (hf_step l o) :: hf_run (snd (hf_step l o)) rest
  end.

(* the descriptors of a pool of the machine *)
Definition descs (p : pool) : list sarray := map pa_arr (arrays p).


(* the pool SearchArray.index leaves: posns.cache_gt_than = cg (indexing.py 296), then posns.warm() iff autowarm (postings.py 290-291) *)
Definition fresh_pool (ix : sindex) (cache_gt : N) (autowarm : bool) : pool :=
  if autowarm then snd (step (init_pool ix cache_gt) (OWarm 0)) else init_pool ix cache_gt.


(* the same with warm() written as the first operation of the history (it adds no array: pool positions in [ops] mean the
   same on both sides); [skipn] drops its own output *)
Definition autowarm_ops (w : bool) : list op := if w then [OWarm 0] else [].

