From SA Require Import Base.Prelude Codec.Codec Index.Index Store.Store.
Open Scope N_scope.

Lemma dir_write_fresh : forall d k blob, (forall b, ~ In (Some k, b) d) -> dir_write d k blob = d ++ [(Some k, blob)].
Proof.
  induction d as [|[[k'|] b] rest IH]; intros k blob H; cbn [dir_write app]; [reflexivity| |].
  - destruct (N.eqb_spec k k') as [->|Hne].
    + exfalso. apply (H b). left. reflexivity.
    + f_equal. apply IH. intros b' Hin. apply (H b'). right. exact Hin.
  - f_equal. apply IH. intros b' Hin. apply (H b'). right. exact Hin.
Qed.

Lemma dir_read_app_old : forall d k e, dir_read d k <> None -> dir_read (d ++ [e]) k = dir_read d k.
Proof.
  induction d as [|[[k'|] b] rest IH]; intros k e H; cbn [dir_read app] in *; [congruence| |].
  - destruct (k =? k'); [reflexivity|]. apply IH. exact H.
  - apply IH. exact H.
Qed.

Lemma dir_read_in : forall d k b, dir_read d k = Some b -> In (Some k, b) d.
Proof.
  induction d as [|[[k'|] b'] rest IH]; intros k b H; cbn [dir_read] in H; [discriminate| |].
  - destruct (N.eqb_spec k k') as [->|Hne]; [inversion H; subst; left; reflexivity | right; apply IH; exact H].
  - right. apply IH. exact H.
Qed.

Lemma dir_read_app_new : forall d k blob, (forall b, ~ In (Some k, b) d) -> dir_read (d ++ [(Some k, blob)]) k = Some blob.
Proof.
  induction d as [|[[k'|] b] rest IH]; intros k blob H; cbn [dir_read app].
  - rewrite N.eqb_refl. reflexivity.
  - destruct (N.eqb_spec k k') as [->|Hne]; [exfalso; apply (H b); left; reflexivity|].
    apply IH. intros b' Hin. apply (H b'). right. exact Hin.
  - apply IH. intros b' Hin. apply (H b'). right. exact Hin.
Qed.

(* creating an index never overwrites an existing file, and keeps the invariant *)
Theorem create_no_overwrite : forall d p d' m, names_below_count d -> mm_create d p = (d', m) ->
  d' = d ++ [(Some (mm_file m), ad_data (adict_of_posts p))] /\ mm_file m = dir_count d /\ names_below_count d'.
Proof.
  intros d p d' m Hinv H. unfold mm_create in H. inversion H; subst; clear H. cbn [mm_file].
  assert (Hfresh : forall b, ~ In (Some (dir_count d), b) d).
  { intros b Hin. apply Hinv in Hin. lia. }
  rewrite dir_write_fresh by exact Hfresh. split; [reflexivity|]. split; [reflexivity|].
  intros k b Hin. unfold dir_count. rewrite app_length. cbn [length].
  apply in_app_or in Hin as [Hin|Hin].
  - apply Hinv in Hin. unfold dir_count in Hin. lia.
  - destruct Hin as [Heq|[]]. inversion Heq; subst. unfold dir_count. lia.
Qed.

(* a later creation leaves every earlier index's file content unchanged *)
Theorem create_isolation : forall d p d' m k, names_below_count d -> mm_create d p = (d', m) ->
  dir_read d k <> None -> dir_read d' k = dir_read d k.
Proof.
  intros d p d' m k Hinv H Hk. destruct (create_no_overwrite d p d' m Hinv H) as [E _]. rewrite E.
  apply dir_read_app_old. exact Hk.
Qed.

(* slicing the concatenated blob by the metadata gives back every term's postings *)
Lemma adict_roundtrip_from : forall p off pre,
  N.of_nat (length pre) = off ->
  NoDup (map fst p) ->
  let '(d, m) := adict_of_posts_from off p in
  map (fun tm => (fst tm, match adict_get (pre ++ d) (m) (fst tm) with Some w => w | None => [] end)) m = p
  /\ map fst m = map fst p.
Proof.
  induction p as [|[t w] rest IH]; intros off pre Hoff Hnd; cbn [adict_of_posts_from]; [split; reflexivity|].
  inversion Hnd as [|? ? Hnotin Hnd']; subst.
  specialize (IH (N.of_nat (length pre) + N.of_nat (length w)) (pre ++ w)).
  destruct (adict_of_posts_from (N.of_nat (length pre) + N.of_nat (length w)) rest) as [d m] eqn:E.
  destruct IH as [IH1 IH2]; [rewrite app_length; lia | exact Hnd' |].
  cbn [map fst]. split; [|f_equal; exact IH2].
  f_equal.
  - f_equal. unfold adict_get. cbn [lookup fst]. rewrite N.eqb_refl.
    unfold slice_nat. rewrite Nnat.N2Nat.inj_add, !Nnat.Nat2N.id.
    replace (length pre + length w - length pre)%nat with (length w) by lia.
    rewrite skipn_app, skipn_all, Nat.sub_diag. cbn [skipn app].
    rewrite firstn_app, firstn_all, Nat.sub_diag. cbn [firstn]. apply app_nil_r.
  - etransitivity; [|exact IH1]. apply map_ext_in. intros [t' [o l]] Hin. cbn [fst]. f_equal.
    unfold adict_get. cbn [lookup]. destruct (N.eqb_spec t' t) as [->|Hne].
    + exfalso. apply Hnotin. rewrite <- IH2. apply (in_map fst) in Hin. exact Hin.
    + rewrite <- app_assoc. reflexivity.
Qed.

Theorem adict_roundtrip : forall p, NoDup (map fst p) ->
  posts_of_adict (ad_data (adict_of_posts p)) (ad_meta (adict_of_posts p)) = p.
Proof.
  intros p Hnd. pose proof (adict_roundtrip_from p 0 [] eq_refl Hnd) as H.
  unfold adict_of_posts, posts_of_adict. destruct (adict_of_posts_from 0 p) as [d m]. cbn [ad_data ad_meta app] in *.
  apply H.
Qed.

(* pickle round trip of a memory-mapped index: creating then loading (at any later time, after any number of
   further creations in the same directory) yields the original postings *)
Theorem mm_roundtrip : forall d p d' m, names_below_count d -> NoDup (map fst p) -> mm_create d p = (d', m) ->
  mm_load d' m = Some p.
Proof.
  intros d p d' m Hinv Hnd H. destruct (create_no_overwrite d p d' m Hinv H) as [E [Ek _]].
  unfold mm_load. rewrite E, Ek.
  rewrite dir_read_app_new by (intros b Hin; apply Hinv in Hin; lia).
  f_equal. unfold mm_create in H. inversion H; subst. cbn [mm_meta]. apply adict_roundtrip. exact Hnd.
Qed.

Theorem mm_roundtrip_after : forall d p d1 m p2 d2 m2, names_below_count d -> NoDup (map fst p) ->
  mm_create d p = (d1, m) -> mm_create d1 p2 = (d2, m2) -> mm_load d2 m = Some p.
Proof.
  intros d p d1 m p2 d2 m2 Hinv Hnd H1 H2.
  pose proof (mm_roundtrip d p d1 m Hinv Hnd H1) as R.
  destruct (create_no_overwrite d p d1 m Hinv H1) as [_ [_ Hinv1]].
  unfold mm_load in *. destruct (dir_read d1 (mm_file m)) as [blob|] eqn:E; [|discriminate].
  rewrite (create_isolation d1 p2 d2 m2 (mm_file m) Hinv1 H2) by congruence. rewrite E. exact R.
Qed.

Lemma empty_dir_inv : names_below_count []. Proof. intros k b []. Qed.
Lemma foreign_file_inv : forall d b, names_below_count d -> names_below_count (d ++ [(None, b)]).
Proof.
  intros d b H k b' Hin. unfold dir_count. rewrite app_length. cbn [length].
  apply in_app_or in Hin as [Hin|[Heq|[]]]; [apply H in Hin; unfold dir_count in Hin; lia | discriminate].
Qed.
