(* C18 for arrays AND views, in memory and with a data directory (model: Store/Store_View.v).

   1. the postings table of a fresh index has distinct keys (so the ArrayDict / file round trip is literal);
   2. the directory only grows: a file that exists keeps its content in every later state (dir_later);
   3. chains of selections: the root postings never change, and the handle's base IS the root object exactly when
      [shares_root avoid keys];
   4. unpickle (pickle v) = v, literally, for every chain of selections from a fresh index, both residences, every later
      directory state  ->  every answer is the same;
   5. the same for ANY index record (duplicate keys in the list that models the dict allowed): the unpickled array is
      [same_view] to the original, and same_view arrays answer every query identically. *)
From Coq Require Import ZArith Sorted.
From SA Require Import Base.Prelude Kernels.Spec Kernels.Linear Codec.Codec Index.Index Index.Index_Spec Index.Index_Proofs
  Index.Index_Proofs2 Index.Index_Proofs3 Query.Phrase Query.Range Score.BM25 View.View View.View_Spec View.View_Proofs
  Rebuild.Rebuild Store.Store Store.Store_Proofs Store.Store_View.
Open Scope N_scope.

(* ================= 1. distinct keys ================= *)
Lemma map_fst_map_kv {A B} (f : N * A -> B) (l : list (N * A)) : map fst (map (fun kv => (fst kv, f kv)) l) = map fst l.
Proof. induction l as [|x l IH]; [reflexivity|]. cbn [map fst]. rewrite IH. reflexivity. Qed.

Lemma lookup_none_notin {A} t : forall (l : list (N * A)), lookup t l = None -> ~ In t (map fst l).
Proof.
  induction l as [|[k v] l IH]; intros H Hin; [exact Hin|]. cbn [lookup] in H. cbn [map fst In] in Hin.
  destruct (N.eqb_spec t k) as [->|Hne]; [discriminate|]. destruct Hin as [Hin|Hin]; [congruence|]. exact (IH H Hin).
Qed.

Lemma NoDup_app_intro {A} (l1 l2 : list A) : NoDup l1 -> NoDup l2 -> (forall x, In x l1 -> In x l2 -> False) -> NoDup (l1 ++ l2).
Proof.
  induction l1 as [|a l1 IH]; intros H1 H2 Hd; [exact H2|]. inversion H1 as [|? ? Ha H1']; subst. cbn [app]. constructor.
  - intro Hin. apply in_app_or in Hin. destruct Hin as [Hin|Hin]; [exact (Ha Hin)|]. apply (Hd a); [left; reflexivity|exact Hin].
  - apply IH; [exact H1'|exact H2|]. intros x Hx Hx'. apply (Hd x); [right; exact Hx|exact Hx'].
Qed.

Lemma concat_posts_nodup lhs rhs : NoDup (map fst lhs) -> NoDup (map fst rhs) -> NoDup (map fst (concat_posts lhs rhs)).
Proof.
  intros Hl Hr. unfold concat_posts. destruct lhs as [|kv0 lhs0] eqn:E; [exact Hr|]. rewrite <- E in *. clear E kv0 lhs0.
  rewrite map_app.
  rewrite (map_fst_map_kv (fun kv => np_sort (snd kv ++ match lookup (fst kv) rhs with Some w => w | None => [] end))).
  rewrite (map_fst_map_kv (fun kv : N * list N => np_sort (snd kv))).
  set (keep := fun kv : N * list N => match lookup (fst kv) lhs with Some _ => false | None => true end).
  assert (Hsub : forall l, NoDup (map fst l) -> NoDup (map fst (filter keep l)) /\
                           forall x, In x (map fst (filter keep l)) -> In x (map fst l) /\ ~ In x (map fst lhs)).
  { induction l as [|[k w] l IH]; intro Hnd; [split; [constructor|intros x []]|].
    cbn [map fst] in Hnd. inversion Hnd as [|? ? Hk Hnd']; subst. destruct (IH Hnd') as [IH1 IH2].
    cbn [filter]. destruct (keep (k, w)) eqn:Ek.
    - cbn [map fst]. split.
      + constructor; [|exact IH1]. intro Hin. apply IH2 in Hin. tauto.
      + intros x [<-|Hin].
        * split; [left; reflexivity|]. unfold keep in Ek. cbn [fst] in Ek.
          destruct (lookup k lhs) eqn:El; [discriminate|]. apply lookup_none_notin. exact El.
        * destruct (IH2 x Hin). split; [right; assumption|assumption].
    - split; [exact IH1|]. intros x Hin. destruct (IH2 x Hin). split; [right; assumption|assumption]. }
  destruct (Hsub rhs Hr) as [H1 H2].
  apply NoDup_app_intro; [exact Hl|exact H1|]. intros x Hx Hx'. apply H2 in Hx'. tauto.
Qed.

Lemma batch_posts_keys beg b ts : map fst (batch_posts beg b ts) = ts.
Proof. unfold batch_posts. rewrite map_map. cbn [fst]. apply map_id. Qed.

(* the induction of Index_Proofs3.index_batches_ok, for the keys *)
Lemma index_batches_nodup bs : (1 <= bs)%nat -> forall fuel rest done posts lens beg r,
  wf_docs (done ++ rest) -> (length rest <= fuel)%nat -> NoDup (map fst posts) ->
  (rest <> [] -> beg = N.of_nat (length done)) ->
  index_batches false (N.of_nat bs) beg (batches_of bs fuel rest) posts lens = AOk r -> NoDup (map fst (fst r)).
Proof.
  intros Hbs. induction fuel as [|f IH]; intros rest done posts lens beg r Hwf Hlen Hnd Hbeg H.
  - destruct rest; [|cbn [length] in Hlen; lia]. cbn [batches_of index_batches] in H. inversion H; subst. exact Hnd.
  - destruct rest as [|x r0] eqn:Er.
    + cbn [batches_of index_batches] in H. inversion H; subst. exact Hnd.
    + rewrite <- Er in *. assert (Hne : rest <> []) by (rewrite Er; discriminate).
      assert (Eb : batches_of bs (S f) rest = firstn bs rest :: batches_of bs f (skipn bs rest)).
      { rewrite Er. reflexivity. }
      clear Er x r0. rewrite Eb in H. cbn [index_batches] in H.
      set (b := firstn bs rest) in *. set (rest' := skipn bs rest) in *.
      assert (Esplit : rest = b ++ rest') by (symmetry; apply firstn_skipn).
      rewrite (Hbeg Hne) in H.
      assert (Hwfb : wf_docs (done ++ b)).
      { apply (wf_app_l _ rest'). rewrite <- app_assoc, <- Esplit. exact Hwf. }
      destruct Hwfb as [Hsb Hnb]. pose proof Hsb as Hsb'. apply Forall_app in Hsb'. destruct Hsb' as [_ Hshort].
      rewrite app_length in Hnb.
      destruct (build_batch_correct (N.of_nat (length done)) b Hshort) as (ts & K & Hk & EB); [lia|].
      rewrite EB in H. cbn [abind b_posts b_lens] in H.
      apply (IH rest' (done ++ b) _ _ _ r) in H; [exact H| | | |].
      * rewrite <- app_assoc, <- Esplit. exact Hwf.
      * unfold rest'. rewrite skipn_length. lia.
      * apply concat_posts_nodup; [exact Hnd|]. rewrite batch_posts_keys. apply sorted_lt_nodup. exact K.
      * intro Hr. rewrite app_length. unfold b. rewrite firstn_length_le; [lia|].
        destruct (Nat.le_gt_cases bs (length rest)) as [Hle|Hgt]; [exact Hle|].
        exfalso. apply Hr. unfold rest'. apply skipn_all2. lia.
Qed.

Theorem index_posts_nodup docs bs ix : wf_docs docs -> index false bs docs = AOk ix -> NoDup (map fst (ix_posts ix)).
Proof.
  intros Hwf E. unfold index in E. unfold doc in E. set (bsz := Nat.max 1 bs) in *.
  destruct (index_batches false (N.of_nat bsz) 0 (batches_of bsz (length docs) docs) [] []) as [r| | |] eqn:Er;
    cbn [abind] in E; try discriminate E.
  inversion E; subst. cbn [ix_posts].
  apply (index_batches_nodup bsz ltac:(lia) (length docs) docs [] [] [] 0 r); [exact Hwf|apply Nat.le_refl|constructor|reflexivity|exact Er].
Qed.

(* ================= 2. the directory only grows ================= *)
Theorem dir_later_keeps d d' : names_below_count d -> dir_later d d' ->
  names_below_count d' /\ forall k, dir_read d k <> None -> dir_read d' k = dir_read d k.
Proof.
  intros Hinv H. induction H as [d|d d1 p d2 m _ IH Hc|d d1 b _ IH].
  - split; [exact Hinv|reflexivity].
  - destruct (IH Hinv) as [I1 K1]. destruct (create_no_overwrite d1 p d2 m I1 Hc) as (_ & _ & I2).
    split; [exact I2|]. intros k Hk. rewrite <- (K1 k Hk).
    apply (create_isolation d1 p d2 m k I1 Hc). rewrite (K1 k Hk). exact Hk.
  - destruct (IH Hinv) as [I1 K1]. split; [apply foreign_file_inv; exact I1|].
    intros k Hk. rewrite <- (K1 k Hk). apply dir_read_app_old. rewrite (K1 k Hk). exact Hk.
Qed.

Lemma dir_later_trans d1 d2 d3 : dir_later d1 d2 -> dir_later d2 d3 -> dir_later d1 d3.
Proof.
  intros H12 H23. induction H23 as [d|d da p db m _ IH Hc|d da b _ IH]; [exact H12| |].
  - eapply later_index; [apply IH; exact H12|exact Hc].
  - apply later_file. apply IH. exact H12.
Qed.

(* the file of an index is readable, with the original content, in every later state of the directory *)
Theorem mm_load_later d0 p d1 m d : names_below_count d0 -> NoDup (map fst p) -> mm_create d0 p = (d1, m) ->
  dir_later d1 d -> mm_load d m = Some p.
Proof.
  intros Hinv Hnd Hc Hl. pose proof (mm_roundtrip d0 p d1 m Hinv Hnd Hc) as R.
  destruct (create_no_overwrite d0 p d1 m Hinv Hc) as (_ & _ & I1).
  destruct (dir_later_keeps d1 d I1 Hl) as [_ K].
  unfold mm_load in *. destruct (dir_read d1 (mm_file m)) as [blob|] eqn:E; [|discriminate].
  rewrite (K (mm_file m)) by congruence. rewrite E. exact R.
Qed.

(* ... and for an arbitrary table (a term may occur twice in the list): term by term *)
Lemma posts_of_adict_lookup data meta t :
  lookup t (posts_of_adict data meta) = adict_get data meta t.
Proof.
  unfold posts_of_adict, adict_get.
  assert (G : forall l, lookup t (map (fun tm : N * (N * N) => (fst tm, match adict_get data meta (fst tm) with Some w => w | None => [] end)) l)
              = match lookup t l with Some _ => Some (match adict_get data meta t with Some w => w | None => [] end) | None => None end).
  { induction l as [|[k v] l IH]; [reflexivity|]. cbn [map fst lookup]. destruct (N.eqb_spec t k) as [->|Hne]; [reflexivity|exact IH]. }
  rewrite G. unfold adict_get. destruct (lookup t meta) as [[off len]|]; reflexivity.
Qed.

Lemma adict_get_from t : forall p off pre, N.of_nat (length pre) = off ->
  let '(d, m) := adict_of_posts_from off p in adict_get (pre ++ d) m t = lookup t p.
Proof.
  induction p as [|[k w] rest IH]; intros off pre Hoff; cbn [adict_of_posts_from]; [reflexivity|].
  specialize (IH (off + N.of_nat (length w)) (pre ++ w)).
  destruct (adict_of_posts_from (off + N.of_nat (length w)) rest) as [d m] eqn:E.
  unfold adict_get. cbn [lookup]. destruct (N.eqb_spec t k) as [->|Hne].
  - f_equal. unfold slice_nat. subst off. rewrite Nnat.N2Nat.inj_add, !Nnat.Nat2N.id.
    replace (length pre + length w - length pre)%nat with (length w) by lia.
    rewrite skipn_app, skipn_all, Nat.sub_diag. cbn [skipn app].
    rewrite firstn_app, firstn_all, Nat.sub_diag. cbn [firstn]. apply app_nil_r.
  - rewrite app_assoc. apply IH. rewrite app_length. lia.
Qed.

Theorem adict_roundtrip_lookup p : same_posts (posts_of_adict (ad_data (adict_of_posts p)) (ad_meta (adict_of_posts p))) p.
Proof.
  intro t. rewrite posts_of_adict_lookup. pose proof (adict_get_from t p 0 [] eq_refl) as H.
  unfold adict_of_posts. destruct (adict_of_posts_from 0 p) as [d m]. cbn [ad_data ad_meta app] in *. exact H.
Qed.

Theorem mm_load_later_lookup d0 p d1 m d : names_below_count d0 -> mm_create d0 p = (d1, m) -> dir_later d1 d ->
  exists p', mm_load d m = Some p' /\ same_posts p' p.
Proof.
  intros Hinv Hc Hl. destruct (create_no_overwrite d0 p d1 m Hinv Hc) as (E & Ek & I1).
  destruct (dir_later_keeps d1 d I1 Hl) as [_ K].
  assert (R1 : dir_read d1 (mm_file m) = Some (ad_data (adict_of_posts p))).
  { rewrite E, Ek. apply dir_read_app_new. intros b Hin. apply Hinv in Hin. lia. }
  unfold mm_load. rewrite (K (mm_file m)) by congruence. rewrite R1. eexists. split; [reflexivity|].
  unfold mm_create in Hc. inversion Hc; subst. cbn [mm_meta]. apply adict_roundtrip_lookup.
Qed.

(* ================= 3. chains of selections: what stays, and which object the handle wraps ================= *)
Lemma select_fields a pos a' : select a pos = AOk a' ->
  p_df_root (a_posns a') = p_df_root (a_posns a) /\ a_avoid_copies a' = true /\
  (a_avoid_copies a = true -> handle_base (p_handle (a_posns a')) = handle_base (p_handle (a_posns a))).
Proof.
  intro H. unfold select in H. destruct (a_avoid_copies a) eqn:Ea.
  - cbn [abind] in H. inversion H; subst; clear H. cbn [a_posns p_df_root a_avoid_copies p_handle fst handle_base].
    split; [reflexivity|]. split; [reflexivity|]. intros _. destruct (p_handle (a_posns a)); reflexivity.
  - match type of H with abind (abind ?X _) _ = _ => destruct X as [all| | |] eqn:EX end; cbn [abind] in H; try discriminate H.
    inversion H; subst; clear H. cbn [a_posns p_df_root a_avoid_copies].
    split; [reflexivity|]. split; [reflexivity|]. intro Hc. discriminate Hc.
Qed.

Lemma select_chain_sh_spec : forall keys a sh,
  select_chain_sh a sh keys =
  ado v <- select_chain a keys; AOk (v, sh && match keys with [] => true | _ :: _ => a_avoid_copies a end).
Proof.
  induction keys as [|k rest IH]; intros a sh; cbn [select_chain_sh select_chain abind]; [rewrite andb_true_r; reflexivity|].
  unfold select_sh. destruct (select a k) as [a'| | |] eqn:Es; cbn [abind]; try reflexivity. cbn [fst snd].
  rewrite IH. destruct (select_chain a' rest) as [v| | |]; cbn [abind]; try reflexivity.
  destruct (select_fields a k a' Es) as (_ & Hav & _). rewrite Hav.
  destruct rest; rewrite andb_true_r; reflexivity.
Qed.

(* the tracked chain and the plain chain are the same computation; the flag is [shares_root] *)
Theorem select_chain_sh_of_index ix avoid keys :
  select_chain_sh (of_index ix avoid) true keys =
  ado v <- select_chain (of_index ix avoid) keys; AOk (v, shares_root avoid keys).
Proof. rewrite select_chain_sh_spec. destruct keys; reflexivity. Qed.

Lemma chain_sh_inv : forall keys a sh v sh', select_chain_sh a sh keys = AOk (v, sh') ->
  p_df_root (a_posns v) = p_df_root (a_posns a) /\
  (sh' = true -> sh = true /\ handle_base (p_handle (a_posns v)) = handle_base (p_handle (a_posns a))).
Proof.
  induction keys as [|k rest IH]; intros a sh v sh' H; cbn [select_chain_sh] in H.
  - inversion H; subst. split; [reflexivity|]. intro E. split; [exact E|reflexivity].
  - unfold select_sh in H. destruct (select a k) as [a'| | |] eqn:Es; cbn [abind] in H; try discriminate H. cbn [fst snd] in H.
    destruct (select_fields a k a' Es) as (Hdf & _ & Hb). destruct (IH _ _ _ _ H) as (Hdf' & Hb').
    split; [congruence|]. intro E. destruct (Hb' E) as (E1 & E2). apply andb_true_iff in E1. destruct E1 as (E1 & E3).
    split; [exact E1|]. rewrite E2. apply Hb. exact E3.
Qed.

(* every view cut from a fresh index keeps the index's postings as its document-frequency source, and reads through the
   very same table when the handle shares the root object *)
Theorem chain_root ix avoid keys v : select_chain (of_index ix avoid) keys = AOk v ->
  p_df_root (a_posns v) = ix_posts ix /\
  (shares_root avoid keys = true -> handle_base (p_handle (a_posns v)) = ix_posts ix).
Proof.
  intro H. pose proof (select_chain_sh_of_index ix avoid keys) as E. rewrite H in E. cbn [abind] in E.
  destruct (chain_sh_inv _ _ _ _ _ E) as (H1 & H2). split; [exact H1|]. intro Hs. exact (proj2 (H2 Hs)).
Qed.

(* ================= 4. the literal round trip ================= *)
Lemma mk_handle_eta h : mk_handle (handle_base h) (handle_ids h) = h.
Proof. destruct h; reflexivity. Qed.

Lemma unpickle_pickle_gen d res sh v :
  load_root d (pk_root_store (pickle_arr res sh v)) = Some (p_df_root (a_posns v)) ->
  (sh = true -> handle_base (p_handle (a_posns v)) = p_df_root (a_posns v)) ->
  unpickle_arr d (pickle_arr res sh v) = Some v.
Proof.
  intros H1 H2. unfold unpickle_arr. rewrite H1. f_equal.
  destruct v as [terms [h mx dfr] rows sub lens tot n av].
  cbn [pickle_arr pk_terms pk_base_store pk_ids pk_max_doc_id pk_rows pk_subset pk_lens pk_total pk_n pk_avoid_copies
       a_terms a_posns a_rows a_subset a_lens a_total a_n a_avoid_copies p_handle p_max_doc_id p_df_root] in *.
  f_equal. f_equal. destruct sh.
  - rewrite <- (H2 eq_refl). apply mk_handle_eta.
  - apply mk_handle_eta.
Qed.

Lemma load_root_stored d0 use_dir ix d1 res d v :
  NoDup (map fst (ix_posts ix)) -> names_below_count d0 -> store_index d0 use_dir ix = (d1, res) -> dir_later d1 d ->
  p_df_root (a_posns v) = ix_posts ix ->
  forall sh, load_root d (pk_root_store (pickle_arr res sh v)) = Some (ix_posts ix).
Proof.
  intros Hnd Hinv Hs Hl Hdf sh. unfold store_index in Hs.
  assert (Hmem : load_root d (pk_root_store (pickle_arr InMemory sh v)) = Some (ix_posts ix)).
  { cbn [pickle_arr pk_root_store load_root]. rewrite Hdf. f_equal. apply adict_roundtrip. exact Hnd. }
  destruct use_dir; [|inversion Hs; subst; exact Hmem].
  destruct (ix_posts ix) as [|kv rest] eqn:Ep; [inversion Hs; subst; exact Hmem|]. rewrite <- Ep in *.
  destruct (mm_create d0 (ix_posts ix)) as [d' m] eqn:Ec. inversion Hs; subst.
  cbn [pickle_arr pk_root_store load_root]. exact (mm_load_later d0 (ix_posts ix) d1 m d Hinv Hnd Ec Hl).
Qed.

(* the directory state after indexing is a later state of the one before, and keeps the naming invariant *)
Lemma store_index_later d0 use_dir ix d1 res : names_below_count d0 -> store_index d0 use_dir ix = (d1, res) ->
  dir_later d0 d1 /\ names_below_count d1.
Proof.
  intros Hinv Hs. unfold store_index in Hs.
  destruct use_dir; [|inversion Hs; subst; split; [apply later_now|exact Hinv]].
  destruct (ix_posts ix) as [|kv rest] eqn:Ep; [inversion Hs; subst; split; [apply later_now|exact Hinv]|]. rewrite <- Ep in *.
  destruct (mm_create d0 (ix_posts ix)) as [d' m] eqn:Ec. inversion Hs; subst.
  split; [eapply later_index; [apply later_now|exact Ec]|]. exact (proj2 (proj2 (create_no_overwrite _ _ _ _ Hinv Ec))).
Qed.

(* MAIN THEOREM.  Any chain of selections from a fresh index (both avoid_copies modes, keys in any order, repeats), the index
   kept in memory or written to a directory in ANY state satisfying the naming invariant, the pickle loaded in ANY later
   state of that directory: the unpickled array is the original one. *)
Theorem view_pickle_roundtrip docs bs ix avoid keys v d0 use_dir d1 res d :
  wf_docs docs -> index false bs docs = AOk ix -> select_chain (of_index ix avoid) keys = AOk v ->
  names_below_count d0 -> store_index d0 use_dir ix = (d1, res) -> dir_later d1 d ->
  unpickle_arr d (pickle_arr res (shares_root avoid keys) v) = Some v.
Proof.
  intros Hwf E Hv Hinv Hs Hl. destruct (chain_root ix avoid keys v Hv) as (Hdf & Hb).
  apply unpickle_pickle_gen.
  - rewrite Hdf. apply (load_root_stored d0 use_dir ix d1 res d v); try assumption. exact (index_posts_nodup docs bs ix Hwf E).
  - intro Hsh. rewrite Hdf. apply Hb. exact Hsh.
Qed.

Lemma same_view_answers_refl v : same_view_answers v v.
Proof. unfold same_view_answers. repeat split. Qed.

Corollary view_pickle_answers docs bs ix avoid keys v d0 use_dir d1 res d :
  wf_docs docs -> index false bs docs = AOk ix -> select_chain (of_index ix avoid) keys = AOk v ->
  names_below_count d0 -> store_index d0 use_dir ix = (d1, res) -> dir_later d1 d ->
  exists v', unpickle_arr d (pickle_arr res (shares_root avoid keys) v) = Some v' /\ same_view_answers v v' /\
             forall more, select_chain v' more = select_chain v more.
Proof.
  intros Hwf E Hv Hinv Hs Hl. exists v. split; [eapply view_pickle_roundtrip; eassumption|].
  split; [apply same_view_answers_refl|reflexivity].
Qed.

(* the in-memory case needs no directory at all: it loads in every directory state *)
Corollary in_memory_pickle_roundtrip docs bs ix avoid keys v d :
  wf_docs docs -> index false bs docs = AOk ix -> select_chain (of_index ix avoid) keys = AOk v ->
  unpickle_arr d (pickle_arr InMemory (shares_root avoid keys) v) = Some v.
Proof.
  intros Hwf E Hv. destruct (chain_root ix avoid keys v Hv) as (Hdf & Hb).
  apply unpickle_pickle_gen.
  - cbn [pickle_arr pk_root_store load_root]. f_equal. apply adict_roundtrip. rewrite Hdf. exact (index_posts_nodup docs bs ix Hwf E).
  - intro Hsh. rewrite Hdf. apply Hb. exact Hsh.
Qed.

(* ================= 5. any index record: term-by-term agreement is enough ================= *)
Lemma get_enc_same h h' : handle_ids h' = handle_ids h -> same_posts (handle_base h') (handle_base h) ->
  forall t, get_enc h' t = get_enc h t.
Proof.
  intros Hi Hb t. destruct h as [p|b ids], h' as [p'|b' ids']; cbn [handle_ids handle_base] in *; try discriminate Hi;
    cbn [get_enc]; unfold lookup_posts; rewrite (Hb t); [reflexivity|]. inversion Hi; subst. reflexivity.
Qed.

Section SameView.
Variables v v' : sarray.
Hypothesis Hsame : same_view v v'.

Let Hterms : a_terms v' = a_terms v. Proof. apply Hsame. Qed.
Let Hrows : a_rows v' = a_rows v. Proof. apply Hsame. Qed.
Let Hsub : a_subset v' = a_subset v. Proof. apply Hsame. Qed.
Let Hlens : a_lens v' = a_lens v. Proof. apply Hsame. Qed.
Let Htot : a_total v' = a_total v. Proof. apply Hsame. Qed.
Let Hn : a_n v' = a_n v. Proof. apply Hsame. Qed.
Let Hmax : p_max_doc_id (a_posns v') = p_max_doc_id (a_posns v). Proof. apply Hsame. Qed.
Let Henc : forall t, get_enc (p_handle (a_posns v')) t = get_enc (p_handle (a_posns v)) t.
Proof. apply get_enc_same; apply Hsame. Qed.
Let Hdf : forall t, lookup_posts t (p_df_root (a_posns v')) = lookup_posts t (p_df_root (a_posns v)).
Proof. intro t. unfold lookup_posts. destruct Hsame as (_&_&_&_&_&_&_&_&_&_&H). rewrite (H t). reflexivity. Qed.

Lemma sv_known t : known_a v' t = known_a v t.
Proof. unfold known_a. rewrite Hterms. reflexivity. Qed.
Lemma sv_all_known : forall ts, forallb (known_a v') ts = forallb (known_a v) ts.
Proof. induction ts as [|t ts IH]; [reflexivity|]. cbn [forallb]. rewrite sv_known, IH. reflexivity. Qed.
Lemma sv_nrows : nrows v' = nrows v.
Proof. unfold nrows. rewrite Hrows. reflexivity. Qed.

Theorem sv_termfreqs t lo hi : v_termfreqs v' t lo hi = v_termfreqs v t lo hi.
Proof. unfold v_termfreqs. rewrite sv_known, sv_nrows, Hsub, Henc, Hrows, Hmax. reflexivity. Qed.

Lemma sv_get_all_enc lo hi : forall ts,
  get_all_enc (p_handle (a_posns v')) ts lo hi = get_all_enc (p_handle (a_posns v)) ts lo hi.
Proof. induction ts as [|t ts IH]; [reflexivity|]. cbn [get_all_enc]. rewrite Henc, IH. reflexivity. Qed.

Theorem sv_phrase_freqs ph lo hi : v_phrase_freqs v' ph lo hi = v_phrase_freqs v ph lo hi.
Proof. unfold v_phrase_freqs. rewrite sv_all_known, sv_nrows, sv_get_all_enc, Hmax, Hsub, Hrows. reflexivity. Qed.

Theorem sv_docfreq t : v_docfreq v' t = v_docfreq v t.
Proof. unfold v_docfreq. rewrite sv_known, Hdf. reflexivity. Qed.

Theorem sv_positions t : v_positions v' t = v_positions v t.
Proof. unfold v_positions. rewrite sv_known, Henc, Hrows. reflexivity. Qed.

Lemma sv_all_dfs : forall ts, v_all_dfs v' ts = v_all_dfs v ts.
Proof. induction ts as [|t ts IH]; [reflexivity|]. cbn [v_all_dfs]. rewrite sv_docfreq, IH. reflexivity. Qed.

Lemma sv_tf_vector ts lo hi : v_tf_vector v' ts lo hi = v_tf_vector v ts lo hi.
Proof. unfold v_tf_vector. destruct ts as [|t [|u r]]; [apply sv_phrase_freqs|apply sv_termfreqs|apply sv_phrase_freqs]. Qed.

Theorem sv_score_args ts lo hi : v_score_args v' ts lo hi = v_score_args v ts lo hi.
Proof. unfold v_score_args, v_doclengths. rewrite sv_all_dfs, sv_tf_vector, Hlens, Htot, Hn. reflexivity. Qed.

Theorem sv_score_bm25 ts idf k1 b : v_score_bm25 v' ts idf k1 b = v_score_bm25 v ts idf k1 b.
Proof. unfold v_score_bm25. rewrite sv_score_args. reflexivity. Qed.

(* element access arr[i] (Rebuild/Rebuild.v): the distinct terms of the row's document with their encoded words, and its length *)
Lemma sv_element_terms r : forall ts, element_terms (p_handle (a_posns v')) r ts = element_terms (p_handle (a_posns v)) r ts.
Proof. induction ts as [|t ts IH]; [reflexivity|]. cbn [element_terms]. rewrite IH, Henc. reflexivity. Qed.
Theorem sv_element_of i : element_of v' i = element_of v i.
Proof. unfold element_of. rewrite Hrows, Hterms, Hlens. destruct (nth_error (a_rows v) i) as [r|]; [|reflexivity]. rewrite sv_element_terms. reflexivity. Qed.
Theorem sv_elements : elements_of v' = elements_of v.
Proof.
  unfold elements_of. rewrite Hrows. generalize (seq 0 (length (a_rows v))). intro l.
  induction l as [|i l IH]; [reflexivity|]. cbn [elements_from]. rewrite sv_element_of, IH. reflexivity.
Qed.

Theorem same_view_same_answers : same_view_answers v v'.
Proof.
  unfold same_view_answers. split; [exact sv_termfreqs|]. split; [exact sv_docfreq|]. split; [exact sv_positions|].
  split; [exact sv_phrase_freqs|]. split; [exact sv_score_args|]. split; [exact sv_score_bm25|].
  unfold v_doclengths. repeat split; assumption.
Qed.
End SameView.

Lemma same_posts_refl p : same_posts p p. Proof. intro t. reflexivity. Qed.

(* no hypothesis on the index record: ANY sindex, any chain; the postings tables of the unpickled array agree with the
   original ones term by term, everything else is equal *)
Lemma unpickle_pickle_same d res sh v rp :
  load_root d (pk_root_store (pickle_arr res sh v)) = Some rp -> same_posts rp (p_df_root (a_posns v)) ->
  (sh = true -> handle_base (p_handle (a_posns v)) = p_df_root (a_posns v)) ->
  exists v', unpickle_arr d (pickle_arr res sh v) = Some v' /\ same_view v v'.
Proof.
  intros H1 Hrp H2. unfold unpickle_arr. rewrite H1. eexists. split; [reflexivity|].
  unfold same_view.
  cbn [pickle_arr pk_terms pk_base_store pk_ids pk_max_doc_id pk_rows pk_subset pk_lens pk_total pk_n pk_avoid_copies
       a_terms a_posns a_rows a_subset a_lens a_total a_n a_avoid_copies p_handle p_max_doc_id p_df_root].
  repeat (split; [reflexivity|]).
  assert (Hmk : forall b i, handle_ids (mk_handle b i) = i /\ handle_base (mk_handle b i) = b) by (intros b [i|]; split; reflexivity).
  split; [apply Hmk|]. split; [|exact Hrp].
  rewrite (proj2 (Hmk _ _)). destruct sh; [rewrite (H2 eq_refl); exact Hrp|apply same_posts_refl].
Qed.

Theorem view_pickle_any_index ix avoid keys v d0 use_dir d1 res d :
  select_chain (of_index ix avoid) keys = AOk v ->
  names_below_count d0 -> store_index d0 use_dir ix = (d1, res) -> dir_later d1 d ->
  exists v', unpickle_arr d (pickle_arr res (shares_root avoid keys) v) = Some v' /\ same_view v v' /\ same_view_answers v v'.
Proof.
  intros Hv Hinv Hs Hl. destruct (chain_root ix avoid keys v Hv) as (Hdf & Hb).
  assert (Hload : exists rp, load_root d (pk_root_store (pickle_arr res (shares_root avoid keys) v)) = Some rp /\
                             same_posts rp (p_df_root (a_posns v))).
  { unfold store_index in Hs.
    assert (Hmem : exists rp, load_root d (pk_root_store (pickle_arr InMemory (shares_root avoid keys) v)) = Some rp /\
                              same_posts rp (p_df_root (a_posns v))).
    { cbn [pickle_arr pk_root_store load_root]. eexists. split; [reflexivity|]. apply adict_roundtrip_lookup. }
    destruct use_dir; [|inversion Hs; subst; exact Hmem].
    destruct (ix_posts ix) as [|kv rest] eqn:Ep; [inversion Hs; subst; exact Hmem|]. rewrite <- Ep in *.
    destruct (mm_create d0 (ix_posts ix)) as [d' m] eqn:Ec. inversion Hs; subst.
    cbn [pickle_arr pk_root_store load_root]. rewrite Hdf. exact (mm_load_later_lookup d0 (ix_posts ix) d1 m d Hinv Ec Hl). }
  destruct Hload as (rp & H1 & H2).
  destruct (unpickle_pickle_same d res (shares_root avoid keys) v rp H1 H2) as (v' & E & S).
  - intro Hsh. rewrite Hdf. apply Hb. exact Hsh.
  - exists v'. split; [exact E|]. split; [exact S|]. apply same_view_same_answers. exact S.
Qed.

(* ================= 6. computed: a view [4;2;0] of 5 documents, both residences, both avoid_copies modes =================
   the directory already holds an unrelated file and an older index; after pickling, two more indexes and another
   unrelated file are added; the pickle is then loaded.  (The same scenario on the library: files 2.dat, 3.dat, 5.dat.) *)
Definition ex_docs5 : list (list N) := [[1;2;1;3];[];[2];[1;1;2];[3;1]].
Definition ex_d0 : dir := [(None, [42]); (Some 0, [1;2;3])].
Example ex_view_roundtrip : forall avoid use_dir,
  match index false 2 ex_docs5, index false 100 [[7;8];[8]], index false 100 [[9]] with
  | AOk ix, AOk ix2, AOk ix3 =>
    match select_chain (of_index ix avoid) [[4;2;0]] with
    | AOk v =>
       let '(d1, res) := store_index ex_d0 use_dir ix in
       let '(d2, _) := store_index d1 true ix2 in
       let d3 := d2 ++ [(None, [5])] in
       let '(d4, _) := store_index d3 true ix3 in
       let pk := pickle_arr res (shares_root avoid [[4;2;0]]) v in
       (* what the pickle holds *)
       (match pk_root_store pk with
        | PkMapped m => use_dir = true /\ mm_file m = 2 /\ mm_meta m = [(1, (0, 3)); (2, (3, 3)); (3, (6, 2))]
        | PkArrayDict ad => use_dir = false /\ length (ad_data ad) = 8%nat
        end) /\
       (match pk_base_store pk with
        | PkSameAsRoot => avoid = true /\ pk_ids pk = Some [0;2;4]
        | PkDict p => avoid = false /\ pk_ids pk = None /\ map fst p = [1;2;3] /\ map (fun kv => length (snd kv)) p = [2;2;2]%nat
        end) /\
       pk_rows pk = [4;2;0] /\
       map fst d4 = (if use_dir then [None; Some 0; Some 2; Some 3; None; Some 5] else [None; Some 0; Some 2; None; Some 4]) /\
       (* loading *)
       unpickle_arr d4 pk = Some v /\
       (use_dir = true -> unpickle_arr ex_d0 pk = None) /\          (* not loadable where the file does not exist *)
       v_termfreqs v 1 None None = AOk [1;0;2] /\ v_phrase_freqs v [1;2] None None = AOk [0;0;1] /\
       v_docfreq v 1 = AOk 3 /\ v_positions v 1 = AOk [[1]; []; [0;2]] /\
       v_score_bm25 v [1] 4607182418800017408 4608083138725491507 4604930618986332160
         = AOk [1055439406; 0; 1056555406]%Z
    | _ => False end
  | _, _, _ => False end.
Proof. intros [|] [|]; vm_compute; repeat split; try reflexivity; intro H; discriminate H. Qed.

(* a view of a view, and the root array itself *)
Example ex_view_of_view_roundtrip : forall avoid,
  match index false 2 ex_docs5 with
  | AOk ix =>
    match select_chain (of_index ix avoid) [[4;2;0;0];[1;0;3]], store_index ex_d0 true ix with
    | AOk v, (d1, res) =>
        unpickle_arr (d1 ++ [(None, [])]) (pickle_arr res (shares_root avoid [[4;2;0;0];[1;0;3]]) v) = Some v /\
        unpickle_arr d1 (pickle_arr res (shares_root avoid []) (of_index ix avoid)) = Some (of_index ix avoid) /\
        a_rows v = [2;4;0] /\ handle_ids (p_handle (a_posns v)) = Some [0;2;4] /\
        v_phrase_freqs v [1;2] None None = AOk [0;0;1]
    | _, _ => False end
  | _ => False end.
Proof. intros [|]; vm_compute; repeat split. Qed.

(* with valid keys (View_Proofs.valid_keys: every position within the current array) the view exists, so the statement is
   not vacuous for any corpus, any chain, any directory *)
Theorem view_pickle_total docs bs ix avoid keys d0 use_dir d1 res d :
  wf_docs docs -> index false bs docs = AOk ix -> valid_keys (length docs) keys ->
  names_below_count d0 -> store_index d0 use_dir ix = (d1, res) -> dir_later d1 d ->
  exists v, select_chain (of_index ix avoid) keys = AOk v /\
            unpickle_arr d (pickle_arr res (shares_root avoid keys) v) = Some v.
Proof.
  intros Hwf E Hk Hinv Hs Hl. destruct (C06_select_total docs bs ix avoid keys Hwf E Hk) as (v & Hv).
  exists v. split; [exact Hv|]. eapply view_pickle_roundtrip; eassumption.
Qed.

Print Assumptions index_posts_nodup.
Print Assumptions dir_later_keeps.
Print Assumptions select_chain_sh_of_index.
Print Assumptions view_pickle_roundtrip.
Print Assumptions view_pickle_answers.
Print Assumptions in_memory_pickle_roundtrip.
Print Assumptions view_pickle_any_index.
Print Assumptions view_pickle_total.
