(* Model of the on-disk side of an index (C18): searcharray/phrase/memmap_arrays.py
     create_filename (7-12): <data_dir>/<number of directory entries>, + '.dat'
     ArrayDict (15-143): one contiguous uint64 array + per-term (offset, length) metadata
     MemoryMappedArrays (145-208): the blob is written once at creation; the pickle state is
       (metadata, filename); unpickling re-maps the file and slices it by the metadata.
   A directory is the list of its entries: (Some k, blob) for "<k>.dat", (None, blob) for any other file. *)
From SA Require Import Base.Prelude Codec.Codec Index.Index.
Open Scope N_scope.

Definition posts := list (N * list N).

(* ---- ArrayDict ---- *)
Record adict := { ad_data : list N; ad_meta : list (N * (N * N)) }.      (* term -> (offset, length) *)
Fixpoint adict_of_posts_from (off : N) (p : posts) : list N * list (N * (N * N)) :=
  match p with
  | [] => ([], [])
  | (t, w) :: rest =>
      let '(d, m) := adict_of_posts_from (off + N.of_nat (length w)) rest in
      (w ++ d, (t, (off, N.of_nat (length w))) :: m)
  end.
Definition adict_of_posts (p : posts) : adict :=
  let '(d, m) := adict_of_posts_from 0 p in {| ad_data := d; ad_meta := m |}.
(* ArrayDict.__getitem__ *)
Definition adict_get (data : list N) (meta : list (N * (N * N))) (t : N) : option (list N) :=
  match lookup t meta with
  | Some (off, len) => Some (slice_nat data (N.to_nat off) (N.to_nat (off + len)))
  | None => None
  end.
Definition posts_of_adict (data : list N) (meta : list (N * (N * N))) : posts :=
  map (fun tm => (fst tm, match adict_get data meta (fst tm) with Some w => w | None => [] end)) meta.

(* ---- the directory ---- *)
Definition dir := list (option N * list N).
Definition dir_count (d : dir) : N := N.of_nat (length d).
Fixpoint dir_write (d : dir) (k : N) (blob : list N) : dir :=     (* open(name, 'wb'): overwrite if present, else create *)
  match d with
  | [] => [(Some k, blob)]
  | (Some k', b) :: rest => if k =? k' then (Some k, blob) :: rest else (Some k', b) :: dir_write rest k blob
  | e :: rest => e :: dir_write rest k blob
  end.
Fixpoint dir_read (d : dir) (k : N) : option (list N) :=
  match d with
  | [] => None
  | (Some k', b) :: rest => if k =? k' then Some b else dir_read rest k
  | _ :: rest => dir_read rest k
  end.

(* MemoryMappedArrays(data_dir, arrays): filename = number of entries; write the blob *)
Record mmapped := { mm_meta : list (N * (N * N)); mm_file : N }.
Definition mm_create (d : dir) (p : posts) : dir * mmapped :=
  let ad := adict_of_posts p in
  let k := dir_count d in
  (dir_write d k (ad_data ad), {| mm_meta := ad_meta ad; mm_file := k |}).
(* __setstate__ / _load_arrays: np.memmap(filename); postings are slices of the file *)
Definition mm_load (d : dir) (m : mmapped) : option posts :=
  match dir_read d (mm_file m) with
  | Some blob => Some (posts_of_adict blob (mm_meta m))
  | None => None
  end.

(* every "<k>.dat" in the directory has k below the number of entries *)
Definition names_below_count (d : dir) : Prop :=
  forall k b, In (Some k, b) d -> k < dir_count d.
