(* Model of what pickle stores for a SearchArray -- an indexed array or ANY view of it, in memory or backed by a
   data directory -- and of what unpickling rebuilds (C18).  No proofs here.

   None of SearchArray, RowViewableMatrix, PosnBitArray, FilteredPosns, ArrayDict, TermDict defines __getstate__ /
   __reduce__: pickle stores every attribute of the object graph BY VALUE, once per object (memo).  The only class with
   pickle hooks is MemoryMappedArrays (memmap_arrays.py 197-208): its state is (metadata, filename) and loading re-maps
   the file.  Pickling never writes or reads the directory: the blob was written when the index was built
   (indexing.py 293-295, 230-232 -> middle_out.py PosnBitArray.memmap 352-354 -> MemoryMappedArrays.__init__ /
   _initialize_file 146-161).

   Attributes of a SearchArray (postings.py __init__ 237-247, index 292-299, __getitem__ 343-358) and where they are in the model:
     term_dict                         a_terms                      by value
     term_mat.rows / .subset           a_rows / a_subset            by value   (row_viewable_matrix.py 22-32)
     term_mat.mat                      --                           by value; the document x term incidence matrix is not in
                                                                    View.v (element access is modelled through the postings,
                                                                    Rebuild/Rebuild.v element_of), nor is tokenizer (pickled
                                                                    by reference, like any function)
     doc_lens                          a_lens                       by value
     avg_doc_length, corpus_size       a_total, a_n                 by value   (inherited from the parent by __getitem__)
     avoid_copies                      a_avoid_copies               by value
     posns.max_doc_id                  p_max_doc_id                 by value
     posns.encoded_term_posns          p_handle                     see below
     posns.df_source                   p_df_root                    the ROOT PosnBitArray (middle_out.py 336-344, 373-374);
                                                                    its encoded_term_posns is the ROOT postings object
   The postings objects reachable from posns:
     root array                encoded_term_posns = R                         (R : ArrayDict, or MemoryMappedArrays with data_dir)
     view, avoid_copies        encoded_term_posns = FilteredPosns(base=R, doc_ids)  or R itself once filter() has reset it
                               (middle_out.py 363-371, 376-378);  df_source.encoded_term_posns = R  -- the SAME object
     view, not avoid_copies    encoded_term_posns = a plain dict built by PosnBitArray.slice (404-413): by value, also when R
                               is memory mapped;  df_source.encoded_term_posns = R
     view of such a view       FilteredPosns(base = that dict, doc_ids)   (a selection result has avoid_copies = True)
   So a pickled view of an avoid_copies array carries the PARENT's FULL postings (in memory: all of them by value; with a
   data directory: metadata + file name), never a filtered copy; a pickled view of a non-avoid_copies array carries its own
   sliced dict by value AND the root's full postings (through df_source).
   The caches that are pickled along (FilteredPosns.sliced, docfreq_cache, termfreq_cache) are modelled at the end of this file
   on the query-time state machine of View/Purity.v. *)
From Coq Require Import ZArith.
From SA Require Import Base.Prelude Codec.Codec Index.Index View.View View.Purity Store.Store.
Open Scope N_scope.

(* ================= 1. the pure array (View/View.v) ================= *)
Definition handle_base (h : handle) : View.posts := match h with HBase p => p | HFiltered b _ => b end.
Definition handle_ids (h : handle) : option (list N) := match h with HBase _ => None | HFiltered _ ids => Some ids end.
Definition mk_handle (base : View.posts) (ids : option (list N)) : handle :=
  match ids with None => HBase base | Some i => HFiltered base i end.

(* ---- object identity: is the base of the handle the ROOT postings object?  __getitem__ with avoid_copies keeps the object
   (posns.filter), without it builds a new dict (posns.slice); View.select models the values only, so the identity is
   tracked next to it ---- *)
Definition select_sh (a : sarray) (sh : bool) (pos : list N) : api (sarray * bool) :=
  ado a' <- select a pos; AOk (a', sh && a_avoid_copies a).
Fixpoint select_chain_sh (a : sarray) (sh : bool) (keys : list (list N)) : api (sarray * bool) :=
  match keys with
  | [] => AOk (a, sh)
  | k :: rest => ado x <- select_sh a sh k; select_chain_sh (fst x) (snd x) rest
  end.
(* closed form for chains that start at a fresh index (every selection result has avoid_copies = True) *)
Definition shares_root (avoid : bool) (keys : list (list N)) : bool :=
  match keys with [] => true | _ :: _ => avoid end.

(* ---- where the ROOT postings object lives ---- *)
Inductive residence :=
| InMemory                       (* ArrayDict *)
| OnDisk (m : mmapped).          (* MemoryMappedArrays: metadata + file name; the words are in the file *)

(* SearchArray.index(..., data_dir=...): the postings are written to a new file of the directory, unless there is no term
   at all ("if self.encoded_term_posns:" -- ArrayDict.__len__ is the number of terms, middle_out.py 352-354, memmap_arrays.py 118-119) *)
Definition store_index (d : dir) (use_dir : bool) (ix : sindex) : dir * residence :=
  if use_dir then
    match ix_posts ix with
    | [] => (d, InMemory)
    | _ => let '(d', m) := mm_create d (ix_posts ix) in (d', OnDisk m)
    end
  else (d, InMemory).

(* ---- later states of the directory: further indexes (each under the name "number of entries") and unrelated files ---- *)
Inductive dir_later : dir -> dir -> Prop :=
| later_now d : dir_later d d
| later_index d d1 p d2 m : dir_later d d1 -> mm_create d1 p = (d2, m) -> dir_later d d2
| later_file d d1 b : dir_later d d1 -> dir_later d (d1 ++ [(None, b)]).

(* ---- the pickle ---- *)
Inductive pk_root :=
| PkArrayDict (ad : adict)       (* ArrayDict by value: data + per-term (offset, length) *)
| PkMapped (m : mmapped).        (* MemoryMappedArrays.__getstate__: metadata + filename, no words *)
Inductive pk_base :=
| PkSameAsRoot                   (* the root object itself: pickled once, both references restored to one object *)
| PkDict (p : View.posts).       (* a dict made by PosnBitArray.slice: by value *)
Record pickled := {
  pk_terms : list N;
  pk_root_store : pk_root;       (* df_source.encoded_term_posns (the array's own encoded_term_posns for a root array) *)
  pk_base_store : pk_base;       (* encoded_term_posns, or FilteredPosns.base *)
  pk_ids : option (list N);      (* Some ids: encoded_term_posns is FilteredPosns(base, ids) *)
  pk_max_doc_id : N;
  pk_rows : list N;
  pk_subset : bool;
  pk_lens : list N;
  pk_total : N;
  pk_n : N;
  pk_avoid_copies : bool;
}.

(* pickle.dumps(arr): pure.  [res]: residence of the root object, [sh]: the handle's base IS the root object *)
Definition pickle_arr (res : residence) (sh : bool) (a : sarray) : pickled :=
  {| pk_terms := a_terms a;
     pk_root_store := match res with
                      | InMemory => PkArrayDict (adict_of_posts (p_df_root (a_posns a)))
                      | OnDisk m => PkMapped m
                      end;
     pk_base_store := if sh then PkSameAsRoot else PkDict (handle_base (p_handle (a_posns a)));
     pk_ids := handle_ids (p_handle (a_posns a));
     pk_max_doc_id := p_max_doc_id (a_posns a);
     pk_rows := a_rows a; pk_subset := a_subset a; pk_lens := a_lens a;
     pk_total := a_total a; pk_n := a_n a; pk_avoid_copies := a_avoid_copies a |}.

(* restoring the root object: an ArrayDict is sliced by its metadata; a MemoryMappedArrays re-maps its file
   (None: the file is not there -- FileNotFoundError) *)
Definition load_root (d : dir) (r : pk_root) : option View.posts :=
  match r with
  | PkArrayDict ad => Some (posts_of_adict (ad_data ad) (ad_meta ad))
  | PkMapped m => mm_load d m
  end.

(* pickle.loads(...) in the directory state d *)
Definition unpickle_arr (d : dir) (k : pickled) : option sarray :=
  match load_root d (pk_root_store k) with
  | None => None
  | Some rp =>
      let base := match pk_base_store k with PkSameAsRoot => rp | PkDict p => p end in
      Some {| a_terms := pk_terms k;
              a_posns := {| p_handle := mk_handle base (pk_ids k); p_max_doc_id := pk_max_doc_id k; p_df_root := rp |};
              a_rows := pk_rows k; a_subset := pk_subset k; a_lens := pk_lens k;
              a_total := pk_total k; a_n := pk_n k; a_avoid_copies := pk_avoid_copies k |}
  end.

(* ---- "answers every query identically" ---- *)
Definition same_view_answers (v v' : sarray) : Prop :=
  (forall t lo hi, v_termfreqs v' t lo hi = v_termfreqs v t lo hi) /\
  (forall t, v_docfreq v' t = v_docfreq v t) /\
  (forall t, v_positions v' t = v_positions v t) /\
  (forall ph lo hi, v_phrase_freqs v' ph lo hi = v_phrase_freqs v ph lo hi) /\
  (forall ts lo hi, v_score_args v' ts lo hi = v_score_args v ts lo hi) /\
  (forall ts idf k1 b, v_score_bm25 v' ts idf k1 b = v_score_bm25 v ts idf k1 b) /\
  v_doclengths v' = v_doclengths v /\ a_total v' = a_total v /\ a_n v' = a_n v /\
  a_rows v' = a_rows v /\ a_subset v' = a_subset v /\ a_terms v' = a_terms v.

(* the relation between an array and its unpickled copy when the postings tables are only known to agree term by term
   (all that MemoryMappedArrays / ArrayDict guarantee when a term occurs twice in the LIST that models the dict) *)
Definition same_posts (p q : View.posts) : Prop := forall t, lookup t p = lookup t q.
Definition same_view (v v' : sarray) : Prop :=
  a_terms v' = a_terms v /\ a_rows v' = a_rows v /\ a_subset v' = a_subset v /\ a_lens v' = a_lens v /\
  a_total v' = a_total v /\ a_n v' = a_n v /\ a_avoid_copies v' = a_avoid_copies v /\
  p_max_doc_id (a_posns v') = p_max_doc_id (a_posns v) /\
  handle_ids (p_handle (a_posns v')) = handle_ids (p_handle (a_posns v)) /\
  same_posts (handle_base (p_handle (a_posns v'))) (handle_base (p_handle (a_posns v))) /\
  same_posts (p_df_root (a_posns v')) (p_df_root (a_posns v)).

(* ================= 2. the pickled caches (query-time state machine, View/Purity.v) =================
   A PosnBitArray object is pickled with its caches (docfreq_cache, termfreq_cache, cache_gt_than) and, while its
   encoded_term_posns is a FilteredPosns, with that wrapper's doc_ids and its [sliced] cache.  The machine of View/Purity.v
   covers avoid_copies arrays (init_pool: of_index ix true; m_select: posns.filter), where every PosnBitArray reads the
   ROOT postings object; the pickle of one array of the pool therefore holds: the array, its PosnBitArray, the root
   PosnBitArray (df_source; absent for the root array itself) and ONE postings object. *)
Record pk_pba := {
  pb_wrapper : option (list N * list (N * list N));   (* FilteredPosns currently installed: (doc_ids, sliced) *)
  pb_dfcache : list (N * N);
  pb_tfcache : list (N * list (N * N));
  pb_cache_gt : N;
  pb_max_doc_id : N;
}.
Record pk_pool_array := {
  pa_fields : pickled;                (* the array attributes and the postings object (pk_base_store = PkSameAsRoot) *)
  pa_self : pk_pba;                   (* arr.posns *)
  pa_dfsrc : option pk_pba;           (* arr.posns.df_source; None: arr.posns is a root *)
}.

Definition pickle_pba (s : pstate) : pk_pba :=
  {| pb_wrapper := match ps_filtered_now s, ps_ids s with
                   | true, Some ids => Some (ids, ps_sliced s)
                   | _, _ => None        (* filter() replaced the wrapper by its base: the wrapper is no longer referenced *)
                   end;
     pb_dfcache := ps_dfcache s; pb_tfcache := ps_tfcache s; pb_cache_gt := ps_cache_gt s;
     pb_max_doc_id := ps_max_doc_id s |}.

Definition pickle_pool_array (res : residence) (p : pool) (a : parray) : pk_pool_array :=
  {| pa_fields := pickle_arr res true (pa_arr a);
     pa_self := pickle_pba (get_ps p (pa_pid a));
     pa_dfsrc := match ps_root (get_ps p (pa_pid a)) with
                 | Some r => Some (pickle_pba (get_ps p r))
                 | None => None
                 end |}.

(* a restored PosnBitArray.  [ids_of_rows]: the ids the pure model attaches to the array (np.unique of its rows) when the
   object no longer holds a wrapper -- View/Purity.v keeps them in the state only to name the pure handle *)
Definition unpickle_pba (base : View.posts) (ghost_ids : option (list N)) (root : option nat) (k : pk_pba) : pstate :=
  {| ps_base := base;
     ps_ids := match pb_wrapper k with Some (ids, _) => Some ids | None => ghost_ids end;
     ps_filtered_now := match pb_wrapper k with Some _ => true | None => false end;
     ps_sliced := match pb_wrapper k with Some (_, sl) => sl | None => [] end;
     ps_dfcache := pb_dfcache k; ps_tfcache := pb_tfcache k; ps_cache_gt := pb_cache_gt k;
     ps_max_doc_id := pb_max_doc_id k; ps_root := root |}.

(* the pool of a process that has just unpickled one array: array 0; object 0 is the root PosnBitArray *)
Definition unpickle_pool_array (d : dir) (k : pk_pool_array) : option pool :=
  match unpickle_arr d (pa_fields k), load_root d (pk_root_store (pa_fields k)) with
  | Some arr, Some rp =>
      let ghost := if a_subset arr then Some (np_unique (a_rows arr)) else None in
      match pa_dfsrc k with
      | None => Some {| heap := [unpickle_pba rp ghost None (pa_self k)]; arrays := [{| pa_arr := arr; pa_pid := 0 |}] |}
      | Some kr => Some {| heap := [unpickle_pba rp None None kr; unpickle_pba rp ghost (Some 0%nat) (pa_self k)];
                           arrays := [{| pa_arr := arr; pa_pid := 1 |}] |}
      end
  | _, _ => None
  end.

(* an operation addressed to array [ai] re-addressed to array 0 of the unpickled pool *)
Definition retarget (o : op) : op :=
  match o with
  | OTf _ t lo hi => OTf 0 t lo hi | OPhrase _ ts lo hi => OPhrase 0 ts lo hi | OPos _ t => OPos 0 t
  | ODf _ t => ODf 0 t | OLens _ => OLens 0 | OScore _ ts idf k1 b => OScore 0 ts idf k1 b
  | OSelect _ pos => OSelect 0 pos | OCopy _ => OCopy 0 | OWarm _ => OWarm 0
  end.
Definition op_array (o : op) : nat :=
  match o with
  | OTf a _ _ _ | OPhrase a _ _ _ | OPos a _ | ODf a _ | OLens a | OScore a _ _ _ _ | OSelect a _ | OCopy a | OWarm a => a
  end.
