From Coq Require Import ZArith List Lia Bool ZifyBool.
From SA Require Import Solr.MM Solr.MM_Spec.
Import ListNotations.
Ltac Zify.zify_post_hook ::= Z.div_mod_to_equations.
Open Scope Z_scope.

Lemma simple_eq n s : 0 <= n -> m_simple pct_exact n s = s_simple n s.
Proof.
  intros Hn. destruct s as [c|p]; unfold m_simple, s_simple, clamp, pct_exact.
  - destruct (c <? 0) eqn:E; lia.
  - destruct (p <? 0) eqn:Ep; destruct (n*p <? 0) eqn:Enp.
    + assert (Q: Z.quot (n*p) 100 = - ((n * - p) / 100)).
      { replace (n*p) with (- (n * -p)) by lia. rewrite Z.quot_opp_l by lia.
        rewrite Z.quot_div_nonneg by nia. reflexivity. }
      rewrite Q. assert (0 <= (n * - p) / 100) by (apply Z.div_pos; nia). lia.
    + assert (n = 0) by nia. subst n. cbn. lia.
    + nia.
    + rewrite Z.quot_div_nonneg by nia. assert (0 <= (n*p)/100) by (apply Z.div_pos; nia). lia.
Qed.

Lemma s_simple_bounds n s : 0 <= n -> 0 <= s_simple n s <= n.
Proof.
  intros Hn. destruct s as [c|p]; unfold s_simple.
  - destruct (c <? 0) eqn:E; lia.
  - destruct (p <? 0) eqn:E.
    + assert (0 <= (n * - p) / 100) by (apply Z.div_pos; nia). lia.
    + assert (0 <= (n*p)/100) by (apply Z.div_pos; nia). lia.
Qed.

(* loop with early return = "last clause among the prefix whose bounds are below n" *)
Lemma cond_eq n : 0 <= n -> forall cl result,
  m_cond pct_exact n result cl =
  match rev (take_below n cl) with [] => result | (_,s)::_ => s_simple n s end.
Proof.
  intros Hn. induction cl as [|[ub s] rest IH]; intros result; cbn [m_cond take_below]; [reflexivity|].
  destruct (n <=? ub) eqn:E1; destruct (ub <? n) eqn:E2; try lia.
  - reflexivity.
  - rewrite IH. cbn [rev]. rewrite simple_eq by assumption.
    destruct (rev (take_below n rest)) as [|[u2 s2] t]; reflexivity.
Qed.

Theorem mm_model_is_solr n sp : 0 <= n -> mm_model pct_exact n sp = solr_mm n sp.
Proof.
  intros Hn. destruct sp as [s|cl]; cbn [mm_model solr_mm];
    [apply simple_eq; assumption|apply cond_eq; assumption].
Qed.

Theorem solr_mm_bounds n sp : 0 <= n -> 0 <= solr_mm n sp <= n.
Proof.
  intros Hn. destruct sp as [s|cl]; cbn [solr_mm]; [apply s_simple_bounds; assumption|].
  destruct (rev (take_below n cl)) as [|[u s] t]; [lia|apply s_simple_bounds; assumption].
Qed.

(* ---- the float step is exact on a finite grid (bound stated; proved by evaluation) ---- *)
Definition NMAX : Z := 50.
Definition PMAX : Z := 200.
Definition zrange (lo hi : Z) : list Z := map (fun k => lo + Z.of_nat k) (seq 0 (Z.to_nat (hi - lo + 1))).
Definition pct_pair_eqb (a b : bool * Z) := andb (Bool.eqb (fst a) (fst b)) (Z.eqb (snd a) (snd b)).
Definition pct_ok (n p : Z) : bool := pct_pair_eqb (pct_f64 n p) (pct_exact n p).
Definition grid (f : Z -> Z -> bool) (lo1 hi1 lo2 hi2 : Z) : bool :=
  forallb (fun n => forallb (f n) (zrange lo2 hi2)) (zrange lo1 hi1).
Lemma grid_ok_true : grid pct_ok 0 NMAX (- PMAX) PMAX = true.
Proof. vm_cast_no_check (eq_refl true). Qed.

Lemma in_zrange lo hi x : lo <= x <= hi -> In x (zrange lo hi).
Proof.
  intros H. unfold zrange. apply in_map_iff. exists (Z.to_nat (x - lo)). split; [lia|].
  apply in_seq. lia.
Qed.

Lemma grid_forall (f : Z -> Z -> bool) lo1 hi1 lo2 hi2 :
  grid f lo1 hi1 lo2 hi2 = true ->
  forall n p, lo1 <= n <= hi1 -> lo2 <= p <= hi2 -> f n p = true.
Proof.
  unfold grid. intros G n p Hn Hp.
  rewrite forallb_forall in G. specialize (G n (in_zrange _ _ _ Hn)).
  rewrite forallb_forall in G. exact (G p (in_zrange _ _ _ Hp)).
Qed.

Lemma pct_pair_eqb_eq a b : pct_pair_eqb a b = true -> a = b.
Proof.
  destruct a as [a1 a2], b as [b1 b2]. unfold pct_pair_eqb. cbn [fst snd].
  intro H. apply andb_true_iff in H as [G1 G2].
  apply Bool.eqb_prop in G1. apply Z.eqb_eq in G2. congruence.
Qed.

Lemma pct_float_exact n p : 0 <= n <= NMAX -> - PMAX <= p <= PMAX -> pct_f64 n p = pct_exact n p.
Proof.
  intros Hn Hp. apply pct_pair_eqb_eq. change (pct_ok n p = true).
  eapply grid_forall; [exact grid_ok_true | exact Hn | exact Hp].
Qed.

Definition simple_in_range (s : simple) : Prop :=
  match s with SInt _ => True | SPct p => - PMAX <= p <= PMAX end.
Definition spec_in_range (sp : mmspec) : Prop :=
  match sp with Simple s => simple_in_range s | Cond cl => Forall (fun c => simple_in_range (snd c)) cl end.

Lemma m_simple_f64 n s : 0 <= n <= NMAX -> simple_in_range s ->
  m_simple pct_f64 n s = m_simple pct_exact n s.
Proof.
  intros Hn Hs. destruct s as [c|p]; [reflexivity|]. cbn [m_simple].
  rewrite pct_float_exact by (assumption || exact Hs). reflexivity.
Qed.

Lemma m_cond_f64 n : 0 <= n <= NMAX -> forall cl result,
  Forall (fun c => simple_in_range (snd c)) cl ->
  m_cond pct_f64 n result cl = m_cond pct_exact n result cl.
Proof.
  intros Hn. induction cl as [|[ub s] rest IH]; intros result HF; cbn [m_cond]; [reflexivity|].
  inversion HF as [|? ? H1 H2]; subst. cbn [snd] in H1.
  destruct (n <=? ub); [reflexivity|]. rewrite m_simple_f64 by assumption. apply IH. assumption.
Qed.

(* C11 main theorem: the code's algorithm with Python's float step = Solr's definition, in [0,n] *)
Theorem mm_f64_is_solr n sp : 0 <= n <= NMAX -> spec_in_range sp ->
  mm_f64 n sp = solr_mm n sp /\ 0 <= mm_f64 n sp <= n.
Proof.
  intros Hn Hs.
  assert (E : mm_f64 n sp = solr_mm n sp).
  { rewrite <- mm_model_is_solr by lia. unfold mm_f64.
    destruct sp as [s|cl]; cbn [mm_model]; [apply m_simple_f64|apply m_cond_f64]; assumption. }
  split; [exact E|]. rewrite E. apply solr_mm_bounds. lia.
Qed.

(* non-vacuity: a three-clause spec with negative percentages inside the range *)
Example mm_nonvacuous :
  0 <= 7 <= NMAX /\ spec_in_range (Cond [(2, SPct (-25)); (5, SInt (-3)); (9, SPct 66)]) /\
  mm_f64 7 (Cond [(2, SPct (-25)); (5, SInt (-3)); (9, SPct 66)]) = 4.
Proof. split; [unfold NMAX; lia|]. split; [repeat constructor; cbn; unfold PMAX; lia|]. vm_compute. reflexivity. Qed.
