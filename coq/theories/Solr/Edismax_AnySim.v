(* Similarity-generic model of the query-field part of searcharray/solr.py:edismax (no phrase boosts):
   parse_query_terms (86-108), _edismax_term_centric (111-143), _edismax_field_centric (146-175).

   Solr/Edismax.v hard-wires the binary32 BM25 scorer into `boosted_scores`.  Here the per-field per-term
   score vectors   post_arr.score(term, similarity=similarity[field])   are an ABSTRACT INPUT: one exact
   rational per row, whatever similarity produced them (bm25 with any k1 / b, bm25_legacy, classic, a user
   function).  Everything edismax does WITH those vectors is modelled as in Solr/Edismax.v: the running
   max / running sum over fields per term position, max + (sum - max) * tie, the mm filter, the per-field
   mm filter and boost of the field-centric path, the choice between the paths.  All arithmetic is exact
   (the code's float64 / float32 combination is compared with a 1e-6 relative tolerance and an exact zero
   pattern, as for the BM25 model).  No proofs here. *)
From Coq Require Import ZArith QArith List Bool.
From SA Require Import Base.Prelude Index.Index Solr.MM Solr.MM_Spec Solr.Edismax Solr.Edismax_Spec.
Import ListNotations.
Open Scope Q_scope.

(* one query field: 'field^boost' (None when no boost is given) and, for every term the field's tokenizer
   made of the query (in order), the score vector of that term on the field's column.  The number of
   query terms of the field is the length of af_scores: ZERO terms is a legitimate field. *)
Record afield := {
  af_boost : option Q;
  af_scores : list (list Q);
}.
Definition af_nterms (f : afield) : nat := length (af_scores f).

(* `v * (1 if boost is None else boost)`: a product with the float 1 is the identity on every float *)
Definition boostq (b : option Q) : Q := match b with None => 1 | Some k => k end.
Definition vboost (b : option Q) (v : list Q) : list Q :=
  match b with None => v | Some k => vscale v k end.

(* ---- _edismax_term_centric: the boost multiplies each field_term_score BEFORE the running max / sum ---- *)
Fixpoint atc_fields (fields : list afield) (posn : nat) (mx sm : list Q) : api (list Q * list Q) :=
  match fields with
  | [] => AOk (mx, sm)
  | f :: rest =>
      match nth_error (af_scores f) posn with
      | None => AExc IndexError                         (* search_terms[field][term_posn] *)
      | Some s =>
          let sc := vboost (af_boost f) s in
          atc_fields rest posn (vmax mx sc) (vadd sm sc)
      end
  end.
Fixpoint atc_terms (fields : list afield) (n : nat) (tie : Q) (posns : list nat) : api (list (list Q)) :=
  match posns with
  | [] => AOk []
  | p :: rest =>
      ado ms <- atc_fields fields p (qzeros n) (qzeros n);
      let '(mx, sm) := ms in
      let term_score := vadd mx (vscale (vadd sm (vscale mx (-1))) tie) in     (* max + (sum - max) * tie *)
      ado others <- atc_terms fields n tie rest;
      AOk (term_score :: others)
  end.

(* the mm filter shared by both paths: sums[~(count of positive term scores >= msm)] = 0 *)
Definition mm_filter (msm : Z) (ts : list (list Q)) (n : nat) : list Q :=
  map (fun p => if (msm <=? Z.of_nat (snd p))%Z then fst p else 0) (combine (vsum ts n) (count_pos ts n)).

Section Generic.
(* parse_min_should_match(., spec=mm) as a function of the clause count: mm_f64 . mm below *)
Variable mmf : Z -> Z.

Definition aterm_centric_g (fields : list afield) (n : nat) (num_terms : nat) (tie : Q) : api (list Q) :=
  ado ts <- atc_terms fields n tie (seq 0 num_terms);
  AOk (mm_filter (mmf (Z.of_nat num_terms)) ts n).

(* ---- _edismax_field_centric: the boost multiplies the field's sum AFTER the per-field mm filter ---- *)
Definition afc_field (n : nat) (f : afield) : list Q :=
  let ts := af_scores f in
  let nt := length ts in
  let msm := Z.min (mmf (Z.of_nat nt)) (Z.of_nat nt) in      (* min(min_should_match, len(search_terms[field])) *)
  vboost (af_boost f) (mm_filter msm ts n).
Definition afield_centric_g (fields : list afield) (n : nat) (tie : Q) : api (list Q) :=
  let fs := map (afc_field n) fields in
  let summed := vsum fs n in
  let mx := vmax_all fs n in
  AOk (vadd mx (vscale (vadd summed (vscale mx (-1))) tie)).
End Generic.

(* ---- parse_query_terms: the FIRST field fixes the count; a later field with another count makes the
        query field-centric (same shape as num_search_terms / is_term_centric of Solr/Edismax.v) ---- *)
Definition a_num_search_terms (fields : list afield) : nat :=
  match fields with [] => O | f0 :: _ => af_nterms f0 end.
Definition a_is_term_centric (fields : list afield) : bool :=
  match fields with
  | [] => true
  | f0 :: rest => forallb (fun f => Nat.eqb (af_nterms f) (af_nterms f0)) rest
  end.

Definition edismax_anysim_g (mmf : Z -> Z) (n : nat) (fields : list afield) (tie : Q) : api (list Q) :=
  if a_is_term_centric fields
  then aterm_centric_g mmf fields n (a_num_search_terms fields) tie
  else afield_centric_g mmf fields n tie.

(* the model: mm is the code's float computation (Solr/MM.v) *)
Definition edismax_anysim (n : nat) (fields : list afield) (mm : mmspec) (tie : Q) : api (list Q) :=
  edismax_anysim_g (fun k => mm_f64 k mm) n fields tie.

(* ============================== declarative spec (DisMax per document) ============================== *)
(* boosted score of field f for its p-th query term at document d *)
Definition ascore (f : afield) (p d : nat) : Q := at_doc (nth p (af_scores f) []) d * boostq (af_boost f).

Section Spec.
Variable mms : Z -> Z.        (* Solr's min-should-match of a clause count: solr_mm . mm below *)

(* term-centric: sum over the query terms of dismax over the fields, kept iff at least mm terms are positive *)
Definition atc_spec (fields : list afield) (num_terms : nat) (tie : Q) (d : nat) : Q :=
  let per_term := map (fun p => dismax tie (map (fun f => ascore f p d) fields)) (seq 0 num_terms) in
  if (mms (Z.of_nat num_terms) <=? Z.of_nat (length (filter qpos per_term)))%Z then qsum_list per_term else 0.

(* field-centric: per field the sum of its term scores if the field meets mm (clipped to the field's own
   term count), times the boost; then dismax over the fields *)
Definition afc_spec (fields : list afield) (tie : Q) (d : nat) : Q :=
  let per_field := map (fun f =>
                          let vals := map (fun v => at_doc v d) (af_scores f) in
                          let nt := af_nterms f in
                          let need := Z.min (mms (Z.of_nat nt)) (Z.of_nat nt) in
                          (if (need <=? Z.of_nat (length (filter qpos vals)))%Z then qsum_list vals else 0)
                          * boostq (af_boost f))
                       fields in
  dismax tie per_field.

Definition anysim_spec_g (n : nat) (fields : list afield) (tie : Q) : list Q :=
  if a_is_term_centric fields
  then map (atc_spec fields (a_num_search_terms fields) tie) (seq 0 n)
  else map (afc_spec fields tie) (seq 0 n).
End Spec.

Definition anysim_spec (n : nat) (fields : list afield) (mm : mmspec) (tie : Q) : list Q :=
  anysim_spec_g (fun k => solr_mm k mm) n fields tie.
