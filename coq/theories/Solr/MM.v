(* Model of solr.py:parse_min_should_match (lines 10-60) at the AST level.
   The percentage step is Python's float computation  int((n*p) * (1/100))  in Flocq binary64.
   No proofs here. *)
From Coq Require Import ZArith List Bool.
From Flocq Require Import IEEE754.BinarySingleNaN IEEE754.Binary IEEE754.Bits.
Import ListNotations.
Open Scope Z_scope.

Inductive simple := SInt (c : Z) | SPct (p : Z).
Inductive mmspec := Simple (s : simple) | Cond (cl : list (Z * simple)).

(* ---- the float step: calc = (n*p) * (1/100); calc < 0; int(calc) ---- *)
Definition b64_of_Z (z : Z) : binary64 :=
  binary_normalize 53 1024 (eq_refl _) (eq_refl _) mode_NE z 0 false.
Definition one_over_100 : binary64 := b64_div mode_NE (b64_of_Z 1) (b64_of_Z 100).
Definition trunc64 (f : binary64) : Z :=
  match f with
  | B754_finite _ _ s m e _ =>
      let v := if 0 <=? e then Z.pos m * 2 ^ e else Z.quot (Z.pos m) (2 ^ (- e)) in
      if s then - v else v
  | _ => 0
  end.
Definition fneg64 (f : binary64) : bool :=   (* Python's  calc < 0  *)
  match f with
  | B754_finite _ _ s _ _ _ => s
  | B754_infinity _ _ s => s
  | _ => false
  end.
Definition pct_f64 (n p : Z) : bool * Z :=
  let calc := b64_mult mode_NE (b64_of_Z (n * p)) one_over_100 in
  (fneg64 calc, trunc64 calc).

(* exact-arithmetic stand-in used by the AST-level proof *)
Definition pct_exact (n p : Z) : bool * Z := (n * p <? 0, Z.quot (n * p) 100).

Section M.
Variable pct : Z -> Z -> bool * Z.
Definition clamp (n r : Z) := Z.min n (Z.max r 0).
Definition m_simple (n : Z) (s : simple) : Z :=
  match s with
  | SInt c => clamp n (if c <? 0 then n + c else c)
  | SPct p => let '(neg, calc) := pct n p in clamp n (if neg then n + calc else calc)
  end.
(* the `for s in spec.split()` loop with its early return *)
Fixpoint m_cond (n result : Z) (cl : list (Z * simple)) : Z :=
  match cl with
  | [] => result
  | (ub, s) :: rest => if n <=? ub then result else m_cond n (m_simple n s) rest
  end.
Definition mm_model (n : Z) (sp : mmspec) : Z :=
  match sp with Simple s => m_simple n s | Cond cl => m_cond n n cl end.
End M.

Definition mm_f64 := mm_model pct_f64.
