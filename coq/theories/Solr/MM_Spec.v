(* Spec: Solr's calculateMinShouldMatch in exact integer arithmetic, written declaratively. *)
From Coq Require Import ZArith List Bool.
From SA Require Import Solr.MM.
Import ListNotations.
Open Scope Z_scope.

Definition s_simple (n : Z) (s : simple) : Z :=
  match s with
  | SInt c => if c <? 0 then Z.max 0 (n + c) else Z.min n c
  | SPct p => if p <? 0 then Z.max 0 (n - (n * (- p)) / 100)   (* rounded down, then subtracted *)
              else Z.min n ((n * p) / 100)                       (* rounded down *)
  end.
(* the prefix of clauses whose bound is strictly below n *)
Fixpoint take_below (n : Z) (cl : list (Z * simple)) : list (Z * simple) :=
  match cl with
  | [] => []
  | (ub, s) :: rest => if ub <? n then (ub, s) :: take_below n rest else []
  end.
Definition solr_mm (n : Z) (sp : mmspec) : Z :=
  match sp with
  | Simple s => s_simple n s
  | Cond cl => match rev (take_below n cl) with [] => n | (_, s) :: _ => s_simple n s end
  end.
