(* Declarative spec of the edismax combination (C09) and of the phrase boosts (C10).
   Scores of single terms / phrases are those of the WHOLE FRAME (parent arrays, no views). *)
From Coq Require Import ZArith QArith List Bool.
From SA Require Import Base.Prelude Index.Index View.View Solr.MM Solr.MM_Spec Solr.Edismax.
Import ListNotations.
Open Scope Q_scope.

Definition qmax_list (l : list Q) : Q := fold_left (fun a x => if Qle_bool a x then x else a) l 0.
Definition qsum_list (l : list Q) : Q := fold_left Qplus l 0.
(* largest value plus tie times the others *)
Definition dismax (tie : Q) (vals : list Q) : Q := qmax_list vals + tie * (qsum_list vals - qmax_list vals).

(* S f p : boosted score vector of field f for its p-th query term *)
Fixpoint all_scores (idf : idf_table) (fi : nat) (fields : list efield) (boosted : bool) : api (list (list (list Q))) :=
  match fields with
  | [] => AOk []
  | f :: rest =>
      ado per_term <- (fix go (ts : list N) : api (list (list Q)) :=
                         match ts with
                         | [] => AOk []
                         | t :: r => ado sc <- boosted_scores idf fi (ef_arr f) (if boosted then ef_boost f else None) [t];
                                     ado more <- go r; AOk (sc :: more)
                         end) (ef_terms f);
      ado others <- all_scores idf (S fi) rest boosted;
      AOk (per_term :: others)
  end.

Definition at_doc (v : list Q) (d : nat) : Q := nth d v 0.

(* term-centric: sum over query terms of dismax over fields, kept iff at least mm terms are positive *)
Definition term_centric_spec (S : list (list (list Q))) (num_terms : nat) (mm : mmspec) (tie : Q) (d : nat) : Q :=
  let per_term := map (fun p => dismax tie (map (fun Sf => at_doc (nth p Sf []) d) S)) (seq 0 num_terms) in
  if (solr_mm (Z.of_nat num_terms) mm <=? Z.of_nat (length (filter qpos per_term)))%Z then qsum_list per_term else 0.

(* field-centric: per field the sum of its term scores if that field meets mm, times the boost; then dismax over fields *)
Definition field_centric_spec (S : list (list (list Q))) (fields : list efield) (mm : mmspec) (tie : Q) (d : nat) : Q :=
  let per_field := map (fun fS => let '(f, Sf) := fS in
                          let vals := map (fun v => at_doc v d) Sf in
                          let nt := length (ef_terms f) in
                          let need := Z.min (solr_mm (Z.of_nat nt) mm) (Z.of_nat nt) in
                          let b := match ef_boost f with None => 1 | Some bb => Q_of_f32 (BM25.f32_of_f64 (Flocq.IEEE754.Bits.b64_of_bits bb)) end in
                          (if (need <=? Z.of_nat (length (filter qpos vals)))%Z then qsum_list vals else 0) * b)
                       (combine fields S) in
  dismax tie per_field.

Definition qf_spec (idf : idf_table) (n : nat) (q : equery) : api (list Q) :=
  let fields := eq_fields q in
  if is_term_centric fields then
    ado S <- all_scores idf 0 fields true;
    AOk (map (term_centric_spec S (num_search_terms fields) (eq_mm q) (eq_tie q)) (seq 0 n))
  else
    ado S <- all_scores idf 0 fields false;
    AOk (map (field_centric_spec S fields (eq_mm q) (eq_tie q)) (seq 0 n)).

(* phrase boosts: every shingle once, scored on the whole frame *)
Definition phase_frame (idf : idf_table) (fields : list efield) (kind : nat) (specs : list phase_spec) (n : nat) : api (list Q) :=
  fold_left (fun acc sp =>
               ado a <- acc;
               match nth_error fields (ph_field sp) with
               | Some f =>
                   let ts := ef_terms f in
                   let shs := match kind with
                              | 1%nat => if Nat.ltb (length ts) 2 then [] else [ts]
                              | 2%nat => shingles2 ts
                              | _ => shingles3 ts end in
                   fold_left (fun acc2 sh => ado a2 <- acc2;
                                             ado sc <- boosted_scores idf (ph_field sp) (ef_arr f) (ph_boost sp) sh;
                                             AOk (vadd a2 sc)) shs (AOk a)
               | None => AExc KeyError
               end) specs (AOk (qzeros n)).

Definition edismax_spec (idf : idf_table) (n : nat) (q : equery) : api (list Q) :=
  ado qf <- qf_spec idf n q;
  ado p1 <- phase_frame idf (eq_fields q) 1 (eq_pf q) n;
  ado p2 <- phase_frame idf (eq_fields q) 2 (eq_pf2 q) n;
  ado p3 <- phase_frame idf (eq_fields q) 3 (eq_pf3 q) n;
  AOk (map (fun d => let s := nth d qf 0 in
                     if qpos s then s + nth d p1 0 + nth d p2 0 + nth d p3 0 else 0) (seq 0 n)).
